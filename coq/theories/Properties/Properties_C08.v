(* C08 - Builder/Compiler serialization is identical to direct assembling: theorems about the Builder model (Verif.Builder.BuilderModel),
   which the check ties to core/builder.cpp on every run (per-command node-list differential).  Statements only; proofs by reference. *)
From Coq Require Import ZArith List Bool Permutation.
From Verif Require Import Builder.BuilderModel Builder.BuilderProofs Builder.BuilderGrouping Builder.BuilderLinks Builder.BuilderSections.
Import ListNotations.
Local Open Scope Z_scope.

(* Nothing is lost in node storage: the node recorded for an emit call stands for exactly the effective call of a direct assembler -
   instruction id, every option bit but kReserved, extra register, operands up to op_count (4..6 through the extended array), comment. *)
Theorem C08_node_faithful : forall b id o0 o1 o2 o3 o4 o5,
  node_ecalls (inst_node b id o0 o1 o2 o3 o4 o5)
  = [EInst id (clear_reserved (p_opts b)) (p_exsig b) (p_exid b) (canon_ops o0 o1 o2 o3 o4 o5) (dup_comment (p_comment b))].
Proof. exact inst_node_faithful. Qed.
Print Assumptions C08_node_faithful.

(* every operand handed to _emit is kept, also one that follows an empty slot (EmitterUtils::op_count_from_emit_args counts up to the last
   used slot: fixes/C08-op-count-keeps-operands-after-hole.patch); empty slots stay empty; six slots always.  With the counting rule of
   the unrepaired tree the statement is false: C08_legacy_count_drops_operand *)
Theorem C08_all_operands_kept : forall o0 o1 o2 o3 o4 o5,
  length (canon_ops o0 o1 o2 o3 o4 o5) = 6%nat /\
  forall i, (if is_none (nth i [o0; o1; o2; o3; o4; o5] op_none)
             then is_none (nth i (canon_ops o0 o1 o2 o3 o4 o5) op_none) = true
             else nth i (canon_ops o0 o1 o2 o3 o4 o5) op_none = nth i [o0; o1; o2; o3; o4; o5] op_none).
Proof.
  intros. split; [apply canon_ops_shape|]. intro i.
  destruct (is_none (nth i [o0; o1; o2; o3; o4; o5] op_none)) eqn:E; [now apply canon_ops_shape | now apply all_operands_kept].
Qed.

Print Assumptions C08_all_operands_kept.

Theorem C08_legacy_count_drops_operand : exists o0 o1 o2 o4,
  is_none o4 = false /\ op_count_legacy o0 o1 o2 op_none o4 op_none = 3%nat /\ op_count o0 o1 o2 op_none o4 op_none = 5%nat.
Proof. exact legacy_count_drops_operand. Qed.
Print Assumptions C08_legacy_count_drops_operand.

(* serialize_to performs exactly the nodes' calls, in list order, whatever one-shot state was pending *)
Theorem C08_serialize_is_node_calls : forall b, trace (replay b) = flat_map node_ecalls (active b).
Proof. exact trace_replay. Qed.
Print Assumptions C08_serialize_is_node_calls.

(* MAIN: record then serialize = direct assembling, section by section (all accepted emitter-call sequences, any number of sections,
   one-shot option/extra-register/comment capture included); sections are serialized in order of first use, each once *)
Theorem C08_replay_is_grouping : forall rs cs,
  Forall (fun c => is_emitter_call c = true) cs -> all_ok (init_state rs) cs = true ->
  let b := run (init_state rs) cs in
  (forall s, project s (trace (replay b)) = project s (trace cs)) /\
  (forall x, In x (sec_seq (active b)) <-> x = 0 \/ In (ESection x) (trace cs)) /\
  NoDup (sec_seq (active b)).
Proof. exact replay_is_grouping. Qed.
Print Assumptions C08_replay_is_grouping.

(* its hypotheses are satisfiable (two sections, options, extra register, comment, 5 operands, const pool, label address and delta),
   and grouping is not the identity on that program *)
Theorem C08_replay_is_grouping_example :
  (Forall (fun c => is_emitter_call c = true) example_program /\ all_ok (init_state 8) example_program = true) /\
  flat_map node_ecalls (active (run (init_state 8) example_program)) <> trace example_program.
Proof. exact (conj example_hypotheses (proj1 example_grouped)). Qed.
Print Assumptions C08_replay_is_grouping_example.

(* a call rejected at record time changes nothing (const pools aside, whose align precedes the failing bind as in the Assembler) *)
Theorem C08_rejected_call_is_noop : forall b c,
  snd (step b c) <> kOk -> (forall l a d, c <> CConstPool l a d) -> (forall e, c <> CEmitRejected e) -> c <> CEndFunc -> fst (step b c) = b.
Proof. exact rejected_call_is_noop. Qed.
Print Assumptions C08_rejected_call_is_noop.

(* strict validation (kValidateIntermediate): a refused instruction creates no node and clears the one-shot state, in the Builder exactly
   as in the Assembler (the validator's verdict is an input of the model) *)
Theorem C08_rejected_emit_resets : forall b e p,
  let b' := fst (step b (CEmitRejected e)) in
  snd (step b (CEmitRejected e)) = e /\ active b' = active b /\ cursor b' = cursor b /\ pool b' = pool b /\
  p_opts b' = 0 /\ p_exsig b' = 0 /\ p_exid b' = 0 /\ p_comment b' = None /\ front p (CEmitRejected e) = (pend0, []).
Proof. exact rejected_emit_resets. Qed.
Print Assumptions C08_rejected_emit_resets.

(* Editing the node list yields the code of the edited sequence: what is serialized after an edit is the calls of the edited node list
   (a node stands for a LIST of effective calls: one for most kinds, three for a ConstPoolNode, none for a SentinelNode) *)
Theorem C08_edit_remove : forall b i, in_range i (active b) = true ->
  let b' := fst (step b (CRemove i)) in
  trace (replay b') = flat_map node_ecalls (remove_at i (active b)) /\ pool b' = pool b ++ slice i i (active b).
Proof. exact edit_remove. Qed.
Print Assumptions C08_edit_remove.

Theorem C08_edit_remove_range : forall b i j, in_range i (active b) = true -> in_range j (active b) = true -> (i <= j)%nat ->
  let b' := fst (step b (CRemoveRange i j)) in
  trace (replay b') = flat_map node_ecalls (remove_slice i j (active b)) /\ pool b' = pool b ++ slice i j (active b).
Proof. exact edit_remove_range. Qed.
Print Assumptions C08_edit_remove_range.

Theorem C08_edit_add_after : forall b k i n, nth_error (pool b) k = Some n -> in_range i (active b) = true ->
  let b' := fst (step b (CAddAfter k i)) in
  trace (replay b') = flat_map node_ecalls (insert_at (S i) n (active b)) /\ pool b' = remove_at k (pool b).
Proof. exact edit_add_after. Qed.
Print Assumptions C08_edit_add_after.

Theorem C08_edit_add_before : forall b k i n, nth_error (pool b) k = Some n -> in_range i (active b) = true ->
  let b' := fst (step b (CAddBefore k i)) in
  trace (replay b') = flat_map node_ecalls (insert_at i n (active b)) /\ pool b' = remove_at k (pool b).
Proof. exact edit_add_before. Qed.
Print Assumptions C08_edit_add_before.

Theorem C08_edit_add_node : forall b k n, nth_error (pool b) k = Some n ->
  let b' := fst (step b (CAddNode k)) in
  trace (replay b') = flat_map node_ecalls (insert_at (cursor_pos (cursor b)) n (active b)) /\ cursor b' = Some (cursor_pos (cursor b)).
Proof. exact edit_add_node. Qed.
Print Assumptions C08_edit_add_node.

Theorem C08_edit_set_cursor : forall b c, trace (replay (fst (step b (CSetCursor c)))) = trace (replay b).
Proof. exact edit_set_cursor. Qed.
Print Assumptions C08_edit_set_cursor.

(* Cursor discipline: after any history of calls and edits the cursor is null or a node of the list *)
Theorem C08_cursor_in_list : forall rs cs,
  match cursor (run (init_state rs) cs) with None => True | Some c => (c < length (active (run (init_state rs) cs)))%nat end.
Proof. exact (fun rs cs => cursor_ok_run cs (init_state rs) (cursor_ok_init rs)). Qed.
Print Assumptions C08_cursor_in_list.

(* add_after / add_before leave the cursor on its node; remove_node(s) leave it there unless it is removed, then it moves to the predecessor *)
Theorem C08_add_after_keeps_cursor_node : forall n i b c, cursor b = Some c -> (c < length (active b))%nat -> (i < length (active b))%nat ->
  exists c', cursor (add_after n i b) = Some c' /\ nth_error (active (add_after n i b)) c' = nth_error (active b) c.
Proof. exact add_after_keeps_cursor_node. Qed.
Print Assumptions C08_add_after_keeps_cursor_node.

Theorem C08_add_before_keeps_cursor_node : forall n i b c, cursor b = Some c -> (c < length (active b))%nat -> (i < length (active b))%nat ->
  exists c', cursor (add_before n i b) = Some c' /\ nth_error (active (add_before n i b)) c' = nth_error (active b) c.
Proof. exact add_before_keeps_cursor_node. Qed.
Print Assumptions C08_add_before_keeps_cursor_node.

Theorem C08_remove_cursor : forall i j b c, cursor b = Some c -> (i <= j)%nat -> (j < length (active b))%nat -> (c < length (active b))%nat ->
  ((c < i \/ j < c)%nat -> exists c', cursor (remove_range i j b) = Some c' /\ nth_error (active (remove_range i j b)) c' = nth_error (active b) c)
  /\ ((i <= c <= j)%nat -> cursor (remove_range i j b) = pred_opt i).
Proof. exact remove_range_cursor. Qed.
Print Assumptions C08_remove_cursor.

(* Section links: after ANY history of emitter calls and node-list edits, whenever the cache is not marked dirty the cached _next_section
   of every active section node equals what a fresh traversal of the list computes (so section() may trust it) *)
Theorem C08_section_links_fresh : forall rs cs,
  let b := run (init_state rs) cs in
  dirty b = false -> forall s, In s (sec_seq (active b)) -> next_of s (links b) = next_of s (fresh_links (sec_seq (active b))).
Proof. exact (fun rs cs => links_ok_run cs (init_state rs) (links_ok_init rs)). Qed.
Print Assumptions C08_section_links_fresh.

(* ... and a fresh traversal links every section id to its successor in list order, the last one to nothing *)
Theorem C08_fresh_links_successor : forall a s t r, ~ In s a ->
  next_of s (fresh_links (a ++ s :: t :: r)) = Some t /\ next_of s (fresh_links (a ++ [s])) = None.
Proof. exact (fun a s t r H => conj (next_of_fresh a s t r H) (next_of_fresh_last a s H)). Qed.
Print Assumptions C08_fresh_links_successor.

(* the same with calls rejected at record time in the sequence: a rejected call is reported at once and leaves the builder untouched,
   so what is serialized is the grouping of the ACCEPTED calls (const pools failing half way are excluded by the hypothesis) *)
Theorem C08_replay_is_grouping_with_rejections : forall rs cs,
  Forall (fun c => is_emitter_call c = true) cs -> no_partial_pool (init_state rs) cs ->
  forall s, project s (trace (replay (run (init_state rs) cs))) = project s (trace (accepted (init_state rs) cs)).
Proof. exact replay_is_grouping_accepted. Qed.
Print Assumptions C08_replay_is_grouping_with_rejections.

(* PARTIAL (the gap is the hypothesis): identical images follow for every assembler semantics that depends only on the per-section call
   sequences - i.e. given that label resolution/relocation are insensitive to how calls of different sections interleave (C03/C04's
   order-irrelevance "by effect"; stop-at-first-error semantics does not satisfy it).  Not proved for AsmJit's assembler; established per
   run by the implementation-vs-implementation oracle of the check. *)
Theorem C08_same_image_partial : forall (image : Type) (asm : list ecall -> image),
  (forall es es', (forall s, project s es = project s es') -> asm es = asm es') ->
  forall rs cs, Forall (fun c => is_emitter_call c = true) cs -> all_ok (init_state rs) cs = true ->
  asm (trace (replay (run (init_state rs) cs))) = asm (trace cs).
Proof. exact same_image_if_order_irrelevant. Qed.
Print Assumptions C08_same_image_partial.

(* Section nodes stay unique: after ANY history no section id has two nodes in list + pool (so re-inserting pooled nodes cannot
   duplicate a section) *)
Theorem C08_section_nodes_unique : forall rs cs, NoDup (sec_seq (active (run (init_state rs) cs))).
Proof. exact active_sections_unique. Qed.
Print Assumptions C08_section_nodes_unique.

(* section() on an edited list: after ANY history of emitter calls and node-list edits, switching to a section whose node is active puts
   the cursor on the last node before the next section node (or on the last node of the list) and changes nothing else in the list *)
Theorem C08_section_switch_after_any_history : forall rs cs s,
  let b := run (init_state rs) cs in
  snd (do_section s b) = kOk -> In s (sec_seq (active b)) ->
  cursor (fst (do_section s b)) = range_end (active b) s /\ active (fst (do_section s b)) = active b.
Proof. exact section_switch_after_any_history. Qed.
Print Assumptions C08_section_switch_after_any_history.

From Verif Require Builder.BuilderFrame.

(* FRAME CONDITIONS of the Builder machine, for every state and every command (successful or refused): the register size never changes;
   label/section counters change only by new_label / new_section / a const-pool node / add_func / _new_const; the one-shot emitter state only
   by its setters and the calls that consume it; the Compiler's function and pool state only by add_func / end_func / _new_const; node list,
   cursor, detached nodes and section-link cache are untouched by setters, id allocation, refused emits, _new_const and jump annotations *)
Theorem C08_step_frame : forall b c,
  let b' := fst (BuilderModel.step b c) in
  regsize b' = regsize b /\
  (BuilderFrame.touches_counters c = false -> nlabels b' = nlabels b /\ nsections b' = nsections b) /\
  (BuilderFrame.touches_oneshot c = false -> p_opts b' = p_opts b /\ p_exsig b' = p_exsig b /\ p_exid b' = p_exid b /\ p_comment b' = p_comment b) /\
  (BuilderFrame.touches_func c = false -> cur_func b' = cur_func b /\ lpool b' = lpool b /\ gpool b' = gpool b) /\
  (BuilderFrame.touches_nodes c = false -> active b' = active b /\ cursor b' = cursor b /\ pool b' = pool b /\ links b' = links b /\ dirty b' = dirty b).
Proof. exact BuilderFrame.step_frame. Qed.
Print Assumptions C08_step_frame.

Theorem C08_step_frame_tight :
  let b := fst (BuilderModel.step (fst (BuilderModel.step (init_state 8) (CSetOptions 5))) CNewLabel) in
  nlabels (fst (BuilderModel.step b CNewLabel)) <> nlabels b /\
  p_opts (fst (BuilderModel.step b (CEmit 9 op_none op_none op_none op_none op_none op_none))) <> p_opts b /\
  cur_func (fst (BuilderModel.step b CFunc)) <> cur_func b /\
  active (fst (BuilderModel.step b (CAlign 0 16))) <> active b /\
  active (fst (BuilderModel.step b (CBind 7))) = active b /\ snd (BuilderModel.step b (CBind 7)) = kInvalidLabel.
Proof. exact BuilderFrame.frame_tight. Qed.
Print Assumptions C08_step_frame_tight.

From Verif Require Import Codec.OffsetModel Labels.LabelsModel Reloc.RelocModel Builder.AsmOrder Builder.BuilderImage Builder.DeltaEffect.
From Verif Require Builder.AsmOrderAny Builder.AsmOrderEffect Builder.AsmOrderBytes.

(* ORDER IRRELEVANCE of assembling, proved on C03's label/fixup machine (Verif.Labels.LabelsModel: new_fixup, bind_label with its fixup
   walk, resolve_cross_section_fixups, every displacement format of the two backends): two programs whose per-section operation sequences
   coincide - however the sections interleave - produce the same label table, the same unresolved-fixup count, the same section sizes and, after
   layout at ANY section offsets and cross-section resolution, the same bytes in every section (a one-to-one correspondence between
   references and reference items is part of the invariant).  Labels and sections are created first, every label is bound
   at most once, no address wraps around 2^64.  A bind that CodeHolder::bind_label refuses (a same-section reference cannot encode its
   displacement: kInvalidDisplacement, nothing changes) is a no-op in both orders: the machine's precheck over the pending fixups is proved
   equal to a check over the section's own reference items (precheck_local).  Fragment: raw bytes, gaps, label references, binds and absolute
   references (embed_label: the RelToAbs relocation entries are the same up to creation order, with the same final payload and target
   section) and LABEL DELTAS (embed_label_delta, SDelta -> ODeltaChecked: written at once with its range check when both labels are
   already bound in the delta's own section, otherwise zero bytes + an expression relocation entry - the entries again the same up to
   creation order).  Side condition delta_local_final, stated on the final label table and itself independent of the order: no delta takes
   BOTH labels from one section other than its own (there the two orders differ in when the same bytes get written: C08_delta_by_effect). *)
Theorem C08_order_irrelevant : forall nl ns t1 t2 offs,
  (forall k, proj k t1 = proj k t2) -> tags_ok ns t1 -> tags_ok ns t2 -> NoDup (bound_labels t1) -> delta_local_final nl ns t1 -> nowrap nl ns t1 offs ->
  let s1 := LabelsModel.run init ((prelude nl ns ++ expand t1) ++ [OResolve offs]) in
  let s2 := LabelsModel.run init ((prelude nl ns ++ expand t2) ++ [OResolve offs]) in
  labels s1 = labels s2 /\ unresolved s1 = unresolved s2 /\ Permutation (relocs s1) (relocs s2) /\
  forall k, (k < S ns)%nat ->
    s_len (nsec s1 k) = s_len (nsec s2 k) /\
    sec_image (refs s1) (s_items (nsec s1 k)) = sec_image (refs s2) (s_items (nsec s2 k)).
Proof. exact order_irrelevant'. Qed.
Print Assumptions C08_order_irrelevant.

(* the side condition is order independent, and implies its call-time form for every interleaving *)
Theorem C08_delta_side_condition : forall nl ns t1 t2, (forall k, proj k t1 = proj k t2) -> tags_ok ns t1 -> tags_ok ns t2 ->
  delta_local_final nl ns t1 -> delta_local_final nl ns t2 /\ delta_local nl ns t1 /\ delta_local nl ns t2.
Proof.
  intros nl ns t1 t2 HP T1 T2 D1. assert (D2 := delta_local_final_transfers nl ns t1 t2 HP T1 T2 D1).
  split; [exact D2|]. split; apply delta_local_of_final; assumption.
Qed.
Print Assumptions C08_delta_side_condition.

(* LABEL DELTAS BY EFFECT (the shape the side condition excludes): when both labels of a delta end up bound in one section and the
   difference fits the field - the immediate path's own range check - relocating the expression entry (C04's relocate_entry on C03's
   entry, any base, any section offsets) succeeds, touches nothing else and writes exactly the bytes the immediate path writes. *)
Theorem C08_delta_by_effect : forall base asize atoff slots (s : state) offs re l b size ls lo bo,
  rl_type re = Expr l b -> rl_size re = size -> (size = 1 \/ size = 2 \/ size = 4 \/ size = 8) ->
  nth_error (labels s) l = Some (Some (ls, lo)) -> nth_error (labels s) b = Some (Some (ls, bo)) ->
  - 2 ^ (8 * size - 1) <= lo - bo < 2 ^ (8 * size - 1) ->
  exists o, relocate_entry base asize atoff slots (entry_of_reloc s offs re) = inl (o, slots) /\
            o_rewrite o = None /\ o_slot o = None /\
            le_split (Z.to_nat size) (o_word o) = le_split (Z.to_nat size) (wrap (8 * size) (lo - bo)).
Proof. exact delta_entry_effect. Qed.
Print Assumptions C08_delta_by_effect.

(* EVERY RUN of the label machine is characterized - no side condition on deltas.  [res_from] rewrites a program along its own run (a delta
   that took the immediate path becomes the bytes it wrote, a refused one a refused operation); the rewritten program goes through the
   same states, keeps tags and binds, and satisfies the call-time side condition whatever the program was *)
Theorem C08_resolved_run : forall nl ns t, tags_ok ns t -> NoDup (bound_labels t) ->
  let r := AsmOrderAny.res_from (LabelsModel.run init (prelude nl ns)) t in
  LabelsModel.run init (prelude nl ns ++ expand r) = LabelsModel.run init (prelude nl ns ++ expand t) /\
  tags_ok ns r /\ bound_labels r = bound_labels t /\ delta_local nl ns r.
Proof.
  intros nl ns t HT HN r. split; [apply AsmOrderAny.run_prelude_res|]. split; [apply AsmOrderAny.tags_res; exact HT|].
  split; [apply AsmOrderAny.bound_labels_res|apply AsmOrderAny.res_local; assumption].
Qed.
Print Assumptions C08_resolved_run.

(* ... hence the assembled result of ANY program is the function [final] (label table, section sizes, resolved bytes, unresolved count,
   relocation entries up to creation order) of the per-section folds of its resolved form *)
Theorem C08_every_run_characterized : forall nl ns t offs, tags_ok ns t -> NoDup (bound_labels t) ->
  let r := AsmOrderAny.res_from (LabelsModel.run init (prelude nl ns)) t in
  nowrap nl ns r offs ->
  final nl ns r offs (LabelsModel.run init ((prelude nl ns ++ expand t) ++ [OResolve offs])).
Proof. exact AsmOrderAny.final_char_any. Qed.
Print Assumptions C08_every_run_characterized.

(* the side condition of C08_order_irrelevant is NECESSARY: a one-byte delta in section 0 between two labels of section 1, embedded after
   resp. before that section's binds - same per-section sequences, but the byte is written at once (3) in one order and left zero with an
   expression entry in the other (which relocates to the same byte: C08_delta_by_effect) *)
Theorem C08_delta_side_condition_necessary :
  (forall k, proj k AsmOrderAny.ex_after = proj k AsmOrderAny.ex_before) /\
  ~ delta_local_final 2 1 AsmOrderAny.ex_after /\
  let s1 := LabelsModel.run init ((prelude 2 1 ++ expand AsmOrderAny.ex_after) ++ [OResolve [0; 4096]]) in
  let s2 := LabelsModel.run init ((prelude 2 1 ++ expand AsmOrderAny.ex_before) ++ [OResolve [0; 4096]]) in
  labels s1 = labels s2 /\
  sec_image (refs s1) (s_items (nsec s1 0)) = [3] /\ relocs s1 = [] /\
  sec_image (refs s2) (s_items (nsec s2 0)) = [0] /\ map rl_type (relocs s2) = [Expr 1 0] /\
  AsmOrderAny.res_from (LabelsModel.run init (prelude 2 1)) AsmOrderAny.ex_after = [(1%nat, SBind 0); (1%nat, SRaw [1; 2; 3]); (1%nat, SBind 1); (0%nat, SRaw [3])] /\
  AsmOrderAny.res_from (LabelsModel.run init (prelude 2 1)) AsmOrderAny.ex_before = AsmOrderAny.ex_before.
Proof. exact AsmOrderAny.delta_order_matters. Qed.
Print Assumptions C08_delta_side_condition_necessary.

(* ORDER IRRELEVANCE WITHOUT THE SIDE CONDITION (any label deltas): equal per-section operation sequences and no delta refused for its
   range in either run (necessary: a refused delta contributes no bytes) give the same label table and section sizes, and the resolved
   bytes of every section are renderings - under the same label table - of two item lists that agree item by item except that two raw
   items of EQUAL LENGTH may differ: the delta sites, written at once in one order, zero placeholder + expression entry in the other
   (C08_delta_by_effect: relocation then writes those same bytes). *)
Theorem C08_order_irrelevant_any : forall nl ns t1 t2 offs,
  (forall k, proj k t1 = proj k t2) -> tags_ok ns t1 -> tags_ok ns t2 -> NoDup (bound_labels t1) ->
  let s0 := LabelsModel.run init (prelude nl ns) in
  AsmOrderAny.no_misfit s0 t1 -> AsmOrderAny.no_misfit s0 t2 ->
  nowrap nl ns (AsmOrderAny.res_from s0 t1) offs -> nowrap nl ns (AsmOrderAny.res_from s0 t2) offs ->
  let s1 := LabelsModel.run init ((prelude nl ns ++ expand t1) ++ [OResolve offs]) in
  let s2 := LabelsModel.run init ((prelude nl ns ++ expand t2) ++ [OResolve offs]) in
  labels s1 = labels s2 /\
  forall k, (k < S ns)%nat ->
    s_len (nsec s1 k) = s_len (nsec s2 k) /\
    exists i1 i2, sec_image (refs s1) (s_items (nsec s1 k)) = gimage (labels s1) offs i1 /\
                  sec_image (refs s2) (s_items (nsec s2 k)) = gimage (labels s1) offs i2 /\
                  Forall2 AsmOrderAny.irel2 i1 i2.
Proof. exact AsmOrderAny.order_irrelevant_any. Qed.
Print Assumptions C08_order_irrelevant_any.

(* ... and so is CodeHolder::unresolved_fixup_count(): reference items and the entries of absolute references do not depend on the path a
   delta takes (expression entries never wait for a label) *)
Theorem C08_order_irrelevant_any_unresolved : forall nl ns t1 t2 offs,
  (forall k, proj k t1 = proj k t2) -> tags_ok ns t1 -> tags_ok ns t2 -> NoDup (bound_labels t1) ->
  let s0 := LabelsModel.run init (prelude nl ns) in
  AsmOrderAny.no_misfit s0 t1 -> AsmOrderAny.no_misfit s0 t2 ->
  nowrap nl ns (AsmOrderAny.res_from s0 t1) offs -> nowrap nl ns (AsmOrderAny.res_from s0 t2) offs ->
  unresolved (LabelsModel.run init ((prelude nl ns ++ expand t1) ++ [OResolve offs])) = unresolved (LabelsModel.run init ((prelude nl ns ++ expand t2) ++ [OResolve offs])).
Proof. exact AsmOrderAny.order_irrelevant_any_unresolved. Qed.
Print Assumptions C08_order_irrelevant_any_unresolved.

(* the hypothesis "no delta refused for its range" is NECESSARY: with two labels 300 bytes apart and a one-byte delta in another section the
   two orders give section sizes 0 and 1 *)
Theorem C08_no_misfit_necessary :
  (forall k, proj k AsmOrderAny.mis_after = proj k AsmOrderAny.mis_before) /\
  ~ AsmOrderAny.no_misfit (LabelsModel.run init (prelude 2 1)) AsmOrderAny.mis_after /\
  s_len (nsec (LabelsModel.run init (prelude 2 1 ++ expand AsmOrderAny.mis_after)) 0) = 0 /\
  s_len (nsec (LabelsModel.run init (prelude 2 1 ++ expand AsmOrderAny.mis_before)) 0) = 1.
Proof. exact AsmOrderAny.misfit_matters. Qed.
Print Assumptions C08_no_misfit_necessary.

(* BY EFFECT, operation by operation: the resolved forms of the two interleavings (each run IS the run of its resolved form and is
   characterized by it: C08_resolved_run, C08_every_run_characterized) agree in every section operation by operation, except that a delta
   may stand as itself in one - it became an expression entry there - and as the raw bytes of the label difference, taken from the COMMON
   final label table, in the other; C08_delta_by_effect: the entry relocates to exactly those bytes *)
Theorem C08_by_effect_any : forall nl ns t1 t2 offs,
  (forall k, proj k t1 = proj k t2) -> tags_ok ns t1 -> tags_ok ns t2 -> NoDup (bound_labels t1) ->
  let s0 := LabelsModel.run init (prelude nl ns) in
  AsmOrderAny.no_misfit s0 t1 -> AsmOrderAny.no_misfit s0 t2 ->
  nowrap nl ns (AsmOrderAny.res_from s0 t1) offs -> nowrap nl ns (AsmOrderAny.res_from s0 t2) offs ->
  let s1 := LabelsModel.run init ((prelude nl ns ++ expand t1) ++ [OResolve offs]) in
  forall k, Forall2 (fun o1 o2 =>
      o1 = o2 \/
      exists l b sz ks lo bo, nth_error (labels s1) l = Some (Some (ks, lo)) /\ nth_error (labels s1) b = Some (Some (ks, bo)) /\ size_ok sz = true /\ delta_fits sz (lo - bo) = true /\
        ((o1 = SDelta l b sz /\ o2 = SRaw (le_split (Z.to_nat sz) (wrap (8 * sz) (lo - bo)))) \/
         (o1 = SRaw (le_split (Z.to_nat sz) (wrap (8 * sz) (lo - bo))) /\ o2 = SDelta l b sz)))
    (proj k (AsmOrderAny.res_from s0 t1)) (proj k (AsmOrderAny.res_from s0 t2)).
Proof. exact AsmOrderAny.resolved_ops_agree. Qed.
Print Assumptions C08_by_effect_any.

(* SAME IMAGE BY EFFECT, as one equation.  [eff L] replaces a delta by the bytes of the label difference whenever the table L binds both labels
   in one section and the difference fits - what the delta contributes once relocation has run (C08_delta_by_effect).  (1) THE RUN AGAINST
   ITS EFFECT PROGRAM, for ANY program and any table of the right length: length, binds and items of every section agree, except that an
   expression-entry site holds zero placeholders where the effect program has the bytes. *)
Theorem C08_run_vs_effect : forall L nl ns t, length L = nl -> tags_ok ns t -> NoDup (bound_labels t) ->
  forall k, (k < S ns)%nat ->
    let r := AsmOrderAny.res_from (LabelsModel.run init (prelude nl ns)) t in
    AsmOrderEffect.srelE L (lfold nl k (proj k r)) (lfold nl k (map (AsmOrderEffect.eff L) (proj k r))).
Proof. exact AsmOrderEffect.effect_fold_rel. Qed.
Print Assumptions C08_run_vs_effect.

(* (2) for two interleavings with the same per-section sequences the effect programs under the common final label table are EQUAL section by
   section, and the bytes each run really holds are the rendering of items that match the items of that ONE effect program up to zero
   placeholders at expression-entry sites *)
Theorem C08_effect_image_any : forall nl ns t1 t2 offs,
  (forall k, proj k t1 = proj k t2) -> tags_ok ns t1 -> tags_ok ns t2 -> NoDup (bound_labels t1) ->
  let s0 := LabelsModel.run init (prelude nl ns) in
  AsmOrderAny.no_misfit s0 t1 -> AsmOrderAny.no_misfit s0 t2 ->
  nowrap nl ns (AsmOrderAny.res_from s0 t1) offs -> nowrap nl ns (AsmOrderAny.res_from s0 t2) offs ->
  let s1 := LabelsModel.run init ((prelude nl ns ++ expand t1) ++ [OResolve offs]) in
  let s2 := LabelsModel.run init ((prelude nl ns ++ expand t2) ++ [OResolve offs]) in
  let L := labels s1 in
  (forall k, map (AsmOrderEffect.eff L) (proj k (AsmOrderAny.res_from s0 t1)) = map (AsmOrderEffect.eff L) (proj k (AsmOrderAny.res_from s0 t2))) /\
  forall k, (k < S ns)%nat ->
    let E := l_items (lfold nl k (map (AsmOrderEffect.eff L) (proj k (AsmOrderAny.res_from s0 t1)))) in
    (exists i1, sec_image (refs s1) (s_items (nsec s1 k)) = gimage L offs i1 /\ Forall2 (AsmOrderEffect.site_rel L) i1 E) /\
    (exists i2, sec_image (refs s2) (s_items (nsec s2 k)) = gimage L offs i2 /\ Forall2 (AsmOrderEffect.site_rel L) i2 E).
Proof. exact AsmOrderEffect.effect_image_any. Qed.
Print Assumptions C08_effect_image_any.

Theorem C08_effect_image_example :
  let s0 := LabelsModel.run init (prelude 2 1) in
  let L := labels (LabelsModel.run init ((prelude 2 1 ++ expand AsmOrderAny.ex_after) ++ [OResolve [0; 4096]])) in
  map (AsmOrderEffect.eff L) (proj 0 (AsmOrderAny.res_from s0 AsmOrderAny.ex_after)) = [SRaw [3]] /\
  map (AsmOrderEffect.eff L) (proj 0 (AsmOrderAny.res_from s0 AsmOrderAny.ex_before)) = [SRaw [3]] /\
  proj 0 (AsmOrderAny.res_from s0 AsmOrderAny.ex_before) = [SDelta 1 0 1] /\
  gimage L [0; 4096] (l_items (lfold 2 0 (map (AsmOrderEffect.eff L) (proj 0 (AsmOrderAny.res_from s0 AsmOrderAny.ex_before))))) = [3] /\
  AsmOrderEffect.site_rel L (GRaw (zeros 1)) (GRaw (AsmOrderAny.dbytes 1 (3 - 0))).
Proof. exact AsmOrderEffect.effect_image_example. Qed.
Print Assumptions C08_effect_image_example.

(* the relocation entries of ABSOLUTE references (embed_label, x86-32 [label]) are order independent for every program; the expression
   entries are the path-dependent part (one per delta that survives resolution) *)
Theorem C08_abs_entries_any : forall nl ns t1 t2 offs,
  (forall k, proj k t1 = proj k t2) -> tags_ok ns t1 -> tags_ok ns t2 -> NoDup (bound_labels t1) ->
  let s0 := LabelsModel.run init (prelude nl ns) in
  AsmOrderAny.no_misfit s0 t1 -> AsmOrderAny.no_misfit s0 t2 ->
  nowrap nl ns (AsmOrderAny.res_from s0 t1) offs -> nowrap nl ns (AsmOrderAny.res_from s0 t2) offs ->
  Permutation (filter AsmOrderEffect.is_abs_b (relocs (LabelsModel.run init ((prelude nl ns ++ expand t1) ++ [OResolve offs]))))
              (filter AsmOrderEffect.is_abs_b (relocs (LabelsModel.run init ((prelude nl ns ++ expand t2) ++ [OResolve offs])))).
Proof. exact AsmOrderEffect.abs_entries_any. Qed.
Print Assumptions C08_abs_entries_any.

(* one hypothesis discharged: "no address wraps" for the second interleaving follows from the first *)
Theorem C08_nowrap_transfers : forall nl ns t1 t2 offs,
  (forall k, proj k t1 = proj k t2) -> tags_ok ns t1 -> tags_ok ns t2 -> NoDup (bound_labels t1) ->
  let s0 := LabelsModel.run init (prelude nl ns) in
  AsmOrderAny.no_misfit s0 t1 -> AsmOrderAny.no_misfit s0 t2 ->
  nowrap nl ns (AsmOrderAny.res_from s0 t1) offs -> nowrap nl ns (AsmOrderAny.res_from s0 t2) offs.
Proof. exact AsmOrderEffect.nowrap_transfers. Qed.
Print Assumptions C08_nowrap_transfers.

(* HEADLINE for arbitrary label deltas, hypotheses stated once wherever possible ("no delta refused for its range" stays per run: it is a
   property of the run - C08_no_misfit_necessary has it true for one order and false for the other): same label table, same unresolved
   count, same entries of absolute references, same section sizes, ONE effect program per section, and each run's bytes = the effect
   program's items up to zero placeholders at expression-entry sites *)
Theorem C08_same_image_by_effect : forall nl ns t1 t2 offs,
  (forall k, proj k t1 = proj k t2) -> tags_ok ns t1 -> tags_ok ns t2 -> NoDup (bound_labels t1) ->
  let s0 := LabelsModel.run init (prelude nl ns) in
  AsmOrderAny.no_misfit s0 t1 -> AsmOrderAny.no_misfit s0 t2 -> nowrap nl ns (AsmOrderAny.res_from s0 t1) offs ->
  let s1 := LabelsModel.run init ((prelude nl ns ++ expand t1) ++ [OResolve offs]) in
  let s2 := LabelsModel.run init ((prelude nl ns ++ expand t2) ++ [OResolve offs]) in
  let L := labels s1 in
  labels s1 = labels s2 /\ unresolved s1 = unresolved s2 /\
  Permutation (filter AsmOrderEffect.is_abs_b (relocs s1)) (filter AsmOrderEffect.is_abs_b (relocs s2)) /\
  (forall k, map (AsmOrderEffect.eff L) (proj k (AsmOrderAny.res_from s0 t1)) = map (AsmOrderEffect.eff L) (proj k (AsmOrderAny.res_from s0 t2))) /\
  forall k, (k < S ns)%nat ->
    s_len (nsec s1 k) = s_len (nsec s2 k) /\
    let E := l_items (lfold nl k (map (AsmOrderEffect.eff L) (proj k (AsmOrderAny.res_from s0 t1)))) in
    (exists i1, sec_image (refs s1) (s_items (nsec s1 k)) = gimage L offs i1 /\ Forall2 (AsmOrderEffect.site_rel L) i1 E) /\
    (exists i2, sec_image (refs s2) (s_items (nsec s2 k)) = gimage L offs i2 /\ Forall2 (AsmOrderEffect.site_rel L) i2 E).
Proof. exact AsmOrderEffect.effect_image_any'. Qed.
Print Assumptions C08_same_image_by_effect.

(* THE RELOCATED BYTES.  [gbytes] renders a section's items byte for byte (gap = n fillers, reference = its resolved word); [apply_sites]
   patches them at the section's own expression entries that are resolvable inside one section.  (1) for ANY program, any table of the right
   length and any layout: the patched bytes of the run are the bytes of its effect program (invariant [srelB]: also lengths and bounds) *)
Theorem C08_bytes_vs_effect : forall L offs nl ns t, length L = nl -> tags_ok ns t -> NoDup (bound_labels t) ->
  forall k, (k < S ns)%nat ->
    let r := AsmOrderAny.res_from (LabelsModel.run init (prelude nl ns)) t in
    AsmOrderBytes.srelB L offs (lfold nl k (proj k r)) (lfold nl k (map (AsmOrderEffect.eff L) (proj k r))).
Proof. exact AsmOrderBytes.bytes_vs_effect. Qed.
Print Assumptions C08_bytes_vs_effect.

(* (2) SAME IMAGE AFTER RELOCATION, an equation on byte lists: for two interleavings with the same per-section sequences the patched bytes
   of every section are EQUAL (and equal to the bytes of the one effect program), under the common final label table, any layout *)
Theorem C08_patched_bytes_equal : forall nl ns t1 t2 offs,
  (forall k, proj k t1 = proj k t2) -> tags_ok ns t1 -> tags_ok ns t2 -> NoDup (bound_labels t1) ->
  let s0 := LabelsModel.run init (prelude nl ns) in
  AsmOrderAny.no_misfit s0 t1 -> AsmOrderAny.no_misfit s0 t2 -> nowrap nl ns (AsmOrderAny.res_from s0 t1) offs ->
  let L := labels (LabelsModel.run init ((prelude nl ns ++ expand t1) ++ [OResolve offs])) in
  forall k, (k < S ns)%nat ->
    let A1 := lfold nl k (proj k (AsmOrderAny.res_from s0 t1)) in let A2 := lfold nl k (proj k (AsmOrderAny.res_from s0 t2)) in
    AsmOrderBytes.apply_sites L (l_rels A1) (AsmOrderBytes.gbytes L offs (l_items A1)) = AsmOrderBytes.apply_sites L (l_rels A2) (AsmOrderBytes.gbytes L offs (l_items A2)) /\
    AsmOrderBytes.apply_sites L (l_rels A1) (AsmOrderBytes.gbytes L offs (l_items A1))
    = AsmOrderBytes.gbytes L offs (l_items (lfold nl k (map (AsmOrderEffect.eff L) (proj k (AsmOrderAny.res_from s0 t1))))).
Proof. exact AsmOrderBytes.patched_bytes_equal. Qed.
Print Assumptions C08_patched_bytes_equal.

(* (2b) and the entries that are NOT patched inside a section (absolute references, deltas across sections or with an unbound label) are the
   same list in both orders: after the intra-section patches the two runs hold equal bytes AND equal remaining entries *)
Theorem C08_unpatched_entries_equal : forall nl ns t1 t2 offs,
  (forall k, proj k t1 = proj k t2) -> tags_ok ns t1 -> tags_ok ns t2 -> NoDup (bound_labels t1) ->
  let s0 := LabelsModel.run init (prelude nl ns) in
  AsmOrderAny.no_misfit s0 t1 -> AsmOrderAny.no_misfit s0 t2 -> nowrap nl ns (AsmOrderAny.res_from s0 t1) offs ->
  let L := labels (LabelsModel.run init ((prelude nl ns ++ expand t1) ++ [OResolve offs])) in
  forall k, (k < S ns)%nat ->
    filter (AsmOrderBytes.inertb L) (l_rels (lfold nl k (proj k (AsmOrderAny.res_from s0 t1))))
    = filter (AsmOrderBytes.inertb L) (l_rels (lfold nl k (proj k (AsmOrderAny.res_from s0 t2)))).
Proof. exact AsmOrderBytes.unpatched_entries_equal. Qed.
Print Assumptions C08_unpatched_entries_equal.

(* (2c) the folds' items and entries ARE what the machine holds, for ANY program after layout and cross-section resolution: every section's
   item list (read through the references' immutable logs) is the item list of the fold of the resolved form, the relocation entries are
   its entry ghosts up to creation order - so (2) is an equation about the machine's own sections: *)
Theorem C08_machine_items_any : forall nl ns t offs, tags_ok ns t -> NoDup (bound_labels t) ->
  let r := AsmOrderAny.res_from (LabelsModel.run init (prelude nl ns)) t in
  let s := LabelsModel.run init ((prelude nl ns ++ expand t) ++ [OResolve offs]) in
  (forall k, (k < S ns)%nat -> map (gi (refs s)) (s_items (nsec s k)) = l_items (lfold nl k (proj k r))) /\
  Permutation (map rghost_of (relocs s)) (allrels nl ns r).
Proof. exact AsmOrderBytes.machine_items_any. Qed.
Print Assumptions C08_machine_items_any.

Theorem C08_machine_patched_bytes_equal : forall nl ns t1 t2 offs,
  (forall k, proj k t1 = proj k t2) -> tags_ok ns t1 -> tags_ok ns t2 -> NoDup (bound_labels t1) ->
  let s0 := LabelsModel.run init (prelude nl ns) in
  AsmOrderAny.no_misfit s0 t1 -> AsmOrderAny.no_misfit s0 t2 -> nowrap nl ns (AsmOrderAny.res_from s0 t1) offs ->
  let s1 := LabelsModel.run init ((prelude nl ns ++ expand t1) ++ [OResolve offs]) in
  let s2 := LabelsModel.run init ((prelude nl ns ++ expand t2) ++ [OResolve offs]) in
  let L := labels s1 in
  forall k, (k < S ns)%nat ->
    AsmOrderBytes.apply_sites L (l_rels (lfold nl k (proj k (AsmOrderAny.res_from s0 t1)))) (AsmOrderBytes.gbytes L offs (map (gi (refs s1)) (s_items (nsec s1 k)))) =
    AsmOrderBytes.apply_sites L (l_rels (lfold nl k (proj k (AsmOrderAny.res_from s0 t2)))) (AsmOrderBytes.gbytes L offs (map (gi (refs s2)) (s_items (nsec s2 k)))).
Proof. exact AsmOrderBytes.machine_patched_bytes_equal. Qed.
Print Assumptions C08_machine_patched_bytes_equal.

(* (3) a site's patch IS what C04's relocate_entry writes for that entry (any base, any layout; label differences int64) *)
Theorem C08_site_patch_is_relocation : forall base asize atoff slots (s : state) offs re d,
  (forall l b, rl_type re = Expr l b -> rl_label re = l) ->
  (forall l b ks lo bo, rl_type re = Expr l b -> nth_error (labels s) l = Some (Some (ks, lo)) -> nth_error (labels s) b = Some (Some (ks, bo)) ->
                        - 2 ^ 63 <= lo - bo < 2 ^ 63) ->
  AsmOrderBytes.site_patch (labels s) (rghost_of re) = Some d ->
  exists o, relocate_entry base asize atoff slots (entry_of_reloc s offs re) = inl (o, slots) /\ o_rewrite o = None /\ o_slot o = None /\
            le_split (Z.to_nat (rl_size re)) (o_word o) = d.
Proof. exact AsmOrderBytes.site_patch_is_relocation. Qed.
Print Assumptions C08_site_patch_is_relocation.

Theorem C08_patched_bytes_example :
  let s0 := LabelsModel.run init (prelude 2 1) in
  let L := labels (LabelsModel.run init ((prelude 2 1 ++ expand AsmOrderAny.ex_after) ++ [OResolve [0; 4096]])) in
  let A1 := lfold 2 0 (proj 0 (AsmOrderAny.res_from s0 AsmOrderAny.ex_after)) in let A2 := lfold 2 0 (proj 0 (AsmOrderAny.res_from s0 AsmOrderAny.ex_before)) in
  AsmOrderBytes.gbytes L [0; 4096] (l_items A1) = [3] /\ l_rels A1 = [] /\
  AsmOrderBytes.gbytes L [0; 4096] (l_items A2) = [0] /\ length (l_rels A2) = 1%nat /\
  AsmOrderBytes.apply_sites L (l_rels A1) (AsmOrderBytes.gbytes L [0; 4096] (l_items A1)) = [3] /\
  AsmOrderBytes.apply_sites L (l_rels A2) (AsmOrderBytes.gbytes L [0; 4096] (l_items A2)) = [3].
Proof. exact AsmOrderBytes.patched_bytes_example. Qed.
Print Assumptions C08_patched_bytes_example.

(* its hypotheses hold for the pair of programs of C08_delta_side_condition_necessary (which is outside C08_order_irrelevant) *)
Theorem C08_order_irrelevant_any_example :
  (forall k, proj k AsmOrderAny.ex_after = proj k AsmOrderAny.ex_before) /\ tags_ok 1 AsmOrderAny.ex_after /\ tags_ok 1 AsmOrderAny.ex_before /\
  NoDup (bound_labels AsmOrderAny.ex_after) /\
  AsmOrderAny.no_misfit (LabelsModel.run init (prelude 2 1)) AsmOrderAny.ex_after /\ AsmOrderAny.no_misfit (LabelsModel.run init (prelude 2 1)) AsmOrderAny.ex_before /\
  nowrap 2 1 (AsmOrderAny.res_from (LabelsModel.run init (prelude 2 1)) AsmOrderAny.ex_after) [0; 4096] /\
  nowrap 2 1 (AsmOrderAny.res_from (LabelsModel.run init (prelude 2 1)) AsmOrderAny.ex_before) [0; 4096] /\
  AsmOrderAny.irel2 (GRaw [3]) (GRaw [0]).
Proof. exact AsmOrderAny.order_irrelevant_any_applies. Qed.
Print Assumptions C08_order_irrelevant_any_example.

(* SAME IMAGE (was C08_same_image_partial with the whole assembler as hypothesis): for EVERY instruction encoder [enc] whose output for a
   call depends on the call and on the calls issued before in the same section, assembling what the Builder serializes and assembling the
   calls directly give - on C03's machine - the same label table, section sizes and resolved bytes in every section. *)
(* ... and the layout + resolution step itself reports no error, in any order *)
Theorem C08_resolve_ok : forall nl ns t offs, tags_ok ns t -> NoDup (bound_labels t) -> delta_local nl ns t -> nowrap nl ns t offs ->
  snd (LabelsModel.step (LabelsModel.run init (prelude nl ns ++ expand t)) (OResolve offs)) = EOk.
Proof. exact resolve_ok. Qed.
Print Assumptions C08_resolve_ok.

Theorem C08_same_image : forall (enc : list ecall -> ecall -> list sop) nl ns offs rs cs,
  Forall (fun c => is_emitter_call c = true) cs -> all_ok (init_state rs) cs = true ->
  let direct := program enc (trace cs) in
  let serialized := program enc (trace (replay (BuilderModel.run (init_state rs) cs))) in
  secs_valid ns (trace cs) -> NoDup (bound_labels direct) -> delta_local_final nl ns direct -> nowrap nl ns direct offs ->
  let s1 := LabelsModel.run init ((prelude nl ns ++ expand direct) ++ [OResolve offs]) in
  let s2 := LabelsModel.run init ((prelude nl ns ++ expand serialized) ++ [OResolve offs]) in
  labels s1 = labels s2 /\ unresolved s1 = unresolved s2 /\ Permutation (relocs s1) (relocs s2) /\
  forall k, (k < S ns)%nat ->
    s_len (nsec s1 k) = s_len (nsec s2 k) /\
    sec_image (refs s1) (s_items (nsec s1 k)) = sec_image (refs s2) (s_items (nsec s2 k)).
Proof. exact same_image. Qed.
Print Assumptions C08_same_image.

(* SAME IMAGE without the side condition on deltas: what the Builder serializes vs the calls assembled directly, any label deltas, for every
   encoder of the shape above - same label table and section sizes, bytes equal up to equal-length raw items at delta sites - provided neither
   assembling refuses a delta for its range *)
Theorem C08_same_image_any : forall (enc : list ecall -> ecall -> list sop) nl ns offs rs cs,
  Forall (fun c => is_emitter_call c = true) cs -> all_ok (init_state rs) cs = true ->
  let direct := program enc (trace cs) in
  let serialized := program enc (trace (replay (BuilderModel.run (init_state rs) cs))) in
  secs_valid ns (trace cs) -> NoDup (bound_labels direct) ->
  let s0 := LabelsModel.run init (prelude nl ns) in
  AsmOrderAny.no_misfit s0 direct -> AsmOrderAny.no_misfit s0 serialized ->
  nowrap nl ns (AsmOrderAny.res_from s0 direct) offs -> nowrap nl ns (AsmOrderAny.res_from s0 serialized) offs ->
  let s1 := LabelsModel.run init ((prelude nl ns ++ expand direct) ++ [OResolve offs]) in
  let s2 := LabelsModel.run init ((prelude nl ns ++ expand serialized) ++ [OResolve offs]) in
  labels s1 = labels s2 /\
  forall k, (k < S ns)%nat ->
    s_len (nsec s1 k) = s_len (nsec s2 k) /\
    exists i1 i2, sec_image (refs s1) (s_items (nsec s1 k)) = gimage (labels s1) offs i1 /\
                  sec_image (refs s2) (s_items (nsec s2 k)) = gimage (labels s1) offs i2 /\
                  Forall2 AsmOrderAny.irel2 i1 i2.
Proof. exact same_image_any. Qed.
Print Assumptions C08_same_image_any.

(* SAME IMAGE AFTER RELOCATION for the Builder: what it serializes and the calls assembled directly hold, after the intra-section delta
   patches, EQUAL bytes (byte-accurate rendering) and EQUAL remaining relocation entries in every section - every encoder of the shape above,
   any label deltas *)
Theorem C08_same_patched_bytes : forall (enc : list ecall -> ecall -> list sop) nl ns offs rs cs,
  Forall (fun c => is_emitter_call c = true) cs -> all_ok (init_state rs) cs = true ->
  let direct := program enc (trace cs) in
  let serialized := program enc (trace (replay (BuilderModel.run (init_state rs) cs))) in
  secs_valid ns (trace cs) -> NoDup (bound_labels direct) ->
  let s0 := LabelsModel.run init (prelude nl ns) in
  AsmOrderAny.no_misfit s0 direct -> AsmOrderAny.no_misfit s0 serialized -> nowrap nl ns (AsmOrderAny.res_from s0 direct) offs ->
  let L := labels (LabelsModel.run init ((prelude nl ns ++ expand direct) ++ [OResolve offs])) in
  forall k, (k < S ns)%nat ->
    let A1 := lfold nl k (proj k (AsmOrderAny.res_from s0 direct)) in let A2 := lfold nl k (proj k (AsmOrderAny.res_from s0 serialized)) in
    AsmOrderBytes.apply_sites L (l_rels A1) (AsmOrderBytes.gbytes L offs (l_items A1)) = AsmOrderBytes.apply_sites L (l_rels A2) (AsmOrderBytes.gbytes L offs (l_items A2)) /\
    filter (AsmOrderBytes.inertb L) (l_rels A1) = filter (AsmOrderBytes.inertb L) (l_rels A2).
Proof. exact same_patched_bytes. Qed.
Print Assumptions C08_same_patched_bytes.

(* its hypotheses are satisfiable (the two-section example program, an encoder with rel32 label references, offsets 0 and 4096) *)
Theorem C08_same_image_example :
  let direct := program enc_ex (trace example_program) in
  secs_valid 1 (trace example_program) /\ NoDup (bound_labels direct) /\ nowrap 2 1 direct [0; 4096] /\
  proj 0 direct <> [] /\ proj 1 direct <> [] /\ delta_local_final 2 1 direct /\ In (1%nat, SDelta 1 0 4) direct.
Proof. exact example_image_hypotheses. Qed.
Print Assumptions C08_same_image_example.

(* Compiler function nodes (compiler.cpp add_func_node / end_func): layout of the three nodes, cursor, labels, consumed one-shot state *)
Theorem C08_add_func_layout : forall b,
  match cursor b with None => True | Some c => (c < length (active b))%nat end ->
  let b' := fst (BuilderModel.step b CFunc) in
  let pos := cursor_pos (cursor b) in
  active b' = firstn pos (active b) ++ mkNode (NFunc (nlabels b + 1) (nlabels b)) (dup_comment (p_comment b)) :: label_node (nlabels b)
                                   :: mkNode (NFuncEnd (nlabels b + 1)) None :: skipn pos (active b) /\
  cursor b' = Some pos /\ nlabels b' = nlabels b + 2 /\ cur_func b' = Some (nlabels b + 1) /\
  p_opts b' = 0 /\ p_exsig b' = 0 /\ p_exid b' = 0 /\ p_comment b' = None /\ pool b' = pool b.
Proof. exact add_func_layout. Qed.
Print Assumptions C08_add_func_layout.

Theorem C08_end_func_spec : forall b, lpool b = None ->       (* without a pending local constant pool; with one the pool node is linked in first *)
  let b' := fst (BuilderModel.step b CEndFunc) in
  active b' = active b /\ pool b' = pool b /\ p_opts b' = 0 /\ p_comment b' = None /\
  match cur_func b with
  | None => snd (BuilderModel.step b CEndFunc) = kInvalidState /\ cursor b' = cursor b
  | Some fl => snd (BuilderModel.step b CEndFunc) = kOk /\ cursor b' = find_index (is_func_end fl) (active b) /\ cur_func b' = None
  end.
Proof. exact end_func_spec. Qed.
Print Assumptions C08_end_func_spec.

(* Compiler: emit_annotated_jump / add_invoke_node capture the pending one-shot state like _emit; the node stands for the plain instruction *)
Theorem C08_jump_invoke_faithful : forall b id op ann,
  let j := fst (BuilderModel.step b (CJump id op ann)) in let i := fst (BuilderModel.step b (CInvoke id op)) in
  active j = insert_at (cursor_pos (cursor b)) (mkNode (NJump id (p_opts b) (p_exsig b) (p_exid b) op ann) (dup_comment (p_comment b))) (active b) /\
  active i = insert_at (cursor_pos (cursor b)) (mkNode (NInvoke id (p_opts b) (p_exsig b) (p_exid b) op) (dup_comment (p_comment b))) (active b) /\
  p_opts j = 0 /\ p_comment j = None /\ p_opts i = 0 /\ p_comment i = None /\
  node_ecalls (mkNode (NJump id (p_opts b) (p_exsig b) (p_exid b) op ann) (dup_comment (p_comment b)))
    = [EInst id (clear_reserved (p_opts b)) (p_exsig b) (p_exid b) (canon_ops op op_none op_none op_none op_none op_none) (dup_comment (p_comment b))] /\
  node_ecalls (mkNode (NInvoke id (p_opts b) (p_exsig b) (p_exid b) op) (dup_comment (p_comment b)))
    = [EInst id (clear_reserved (p_opts b)) (p_exsig b) (p_exid b) (canon_ops op op_none op_none op_none op_none op_none) (dup_comment (p_comment b))].
Proof. exact jump_invoke_faithful. Qed.
Print Assumptions C08_jump_invoke_faithful.

(* Compiler: _new_const creates the pool node of a scope on first use (one label), shares equal constants, links nothing into the list *)
Theorem C08_new_const_spec : forall b scope d,
  let b' := fst (BuilderModel.step b (CNewConst scope d)) in
  active b' = active b /\ cursor b' = cursor b /\ snd (BuilderModel.step b (CNewConst scope d)) = kOk /\
  (scope = 0 -> lpool b = None -> lpool b' = Some (nlabels b, d) /\ nlabels b' = nlabels b + 1 /\ gpool b' = gpool b) /\
  (scope = 0 -> forall l old, lpool b = Some (l, old) -> lpool b' = Some (l, pool_add d old) /\ nlabels b' = nlabels b).
Proof. exact new_const_spec. Qed.
Print Assumptions C08_new_const_spec.

(* ERROR CODES of the assembling phase: the sequence of error codes returned by the operations of each section (invalid label, bad hole,
   displacement not encodable against a label already bound in the same section, already bound, invalid size, ...) is a function of that
   section's own operation sequence - the same in every interleaving of the sections (on C03's machine; same hypotheses) *)
Theorem C08_errors_order_irrelevant : forall nl ns t1 t2, (forall k, proj k t1 = proj k t2) ->
  tags_ok ns t1 -> tags_ok ns t2 -> NoDup (bound_labels t1) -> delta_local_final nl ns t1 ->
  forall k, err_proj k t1 (run_errs (LabelsModel.run init (prelude nl ns)) t1) = err_proj k t2 (run_errs (LabelsModel.run init (prelude nl ns)) t2).
Proof. exact errors_order_irrelevant. Qed.
Print Assumptions C08_errors_order_irrelevant.

(* Compiler: end_func links a pending local constant pool in right before the function's end sentinel and leaves the cursor on the sentinel *)
Theorem C08_end_func_flushes_local_pool : forall b fl l d e,
  cur_func b = Some fl -> lpool b = Some (l, d) -> find_index (is_func_end fl) (active b) = Some (S e) ->
  let b' := fst (BuilderModel.step b CEndFunc) in
  active b' = insert_at (S e) (mkNode (NConstPool l 8 d) None) (active b) /\ cursor b' = Some (S (S e)) /\
  lpool b' = None /\ gpool b' = gpool b /\ cur_func b' = None /\ snd (BuilderModel.step b CEndFunc) = kOk.
Proof. exact end_func_flushes_local_pool. Qed.
Print Assumptions C08_end_func_flushes_local_pool.

From Verif Require X86Validate.ValidateModel Builder.ValidateBridge Builder.X86Dec.
From VerifGen Require X86Sigs.

(* VALIDATION PARITY over C13's validator model (Verif.X86Validate.ValidateModel.validate, the transliteration of
   x86::InstInternal::validate tied to /repo by C13's check): for every reading [dec] of operands under which an empty signature is "no
   operand" and every tables/mode, the call the Builder REPLAYS for a recorded instruction node - reserved option bit cleared, empty
   slots after the last operand rewritten by op_array - gets the verdict of the original call (Assembler: kValidateAssembler; Builder at
   record time: kValidateIntermediate on all six slots, /repo 839e6db; virt = Compiler). *)
Theorem C08_validation_parity : forall (T : ValidateModel.vtables) (zq x64 : bool) (dec : operand -> ValidateModel.operand) (xtype : Z -> N),
  (forall o, is_none o = true -> dec o = ValidateModel.ONone) ->
  forall virt b id o0 o1 o2 o3 o4 o5,
  match node_ecalls (inst_node b id o0 o1 o2 o3 o4 o5) with
  | [EInst id' opts' es' ei' ops' _] =>
      ValidateBridge.verdict T zq x64 dec xtype virt id' opts' es' ei' ops'
      = ValidateBridge.verdict T zq x64 dec xtype virt id (p_opts b) (p_exsig b) (p_exid b) [o0; o1; o2; o3; o4; o5]
  | _ => False
  end.
Proof. exact ValidateBridge.validation_parity. Qed.
Print Assumptions C08_validation_parity.

(* ... instantiated with the concrete reading of x86 operands (X86Dec.dec_x86: Operand_ signature layout, memory fields, immediates) and
   of the extra register: no hypothesis left.  The same [verdict] is what the extracted model computes in every run for the x86
   strict-validation programs and what the check compares with the error the real Builder returns. *)
Theorem C08_validation_parity_x86 : forall T zq x64 virt b id o0 o1 o2 o3 o4 o5,
  match node_ecalls (inst_node b id o0 o1 o2 o3 o4 o5) with
  | [EInst id' opts' es' ei' ops' _] =>
      ValidateBridge.verdict T zq x64 X86Dec.dec_x86 X86Dec.xtype_x86 virt id' opts' es' ei' ops'
      = ValidateBridge.verdict T zq x64 X86Dec.dec_x86 X86Dec.xtype_x86 virt id (p_opts b) (p_exsig b) (p_exid b) [o0; o1; o2; o3; o4; o5]
  | _ => False
  end.
Proof. exact X86Dec.validation_parity_x86. Qed.
Print Assumptions C08_validation_parity_x86.

(* a VALIDATED _emit at full strength: refused -> the returned error is the verdict and nothing but the one-shot state changes (node list,
   cursor, pool, section links, label/section counts, function and constant-pool state are untouched); accepted -> exactly the unvalidated
   _emit, and the call the recorded node stands for is accepted again at serialization *)
Theorem C08_validated_emit_spec : forall T x64 virt b id o0 o1 o2 o3 o4 o5,
  let e := ValidateBridge.verdict T false x64 X86Dec.dec_x86 X86Dec.xtype_x86 virt id (p_opts b) (p_exsig b) (p_exid b) [o0; o1; o2; o3; o4; o5] in
  let r := X86Dec.emit_validated_x86 T x64 virt b id o0 o1 o2 o3 o4 o5 in
  (e <> 0%N -> snd r = Z.of_N e /\ active (fst r) = active b /\ cursor (fst r) = cursor b /\ pool (fst r) = pool b /\ links (fst r) = links b /\
               dirty (fst r) = dirty b /\ nlabels (fst r) = nlabels b /\ nsections (fst r) = nsections b /\ cur_func (fst r) = cur_func b /\
               lpool (fst r) = lpool b /\ gpool (fst r) = gpool b /\
               p_opts (fst r) = 0%Z /\ p_exsig (fst r) = 0%Z /\ p_exid (fst r) = 0%Z /\ p_comment (fst r) = None) /\
  (e = 0%N -> r = BuilderModel.step b (CEmit id o0 o1 o2 o3 o4 o5) /\ snd r = kOk /\
              match node_ecalls (inst_node b id o0 o1 o2 o3 o4 o5) with
              | [EInst id' opts' es' ei' ops' _] => ValidateBridge.verdict T false x64 X86Dec.dec_x86 X86Dec.xtype_x86 virt id' opts' es' ei' ops' = 0%N
              | _ => False
              end).
Proof. exact X86Dec.emit_validated_x86_spec. Qed.
Print Assumptions C08_validated_emit_spec.

(* non-vacuity on /repo's generated tables: `add eax, ebx` accepted (also with the reserved bit and as replayed), `add eax, <none>, ebx`
   refused with kInvalidInstruction, 64-bit registers refused in 32-bit mode, and a refused _emit only resets the one-shot state *)
Theorem C08_validation_examples :
  ValidateBridge.verdict X86Sigs.x86_vtables false true X86Dec.dec_x86 X86Dec.xtype_x86 false 9 0 0 0 [X86Dec.r32 0; X86Dec.r32 3; op_none; op_none; op_none; op_none] = ValidateModel.E_Ok /\
  ValidateBridge.verdict X86Sigs.x86_vtables false true X86Dec.dec_x86 X86Dec.xtype_x86 false 9 1 0 0 (canon_ops (X86Dec.r32 0) (X86Dec.r32 3) op_none op_none op_none op_none) = ValidateModel.E_Ok /\
  ValidateBridge.verdict X86Sigs.x86_vtables false true X86Dec.dec_x86 X86Dec.xtype_x86 false 9 0 0 0 [X86Dec.r32 0; op_none; X86Dec.r32 3; op_none; op_none; op_none] = ValidateModel.E_InvalidInstruction /\
  ValidateBridge.verdict X86Sigs.x86_vtables false false X86Dec.dec_x86 X86Dec.xtype_x86 false 9 0 0 0 [mkOp 134217777 0 0 0; mkOp 134217777 3 0 0; op_none; op_none; op_none; op_none] = ValidateModel.E_InvalidUseOfGpq /\
  fst (X86Dec.emit_validated_x86 X86Sigs.x86_vtables true false (init_state 8) 9 (X86Dec.r32 0) op_none (X86Dec.r32 3) op_none op_none op_none) = with_pend (init_state 8) 0 0 0 None.
Proof. exact X86Dec.verdict_x86_examples. Qed.
Print Assumptions C08_validation_examples.

(* the validator ignores the reserved option bit (the one difference between the options of a node and of the call) *)
Theorem C08_validate_ignores_reserved : forall T zq x64 virt inst ops,
  ValidateModel.validate T zq x64 virt (ValidateBridge.with_options inst (N.ldiff (ValidateModel.vi_options inst) 1)) ops
  = ValidateModel.validate T zq x64 virt inst ops.
Proof. exact ValidateBridge.validate_ignores_reserved. Qed.
Print Assumptions C08_validate_ignores_reserved.

(* a call the validator ACCEPTS has no operand after an empty slot, hence the operand count of the unrepaired op_count_from_emit_args
   equals the repaired one: under strict validation no recorded instruction ever lost an operand (the defect fixed by a794350 was one of
   unvalidated streams only).  "Clean" operands: a signature the validator reads as "no operand" (operand type 0) is the empty signature;
   for X86Dec.dec_x86 that is the stated bit condition (X86Dec.clean_x86). *)
Theorem C08_accepted_call_has_no_hole : forall (T : ValidateModel.vtables) (zq x64 : bool) (dec : operand -> ValidateModel.operand) (xtype : Z -> N),
  (forall o, is_none o = true -> dec o = ValidateModel.ONone) ->
  forall virt id opts es ei o0 o1 o2 o3 o4 o5,
  Forall (ValidateBridge.clean dec) [o0; o1; o2; o3; o4; o5] ->
  ValidateBridge.verdict T zq x64 dec xtype virt id opts es ei [o0; o1; o2; o3; o4; o5] = ValidateModel.E_Ok ->
  (forall i j, (i < j)%nat -> is_none (nth i [o0; o1; o2; o3; o4; o5] op_none) = true -> is_none (nth j [o0; o1; o2; o3; o4; o5] op_none) = true) /\
  op_count_legacy o0 o1 o2 o3 o4 o5 = op_count o0 o1 o2 o3 o4 o5.
Proof.
  intros T zq x64 dec xtype HD virt id opts es ei o0 o1 o2 o3 o4 o5 HC H. split.
  - exact (ValidateBridge.accepted_no_operand_after_hole T zq x64 dec xtype HD virt id opts es ei o0 o1 o2 o3 o4 o5 HC H).
  - exact (ValidateBridge.accepted_counts_agree T zq x64 dec xtype HD virt id opts es ei o0 o1 o2 o3 o4 o5 HC H).
Qed.
Print Assumptions C08_accepted_call_has_no_hole.

(* non-vacuity of C08_delta_by_effect: an instance (labels at 100 and 40 of section 1, one byte: 60), and a difference outside the range is
   refused by relocation exactly as the immediate path refuses the call *)
Theorem C08_delta_by_effect_example :
  (exists o, relocate_entry 65536 8 0 [] (entry_of_reloc DeltaEffect.ex_state [0; 4096] (DeltaEffect.ex_entry 1)) = inl (o, []) /\
             le_split 1 (o_word o) = [60] /\ DeltaEffect.delta_bytes 1 (100 - 40) = [60]) /\
  relocate_entry 65536 8 0 [] (entry_of_reloc (set_labels init [Some (1%nat, 300); Some (1%nat, 40)]) [0; 4096] (DeltaEffect.ex_entry 1)) = inr RInvalidEntry /\
  snd (LabelsModel.step (set_labels init [Some (1%nat, 300); Some (1%nat, 40)]) (ODeltaChecked 0 1 1)) = EInvalidDisp.
Proof. split; [exact DeltaEffect.delta_entry_effect_instance|exact DeltaEffect.delta_entry_out_of_range]. Qed.
Print Assumptions C08_delta_by_effect_example.

From Verif Require Builder.AsmOrderDecide.

(* the hypotheses of the order theorems are DECIDABLE by computation: boolean checkers, sound for the propositions the theorems ask for *)
Theorem C08_hypotheses_decidable :
  (forall t s, AsmOrderDecide.no_misfitb s t = true -> AsmOrderAny.no_misfit s t) /\
  (forall nl ns t offs, AsmOrderDecide.nowrapb nl ns t offs = true -> nowrap nl ns t offs).
Proof. split; [exact AsmOrderDecide.no_misfitb_sound|exact AsmOrderDecide.nowrapb_sound]. Qed.
Print Assumptions C08_hypotheses_decidable.

(* C08_same_patched_bytes APPLIES to the Builder's two-section example program (encoder enc_ex; serialization order differs from call order):
   every hypothesis discharged by the checkers, conclusion instantiated for both sections *)
Theorem C08_same_patched_bytes_example : forall k, (k < 2)%nat ->
  let A1 := lfold 2 k (proj k (AsmOrderAny.res_from (LabelsModel.run init (prelude 2 1)) (program enc_ex (trace example_program)))) in
  let A2 := lfold 2 k (proj k (AsmOrderAny.res_from (LabelsModel.run init (prelude 2 1)) (program enc_ex (trace (replay (BuilderModel.run (init_state 8) example_program)))))) in
  AsmOrderBytes.apply_sites (labels (LabelsModel.run init ((prelude 2 1 ++ expand (program enc_ex (trace example_program))) ++ [OResolve [0; 4096]]))) (l_rels A1)
    (AsmOrderBytes.gbytes (labels (LabelsModel.run init ((prelude 2 1 ++ expand (program enc_ex (trace example_program))) ++ [OResolve [0; 4096]]))) [0; 4096] (l_items A1))
  = AsmOrderBytes.apply_sites (labels (LabelsModel.run init ((prelude 2 1 ++ expand (program enc_ex (trace example_program))) ++ [OResolve [0; 4096]]))) (l_rels A2)
    (AsmOrderBytes.gbytes (labels (LabelsModel.run init ((prelude 2 1 ++ expand (program enc_ex (trace example_program))) ++ [OResolve [0; 4096]]))) [0; 4096] (l_items A2)) /\
  filter (AsmOrderBytes.inertb (labels (LabelsModel.run init ((prelude 2 1 ++ expand (program enc_ex (trace example_program))) ++ [OResolve [0; 4096]])))) (l_rels A1)
  = filter (AsmOrderBytes.inertb (labels (LabelsModel.run init ((prelude 2 1 ++ expand (program enc_ex (trace example_program))) ++ [OResolve [0; 4096]])))) (l_rels A2).
Proof. exact AsmOrderDecide.example_same_patched_bytes. Qed.
Print Assumptions C08_same_patched_bytes_example.

From Verif Require Builder.AsmOrderPerm.

(* the patches of a section's expression entries COMMUTE (sites inside the section, pairwise disjoint: AsmOrderPerm.fold_sites_ok for ANY fold), so
   the relocated bytes do not depend on the order of the entries *)
Theorem C08_apply_sites_perm : forall L rels rels', Permutation rels rels' ->
  forall bs, Forall (AsmOrderBytes.in_bounds L (zlen bs)) rels -> AsmOrderPerm.PW (AsmOrderPerm.disj L) rels ->
  AsmOrderBytes.apply_sites L rels bs = AsmOrderBytes.apply_sites L rels' bs.
Proof. exact AsmOrderPerm.apply_sites_perm. Qed.
Print Assumptions C08_apply_sites_perm.

(* THE MACHINE'S OWN STATE ALONE: for ANY program, patching the bytes of section k of C03's machine (after layout + resolution) at the entries of
   ITS relocation list that belong to section k - in creation order, which interleaves the sections - gives the bytes of the effect program *)
Theorem C08_machine_relocated_bytes : forall L offs nl ns t, length L = nl -> tags_ok ns t -> NoDup (bound_labels t) ->
  let r := AsmOrderAny.res_from (LabelsModel.run init (prelude nl ns)) t in
  let s := LabelsModel.run init ((prelude nl ns ++ expand t) ++ [OResolve offs]) in
  forall k, (k < S ns)%nat ->
    AsmOrderBytes.apply_sites L (filter (fun rg => Nat.eqb (rg_sec rg) k) (map rghost_of (relocs s))) (AsmOrderBytes.gbytes L offs (map (gi (refs s)) (s_items (nsec s k))))
    = AsmOrderBytes.gbytes L offs (l_items (lfold nl k (map (AsmOrderEffect.eff L) (proj k r)))).
Proof. exact AsmOrderPerm.machine_relocated_bytes. Qed.
Print Assumptions C08_machine_relocated_bytes.

(* SAME IMAGE AFTER RELOCATION, in terms of the two machine states only: same label table, and for every section the bytes the machine holds,
   patched at the machine's own expression entries of that section, are EQUAL *)
Theorem C08_machine_relocated_bytes_equal : forall nl ns t1 t2 offs,
  (forall k, proj k t1 = proj k t2) -> tags_ok ns t1 -> tags_ok ns t2 -> NoDup (bound_labels t1) ->
  let s0 := LabelsModel.run init (prelude nl ns) in
  AsmOrderAny.no_misfit s0 t1 -> AsmOrderAny.no_misfit s0 t2 -> nowrap nl ns (AsmOrderAny.res_from s0 t1) offs ->
  let s1 := LabelsModel.run init ((prelude nl ns ++ expand t1) ++ [OResolve offs]) in
  let s2 := LabelsModel.run init ((prelude nl ns ++ expand t2) ++ [OResolve offs]) in
  let L := labels s1 in
  labels s2 = L /\
  forall k, (k < S ns)%nat ->
    AsmOrderBytes.apply_sites L (filter (fun rg => Nat.eqb (rg_sec rg) k) (map rghost_of (relocs s1))) (AsmOrderBytes.gbytes L offs (map (gi (refs s1)) (s_items (nsec s1 k)))) =
    AsmOrderBytes.apply_sites L (filter (fun rg => Nat.eqb (rg_sec rg) k) (map rghost_of (relocs s2))) (AsmOrderBytes.gbytes L offs (map (gi (refs s2)) (s_items (nsec s2 k)))).
Proof. exact AsmOrderPerm.machine_relocated_bytes_equal. Qed.
Print Assumptions C08_machine_relocated_bytes_equal.

Theorem C08_machine_relocated_bytes_example :
  let s1 := LabelsModel.run init ((prelude 2 1 ++ expand AsmOrderAny.ex_after) ++ [OResolve [0; 4096]]) in
  let s2 := LabelsModel.run init ((prelude 2 1 ++ expand AsmOrderAny.ex_before) ++ [OResolve [0; 4096]]) in
  AsmOrderBytes.gbytes (labels s1) [0; 4096] (map (gi (refs s2)) (s_items (nsec s2 0))) = [0] /\
  length (filter (fun rg => Nat.eqb (rg_sec rg) 0) (map rghost_of (relocs s2))) = 1%nat /\
  AsmOrderBytes.apply_sites (labels s1) (filter (fun rg => Nat.eqb (rg_sec rg) 0) (map rghost_of (relocs s1))) (AsmOrderBytes.gbytes (labels s1) [0; 4096] (map (gi (refs s1)) (s_items (nsec s1 0)))) = [3] /\
  AsmOrderBytes.apply_sites (labels s1) (filter (fun rg => Nat.eqb (rg_sec rg) 0) (map rghost_of (relocs s2))) (AsmOrderBytes.gbytes (labels s1) [0; 4096] (map (gi (refs s2)) (s_items (nsec s2 0)))) = [3].
Proof. exact AsmOrderPerm.machine_relocated_bytes_example. Qed.
Print Assumptions C08_machine_relocated_bytes_example.

(* THE PROPERTY, for the model, at full strength: what the Builder serializes and the calls assembled directly - ANY label deltas, every encoder
   that depends on the call and its same-section history - end, after layout, cross-section resolution and the relocation of the intra-section
   expression entries, in machine states with the same label table and EQUAL bytes in every section (the remaining entries: C08_same_patched_bytes) *)
Theorem C08_same_relocated_bytes_machine : forall (enc : list ecall -> ecall -> list sop) nl ns offs rs cs,
  Forall (fun c => is_emitter_call c = true) cs -> all_ok (init_state rs) cs = true ->
  let direct := program enc (trace cs) in
  let serialized := program enc (trace (replay (BuilderModel.run (init_state rs) cs))) in
  secs_valid ns (trace cs) -> NoDup (bound_labels direct) ->
  let s0 := LabelsModel.run init (prelude nl ns) in
  AsmOrderAny.no_misfit s0 direct -> AsmOrderAny.no_misfit s0 serialized -> nowrap nl ns (AsmOrderAny.res_from s0 direct) offs ->
  let s1 := LabelsModel.run init ((prelude nl ns ++ expand direct) ++ [OResolve offs]) in
  let s2 := LabelsModel.run init ((prelude nl ns ++ expand serialized) ++ [OResolve offs]) in
  let L := labels s1 in
  labels s2 = L /\
  forall k, (k < S ns)%nat ->
    AsmOrderBytes.apply_sites L (filter (fun rg => Nat.eqb (rg_sec rg) k) (map rghost_of (relocs s1))) (AsmOrderBytes.gbytes L offs (map (gi (refs s1)) (s_items (nsec s1 k)))) =
    AsmOrderBytes.apply_sites L (filter (fun rg => Nat.eqb (rg_sec rg) k) (map rghost_of (relocs s2))) (AsmOrderBytes.gbytes L offs (map (gi (refs s2)) (s_items (nsec s2 k)))).
Proof. exact same_relocated_bytes_machine. Qed.
Print Assumptions C08_same_relocated_bytes_machine.

(* round 7: the frame conditions LIFTED TO COMMAND SEQUENCES - over any run the register size is constant, and a component no command of the
   sequence may touch is unchanged at the end (counters / one-shot state / function+pool state / node storage) *)
Theorem C08_run_frame : forall cs b,
  let b' := BuilderModel.run b cs in
  regsize b' = regsize b /\
  (forallb (fun c => negb (BuilderFrame.touches_counters c)) cs = true -> nlabels b' = nlabels b /\ nsections b' = nsections b) /\
  (forallb (fun c => negb (BuilderFrame.touches_oneshot c)) cs = true -> p_opts b' = p_opts b /\ p_exsig b' = p_exsig b /\ p_exid b' = p_exid b /\ p_comment b' = p_comment b) /\
  (forallb (fun c => negb (BuilderFrame.touches_func c)) cs = true -> cur_func b' = cur_func b /\ lpool b' = lpool b /\ gpool b' = gpool b) /\
  (forallb (fun c => negb (BuilderFrame.touches_nodes c)) cs = true -> active b' = active b /\ cursor b' = cursor b /\ pool b' = pool b /\ links b' = links b /\ dirty b' = dirty b).
Proof. exact BuilderFrame.run_frame. Qed.
Print Assumptions C08_run_frame.

Theorem C08_run_frame_example :
  let cs := [CSetOptions 5; CSetComment (Some [65]); CEmitRejected 26; CSetExtra 1 2] in
  let b := init_state 8 in
  forallb (fun c => negb (BuilderFrame.touches_nodes c)) cs = true /\ forallb (fun c => negb (BuilderFrame.touches_counters c)) cs = true /\
  active (BuilderModel.run b cs) = active b /\ nlabels (BuilderModel.run b cs) = nlabels b /\
  p_exsig (BuilderModel.run b cs) <> p_exsig b /\
  active (BuilderModel.run b (cs ++ [CAlign 0 16])) <> active b.
Proof. exact BuilderFrame.run_frame_example. Qed.
Print Assumptions C08_run_frame_example.

(* round 7: COMPLETENESS of the checker for "no delta refused for its range along the run": it is a decision procedure (both answers occur) *)
Theorem C08_no_misfit_decided : forall t s, AsmOrderDecide.no_misfitb s t = true <-> AsmOrderAny.no_misfit s t.
Proof. exact AsmOrderDecide.no_misfitb_iff. Qed.
Print Assumptions C08_no_misfit_decided.

Theorem C08_no_misfit_decided_example :
  AsmOrderDecide.no_misfitb (LabelsModel.run init (prelude 2 1)) AsmOrderAny.mis_before = true /\
  AsmOrderDecide.no_misfitb (LabelsModel.run init (prelude 2 1)) AsmOrderAny.mis_after = false.
Proof. exact AsmOrderDecide.no_misfitb_decides. Qed.
Print Assumptions C08_no_misfit_decided_example.

(* C01 -- x86/x64 assembler emits a correct encoding of every instruction it accepts.
   This file holds ONLY the property theorems (each closed by `exact <lemma>`) and their Print Assumptions. *)
From Coq Require Import ZArith List Bool.
From Verif Require Import X86.X86Model X86.X86Proofs X86.X86Denote X86.X86DenoteProofs X86.X86DbCheck.
From Verif Require Import X86.X86TablesSpec X86.X86Unique X86.X86UniqueProofs X86.X86JudgeProofs X86.X86LengthProofs X86.X86Choice X86.X86EncProofs X86.X86PrefixOrder X86.X86Reencode X86.X86FrameProofs X86.X86Shortest X86.X86Leg32 X86.X86StreamProofs.
From VerifGen Require Import IsaX86Db X86Tables.
Import ListNotations.
Local Open Scope Z_scope.

(* The structural decoder inverts the structural encoder: for BOTH modes, every well-formed structural instruction
   (all legacy prefix sets; legacy / REX / VEX2 / VEX3 / XOP / EVEX with every value of W, R X B R' V' (as 4/5-bit
   register ids 0..31), vvvv, L'L, pp, map, aaa, z, b; every ModRM form: register, [base], [base+disp8*N], [base+disp32],
   SIB with index*scale, no-base disp32, RIP-relative, 16-bit addressing; every displacement and immediate value) and every
   admissible encoder choice (VEX2 vs VEX3, ModRM.mod / displacement size, redundant SIB), decoding the emitted bytes
   followed by ANY further bytes gives back exactly the instruction and exactly the number of bytes emitted. *)
Theorem C01_sdec_senc : forall (m : mode) (sh : shape) (s : sinst) (c : choices) (rest : bytes),
  wf m sh s = true -> adm m sh s c = true ->
  sdec m sh (senc m sh s c ++ rest) = Some (s, length (senc m sh s c)).
Proof. exact sdec_senc. Qed.
Print Assumptions C01_sdec_senc.

(* its hypotheses are satisfiable (EVEX, {k3}{z}, zmm31, vvvvv = 17, [r12 + r13*4 - 8192] with disp8*64, fs:, imm8) *)
Theorem C01_sdec_senc_hypotheses_satisfiable :
  let sh := mkSh true false 1 64 in
  let s := mkS (mkP false false false false false 5) KEvex false true 1 true 2 1 2 88 3 true false
               (MMem 31 (mkM (BReg 12) (Some 13) 2 (-8192))) 127 in
  let c := mkC false 1 false in
  wf M64 sh s = true /\ adm M64 sh s c = true /\
  senc M64 sh s c = [100; 98; 2; 245; 195; 88; 124; 172; 128; 127].
Proof. exact wf_adm_example. Qed.
Print Assumptions C01_sdec_senc_hypotheses_satisfiable.

(* the translated ISA database (regenerated from db/isa_x86.json on every run) is well formed: field ranges, slot
   discipline (at most one operand per ModRM.reg / ModRM.rm / vvvv / is4 / opcode+r slot, ModRM slots only with a ModRM byte,
   immediates inside the immediate bytes, EVEX-only decorations), and the opcode index used by `denote` is exact *)
Theorem C01_db_wf : forallb row_wf db_rows = true.
Proof. exact db_wf. Qed.
Print Assumptions C01_db_wf.

Theorem C01_db_bucket_complete :
  forallb (fun r => existsb (fun r' => r_id r' =? r_id r) (bucket (r_opc r))) db_rows = true.
Proof. exact db_bucket_ok. Qed.
Print Assumptions C01_db_bucket_complete.

Theorem C01_db_bucket_sound : forallb (fun o => forallb (fun r => bucket_row_ok o r) (bucket o)) zrange256 = true.
Proof. exact db_bucket_sound. Qed.
Print Assumptions C01_db_bucket_sound.

Theorem C01_db_row_of_ok :
  forallb (fun r => match row_of (r_id r) with Some r' => r_id r' =? r_id r | None => false end) db_rows = true.
Proof. exact db_row_of_ok. Qed.
Print Assumptions C01_db_row_of_ok.

Theorem C01_db_count : Z.of_nat (length db_rows) = db_count.
Proof. exact db_count_ok. Qed.
Print Assumptions C01_db_count.

(* AsmJit's OWN tables (dumped from the working tree by harness/c01_dump.cpp on every run): the static encoder tables of
   x86assembler.cpp equal their specifications -- segment override bytes, mandatory-prefix bytes, opcode-map escapes, VEX3/XOP
   prefix template, LL by size / register type, the compressed-displacement shift of each tuple class, the 16-bit ModRM
   tables (= the structural model's rm16_of, either operand order) and all 1024 entries of mem_info_table *)
Theorem C01_static_tables :
  seg_table_ok t_segment_prefix_table && pp_table_ok t_opcode_pp_table && mm_table_ok t_opcode_mm_table &&
  vex_prefix_ok t_vex_prefix_table && ll_by_size_ok t_ll_by_size_div_16_table && ll_by_reg_type_ok t_ll_by_reg_type_table t_vec256 (rt_v512 t_reg_types) &&
  cdisp8_table_ok t_cdisp8_shl_table && mod16_base_ok t_mod16_base_table && mod16_base_index_ok t_mod16_base_index_table &&
  mem_info_ok t_reg_types t_mem_info_table = true.
Proof. exact static_tables_ok. Qed.
Print Assumptions C01_static_tables.

Theorem C01_opcode_layout : t_opcode_layout = [8; 13; 16; 18; 21; 27; 28; 29; 4096].
Proof. exact opcode_layout_ok. Qed.
Print Assumptions C01_opcode_layout.

(* the instruction table pairs every instruction id with ALL database rows of its mnemonic *)
(* the encoding classes are named in the corpus lists (mapped to numbers through the EncodingId enum of the working tree on every run);
   the classes X86TablesSpec.v refers to by number (X86Arith, X86Rot, the eight x87 classes) have exactly those numbers in the tree *)
Theorem C01_class_ids_pinned : enc_ids_of_tree = [25; 55; 66; 67; 68; 69; 70; 71; 72; 73] /\ unknown_class_names = 0.
Proof. exact class_ids_ok. Qed.
Print Assumptions C01_class_ids_pinned.

Theorem C01_tables_grouping : grouping_ok db_rows inst_table = true.
Proof. exact grouping_is_ok. Qed.
Print Assumptions C01_tables_grouping.

(* for EVERY instruction id and EVERY EVEX database form of its mnemonic with a memory operand, the disp8 scale AsmJit's opcode
   word implies (1 << (base shift + cdisp8_shl_table class shift)) equals the scale the database tuple type prescribes, for the
   form's W and vector length, and the broadcast element sizes agree -- except the listed mnemonics (known findings) *)
Theorem C01_tables_cd_agree_db :
  forallb (fun p => zmem (ie_name (fst p)) cd_exceptions || cd_inst_agrees (snd p) (fst p)) inst_table = true.
Proof. exact cd_agree_ok. Qed.
Print Assumptions C01_tables_cd_agree_db.

(* C01_tables_agree_db of the design, three theorems.  (1) forward: for every instruction id of the encoding classes that use the
   stored opcode word verbatim (corpus/C01_verbatim_classes.txt), the main or alternative opcode word agrees with some database form
   of the mnemonic in mandatory prefix, map, opcode byte, /digit (0F 01 xx and 3DNow! suffix forms included), encoding KIND (legacy /
   VEX / XOP / EVEX against the instruction flags), and W / LL wherever the word fixes them *)
Theorem C01_tables_opcode_agree_db :
  forallb (fun p => negb (zmem (ie_enc (fst p)) verbatim_classes) || zmem (ie_name (fst p)) opcode_exceptions ||
                    opcode_inst_agrees (snd p) (fst p)) inst_table = true.
Proof. exact opcode_agree_ok. Qed.
Print Assumptions C01_tables_opcode_agree_db.

(* (2) converse: for the classes of corpus/C01_converse_classes.txt EVERY supported database form of the mnemonic is encoded by the
   main or the alternative word (same fields); the listed exceptions are known findings (database forms the table cannot encode) *)
Theorem C01_tables_opcode_cover_db :
  forallb (fun p => negb (zmem (ie_enc (fst p)) converse_classes) || zmem (ie_name (fst p)) cover_exceptions ||
                    opcode_inst_covers (snd p) (fst p)) inst_table = true.
Proof. exact opcode_cover_ok. Qed.
Print Assumptions C01_tables_opcode_cover_db.

(* (2b) derived opcodes, class by class: far call / jmp (lcall, ljmp), pextrb/pextrd/pextrq/extractps, and (round 4) X86M_NoMemSize,
   X86Rm, ExtRm_P, ExtRmRi_P, ExtRmi_P, ExtPextrw, ExtMovd (corpus/C01_size66_classes.txt: 9 classes), whose handlers add the
   operand-size prefix 66 themselves (add_prefix_by_size / add_66h_if): some database form agrees with the main or alternative word AND every database form of the
   mnemonic is encoded by one of them, where a word without mandatory prefix also stands for the rows with prefix 66.
   (mov, movabs and pushw have no opcode in the table at all -- their handler hard-codes it; only the per-call judge covers them) *)
Theorem C01_tables_opcode_size66_agree_db :
  forallb (fun p => negb (zmem (ie_enc (fst p)) size66_classes) || size66_inst_agrees (snd p) (fst p)) inst_table = true.
Proof. exact size66_agree_ok. Qed.
Print Assumptions C01_tables_opcode_size66_agree_db.

(* (2c) round 5: 16 more classes derive the opcode from the stored word by the operand size (corpus/C01_sizebit_classes.txt: inc/dec,
   mul/div/neg/not, cmpxchg, crc32, in/out, ins/outs, movsx/movzx, ret, shld/shrd, lods/scas/stos/cmps/movs, xadd): some database form
   agrees with a word and EVERY database form of the mnemonic is a word, the word + 1 (size bit) or its 66-prefixed variant *)
Theorem C01_tables_opcode_sizebit_agree_db :
  forallb (fun p => negb (zmem (ie_enc (fst p)) sizebit_classes) || sizebit_inst_agrees (snd p) (fst p)) inst_table = true.
Proof. exact sizebit_agree_ok. Qed.
Print Assumptions C01_tables_opcode_sizebit_agree_db.

(* (2d) X86Arith (8 mnemonics) and X86Rot (7): the forms the handler derives from the one stored word -- size, direction, accumulator,
   immediate group 80/81/83 with the word's /digit; by 1 / by cl / by imm8 (o - 0x10) -- are written down in X86TablesSpec (arith_row_ok,
   rot_row_ok): the word is a database form and EVERY database form of the mnemonic is a derived one; the literals 0x80 / 0x10 that
   the specification assumes are present in the handler text of the working tree (class ids 25 / 55 of the pinned enum) *)
Theorem C01_tables_arith_rot_agree_db :
  forallb (fun p => negb (ie_enc (fst p) =? 25) || derived_inst_agrees arith_row_ok (snd p) (fst p)) inst_table &&
  forallb (fun p => negb (ie_enc (fst p) =? 55) || derived_inst_agrees rot_row_ok (snd p) (fst p)) inst_table &&
  existsb (fun l => (fst l =? 0) && (snd l =? 128)) hl_arith && existsb (fun l => (fst l =? 0) && (snd l =? 16)) hl_rot = true.
Proof. exact arith_rot_agree_ok. Qed.
Print Assumptions C01_tables_arith_rot_agree_db.

(* (2e) ten further classes (call, jmp, imul, nop, push, pop, test, xchg, movq; VEX/EVEX vpextrw): the opcode literals of each handler block --
   read from the text of x86assembler.cpp -- and the segment-register push / pop tables -- dumped -- are opcodes of database forms of the
   class, and every database form of every instruction of the class is a stored word (or word + 1 / 66) or a literal (l, l + 1, l - 2) *)
Theorem C01_tables_class_literals_agree_db :
  forallb (fun cl => class_lits_agree inst_table (fst cl) (snd cl)) hl_classes && (Z.of_nat (length hl_classes) =? 10) = true.
Proof. exact class_lits_ok. Qed.
Print Assumptions C01_tables_class_literals_agree_db.

(* (3) x87 FpuOp class (two opcode bytes in one word): escape byte and fixed ModRM byte agree with a database form.
   PARTIAL overall: the other derived-opcode classes (mov, arithmetic immediates, shifts, jcc, far, pextr, the remaining x87
   classes) are covered by the sweep only *)
Theorem C01_tables_fpu_op_agree_db_partial :
  forallb (fun p => negb (ie_enc (fst p) =? 66) || zmem (ie_name (fst p)) fpu_exceptions || fpu_op_agrees (snd p) (fst p)) inst_table = true.
Proof. exact fpu_op_agree_ok. Qed.
Print Assumptions C01_tables_fpu_op_agree_db_partial.

(* (3b) x87, the classes that derive their opcodes (FpuArith, FpuCom, FpuFldFst, FpuM, FpuR, FpuRDef, FpuStsw): the forms the handler
   computes from the word(s) and the FpuM16/32/64/80 flags (X86TablesSpec.fpu_forms, written after the handler) are ALL database rows
   of the mnemonic, and every database row of the mnemonic is one of them (FpuFldFst: every memory row; its register forms are
   hard-coded in the handler).  Exceptions: corpus/C01_fpu_exceptions.txt *)
Theorem C01_tables_fpu_derived_agree_db :
  forallb (fun p => negb (zmem (ie_enc (fst p)) fpu_derived_classes) || zmem (ie_name (fst p)) fpu_exceptions ||
                    fpu_derived_agrees hl_fldfst (snd p) (fst p)) inst_table = true.
Proof. exact fpu_derived_agree_ok. Qed.
Print Assumptions C01_tables_fpu_derived_agree_db.

(* (3c) round 4: the handlers whose opcodes are NOT in the tables.  The opcode literals of the mov, movabs and pushw handler blocks and the
   register forms of fld / fst / fstp (FpuFldFst, now part of (3b): every row, not only the memory rows) are read from the source text
   of x86assembler.cpp on every run; every literal is the opcode of a database form of the mnemonic and every database form of the
   mnemonic has a literal (or literal + 1, the size bit) as opcode; pushw: the 66 prefix and opcode of its only form *)
Theorem C01_handler_literals_agree_db :
  inst_has inst_table id_mov (handler_lits_agree id_mov hl_mov) && inst_has inst_table id_movabs (handler_lits_agree id_movabs hl_movabs) &&
  inst_has inst_table id_pushw (pushw_lits_agree id_pushw hl_pushw) && (Z.of_nat (length hl_fldfst) =? 3) = true.
Proof. exact handler_lits_ok. Qed.
Print Assumptions C01_handler_literals_agree_db.

(* every denotation is backed by the structural decoder, a database row of the opcode and the inverse operand map *)
Theorem C01_denote_sound : forall m bs rid ops dd len,
  In (rid, ops, dd, len) (denote bucket m bs) ->
  exists h rest r s r2,
    sdec_head m bs = Some (h, rest) /\ In r (bucket (rh_opc h)) /\ r_id r = rid /\
    head_ok m r h = true /\ sdec_tail m h (shape_of_row m r h) rest = Some (s, r2) /\ tail_ok m r s = true /\
    (exists ops0, mk_operands m r s (r_ops r) = Some ops0 /\ ops = rel_from_start (r_ops r) ops0 (Z.of_nat len)) /\
    dd = deco_of r s /\ len = (length bs - length r2)%nat.
Proof. exact (denote_sound bucket). Qed.
Print Assumptions C01_denote_sound.

(* ... and conversely (round 6): every row of the head's bucket that passes its constraints contributes its reading -- together with
   C01_denote_sound, `denote` is exactly the set of readings of the structural decoder under the database rows *)
Theorem C01_denote_complete : forall m bs h rest r s r2 ops0,
  sdec_head m bs = Some (h, rest) -> In r (bucket (rh_opc h)) -> head_ok m r h = true ->
  sdec_tail m h (shape_of_row m r h) rest = Some (s, r2) -> tail_ok m r s = true -> mk_operands m r s (r_ops r) = Some ops0 ->
  In (r_id r, rel_from_start (r_ops r) ops0 (Z.of_nat (length bs - length r2)), deco_of r s, (length bs - length r2)%nat) (denote bucket m bs).
Proof. exact (denote_complete bucket). Qed.
Print Assumptions C01_denote_complete.

(* what the verdict 0 of the judge (run on every accepted call of the harness) means *)
Theorem C01_judge_ok_spec : forall m name ops dc bs,
  fst (judge bucket wbucket row_of m name ops dc bs) = 0 ->
  exists rid dops dd r,
    In (rid, dops, dd, length bs) (denote2 bucket wbucket m bs) /\ row_of rid = Some r /\ r_name r = name /\
    deco_match dc dd = true /\
    (ops_match m (r_ops r) (op_bits (r_ops r)) ops dops = true \/
     ops_match m (explicit_specs (r_ops r)) (op_bits (r_ops r)) ops (explicit_only (r_ops r) dops) = true).
Proof. exact (judge_ok_spec bucket wbucket row_of). Qed.
Print Assumptions C01_judge_ok_spec.

(* ... at full strength (round 5): the converse -- any full-length reading that is a form of the called mnemonic with matching decorations
   and operands forces verdict 0 (so verdict 0 is EQUIVALENT to the existence of such a reading), and verdict 1 is exactly "no reading" *)
Theorem C01_judge_ok_complete : forall m name ops dc bs rid dops dd r,
  In (rid, dops, dd, length bs) (denote2 bucket wbucket m bs) -> row_of rid = Some r -> r_name r = name ->
  deco_match dc dd = true ->
  (ops_match m (r_ops r) (op_bits (r_ops r)) ops dops = true \/
   ops_match m (explicit_specs (r_ops r)) (op_bits (r_ops r)) ops (explicit_only (r_ops r) dops) = true) ->
  fst (judge bucket wbucket row_of m name ops dc bs) = 0.
Proof. exact (judge_ok_complete bucket wbucket row_of). Qed.
Print Assumptions C01_judge_ok_complete.

Theorem C01_judge_no_reading_spec : forall m name ops dc bs,
  fst (judge bucket wbucket row_of m name ops dc bs) = 1 <-> denote2 bucket wbucket m bs = [].
Proof. exact (judge_no_reading_spec bucket wbucket row_of). Qed.
Print Assumptions C01_judge_no_reading_spec.

(* the judge's comparison of prefixes and decorations, in terms of the BYTES: verdict 0 means the call's lock prefix, opmask
   register and zeroing bit are those of the decoded head of the appended bytes, and its rep/repne, free-standing segment prefix
   and rounding / sae are the head's as read by a database row of the CALLED mnemonic in the head's opcode bucket (F2 / F3 that the
   row consumes as its mandatory prefix are not decorations) -- `head_reading` of X86JudgeProofs.v; for an x87 wait form the same
   holds for the bytes that follow the leading FWAIT (9B), read by a row of the wait buckets *)
Theorem C01_judge_ok_head : forall m name ops dc bs,
  fst (judge bucket wbucket row_of m name ops dc bs) = 0 ->
  head_reading bucket m name dc bs \/ exists rest, bs = 155 :: rest /\ head_reading wbucket m name dc rest.
Proof. exact (judge_ok_head bucket wbucket row_of db_bucket_row_of db_wait_bucket_row_of). Qed.
Print Assumptions C01_judge_ok_head.

(* ... and they do not depend on the row: ANY two denotations of the same bytes carry the same lock / opmask / zeroing *)
Theorem C01_deco_rows_agree : forall m bs rid1 ops1 dd1 len1 rid2 ops2 dd2 len2,
  In (rid1, ops1, dd1, len1) (denote bucket m bs) -> In (rid2, ops2, dd2, len2) (denote bucket m bs) ->
  d_lock dd1 = d_lock dd2 /\ d_k dd1 = d_k dd2 /\ d_z dd1 = d_z dd2.
Proof. exact (deco_rows_agree bucket). Qed.
Print Assumptions C01_deco_rows_agree.

(* the two-instruction reading of the x87 wait forms inside the model (round 4): the denotation the judge uses, `denote2`, is the
   one-instruction denotation of the bytes plus -- when they start with FWAIT (9B) -- the denotations of the REST by the rows of the
   wait buckets (fstsw, fstcw, fstenv, fsave, fclex, finit), one byte longer; nothing else *)
Theorem C01_denote2_cases : forall m bs rid ops dd len,
  In (rid, ops, dd, len) (denote2 bucket wbucket m bs) ->
  In (rid, ops, dd, len) (denote bucket m bs) \/
  exists rest len', bs = 155 :: rest /\ len = S len' /\ In (rid, ops, dd, len') (denote wbucket m rest).
Proof. exact (denote2_cases bucket wbucket). Qed.
Print Assumptions C01_denote2_cases.

(* containment for the wait forms: FWAIT followed by the structural encoding of a wait row (any encoder choice, any following bytes)
   denotes that row with exactly the emitted length + 1 -- so the override prefixes of the memory operand stand AFTER the 9B *)
Theorem C01_denote2_senc_wait : forall m r s c rest ops,
  let sh := shape_of_row m r (rhead_of s) in
  wf m sh s = true -> adm m sh s c = true -> In r (wbucket (s_opc s)) ->
  head_ok m r (rhead_of s) = true -> tail_ok m r s = true -> mk_operands m r s (r_ops r) = Some ops ->
  In (r_id r, rel_from_start (r_ops r) ops (Z.of_nat (length (senc m sh s c))), deco_of r s, S (length (senc m sh s c)))
     (denote2 bucket wbucket m (155 :: senc m sh s c ++ rest)).
Proof.
  intros m r s c rest ops sh Hwf Hadm Hb Hh Ht Ho.
  exact (denote2_wait bucket wbucket m _ _ _ _ _ (denote_senc wbucket m r s c rest ops Hwf Hadm Hb Hh Ht Ho)).
Qed.
Print Assumptions C01_denote2_senc_wait.

(* the wait buckets pass the same reflection checks as the ordinary ones: well-formed rows, complete and sound indexing, uniqueness
   of the mnemonic, the row found by id reads like the bucket's row *)
Theorem C01_db_wait_buckets :
  forallb row_wf db_wait_rows = true /\
  forallb (fun r => existsb (fun r' => r_id r' =? r_id r) (wbucket (r_opc r))) db_wait_rows = true /\
  forallb (fun o => forallb (fun r => bucket_row_ok o r && existsb (fun r' => r_id r' =? r_id r) db_wait_rows) (wbucket o)) zrange256 = true /\
  forallb (fun o => bucket_unique db_aliases (wbucket_raw o)) (zrange 256) = true /\
  forallb (fun o => bucket_row_of_ok row_of (wbucket_raw o)) (zrange 256) = true.
Proof. exact (conj db_wait_wf (conj db_wait_bucket_ok (conj db_wait_bucket_sound (conj db_wait_unique_raw db_wait_bucket_row_of_raw)))). Qed.
Print Assumptions C01_db_wait_buckets.

(* any two WAIT readings of the same bytes name the same mnemonic (up to the alias list), like the one-instruction readings *)
Theorem C01_denote_unique_wait : forall m bs rid1 ops1 dd1 len1 rid2 ops2 dd2 len2,
  In (rid1, ops1, dd1, len1) (denote wbucket m bs) -> In (rid2, ops2, dd2, len2) (denote wbucket m bs) ->
  exists r1 r2 h, In r1 (wbucket (rh_opc h)) /\ In r2 (wbucket (rh_opc h)) /\ r_id r1 = rid1 /\ r_id r2 = rid2 /\
                  may_overlap r1 r2 = true /\ alias_ok db_aliases (r_name r1) (r_name r2) = true.
Proof. exact (denote_unique_names wbucket db_aliases db_wait_unique). Qed.
Print Assumptions C01_denote_unique_wait.

(* the two readings of bytes that start with 9B are separated: the one-instruction reading is FWAIT itself -- the legacy map-0 row of bucket 9B, which names fwait and has neither ModRM nor
   immediate -- and is ONE byte long; every wait reading is a byte longer than a denotation
   of the rest.  So the full-length reading of an accepted wait-form call is never the FWAIT reading *)
Theorem C01_fwait_reading : forall m rest rid ops dd len,
  In (rid, ops, dd, len) (denote bucket m (155 :: rest)) ->
  exists r, In r (bucket 155) /\ r_id r = rid /\ r_name r = id_fwait /\ len = 1%nat.
Proof.
  intros m rest rid ops dd len H.
  destruct (denote_9b_is_bucket_9b bucket m rest rid ops dd len H) as [r [I [Id [Hm [Hk Hl]]]]].
  pose proof db_bucket_9b as HB. rewrite forallb_forall in HB. specialize (HB r I).
  rewrite Hm, Hk in HB. cbn in HB. apply andb_prop in HB. destruct HB as [Hn Hp]. apply Z.eqb_eq in Hn.
  exists r. repeat split; auto.
Qed.
Print Assumptions C01_fwait_reading.

(* round 5: the decoders return suffixes (X86LengthProofs.v: every decoder of the structural model, the head decoder a proper suffix),
   so EVERY reading of ANY byte string is between one byte and the bytes given -- for all inputs, no sweep *)
Theorem C01_denote_len_bounds : forall m bs rid ops dd len,
  In (rid, ops, dd, len) (denote2 bucket wbucket m bs) -> (1 <= len <= length bs)%nat.
Proof. exact (denote2_len_bounds bucket wbucket). Qed.
Print Assumptions C01_denote_len_bounds.

(* ... hence the two readings of bytes that start with 9B never have the same length: FWAIT alone is one byte, a wait reading at least two *)
Theorem C01_denote2_readings_separated : forall m rest rid1 ops1 dd1 len1 rid2 ops2 dd2 len2,
  In (rid1, ops1, dd1, len1) (denote bucket m (155 :: rest)) -> In (rid2, ops2, dd2, len2) (denote wbucket m rest) ->
  len1 = 1%nat /\ (2 <= S len2)%nat.
Proof.
  intros m rest rid1 ops1 dd1 len1 rid2 ops2 dd2 len2 H1 H2. split.
  - destruct (C01_fwait_reading _ _ _ _ _ _ H1) as [r [_ [_ [_ Hl]]]]. exact Hl.
  - exact (wait_reading_len wbucket m rest rid2 ops2 dd2 len2 H2).
Qed.
Print Assumptions C01_denote2_readings_separated.

(* non-vacuity of the length / reading theorems: 9B alone has exactly the one-byte FWAIT reading; 9B DD 38 has the one-byte FWAIT
   reading and the three-byte fstsw reading *)
Theorem C01_example_readings_of_9b :
  map (fun c => match c with (_, _, _, len) => len end) (denote2 bucket wbucket M32 [155]) = [1%nat] /\
  map (fun c => match c with (_, _, _, len) => len end) (denote2 bucket wbucket M32 [155; 221; 56]) = [1%nat; 3%nat].
Proof. exact ex_fwait_alone. Qed.
Print Assumptions C01_example_readings_of_9b.

(* round 6: FRAME.  A reading depends only on the bytes it consumes plus at most ONE byte of lookahead (the byte after C4 / C5 / 62 / 8F,
   which in 32-bit mode separates les / lds / bound / pop from VEX / EVEX / XOP): every reading of a byte string -- row, operands,
   decorations, length -- is a reading of its first `len` bytes followed by ANY bytes whose first byte is the original next byte.  For all rows, modes, byte strings: what follows an instruction in the buffer cannot change how
   it is read.  (X86FrameProofs.v: every decoder of the model consumes a prefix of its input and returns the rest untouched.) *)
Theorem C01_denote_frame : forall m bs rid ops dd len,
  In (rid, ops, dd, len) (denote2 bucket wbucket m bs) ->
  forall t, hd_error t = hd_error (skipn len bs) ->
  In (rid, ops, dd, len) (denote2 bucket wbucket m (firstn len bs ++ t)).
Proof. exact (denote2_frame bucket wbucket). Qed.
Print Assumptions C01_denote_frame.

(* ... and for THIS database the lookahead condition is discharged: every legacy map-0 row with opcode C4 / C5 / 62 / 8F (les, lds, bound,
   pop r/m) consumes a ModRM byte (db_lookahead_safe, reflection over both bucket functions), so the byte the head decoder looks at is one
   the reading consumes.  Every reading is a reading of its first `len` bytes followed by ANY bytes: for all byte strings, modes and
   rows of the database, what follows an instruction in the buffer cannot change how it is read *)
Theorem C01_denote_frame_all : forall m bs rid ops dd len,
  In (rid, ops, dd, len) (denote2 bucket wbucket m bs) ->
  forall t, In (rid, ops, dd, len) (denote2 bucket wbucket m (firstn len bs ++ t)).
Proof.
  pose proof db_lookahead_safe as H. apply andb_prop in H. destruct H as [H1 H2].
  exact (denote2_frame_all bucket wbucket H1 H2).
Qed.
Print Assumptions C01_denote_frame_all.

(* end-to-end completeness (round 6): the judge ACCEPTS every specification encoding.  For a well-formed instruction s under any admissible
   encoder choice and any admissible prefix order that satisfies the constraints of a database row r of its opcode bucket, the bytes
   senc_ord ps s are judged 0 for every call whose decorations and operands match what the row's inverse operand map reads off s.  So a
   verdict other than 0 on an accepted call is never an artefact of the judge: either the bytes are not such an encoding of the call, or the
   call differs from what they encode *)
Theorem C01_judge_accepts_spec_encoding : forall ps m r r' s c ops0 name ops dc,
  let sh := shape_of_row m r (rhead_of s) in
  let bs := senc_ord ps m sh s c in
  wf m sh s = true -> adm m sh s c = true -> prefix_order_ok ps (s_pfx s) = true -> In r (bucket (s_opc s)) ->
  head_ok m r (rhead_of s) = true -> tail_ok m r s = true -> mk_operands m r s (r_ops r) = Some ops0 ->
  row_of (r_id r) = Some r' -> r_name r' = name -> deco_match dc (deco_of r s) = true ->
  (let dops := rel_from_start (r_ops r) ops0 (Z.of_nat (length bs)) in
   ops_match m (r_ops r') (op_bits (r_ops r')) ops dops = true \/
   ops_match m (explicit_specs (r_ops r')) (op_bits (r_ops r')) ops (explicit_only (r_ops r') dops) = true) ->
  fst (judge bucket wbucket row_of m name ops dc bs) = 0.
Proof.
  intros ps m r r' s c ops0 name ops dc sh bs Hwf Hadm Hord Hb Hh Ht Hm Hr Hn Hd Ho.
  pose proof (denote_senc_ord bucket ps m r s c [] ops0 Hwf Hadm Hord Hb Hh Ht Hm) as D. cbv zeta in D. fold sh in D.
  rewrite app_nil_r in D. fold bs in D.
  apply (C01_judge_ok_complete m name ops dc bs (r_id r) (rel_from_start (r_ops r) ops0 (Z.of_nat (length bs))) (deco_of r s) r'); try assumption.
  apply denote2_plain. exact D.
Qed.
Print Assumptions C01_judge_accepts_spec_encoding.

Theorem C01_example_frame :
  map (fun c => match c with (rid, _, _, len) => (rid, len) end) (denote2 bucket wbucket M64 [72; 1; 200]) =
  map (fun c => match c with (rid, _, _, len) => (rid, len) end) (denote2 bucket wbucket M64 [72; 1; 200; 196; 98; 155; 240; 102]) /\
  length (denote2 bucket wbucket M64 [72; 1; 200]) = 1%nat.
Proof. exact ex_frame_add. Qed.
Print Assumptions C01_example_frame.

(* round 6: uniqueness for the denotation the judge really uses (`denote2`), all cases: any two readings of any byte string are two
   one-instruction readings (overlapping rows of one bucket, same mnemonic up to the alias list), or two wait readings (the same for the
   wait buckets), or have DIFFERENT lengths (FWAIT alone against FWAIT + wait form) -- so among the full-length readings the mnemonic is
   unique up to aliases, for all inputs *)
Theorem C01_denote2_unique : forall m bs rid1 ops1 dd1 len1 rid2 ops2 dd2 len2,
  In (rid1, ops1, dd1, len1) (denote2 bucket wbucket m bs) -> In (rid2, ops2, dd2, len2) (denote2 bucket wbucket m bs) ->
  (exists r1 r2 h, In r1 (bucket (rh_opc h)) /\ In r2 (bucket (rh_opc h)) /\ r_id r1 = rid1 /\ r_id r2 = rid2 /\
                   may_overlap r1 r2 = true /\ alias_ok db_aliases (r_name r1) (r_name r2) = true) \/
  (exists r1 r2 h, In r1 (wbucket (rh_opc h)) /\ In r2 (wbucket (rh_opc h)) /\ r_id r1 = rid1 /\ r_id r2 = rid2 /\
                   may_overlap r1 r2 = true /\ alias_ok db_aliases (r_name r1) (r_name r2) = true) \/
  len1 <> len2.
Proof.
  intros m bs rid1 ops1 dd1 len1 rid2 ops2 dd2 len2 H1 H2.
  apply C01_denote2_cases in H1. apply C01_denote2_cases in H2.
  destruct H1 as [H1|[rest1 [l1 [E1 [L1 H1]]]]]; destruct H2 as [H2|[rest2 [l2 [E2 [L2 H2]]]]].
  - left. exact (denote_unique_names bucket db_aliases db_unique _ _ _ _ _ _ _ _ _ _ H1 H2).
  - right. right. subst bs len2. destruct (C01_denote2_readings_separated _ _ _ _ _ _ _ _ _ _ H1 H2) as [A B]. subst len1. intros E. rewrite <- E in B. inversion B. inversion H0.
  - right. right. subst bs len1. destruct (C01_denote2_readings_separated _ _ _ _ _ _ _ _ _ _ H2 H1) as [A B]. subst len2. intros E. rewrite E in B. inversion B. inversion H0.
  - right. left. rewrite E1 in E2. inversion E2; subst rest2. exact (denote_unique_names wbucket db_aliases db_wait_unique _ _ _ _ _ _ _ _ _ _ H1 H2).
Qed.
Print Assumptions C01_denote2_unique.

(* round 6: the four verdicts of the judge, each characterised exactly, for all inputs: 0 = some good reading has the full length;
   1 = no reading; 2 = readings, none good; 3 = good readings, none of the full length (good_reading = the test of one reading: row of
   the called mnemonic, decorations and operands match) *)
Theorem C01_judge_verdicts_spec : forall m name ops dc bs,
  let v := fst (judge bucket wbucket row_of m name ops dc bs) in
  let rs := denote2 bucket wbucket m bs in
  (v = 0 <-> exists c, In c rs /\ good_reading row_of m name ops dc c = true /\ reading_len c = length bs) /\
  (v = 1 <-> rs = []) /\
  (v = 2 <-> rs <> [] /\ forall c, In c rs -> good_reading row_of m name ops dc c = false) /\
  (v = 3 <-> (exists c, In c rs /\ good_reading row_of m name ops dc c = true) /\
             forall c, In c rs -> good_reading row_of m name ops dc c = true -> reading_len c <> length bs).
Proof. exact (judge_verdicts_spec bucket wbucket row_of). Qed.
Print Assumptions C01_judge_verdicts_spec.

(* the judged call in the instruction stream: when the judge answers 0 for the appended bytes bs, some reading of bs that is the call
   (good_reading) has the full length, and it is a reading -- same row, operands, decorations, length |bs| -- of bs followed by ANY bytes:
   whatever is appended after the instruction, the stream starts with the call and the next instruction starts right after it *)
Theorem C01_judged_call_in_stream : forall m name ops dc bs,
  fst (judge bucket wbucket row_of m name ops dc bs) = 0 ->
  exists c, good_reading row_of m name ops dc c = true /\ reading_len c = length bs /\
            forall t, In c (denote2 bucket wbucket m (bs ++ t)).
Proof.
  intros m name ops dc bs H.
  destruct (C01_judge_verdicts_spec m name ops dc bs) as [[H0 _] _]. cbv zeta in H0. destruct (H0 H) as [c [Hin [Hg Hl]]].
  exists c. repeat split; try assumption. intros t.
  destruct c as [[[rid dops] dd] len]. cbn [reading_len] in Hl. subst len.
  pose proof (C01_denote_frame_all m bs rid dops dd (length bs) Hin t) as F. rewrite firstn_all in F. exact F.
Qed.
Print Assumptions C01_judged_call_in_stream.


(* round 6, encoder side: the structural encoder is prefix-free and injective whatever the encoder choices -- no byte string is the
   encoding of two instructions, no encoding is a proper prefix of another -- and the round trip holds for AsmJit's choice of
   ModRM.mod with NO admissibility hypothesis left *)
Theorem C01_senc_prefix_free : forall m sh s c r s' c' r',
  wf m sh s = true -> adm m sh s c = true -> wf m sh s' = true -> adm m sh s' c' = true ->
  senc m sh s c ++ r = senc m sh s' c' ++ r' ->
  s = s' /\ senc m sh s c = senc m sh s' c' /\ r = r'.
Proof. exact senc_prefix_free. Qed.
Print Assumptions C01_senc_prefix_free.

Theorem C01_sdec_senc_aj : forall m sh s c rest,
  wf m sh s = true ->
  match s_modrm s with MMem _ mm => c_mod c = aj_mod (a16 m (s_pfx s)) (sh_n sh) mm | _ => True end ->
  sdec m sh (senc m sh s c ++ rest) = Some (s, length (senc m sh s c)).
Proof. exact sdec_senc_aj. Qed.
Print Assumptions C01_sdec_senc_aj.

(* round 6: the round trip for ANY order of the legacy prefixes.  senc_ord ps = the structural encoder with the prefix bytes ps in place of
   the canonical list; prefix_order_ok ps p (decidable): ps are prefix bytes, as many as the canonical list, setting exactly the record p.
   AsmJit's order (lock / rep, segment, 67, then the mandatory 66 / F2 / F3) is one instance; every other permutation is covered too *)
Theorem C01_sdec_senc_any_prefix_order : forall ps m sh s c rest,
  wf m sh s = true -> adm m sh s c = true -> prefix_order_ok ps (s_pfx s) = true ->
  sdec m sh (senc_ord ps m sh s c ++ rest) = Some (s, length (senc_ord ps m sh s c)).
Proof. exact sdec_senc_ord. Qed.
Print Assumptions C01_sdec_senc_any_prefix_order.

Theorem C01_prefix_order_examples :
  let p := mkP true false false true true 5 in
  enc_prefixes p = [240; 100; 102; 103] /\ prefix_order_ok [240; 100; 103; 102] p = true /\ prefix_order_ok [103; 102; 100; 240] p = true /\
  prefix_order_ok [240; 100; 103; 102; 102] p = false /\ prefix_order_ok [240; 100; 103] p = false /\ prefix_order_ok [240; 101; 103; 102] p = false.
Proof. exact prefix_order_examples. Qed.
Print Assumptions C01_prefix_order_examples.

(* round 6: byte-exact re-encoding.  `reencodes` (decidable; evaluated by the extracted model for every accepted call, evidence
   calls_whose_bytes_are_an_output_of_the_proven_encoder) says the first len bytes ARE senc_ord of a well-formed instruction under an
   admissible choice and an admissible prefix order; then the byte string is that encoding followed by the rest, and decodes to it *)
Theorem C01_reencodes_sdec : forall m sh s c ps bs len, reencodes m sh s c ps bs len = true ->
  bs = senc_ord ps m sh s c ++ skipn len bs /\ sdec m sh bs = Some (s, length (senc_ord ps m sh s c)).
Proof. exact reencodes_sdec. Qed.
Print Assumptions C01_reencodes_sdec.

(* the meaning of a `true` answer of the extracted check that runs on every accepted call, as a theorem (not by reading its code) *)
Theorem C01_reencode_check_sound : forall m bs rid, In (rid, true) (reencode_check bucket m bs) ->
  exists sh s c ps len, bs = senc_ord ps m sh s c ++ skipn len bs /\ sdec m sh bs = Some (s, length (senc_ord ps m sh s c)).
Proof. exact (reencode_check_sound bucket). Qed.
Print Assumptions C01_reencode_check_sound.

Theorem C01_reencodes_example :
  let sh := mkSh true false 0 1 in
  let s := mkS (mkP true false false true true 5) KLeg false false 0 false 0 0 0 1 0 false false (MMem 0 (mkM (BReg 3) None 0 0)) 0 in
  reencodes M32 sh s (mkC false 0 false) [240; 100; 103; 102] [240; 100; 103; 102; 1; 7; 144] 6 = true /\
  reencodes M32 sh s (mkC false 0 false) [240; 100; 103; 102; 102] [240; 100; 103; 102; 102; 1; 7; 144] 7 = false /\
  sdec M32 sh [240; 100; 103; 102; 102; 1; 7; 144] = Some (s, 7%nat).
Proof. exact reencodes_example. Qed.
Print Assumptions C01_reencodes_example.

(* round 6: readings do not depend on the order of the prefixes, and the containment theorem holds for every admissible order *)
Theorem C01_denote_any_prefix_order : forall m ps p X, wf_pfx p = true -> prefix_order_ok ps p = true ->
  denote bucket m (ps ++ X) = denote bucket m (enc_prefixes p ++ X).
Proof. exact (denote_any_order bucket). Qed.
Print Assumptions C01_denote_any_prefix_order.

Theorem C01_denote_senc_any_prefix_order : forall ps m r s c rest ops,
  let sh := shape_of_row m r (rhead_of s) in
  wf m sh s = true -> adm m sh s c = true -> prefix_order_ok ps (s_pfx s) = true -> In r (bucket (s_opc s)) ->
  head_ok m r (rhead_of s) = true -> tail_ok m r s = true -> mk_operands m r s (r_ops r) = Some ops ->
  In (r_id r, rel_from_start (r_ops r) ops (Z.of_nat (length (senc_ord ps m sh s c))), deco_of r s, length (senc_ord ps m sh s c))
     (denote bucket m (senc_ord ps m sh s c ++ rest)).
Proof. exact (denote_senc_ord bucket). Qed.
Print Assumptions C01_denote_senc_any_prefix_order.

(* round 6: all three encoder choices of the emitter inside the model (X86Shortest.aj_choices: two-byte VEX whenever possible, a SIB byte only
   where needed, mod = aj_mod): admissible for EVERY instruction -- so the round trip needs no `adm` hypothesis for them -- and the
   SHORTEST encoding among all admissible choices.  The check compares the VEX / SIB / mod choices of every accepted call with them
   (evidence: calls_whose_vex_and_sib_choices_are_the_modelled_ones, calls_whose_mod_field_is_the_modelled_choice) *)
Theorem C01_aj_choices_admissible : forall m sh s, adm m sh s (aj_choices m sh s) = true.
Proof. exact aj_choices_adm. Qed.
Print Assumptions C01_aj_choices_admissible.

Theorem C01_aj_choices_shortest : forall m sh s c, adm m sh s c = true ->
  (length (senc m sh s (aj_choices m sh s)) <= length (senc m sh s c))%nat.
Proof. exact aj_choices_shortest. Qed.
Print Assumptions C01_aj_choices_shortest.

Theorem C01_aj_choices_example :
  let sh := mkSh true false 0 1 in
  let s := mkS (mkP false false false false false 0) KLeg false false 0 false 0 0 0 139 0 false false (MMem 1 (mkM (BReg 0) None 0 0)) 0 in
  aj_choices M32 sh s = mkC false 0 false /\ senc M32 sh s (aj_choices M32 sh s) = [139; 8] /\
  length (senc M32 sh s (mkC false 2 true)) = 7%nat.
Proof. exact aj_choices_example. Qed.
Print Assumptions C01_aj_choices_example.

(* round 6: the legacy opcodes that double as VEX / EVEX lead bytes -- les (C4), lds (C5), bound (62) in 32-bit mode -- which X86Model.wf
   excludes: their own round trip (X86Leg32.wf_leg32: exactly these instructions, memory form), for any prefix order through
   reencodes32.  With it every instruction AsmJit emits in either mode has a proved round trip *)
Theorem C01_sdec_senc_leg32 : forall sh s c rest, wf_leg32 sh s = true -> adm M32 sh s c = true ->
  sdec M32 sh (senc M32 sh s c ++ rest) = Some (s, length (senc M32 sh s c)).
Proof. exact sdec_senc_leg32. Qed.
Print Assumptions C01_sdec_senc_leg32.

Theorem C01_reencodes32_sdec : forall sh s c ps bs len, reencodes32 sh s c ps bs len = true ->
  bs = senc_ord ps M32 sh s c ++ skipn len bs /\ sdec M32 sh bs = Some (s, length (senc_ord ps M32 sh s c)).
Proof. exact reencodes32_sdec. Qed.
Print Assumptions C01_reencodes32_sdec.

Theorem C01_leg32_example :
  let sh := mkSh true false 0 1 in
  let s := mkS p0 KLeg false false 0 false 0 0 0 196 0 false false (MMem 7 (mkM BNone (Some 7) 3 1024)) 0 in
  wf_leg32 sh s = true /\ wf M32 sh s = false /\ senc M32 sh s (mkC false 0 false) = [196; 60; 253; 0; 4; 0; 0] /\
  sdec M32 sh [196; 60; 253; 0; 4; 0; 0; 144] = Some (s, 7%nat).
Proof. exact leg32_example. Qed.
Print Assumptions C01_leg32_example.

Theorem C01_senc_choices_example :
  let sh := mkSh true false 0 1 in
  let s := mkS (mkP false false false false false 0) KLeg false false 0 false 0 0 0 139 0 false false (MMem 1 (mkM (BReg 0) None 0 0)) 0 in
  wf M32 sh s = true /\ adm M32 sh s (mkC false 0 false) = true /\ adm M32 sh s (mkC false 2 true) = true /\
  senc M32 sh s (mkC false 0 false) = [139; 8] /\ senc M32 sh s (mkC false 2 true) = [139; 140; 32; 0; 0; 0; 0] /\
  aj_mod (a16 M32 (s_pfx s)) (sh_n sh) (mkM (BReg 0) None 0 0) = 0.
Proof. exact senc_choices_example. Qed.
Print Assumptions C01_senc_choices_example.

(* witnesses: fstsw [eax] = 9B DD 38; an override prefix before the 9B is FWAIT's (the defect repaired by bed3c82), after it the operand's *)
Theorem C01_example_fstsw_wait : fst (judge bucket wbucket row_of M32 id_fstsw [OMem 2 0 3 0 0 0 0 0 0] (mkD false false false 0 0 false (-1)) [155; 221; 56]) = 0.
Proof. exact ex_fstsw_wait. Qed.
Print Assumptions C01_example_fstsw_wait.
Theorem C01_fstsw_prefix_before_fwait_refuted :
  fst (judge bucket wbucket row_of M32 id_fstsw [OMem 2 1 3 0 0 0 0 0 0] (mkD false false false 0 0 false (-1)) [38; 155; 221; 56]) = 2 /\
  fst (judge bucket wbucket row_of M32 id_fstsw [OMem 2 1 3 0 0 0 0 0 0] (mkD false false false 0 0 false (-1)) [155; 38; 221; 56]) = 0.
Proof. exact ex_fstsw_wait_prefix_order. Qed.
Print Assumptions C01_fstsw_prefix_before_fwait_refuted.

(* the row the judge finds by id (row_of) reads mnemonic and decorations exactly like the opcode bucket's row of that id *)
Theorem C01_db_bucket_row_of : forallb (fun o => bucket_row_of_ok row_of (bucket_raw o)) (zrange 256) = true.
Proof. exact db_bucket_row_of_raw. Qed.
Print Assumptions C01_db_bucket_row_of.

(* the uniqueness side, judged per call: the list the judge reports next to the verdict is exactly the set of OTHER mnemonics
   the same bytes denote in full (the check accepts only reviewed aliases, corpus/C01_db_alias.txt) *)
Theorem C01_other_names_spec : forall m name bs rid,
  In rid (other_names bucket wbucket row_of m name bs) <->
  exists ops dd r, In (rid, ops, dd, length bs) (denote2 bucket wbucket m bs) /\ row_of rid = Some r /\ r_name r <> name.
Proof. exact (other_names_spec bucket wbucket row_of). Qed.
Print Assumptions C01_other_names_spec.

(* C01_denote_unique of the design, in two theorems.  (1) containment: the structural encoding (any admissible encoder choice, any
   following bytes) of a well-formed instruction satisfying the constraints of a database row of its opcode bucket denotes that row,
   with the operands of the inverse operand map and exactly the emitted length -- all register ids, displacements, immediates *)
Theorem C01_denote_senc : forall m r s c rest ops,
  let sh := shape_of_row m r (rhead_of s) in
  wf m sh s = true -> adm m sh s c = true -> In r (bucket (s_opc s)) ->
  head_ok m r (rhead_of s) = true -> tail_ok m r s = true -> mk_operands m r s (r_ops r) = Some ops ->
  In (r_id r, rel_from_start (r_ops r) ops (Z.of_nat (length (senc m sh s c))), deco_of r s, length (senc m sh s c))
     (denote bucket m (senc m sh s c ++ rest)).
Proof. exact (denote_senc bucket). Qed.
Print Assumptions C01_denote_senc.

(* (2) uniqueness of the mnemonic: ANY two denotations of ANY byte string come from rows that overlap syntactically, and -- by
   reflection over every opcode bucket of the regenerated database -- overlapping rows name the same mnemonic or a pair of
   corpus/C01_db_alias.txt (reviewed aliases: push/pushw, nop/xchg) or corpus/C01_db_ambiguous.txt (two recorded database defects).
   Not proved: that the operand lists of two alias rows are equal (the judge compares operands per call). *)
Theorem C01_denote_unique : forall m bs rid1 ops1 dd1 len1 rid2 ops2 dd2 len2,
  In (rid1, ops1, dd1, len1) (denote bucket m bs) -> In (rid2, ops2, dd2, len2) (denote bucket m bs) ->
  exists r1 r2 h, In r1 (bucket (rh_opc h)) /\ In r2 (bucket (rh_opc h)) /\ r_id r1 = rid1 /\ r_id r2 = rid2 /\
                  may_overlap r1 r2 = true /\ alias_ok db_aliases (r_name r1) (r_name r2) = true.
Proof. exact (denote_unique_names bucket db_aliases db_unique). Qed.
Print Assumptions C01_denote_unique.

(* (3) operands (round 4): with the sharper overlap relation (EVEX vector length, address-size prefix) two denotations of the same bytes
   by rows of the SAME mnemonic come from rows with EQUAL operand specifications -- the operands are read from the same fields in the same
   way -- unless the mnemonic is one of the 16 reviewed ones of corpus/C01_same_ops_exceptions.txt (true second readings: implied st(1),
   commutative xchg, nop /0 inside /r; and three database findings) *)
Theorem C01_denote_unique_ops : forall m bs rid1 ops1 dd1 len1 rid2 ops2 dd2 len2,
  In (rid1, ops1, dd1, len1) (denote bucket m bs) -> In (rid2, ops2, dd2, len2) (denote bucket m bs) ->
  exists r1 r2 h, In r1 (bucket (rh_opc h)) /\ In r2 (bucket (rh_opc h)) /\ r_id r1 = rid1 /\ r_id r2 = rid2 /\
                  extra_overlap r1 r2 = true /\
                  (r_name r1 = r_name r2 -> existsb (Z.eqb (r_name r1)) db_same_ops_exceptions = false -> r_ops r1 = r_ops r2).
Proof. exact (denote_unique_ops bucket db_same_ops_exceptions db_same_ops). Qed.
Print Assumptions C01_denote_unique_ops.

Theorem C01_db_same_ops :
  forallb (fun o => bucket_same_ops db_same_ops_exceptions (bucket_raw o)) (zrange 256) = true /\
  forallb (fun o => bucket_same_ops db_same_ops_exceptions (wbucket_raw o)) (zrange 256) = true.
Proof. exact (conj db_same_ops_raw db_wait_same_ops_raw). Qed.
Print Assumptions C01_db_same_ops.

(* non-vacuity of (3): a same-mnemonic pair of distinct rows passes both overlap relations; another passes the old relation only *)
Theorem C01_db_same_ops_nonvacuous :
  same_name_pair (fun r1 r2 => may_overlap r1 r2 && extra_overlap r1 r2 && ops_eqb (r_ops r1) (r_ops r2)) &&
  same_name_pair (fun r1 r2 => may_overlap r1 r2 && negb (extra_overlap r1 r2) && negb (ops_eqb (r_ops r1) (r_ops r2))) = true.
Proof. exact db_same_ops_nonvacuous. Qed.
Print Assumptions C01_db_same_ops_nonvacuous.

Theorem C01_db_unique : forallb (fun o => bucket_unique db_aliases (bucket_raw o)) (zrange 256) = true.
Proof. exact db_unique_raw. Qed.
Print Assumptions C01_db_unique.

(* round 5: a piece of the EMITTER inside the model.  X86Choice.aj_mod is AsmJit's choice of the ModRM.mod field for a memory operand with
   a base register (EmitModSib), written after the source.  It is an admissible choice of the structural encoder -- so C01_sdec_senc covers
   what AsmJit chooses -- and the shortest one; the check compares it with the mod field actually emitted on every accepted call
   (evidence: calls_whose_mod_field_is_the_modelled_choice; the only deviations are the known EVEX + 16-bit-addressing finding) *)
Theorem C01_aj_mod_admissible : forall a16 n mm v3 sib, adm_mem a16 n mm (mkC v3 (aj_mod a16 n mm) sib) = true.
Proof. exact aj_mod_adm. Qed.
Print Assumptions C01_aj_mod_admissible.

Theorem C01_aj_mod_shortest : forall a16 n mm c, adm_mem a16 n mm c = true -> 0 <= c_mod c -> aj_mod a16 n mm <= c_mod c.
Proof. exact aj_mod_minimal. Qed.
Print Assumptions C01_aj_mod_shortest.

Theorem C01_aj_mod_examples :
  aj_mod false 1 (mkM (BReg 5) None 0 0) = 1 /\ aj_mod false 1 (mkM (BReg 13) None 0 0) = 1 /\ aj_mod false 1 (mkM (BReg 0) None 0 0) = 0 /\
  aj_mod false 64 (mkM (BReg 0) None 0 8128) = 1 /\ aj_mod false 64 (mkM (BReg 0) None 0 8192) = 2 /\ aj_mod false 64 (mkM (BReg 0) None 0 65) = 2 /\
  aj_mod true 1 (mkM (BReg 5) None 0 0) = 1 /\ aj_mod true 1 (mkM (BReg 5) (Some 6) 0 0) = 0.
Proof. exact aj_mod_examples. Qed.
Print Assumptions C01_aj_mod_examples.

(* witnesses on the regenerated database: accepted encodings are mapped back to their call ... *)
Theorem C01_example_add_rax_rcx : fst (judge bucket wbucket row_of M64 id_add [OReg 4 0; OReg 4 1] (mkD false false false 0 0 false (-1)) [72; 1; 200]) = 0.
Proof. exact ex_add_rax_rcx. Qed.
Print Assumptions C01_example_add_rax_rcx.

(* ... and the encodings of the defects found in the pinned tree are not (DESIGN 7.17, 7.2, REX order, mov ah/moffs; repaired by fixes/C01-*.patch) *)
Theorem C01_mod16_bp_pinned_refuted : denote bucket M32 [103; 139; 14] = [] /\
  fst (judge bucket wbucket row_of M32 id_mov [OReg 3 1; OMem 4 0 2 5 0 0 0 0 0] (mkD false false false 0 0 false (-1)) [103; 139; 14; 144; 144]) = 2.
Proof. exact ex_mov_ecx_bp_pinned_refuted. Qed.
Print Assumptions C01_mod16_bp_pinned_refuted.

Theorem C01_kreg_id_pinned_refuted :
  fst (judge bucket wbucket row_of M64 id_vaddps [OReg 8 1; OReg 8 2; OReg 8 3] (mkD false false false 0 9 false (-1)) [98; 241; 108; 65; 88; 203]) = 2.
Proof. exact ex_vaddps_k9_refuted. Qed.
Print Assumptions C01_kreg_id_pinned_refuted.

Theorem C01_rex_order_pinned_refuted : denote bucket M64 [72; 54; 103; 173] = [] /\
  fst (judge bucket wbucket row_of M64 id_lods [OReg 4 0; OMem 8 3 3 6 0 0 0 0 0] (mkD false false false 0 0 false (-1)) [54; 103; 72; 173]) = 0.
Proof. exact ex_rex_order_refuted. Qed.
Print Assumptions C01_rex_order_pinned_refuted.

Theorem C01_mov_ah_moffs_pinned_refuted :
  fst (judge bucket wbucket row_of M32 id_mov [OMem 1 0 0 0 0 0 0 4096 0; OReg 16 0] (mkD false false false 0 0 false (-1)) [162; 0; 16; 0; 0]) = 2 /\
  fst (judge bucket wbucket row_of M32 id_mov [OMem 1 0 0 0 0 0 0 4096 0; OReg 1 0] (mkD false false false 0 0 false (-1)) [162; 0; 16; 0; 0]) = 0.
Proof. exact ex_mov_ah_moffs_refuted. Qed.
Print Assumptions C01_mov_ah_moffs_pinned_refuted.

(* known finding: EVEX + 16-bit addressing, disp8 emitted unscaled *)
Theorem C01_evex_addr16_disp8_refuted :
  fst (judge bucket wbucket row_of M32 id_vpabsq [OReg 6 0; OMem 16 0 2 3 2 6 0 1 0] (mkD false false false 0 0 false (-1)) [103; 98; 242; 253; 8; 31; 64; 1]) = 2 /\
  fst (judge bucket wbucket row_of M32 id_vpabsq [OReg 6 0; OMem 16 0 2 3 2 6 0 16 0] (mkD false false false 0 0 false (-1)) [103; 98; 242; 253; 8; 31; 64; 1]) = 0.
Proof. exact ex_evex_a16_disp8_refuted. Qed.
Print Assumptions C01_evex_addr16_disp8_refuted.

(* ------------------------------------------------------------------ round 7: sequence-level lifts *)
(* the round trip for a BUFFER: the concatenated encodings of any list of well-formed instructions (each with its own shape, admissible
   encoder choices and admissible prefix order), followed by any bytes, decode instruction by instruction to exactly the list, with the
   instruction boundaries (lengths) and the trailing bytes *)
Theorem C01_sdec_senc_stream : forall m l rest, forallb (item_ok m) l = true ->
  sdec_stream m (map i_sh l) (senc_stream m l ++ rest) =
  Some (map (fun i => (i_s i, length (senc_item m i))) l, rest).
Proof. exact sdec_senc_stream. Qed.
Print Assumptions C01_sdec_senc_stream.

Theorem C01_stream_example :
  let sh := mkSh true false 0 1 in
  let s1 := mkS (mkP true false false true true 5) KLeg false false 0 false 0 0 0 1 0 false false (MMem 0 (mkM (BReg 3) None 0 0)) 0 in
  let s2 := mkS (mkP false false false false false 0) KLeg false false 0 false 0 0 0 139 0 false false (MMem 1 (mkM (BReg 0) None 0 0)) 0 in
  let l := [mkI sh s1 (mkC false 0 false) [240; 100; 103; 102]; mkI sh s2 (mkC false 0 false) []; mkI sh s2 (mkC false 2 true) []] in
  forallb (item_ok M32) l = true /\
  senc_stream M32 l = [240; 100; 103; 102; 1; 7; 139; 8; 139; 140; 32; 0; 0; 0; 0] /\
  sdec_stream M32 [sh; sh; sh] (senc_stream M32 l ++ [144]) = Some ([(s1, 6%nat); (s2, 2%nat); (s2, 7%nat)], [144]).
Proof. exact stream_example. Qed.
Print Assumptions C01_stream_example.

(* a buffer of JUDGED calls: when every call of a sequence was judged 0 on the bytes appended for it, then in the whole buffer (the
   appended byte strings one after the other, followed by anything) the bytes at the position of each call -- i.e. after the bytes of the
   calls before it -- have a reading that is that call (good_reading) and is exactly as long as its bytes: every call is read at its place
   and the next one starts right after it, whatever the neighbours are *)
Definition call_bytes (q : Z * list operand * deco * bytes) : bytes := snd q.
Theorem C01_judged_stream : forall m (calls : list (Z * list operand * deco * bytes)) tail,
  Forall (fun q => match q with (name, ops, dc, bs) => fst (judge bucket wbucket row_of m name ops dc bs) = 0 end) calls ->
  forall l1 name ops dc bs l2, calls = l1 ++ (name, ops, dc, bs) :: l2 ->
  exists c, good_reading row_of m name ops dc c = true /\ reading_len c = length bs /\
            In c (denote2 bucket wbucket m (skipn (length (concat (map call_bytes l1))) (concat (map call_bytes calls) ++ tail))).
Proof.
  intros m calls tail Hall l1 name ops dc bs l2 E. subst calls.
  rewrite Forall_forall in Hall.
  assert (Hq : In (name, ops, dc, bs) (l1 ++ (name, ops, dc, bs) :: l2)) by (apply in_or_app; right; left; reflexivity).
  specialize (Hall _ Hq). cbn in Hall.
  destruct (C01_judged_call_in_stream m name ops dc bs Hall) as [c [Hg [Hl Hs]]].
  exists c. repeat split; try assumption.
  rewrite map_app, concat_app. cbn [map concat call_bytes snd]. rewrite <- !app_assoc.
  rewrite skipn_app, Nat.sub_diag, skipn_all. cbn [skipn app]. apply Hs.
Qed.
Print Assumptions C01_judged_stream.

(* non-vacuity: two judged calls (add rax, rcx; fstsw [eax] would need 32-bit mode, so twice the add) in one buffer followed by a stray byte *)
Theorem C01_judged_stream_example :
  let q := (id_add, [OReg 4 0; OReg 4 1], mkD false false false 0 0 false (-1), [72; 1; 200]) in
  Forall (fun q => match q with (name, ops, dc, bs) => fst (judge bucket wbucket row_of M64 name ops dc bs) = 0 end) [q; q] /\
  concat (map call_bytes [q; q]) ++ [144] = [72; 1; 200; 72; 1; 200; 144].
Proof. split; [repeat constructor; exact ex_add_rax_rcx | reflexivity]. Qed.
Print Assumptions C01_judged_stream_example.


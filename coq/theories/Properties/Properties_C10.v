(* C10 — Sections are laid out without overlap and the flattened image is exact.
   This file holds ONLY the property theorems (each closed by `exact <lemma>`) and their Print Assumptions.
   Model: coq/theories/Sections/SectionModel.v (the behaviour of asmjit/core/codeholder.cpp after fixes/C10-*.patch; the
   unrepaired behaviour is `*_pinned`).  64-bit size_t.  wf_holder h: sizes are 64-bit values, alignments are what
   new_section lets through (0 only for the built-in .text, or 2^k with k <= 31).  reachable h: init, new_section,
   any size update, flatten. *)
From Coq Require Import ZArith List Bool Sorted Permutation.
From Verif Require Import Reloc.RelocModel Sections.SectionModel Sections.ChunkModel Sections.ChunkProofs Sections.JitReloc
  Sections.JitRelocProofs Sections.SectionProofs Sections.SectionTable Sections.CopyProofs
  Sections.ShrinkProofs Sections.StableProofs Sections.CoverProofs Sections.SettleProofs Sections.SectionSummary Sections.SectionExamples
  Sections.FlagsModel Sections.FlagsProofs Sections.WidthModel Sections.WidthProofs Sections.JitCopyModel Sections.JitCopyProofs Sections.BuiltProofs Sections.BuiltJit Sections.BuiltJitCalls Sections.MonoProofs Sections.IdealProofs Sections.ReachIdeal Sections.Round7Proofs.
From Verif Require Import Sections.DataIndep.
From VerifGen Require C10Consts.
Import ListNotations.
Local Open Scope Z_scope.

(* ---- the section table: sorted by (order, id), ids are exactly 0..n-1, for every holder the API can produce ---- *)
Theorem C10_sorted_by_order_then_id : forall h, reachable h ->
  StronglySorted (fun a b => sorder a < sorder b \/ (sorder a = sorder b /\ sid a < sid b)) h /\
  Permutation (map sid h) (map Z.of_nat (seq 0 (length h))) /\ wf_holder h.
Proof. exact reachable_inv. Qed.
Print Assumptions C10_sorted_by_order_then_id.

(* new_section inserts at the lower bound: smaller keys in front, larger keys behind, nothing else moves *)
Theorem C10_new_section_position : forall s l, sorted l -> (forall x, In x l -> sid x <> sid s) ->
  exists l1 l2, insert_sorted s l = l1 ++ s :: l2 /\ l = l1 ++ l2 /\
                Forall (fun x => key_ltP x s) l1 /\ Forall (fun x => key_ltP s x) l2.
Proof. exact insert_sorted_position. Qed.
Print Assumptions C10_new_section_position.

(* ---- flatten: offsets respect alignment ---- *)
Theorem C10_offsets_aligned : forall h h', wf_holder h -> flatten h = (EOk, h') ->
  forall s, In s h' -> real_size s <> 0 -> aligned (soff s) (salign s).
Proof. exact final_offsets_aligned. Qed.
Print Assumptions C10_offsets_aligned.

(* ... and no more padding than the alignment needs: the offset assigned to a non-empty section lies less than one
   alignment unit behind the end of its predecessors (l1); flatten's extension step keeps the assigned offsets *)
Theorem C10_padding_minimal : forall h, wf_holder h -> pass1 0 h = true ->
  forall l1 s l2, assign 0 h = l1 ++ s :: l2 -> real_size s <> 0 ->
  aligned (soff s) (salign s) /\ lend 0 l1 <= soff s < lend 0 l1 + Z.max 1 (salign s).
Proof. exact assign_aligned_minimal. Qed.
Print Assumptions C10_padding_minimal.

Theorem C10_flatten_keeps_assigned_offsets : forall h h', wf_holder h -> flatten h = (EOk, h') ->
  Forall2 (fun a s => real_size s <> 0 -> soff s = soff a) (assign 0 h) h'.
Proof. exact final_keeps_assigned_offsets. Qed.
Print Assumptions C10_flatten_keeps_assigned_offsets.

(* an EMPTY section sits where the next non-empty section starts — or at the end of the code (code_size) if none follows:
   never inside another section's bytes, and exactly where any later flatten() leaves it (C10_flatten_idempotent).
   (Empty sections are deliberately not aligned by the code: no padding is spent on them.) *)
Theorem C10_empty_section_placed : forall h h', wf_holder h -> flatten h = (EOk, h') ->
  forall l1 s l2, h' = l1 ++ s :: l2 -> real_size s = 0 ->
  soff s = match fne_off l2 with Some o => o | None => code_size h' end.
Proof. exact final_empty_placed. Qed.
Print Assumptions C10_empty_section_placed.

(* ---- flatten: order and disjointness for ANY two sections a before b (by-order sequence): offsets are monotone, a's
   buffer ends before b starts, and two non-empty sections do not overlap even with a's size extended over the padding ---- *)
Theorem C10_no_overlap : forall h h', wf_holder h -> flatten h = (EOk, h') ->
  forall l1 a l2 b, h' = l1 ++ a :: l2 -> In b l2 ->
  soff a <= soff b /\ soff a + sbsize a <= soff b /\ (real_size a <> 0 -> soff a + real_size a <= soff b).
Proof. exact final_no_overlap. Qed.
Print Assumptions C10_no_overlap.

(* ---- code_size = end of the last section, nothing reaches beyond it, and the estimate before flatten equals it ---- *)
Theorem C10_code_size_is_end : forall h h', wf_holder h -> flatten h = (EOk, h') ->
  (forall l1 s, h' = l1 ++ [s] -> code_size h' = soff s + real_size s) /\
  (forall s, In s h' -> 0 <= soff s /\ soff s + real_size s <= code_size h' /\ code_size h' < W64) /\
  code_size h' = code_size h.
Proof. exact final_code_size_is_end. Qed.
Print Assumptions C10_code_size_is_end.

(* overflow handling: flatten fails exactly when pass 1 leaves 64 bits, changes nothing then, and code_size says SIZE_MAX;
   otherwise flatten succeeds and code_size is a genuine size below 2^64 *)
Theorem C10_code_size_overflow : forall h, wf_holder h ->
  (pass1 0 h = false <-> flatten h = (ETooLarge, h)) /\ (pass1 0 h = false -> code_size h = SIZE_MAX) /\
  (pass1 0 h = true -> exists h', flatten h = (EOk, h') /\ code_size h < W64).
Proof. exact code_size_overflow_all. Qed.
Print Assumptions C10_code_size_overflow.

(* the padding in front of a non-empty section belongs to its predecessors: they end exactly at its offset (so
   kPadSectionBuffer zero-fills every gap) *)
Theorem C10_padding_owned : forall h h', wf_holder h -> flatten h = (EOk, h') ->
  forall l1 s l2, h' = l1 ++ s :: l2 -> real_size s <> 0 -> lend_ne 0 l1 = soff s.
Proof. exact final_padding_owned. Qed.
Print Assumptions C10_padding_owned.

(* what flatten must NOT change: ids, orders, alignments, buffer sizes, bytes and names of every section stay (`core`), the
   number and sequence of sections stays; only offsets move and virtual sizes grow (never for an empty section) *)
Theorem C10_flatten_preserves : forall h h', wf_holder h -> flatten h = (EOk, h') ->
  Forall wf_sec h' /\
  Forall2 (fun s s' => (sid s', sorder s', salign s', sbsize s', sdata s', sname s') = (sid s, sorder s, salign s, sbsize s, sdata s, sname s) /\
                       svsize s <= svsize s' /\ (real_size s = 0 -> svsize s' = svsize s) /\ real_size s <= real_size s') h h'.
Proof. exact flatten_final_rel. Qed.
Print Assumptions C10_flatten_preserves.

(* ---- idempotence in full: flatten (flatten h) = flatten h, for every section, empty ones included ---- *)
Theorem C10_flatten_idempotent : forall h h', wf_holder h -> flatten h = (EOk, h') -> flatten h' = (EOk, h').
Proof. exact flatten_idempotent. Qed.
Print Assumptions C10_flatten_idempotent.

(* ---- copy_flattened_data ---- *)
(* refusal: kInvalidArgument exactly when some section's buffer does not fit into dst_size (too_small), kOk otherwise;
   a destination of code_size() bytes is always accepted.  Any list of sections, flattened or not. *)
Theorem C10_copy_refuses_small :
  (forall l mem dst ps pt, fst (copy_flat l mem dst ps pt) = if existsb (too_small dst) l then EInvalidArgument else EOk) /\
  (forall h h' dst, wf_holder h -> flatten h = (EOk, h') -> code_size h' <= dst -> existsb (too_small dst) h' = false).
Proof. exact copy_refuses_small_all. Qed.
Print Assumptions C10_copy_refuses_small.

(* what a REFUSED copy leaves behind: the sections in front of the first one that does not fit have been copied (and padded) exactly
   as a successful copy of that prefix does; the offending section and everything behind it were not touched; kPadTargetBuffer
   is not applied *)
Theorem C10_copy_refused_prefix : forall l1 s l2 mem dst ps pt,
  existsb (too_small dst) l1 = false -> too_small dst s = true ->
  copy_flat (l1 ++ s :: l2) mem dst ps pt = (EInvalidArgument, snd (fst (copy_loop l1 mem dst ps 0))) /\
  fst (fst (copy_loop l1 mem dst ps 0)) = EOk.
Proof. exact copy_flat_refused. Qed.
Print Assumptions C10_copy_refused_prefix.

Theorem C10_example_copy_refused :
  copy_flat [mkSection 0 0 1 0 8 4 [1; 2; 3; 4] []; mkSection 1 0 8 8 0 8 [9; 9; 9; 9; 9; 9; 9; 9] []] (repeat 205 14) 12 true true
  = (EInvalidArgument, [1; 2; 3; 4; 0; 0; 0; 0; 205; 205; 205; 205; 205; 205]).
Proof. exact copy_flat_refused_example. Qed.
Print Assumptions C10_example_copy_refused.

(* never writes outside: whatever the sections look like (flattened or not) and whether the call succeeds or refuses
   half way, memory keeps its length and every cell at or beyond dst_size keeps its value *)
Theorem C10_copy_never_writes_outside : forall l mem dst ps pt, Forall data_ok l -> 0 <= dst <= Z.of_nat (length mem) ->
  length (snd (copy_flat l mem dst ps pt)) = length mem /\
  (forall c, dst <= c -> cell (snd (copy_flat l mem dst ps pt)) c = cell mem c).
Proof. exact copy_flat_in_bounds. Qed.
Print Assumptions C10_copy_never_writes_outside.

(* the exact image after a successful copy of a flattened holder: every section's bytes at its offset; with
   kPadSectionBuffer (ps) the cells between buffer end and virtual size (clipped to dst_size) are zero; with
   kPadTargetBuffer (pt) everything from the end of the written data to dst_size is zero; EVERY other cell is untouched *)
Theorem C10_copy_exact : forall h h' mem dst ps pt mem',
  wf_holder h -> data_len_ok h -> flatten h = (EOk, h') -> 0 <= dst <= Z.of_nat (length mem) ->
  copy_flat h' mem dst ps pt = (EOk, mem') ->
  length mem' = length mem /\
  (forall c, dst <= c -> cell mem' c = cell mem c) /\
  (forall s, In s h' -> forall k, 0 <= k < sbsize s -> cell mem' (soff s + k) = cell (sdata s) k) /\
  (forall s, In s h' -> forall c, soff s + sbsize s <= c < wend ps dst s -> cell mem' c = 0) /\
  (pt = true -> forall c, ends ps dst h' 0 <= c < dst -> cell mem' c = 0) /\
  (forall c, 0 <= c -> (forall s, In s h' -> ~ (soff s <= c < wend ps dst s)) -> (pt = false \/ c < ends ps dst h' 0) ->
             cell mem' c = cell mem c).
Proof. exact final_copy_exact. Qed.
Print Assumptions C10_copy_exact.

(* with kPadSectionBuffer and dst_size >= code_size every cell below code_size lies in the written region of some section
   (which then is exactly [offset, offset + real size)): together with C10_copy_exact no stale byte survives inside the image.
   This is also what JitRuntime::_add relies on when it copies sections and zero-fills up to the virtual size. *)
Theorem C10_image_total : forall h h' dst, wf_holder h -> flatten h = (EOk, h') -> code_size h' <= dst ->
  forall c, 0 <= c < code_size h' ->
  exists s, In s h' /\ soff s <= c < wend true dst s /\ wend true dst s = soff s + real_size s.
Proof. exact final_image_total. Qed.
Print Assumptions C10_image_total.

(* JitRuntime::_add without relocations (model jit_add): fails with kTooLarge exactly on overflow, with kNoCodeGenerated
   when the code size is 0; otherwise the final size is code_size and EVERY cell of the installed image is a section's
   byte at its offset or a zero of its virtual tail — independent of what the memory held before (`fill`) *)
Theorem C10_jit_image_determined : forall h fill e n img h1, wf_holder h -> data_len_ok h -> jit_add h fill = (e, n, img, h1) ->
  (e = EOk \/ e = ENoCodeGenerated \/ e = ETooLarge) /\
  (e = ETooLarge <-> pass1 0 h = false) /\
  (e = ENoCodeGenerated -> flatten h = (EOk, h1) /\ code_size h1 = 0) /\
  (e = EOk -> flatten h = (EOk, h1) /\ n = code_size h1 /\ 0 < n /\ Z.of_nat (length img) = n /\
     forall c, 0 <= c < n -> exists s, In s h1 /\
       ((soff s <= c < soff s + sbsize s /\ cell img c = cell (sdata s) (c - soff s)) \/
        (soff s + sbsize s <= c < soff s + real_size s /\ cell img c = 0))).
Proof. exact jit_image_determined. Qed.
Print Assumptions C10_jit_image_determined.

(* copy_section_data: invalid id / too small destination refused without writing; otherwise the buffer at cell 0,
   zero padding up to dst_size when asked, nothing else *)
Theorem C10_copy_section_exact : forall h mem dst id ps, 0 <= dst <= Z.of_nat (length mem) ->
  match by_id h id with
  | None => copy_section h mem dst id ps = (EInvalidSection, mem)
  | Some s =>
    Z.of_nat (length (sdata s)) = sbsize s ->
    if dst <? sbsize s then copy_section h mem dst id ps = (EInvalidArgument, mem)
    else exists mem', copy_section h mem dst id ps = (EOk, mem') /\ length mem' = length mem /\
         (forall k, 0 <= k < sbsize s -> cell mem' k = cell (sdata s) k) /\
         (forall c, sbsize s <= c < dst -> cell mem' c = if ps then 0 else cell mem c) /\
         (forall c, dst <= c -> cell mem' c = cell mem c)
  end.
Proof. exact copy_section_spec. Qed.
Print Assumptions C10_copy_section_exact.

(* ---- the run-length ("chunked") copy functions the model driver executes compute exactly the flat ones
   (offsets and buffer sizes non-negative, which every wf_holder / flattened holder satisfies) ---- *)
Theorem C10_chunked_copy_equiv :
  (forall h m dst ps pt, Forall nonneg h ->
     copy_flat h (flat m) dst ps pt = (fst (copy_flat_c h m dst ps pt), flat (snd (copy_flat_c h m dst ps pt)))) /\
  (forall h m dst id ps, (forall s, by_id h id = Some s -> 0 <= sbsize s) ->
     copy_section h (flat m) dst id ps = (fst (copy_section_c h m dst id ps), flat (snd (copy_section_c h m dst id ps)))) /\
  (forall h fill, (forall h1, flatten h = (EOk, h1) -> Forall nonneg h1) ->
     let '(e, n, img, h1) := jit_add_c h fill in jit_add h fill = (e, n, flat img, h1)).
Proof. exact (conj copy_flat_c_flat (conj copy_section_c_flat jit_add_c_flat)). Qed.
Print Assumptions C10_chunked_copy_equiv.

(* ---- relocation applied to the holder (C04's `relocate` decides the patches and the slots; JitReloc.relocate_holder writes
   them into the sections): for a holder with unique non-negative ids, proper buffers and a collision-free layout (every
   flattened reachable holder), a successful relocation keeps every offset, leaves the layout collision-free and every buffer
   as long as its size, and changes no section other than .text (id 0) and the address table ---- *)
Theorem C10_relocate_holder_ok : forall h tab calls base h2 red,
  NoDup (map sid h) -> (forall s, In s h -> 0 <= sid s) -> Forall data_ok h -> disjoint_layout h ->
  relocate_holder h tab calls base = inl (h2, red) ->
  Forall data_ok h2 /\ disjoint_layout h2 /\ Forall2 shr_rel h h2 /\ map soff h2 = map soff h /\ map sid h2 = map sid h /\
  (forall s s2, In s h -> In s2 h2 -> sid s2 = sid s -> sid s <> 0 -> Some (sid s) <> tab -> s2 = s).
Proof. exact relocate_holder_ok. Qed.
Print Assumptions C10_relocate_holder_ok.

(* a patch touches only the value word and the two opcode bytes in front of it, and never changes the buffer length *)
Theorem C10_patch_touches_only_site : forall data e o, 0 <= e_off e + e_lead e -> 0 <= OffsetModel.vsize (e_fmt e) ->
  e_off e + e_lead e + OffsetModel.vsize (e_fmt e) <= Z.of_nat (length data) ->
  length (patch_site data e o) = length data /\
  forall c, 0 <= c -> ~ (e_off e + e_lead e - 2 <= c < e_off e + e_lead e + OffsetModel.vsize (e_fmt e)) ->
            cell (patch_site data e o) c = cell data c.
Proof.
  exact (fun data e o H2 Hv Hb => conj (patch_site_length data e o H2 Hv Hb)
                                       (fun c Hc Ho => patch_site_outside data e o c H2 Hv Hb Hc Ho)).
Qed.
Print Assumptions C10_patch_touches_only_site.

(* the bytes copied after relocation are exactly the relocated holder's bytes: every (patched) section byte at its unchanged
   offset, the used table slots at the table's offset, zero padding as asked, every other cell untouched *)
Theorem C10_relocated_copy_exact : forall h tab calls base h2 red mem dst ps pt mem',
  NoDup (map sid h) -> (forall s, In s h -> 0 <= sid s) -> Forall data_ok h -> disjoint_layout h ->
  relocate_holder h tab calls base = inl (h2, red) -> 0 <= dst <= Z.of_nat (length mem) ->
  copy_flat h2 mem dst ps pt = (EOk, mem') ->
  map soff h2 = map soff h /\ length mem' = length mem /\
  (forall c, dst <= c -> cell mem' c = cell mem c) /\
  (forall s, In s h2 -> forall k, 0 <= k < sbsize s -> cell mem' (soff s + k) = cell (sdata s) k) /\
  (forall s, In s h2 -> forall c, soff s + sbsize s <= c < wend ps dst s -> cell mem' c = 0) /\
  (pt = true -> forall c, ends ps dst h2 0 <= c < dst -> cell mem' c = 0) /\
  (forall c, 0 <= c -> (forall s, In s h2 -> ~ (soff s <= c < wend ps dst s)) -> (pt = false \/ c < ends ps dst h2 0) ->
             cell mem' c = cell mem c).
Proof. exact relocated_copy_exact. Qed.
Print Assumptions C10_relocated_copy_exact.

(* JitRuntime::_add WITH relocations (model jit_add_reloc = flatten + estimate + relocate_holder + copy + shrink): the final
   size is estimate - reduction, offsets are those of the flattened holder, and every byte of the relocated sections (patched
   code, used table slots) that lies inside the final size is installed at its offset, zero tails likewise: the bytes
   installed are exactly the relocated image.  The id premise holds for every reachable holder (second theorem). *)
Theorem C10_jit_add_reloc_image : forall st calls base fill final img h2,
  wf_holder (jh st) -> data_len_ok (jh st) ->
  (forall h1, flatten (jh st) = (EOk, h1) -> NoDup (map sid h1) /\ (forall s, In s h1 -> 0 <= sid s)) ->
  jit_add_reloc st calls base fill = (JOk, final, img, h2) ->
  exists h1 red, flatten (jh st) = (EOk, h1) /\ relocate_holder h1 (jtab st) calls base = inl (h2, red) /\
    final = code_size h1 - red /\ map soff h2 = map soff h1 /\
    (forall s, In s h2 -> forall k, 0 <= k < sbsize s -> soff s + k < final -> cell (flat img) (soff s + k) = cell (sdata s) k) /\
    (forall s, In s h2 -> forall c, soff s + sbsize s <= c < wend true (code_size h1) s -> c < final -> cell (flat img) c = 0).
Proof. exact jit_add_reloc_image. Qed.
Print Assumptions C10_jit_add_reloc_image.

Theorem C10_reachable_ids_unique : forall h, reachable h -> NoDup (map sid h) /\ (forall s, In s h -> 0 <= sid s).
Proof. exact reachable_ids_unique. Qed.
Print Assumptions C10_reachable_ids_unique.

(* totality for the RELOCATED holder: every cell below the final size (estimate - reduction) lies in [offset, offset + real size)
   of a section of the relocated holder — with C10_jit_add_reloc_image / C10_relocated_copy_exact (data bytes, zero tails) no
   stale byte survives inside the installed image.  (The table's buffer must not exceed its reservation: it is empty before
   relocation.) *)
Theorem C10_relocated_image_total : forall h0 h tab calls base h2 red,
  wf_holder h0 -> flatten h0 = (EOk, h) -> NoDup (map sid h) -> (forall s, In s h -> 0 <= sid s) ->
  (forall s, In s h -> Some (sid s) = tab -> sbsize s <= svsize s) ->
  relocate_holder h tab calls base = inl (h2, red) ->
  forall c, 0 <= c < code_size h - red -> exists s2, In s2 h2 /\ soff s2 <= c < soff s2 + real_size s2.
Proof. exact relocated_image_total. Qed.
Print Assumptions C10_relocated_image_total.

(* JitRuntime::_add's debug assertion `estimated_code_size - code_size_reduction == code->code_size()` for the REAL relocated
   holder (relocate_holder: all four site kinds; table last / not last / absent); the address table has only a reservation, no
   buffer, before relocation *)
Theorem C10_relocated_code_size : forall h0 h tab calls base h2 red,
  wf_holder h0 -> flatten h0 = (EOk, h) -> NoDup (map sid h) -> (forall s, In s h -> 0 <= sid s) ->
  (forall s, In s h -> Some (sid s) = tab -> sbsize s = 0) ->
  relocate_holder h tab calls base = inl (h2, red) ->
  0 <= red /\ code_size h2 = code_size h - red /\ code_size h2 <= code_size h.
Proof. exact relocated_code_size. Qed.
Print Assumptions C10_relocated_code_size.

(* everything about relocation for holders the API can produce, with the side conditions (unique ids, well-sized buffers,
   collision-free layout) DISCHARGED from reachability: layout untouched, only .text and the table change, the reduction is what
   code_size loses, every cell below the final size belongs to a section of the relocated holder *)
Theorem C10_relocated_reachable : forall h0 h tab calls base h2 red,
  reachable h0 -> data_len_ok h0 -> flatten h0 = (EOk, h) ->
  (forall s, In s h -> Some (sid s) = tab -> sbsize s = 0) ->
  relocate_holder h tab calls base = inl (h2, red) ->
  map soff h2 = map soff h /\ map sid h2 = map sid h /\ Forall data_ok h2 /\ disjoint_layout h2 /\
  (forall s s2, In s h -> In s2 h2 -> sid s2 = sid s -> sid s <> 0 -> Some (sid s) <> tab -> s2 = s) /\
  0 <= red /\ code_size h2 = code_size h - red /\
  (forall c, 0 <= c < code_size h2 -> exists s2, In s2 h2 /\ soff s2 <= c < soff s2 + real_size s2).
Proof. exact relocated_reachable. Qed.
Print Assumptions C10_relocated_reachable.

Theorem C10_relocated_copy_exact_reachable : forall h0 h tab calls base h2 red mem dst ps pt mem',
  reachable h0 -> data_len_ok h0 -> flatten h0 = (EOk, h) ->
  relocate_holder h tab calls base = inl (h2, red) -> 0 <= dst <= Z.of_nat (length mem) ->
  copy_flat h2 mem dst ps pt = (EOk, mem') ->
  map soff h2 = map soff h /\ length mem' = length mem /\
  (forall c, dst <= c -> cell mem' c = cell mem c) /\
  (forall s, In s h2 -> forall k, 0 <= k < sbsize s -> cell mem' (soff s + k) = cell (sdata s) k) /\
  (forall s, In s h2 -> forall c, soff s + sbsize s <= c < wend ps dst s -> cell mem' c = 0) /\
  (pt = true -> forall c, ends ps dst h2 0 <= c < dst -> cell mem' c = 0) /\
  (forall c, 0 <= c -> (forall s, In s h2 -> ~ (soff s <= c < wend ps dst s)) -> (pt = false \/ c < ends ps dst h2 0) ->
             cell mem' c = cell mem c).
Proof. exact relocated_copy_exact_reachable. Qed.
Print Assumptions C10_relocated_copy_exact_reachable.

Theorem C10_jit_add_reloc_image_reachable : forall st calls base fill final img h2,
  reachable (jh st) -> data_len_ok (jh st) ->
  jit_add_reloc st calls base fill = (JOk, final, img, h2) ->
  exists h1 red, flatten (jh st) = (EOk, h1) /\ relocate_holder h1 (jtab st) calls base = inl (h2, red) /\
    final = code_size h1 - red /\ map soff h2 = map soff h1 /\
    (forall s, In s h2 -> forall k, 0 <= k < sbsize s -> soff s + k < final -> cell (flat img) (soff s + k) = cell (sdata s) k) /\
    (forall s, In s h2 -> forall c, soff s + sbsize s <= c < wend true (code_size h1) s -> c < final -> cell (flat img) c = 0).
Proof. exact jit_add_reloc_image_reachable. Qed.
Print Assumptions C10_jit_add_reloc_image_reachable.

Theorem C10_example_relocated_reachable : exists h h2,
  reachable ex_rr /\ data_len_ok ex_rr /\ flatten ex_rr = (EOk, h) /\
  (forall s, In s h -> Some (sid s) = Some 1 -> sbsize s = 0) /\
  relocate_holder h (Some 1) [SCall 0 1311768467463790320] 4194304 = inl (h2, 0) /\ code_size h2 = 16 /\
  map sdata h2 = [[255; 21; 2; 0; 0; 0]; [240; 222; 188; 154; 120; 86; 52; 18]].
Proof. exact relocated_reachable_example. Qed.
Print Assumptions C10_example_relocated_reachable.

Theorem C10_example_relocate : exists h2,
  relocate_holder ex_rel (Some 1) [SCall 0 1311768467463790320; SCall 6 4198400] 4194304 = inl (h2, 8) /\
  map sdata h2 = [ [255; 21; 10; 0; 0; 0; 64; 232; 244; 15; 0; 0]; [240; 222; 188; 154; 120; 86; 52; 18] ] /\
  map sbsize h2 = [12; 8] /\ map svsize h2 = [16; 8] /\ code_size h2 = 24.
Proof. exact ex_relocate. Qed.
Print Assumptions C10_example_relocate.

(* ---- the layout is monotone: if no section's real size grows (same sections, alignments, order) and the larger layout fits 64 bits,
   the smaller one fits too and its code_size is not larger — "the estimate is never smaller than the final size" for ANY shrinking of
   ANY sections, not only for the address table ---- *)
Theorem C10_code_size_monotone : forall h h', wf_holder h -> wf_holder h' ->
  Forall2 (fun a b => 0 <= real_size b <= real_size a /\ salign b = salign a /\ align_ok (salign a) /\ real_size a < W64) h h' ->
  pass1 0 h = true ->
  pass1 0 h' = true /\ code_size h' <= code_size h /\ code_size h < W64.
Proof. exact code_size_monotone. Qed.
Print Assumptions C10_code_size_monotone.

Theorem C10_example_code_size_monotone :
  code_size [mkSection 0 0 1 0 0 10 [] []; mkSection 1 0 64 0 0 30 [] []; mkSection 2 0 16 0 0 8 [] []] = 104 /\
  code_size [mkSection 0 0 1 0 0 10 [] []; mkSection 1 0 64 0 0 0 [] []; mkSection 2 0 16 0 0 8 [] []] = 24.
Proof. exact code_size_monotone_example. Qed.
Print Assumptions C10_example_code_size_monotone.

(* ---- estimate before relocation >= size after: the address table t is the last section; relocate_to_base shrinks it
   from the reserved virtual size to the used slots; final size = estimate - reduction <= estimate ---- *)
Theorem C10_estimate_monotone : forall h h' l1 t used, wf_holder h -> flatten h = (EOk, h') -> h' = l1 ++ [t] ->
  (forall x, In x l1 -> sid x <> sid t) -> 0 <= used -> sbsize t <= used <= svsize t ->
  exists h'' r, shrink_last h' (sid t) used = (h'', r) /\ r = svsize t - used /\ 0 <= r /\
                code_size h'' = code_size h' - r /\ code_size h'' <= code_size h'.
Proof. exact final_estimate_monotone. Qed.
Print Assumptions C10_estimate_monotone.

(* the address table NOT last (or absent): its buffer becomes the used slots wherever it sits, the reservation (virtual size)
   stays, nothing is reported, and neither code_size nor any offset / virtual size changes *)
Theorem C10_addrtab_not_last : forall l1 t tab used, sid t <> tab -> 0 <= used ->
  (forall x, In x l1 -> sid x = tab -> sbsize x <= used <= svsize x) ->
  exists h'', shrink_last (l1 ++ [t]) tab used = (h'', 0) /\ code_size h'' = code_size (l1 ++ [t]) /\
              map soff h'' = map soff (l1 ++ [t]) /\ map svsize h'' = map svsize (l1 ++ [t]).
Proof. exact not_last_code_size. Qed.
Print Assumptions C10_addrtab_not_last.

(* ---- new_section: validation order and exact name limit (35 accepted, 36 refused), nothing changes on refusal ---- *)
Theorem C10_new_section_validation : forall h name al ord,
  (fst (new_section h name al ord) = EInvalidArgument <-> is_zero_or_pow2 al = false) /\
  (fst (new_section h name al ord) = EInvalidSectionName <-> is_zero_or_pow2 al = true /\ MAX_NAME < Z.of_nat (length name)) /\
  (fst (new_section h name al ord) = EOk <-> is_zero_or_pow2 al = true /\ Z.of_nat (length name) <= MAX_NAME) /\
  (fst (new_section h name al ord) <> EOk -> snd (new_section h name al ord) = h).
Proof. exact new_section_validation. Qed.
Print Assumptions C10_new_section_validation.

(* name_size == SIZE_MAX (strlen): the name is the buffer up to its first NUL; the section is found again by the same C string *)
Theorem C10_cstr_names : (forall buf, Forall (fun c => c <> 0) (cstr buf)) /\
  (forall buf, exists rest, buf = cstr buf ++ rest /\ (rest = [] \/ exists r, rest = 0 :: r)) /\
  (forall h buf al ord h', reachable h -> 0 <= al < 4294967296 -> INT_MIN <= ord <= INT_MAX ->
     new_section_cstr h buf al ord = (EOk, h') ->
     exists j sj, section_by_name_cstr h' buf = Some j /\ 0 <= j <= Z.of_nat (length h) /\ by_id h' j = Some sj /\
                  name_matches sj (cstr buf) = true).
Proof. exact (conj cstr_no_nul (conj cstr_prefix new_section_cstr_findable)). Qed.
Print Assumptions C10_cstr_names.

(* the overflow check is EXACT with respect to mathematics: with `ideal_end` = the end of the layout computed on unbounded integers
   (ceil_align = least multiple >= x, no wrap anywhere), pass 1 succeeds iff ideal_end < 2^64 and then code_size = ideal_end; for every
   holder the API can produce, flatten fails (kTooLarge, holder untouched, code_size = SIZE_MAX) iff the sections need 2^64 bytes or more *)
Theorem C10_overflow_check_exact : forall h, wf_holder h -> Forall (fun s => 0 < salign s) (tl h) ->
  (pass1 0 h = true <-> ideal_end 0 h < W64) /\ (pass1 0 h = true -> code_size h = ideal_end 0 h).
Proof. exact flatten_succeeds_iff_fits. Qed.
Print Assumptions C10_overflow_check_exact.

Theorem C10_flatten_fails_iff_too_large : forall h, reachable h ->
  (flatten h = (ETooLarge, h) <-> W64 <= ideal_end 0 h) /\
  ((exists h', flatten h = (EOk, h')) <-> ideal_end 0 h < W64) /\
  (ideal_end 0 h < W64 -> code_size h = ideal_end 0 h) /\ (W64 <= ideal_end 0 h -> code_size h = SIZE_MAX).
Proof. exact reachable_flatten_fails_iff_too_large. Qed.
Print Assumptions C10_flatten_fails_iff_too_large.

Theorem C10_example_ideal :
  ideal_end 0 [mkSection 0 INT_MIN 0 0 0 10 [] []; mkSection 1 0 64 0 5 0 [] []] = 69 /\
  pass1 0 [mkSection 0 INT_MIN 0 0 (W64 - 2) 0 [] []; mkSection 1 0 1 0 1 0 [] []] = true /\
  ideal_end 0 [mkSection 0 INT_MIN 0 0 (W64 - 2) 0 [] []; mkSection 1 0 1 0 2 0 [] []] = W64 /\
  pass1 0 [mkSection 0 INT_MIN 0 0 (W64 - 2) 0 [] []; mkSection 1 0 1 0 2 0 [] []] = false.
Proof. exact ideal_examples. Qed.
Print Assumptions C10_example_ideal.

(* ---- names: a created section is found under its name (first section of that name wins); names never influence the layout ---- *)
Theorem C10_new_section_findable : forall h name al ord h', reachable h -> 0 <= al < 4294967296 -> INT_MIN <= ord <= INT_MAX ->
  new_section h name al ord = (EOk, h') ->
  exists j sj, section_by_name h' name = Some j /\ 0 <= j <= Z.of_nat (length h) /\ by_id h' j = Some sj /\
               name_matches sj name = true /\
               (forall k sk, 0 <= k < j -> by_id h' k = Some sk -> name_matches sk name = false).
Proof. exact new_section_findable. Qed.
Print Assumptions C10_new_section_findable.

(* section_by_name is sound AND complete for every holder the API can produce and every key (not only for a section that was
   just created): a hit is the lowest id whose name matches; a miss means no section matches (or the key is longer than any name) *)
Theorem C10_section_by_name_complete : forall h key, reachable h ->
  match section_by_name h key with
  | Some j => Z.of_nat (length key) <= MAX_NAME /\
              exists sj, In sj h /\ sid sj = j /\ name_matches sj key = true /\
                         forall s, In s h -> sid s < j -> name_matches s key = false
  | None => MAX_NAME < Z.of_nat (length key) \/ forall s, In s h -> name_matches s key = false
  end.
Proof. exact section_by_name_complete. Qed.
Print Assumptions C10_section_by_name_complete.

Theorem C10_example_by_name : reachable ex_h3 /\ section_by_name ex_h3 [46; 100] = Some 1 /\ section_by_name ex_h3 [46; 98] = Some 2 /\
  section_by_name ex_h3 [120] = None /\ section_by_name ex_h3 (repeat 65 36) = None.
Proof. exact ex_by_name. Qed.
Print Assumptions C10_example_by_name.

Theorem C10_layout_independent_of_names : forall g h,
  flatten (map (rename g) h) = (fst (flatten h), map (rename g) (snd (flatten h))) /\
  code_size (map (rename g) h) = code_size h.
Proof. exact layout_independent_of_names. Qed.
Print Assumptions C10_layout_independent_of_names.

(* ---- the defects of the unrepaired tree, on its model ---- *)
(* DESIGN 7.26: .text 10 bytes, an empty section aligned to 64, a 5-byte section aligned to 64: the layout ends at 69
   (= the estimate) but code_size reports 133 after flatten, and a second flatten moves the last section from 64 to 128 *)
Theorem C10_pinned_code_size_is_end_refuted : exists h h',
  wf_holder h /\ flatten_pinned h = (EOk, h') /\ code_size_pinned h = 69 /\ code_size_pinned h' = 133.
Proof. exact pinned_code_size_refuted. Qed.
Print Assumptions C10_pinned_code_size_is_end_refuted.

Theorem C10_pinned_flatten_idempotent_refuted : exists h h' h'',
  flatten_pinned h = (EOk, h') /\ flatten_pinned h' = (EOk, h'') /\ map soff h' = [0; 10; 64] /\ map soff h'' = [0; 64; 128].
Proof. exact pinned_flatten_not_idempotent_refuted. Qed.
Print Assumptions C10_pinned_flatten_idempotent_refuted.

(* the residual defect after that repair (routed from C03/C04): with the forward loop only (flatten_mid) an EMPTY section — and
   every label bound in it — moves on the second call (66 -> 72); the final flatten puts it at 72 at once and is a fixed point *)
Theorem C10_mid_flatten_idempotent_refuted : exists h h' h'',
  flatten_mid h = (EOk, h') /\ flatten_mid h' = (EOk, h'') /\ map soff h' = [0; 66; 72] /\ map soff h'' = [0; 72; 72] /\
  exists hf, flatten h = (EOk, hf) /\ map soff hf = [0; 72; 72] /\ flatten hf = (EOk, hf).
Proof. exact mid_flatten_not_idempotent_refuted. Qed.
Print Assumptions C10_mid_flatten_idempotent_refuted.

(* code_size of the unrepaired tree does not notice align_up wrapping around 2^64 *)
Theorem C10_pinned_code_size_overflow_refuted : exists h,
  wf_holder h /\ flatten h = (ETooLarge, h) /\ code_size_pinned h = 5 /\ code_size h = SIZE_MAX.
Proof. exact pinned_code_size_wrap_refuted. Qed.
Print Assumptions C10_pinned_code_size_overflow_refuted.

(* ---- satisfiability of the hypotheses ---- *)
Theorem C10_example_reachable_flatten : reachable ex_h3 /\
  exists h', flatten ex_h3 = (EOk, h') /\ map sid h' = [0; 2; 1] /\ map soff h' = [0; 64; 64] /\ code_size h' = 104.
Proof. exact (conj ex_reachable ex_flatten). Qed.
Print Assumptions C10_example_reachable_flatten.

Theorem C10_example_overflow : exists h, wf_holder h /\ pass1 0 h = false.
Proof. exact ex_overflow. Qed.
Print Assumptions C10_example_overflow.

Theorem C10_example_copy : exists h' mem',
  wf_holder ex_h3 /\ data_len_ok ex_h3 /\ flatten ex_h3 = (EOk, h') /\
  copy_flat h' (repeat 205 110 ++ repeat 238 4) 110 true true = (EOk, mem') /\
  firstn 14 mem' = [7; 7; 7; 7; 7; 7; 7; 7; 7; 7; 0; 0; 0; 0] /\ firstn 5 (skipn 62 mem') = [0; 0; 1; 2; 3] /\
  skipn 104 mem' = [0; 0; 0; 0; 0; 0; 238; 238; 238; 238].
Proof. exact ex_copy. Qed.
Print Assumptions C10_example_copy.

Theorem C10_example_estimate : exists h' l1 t,
  wf_holder ex_tab /\ flatten ex_tab = (EOk, h') /\ h' = l1 ++ [t] /\ sbsize t <= 0 <= svsize t /\ code_size h' = 24 /\
  code_size (fst (shrink_last h' (sid t) 0)) = 8 /\ code_size (fst (shrink_last h' (sid t) 8)) = 16.
Proof. exact ex_estimate. Qed.
Print Assumptions C10_example_estimate.

(* embed_label (RelocType::kRelToAbs) through the same path: the embedded words are base + section offset + label offset; the label of
   the EMPTY section 2 designates the place where the next non-empty section (the table) starts *)
Theorem C10_example_relocate_abs : exists h2,
  relocate_holder ex_abs (Some 3) [SAbs 0 1 5; SAbs 8 2 0] 4194304 = inl (h2, 8) /\
  map sdata h2 = [ [21; 0; 64; 0; 0; 0; 0; 0; 24; 0; 64; 0; 0; 0; 0; 0]; [1; 2; 3; 4; 5]; []; [] ].
Proof. exact ex_relocate_abs. Qed.
Print Assumptions C10_example_relocate_abs.

(* a conditional jump to an absolute address out of rel32 reach of the chosen base is REFUSED (kRelocOffsetOutOfRange), whatever
   sites follow: no address-table fallback exists for it and nothing wraps (non-vacuity: C10_example_relocate_expr_rel below) *)
Theorem C10_unreachable_jcc_refused : forall h tab pos addr rest base text,
  by_id h 0 = Some text -> forallb (site_in_bounds text) (SRel pos addr :: rest) = true ->
  ~ (- 2 ^ 31 <= OffsetModel.to_i64 (OffsetModel.wrap 64 (addr - (base + (soff text + pos + CALL_LEN)))) < 2 ^ 31) ->
  relocate_holder h tab (SRel pos addr :: rest) base = inr ROutOfRange.
Proof. exact unreachable_jcc_refused. Qed.
Print Assumptions C10_unreachable_jcc_refused.

(* embed_label_delta (expression) and jz-abs (AbsToRel) sites: the relocated bytes; an unreachable conditional jump is refused
   (kRelocOffsetOutOfRange, there is no address-table fallback for it), an out-of-bounds site is kInvalidRelocEntry *)
Theorem C10_example_relocate_expr_rel : exists h2,
  relocate_holder ex_abs (Some 3) [SExpr 0 2 0 1 5 4; SRel 4 4198400] 4194304 = inl (h2, 8) /\
  firstn 10 (hd [] (map sdata h2)) = [3; 0; 0; 0; 0; 0; 246; 15; 0; 0] /\
  relocate_holder ex_abs (Some 3) [SRel 4 1311768467463790320] 4194304 = inr ROutOfRange /\
  relocate_holder ex_abs (Some 3) [SRel 12 4198400] 4194304 = inr RInvalidEntry.
Proof. exact ex_relocate_expr_rel. Qed.
Print Assumptions C10_example_relocate_expr_rel.

(* ---- 32-bit size_t (model only: no 32-bit runtime in the sandbox).  Offsets / virtual sizes are uint64_t on every target, so
   flatten and all layout theorems are width independent; the size_t-typed parts are code_size's result and two casts in
   copy_flattened_data (WidthModel.v, sz = bits of size_t; SectionModel.v is sz = 64) ---- *)
Theorem C10_code_size_width : forall sz h, 0 < sz <= 64 ->
  code_size_w sz h = Z.min (code_size h) (2 ^ sz - 1) /\ code_size_w 64 h = code_size h.
Proof. exact (fun sz h H => conj (code_size_w_min sz h H) (code_size_w_64 h)). Qed.
Print Assumptions C10_code_size_width.

(* copy_flattened_data on an sz-bit target IS the 64-bit model (so C10_copy_refuses_small / _never_writes_outside / _exact hold
   verbatim) whenever the virtual sizes fit size_t - which every flattened holder whose code size fits size_t satisfies *)
Theorem C10_copy_width : forall sz,  0 < sz ->
  (forall h mem dst ps pt, 0 <= dst < 2 ^ sz ->
     Forall (fun s => 0 <= svsize s < 2 ^ sz /\ 0 <= sbsize s /\ 0 <= soff s) h ->
     copy_flat_w sz h mem dst ps pt = copy_flat h mem dst ps pt) /\
  (forall h h', wf_holder h -> flatten h = (EOk, h') -> code_size h' < 2 ^ sz ->
     Forall (fun s => 0 <= svsize s < 2 ^ sz /\ 0 <= sbsize s /\ 0 <= soff s) h').
Proof.
  exact (fun sz Hsz => conj (fun h mem dst ps pt Hd Hl => copy_flat_w_eq sz h mem dst ps pt Hsz Hd Hl)
                            (fun h h' Hwf E Hc => flattened_fits_width sz h h' Hwf E Hsz Hc)).
Qed.
Print Assumptions C10_copy_width.

(* ... and outside that range the 32-bit padding computation wraps (virtual size >= 4 GiB is representable on every target):
   10 bytes of buffer, virtual size 2^32+1, 100-byte destination -> zero-fill length 2^32-9 instead of 90 *)
Theorem C10_copy_width32_refuted : exists s, sbsize s = 10 /\ svsize s = 4294967297 /\ soff s = 0 /\
  pad_w 32 true 100 s = 4294967287 /\ pad_w 64 true 100 s = 90.
Proof. exact pad_w32_refuted. Qed.
Print Assumptions C10_copy_width32_refuted.

(* ---- Section flags (property-adjacent; never influence the layout: the model's sections have no flag field) ---- *)
Theorem C10_clear_flags : forall f x, 0 <= x < 65536 ->
  has_flag (clear_flags f x) x = false /\
  (forall i, 0 <= i < 16 -> Z.testbit (clear_flags f x) i = Z.testbit f i && negb (Z.testbit x i)) /\
  (forall y, 0 <= f < 65536 -> Z.land x y = 0 -> has_flag (clear_flags f x) y = has_flag f y).
Proof.
  exact (fun f x Hx => conj (clear_flags_clears f x Hx) (conj (fun i Hi => clear_flags_bits f x i Hi)
                                                             (fun y Hf Hd => clear_flags_keeps f x y Hf Hd))).
Qed.
Print Assumptions C10_clear_flags.

(* DESIGN 7.8 on the unrepaired tree: clear_flags(kReadOnly) on an executable section sets every other flag *)
Theorem C10_clear_flags_pinned_refuted :
  clear_flags_pinned 1 2 = 65533 /\ has_flag (clear_flags_pinned 1 2) 4 = true /\ clear_flags 3 2 = 1.
Proof. exact clear_flags_pinned_refuted. Qed.
Print Assumptions C10_clear_flags_pinned_refuted.

(* ---- JitRuntime::_add's OWN copy loop (JitCopyModel.jit_copy: walks the sections by id, copies each buffer, zero-fills to the
   virtual size, no clipping) installs, cell by cell, exactly what copy_flattened_data(kPadSectionBuffer) does on the same span —
   for every flattened reachable holder and every span of at least code_size bytes.  So C10_copy_exact / C10_image_total /
   C10_jit_image_determined speak about the real loop, not about a stand-in. ---- *)
Theorem C10_jit_copy_agrees : forall h0 h mem m1, reachable h0 -> data_len_ok h0 -> flatten h0 = (EOk, h) ->
  code_size h <= Z.of_nat (length mem) ->
  copy_flat h mem (Z.of_nat (length mem)) true false = (EOk, m1) ->
  length (jit_copy h mem) = length m1 /\ forall c, 0 <= c -> cell (jit_copy h mem) c = cell m1 c.
Proof. exact jit_copy_agrees. Qed.
Print Assumptions C10_jit_copy_agrees.

(* ... and so it does on the RELOCATED holder (patched .text, used table slots): JitRuntime::_add with relocations, with its own loop *)
Theorem C10_relocated_jit_copy_agrees : forall h0 h tab calls base h2 red mem m1,
  reachable h0 -> data_len_ok h0 -> flatten h0 = (EOk, h) -> relocate_holder h tab calls base = inl (h2, red) ->
  code_size h <= Z.of_nat (length mem) ->
  copy_flat h2 mem (Z.of_nat (length mem)) true false = (EOk, m1) ->
  length (jit_copy h2 mem) = length m1 /\ forall c, 0 <= c -> cell (jit_copy h2 mem) c = cell m1 c.
Proof. exact relocated_jit_copy_agrees. Qed.
Print Assumptions C10_relocated_jit_copy_agrees.

(* the by-id walk of JitRuntime::_add (code->_sections) visits every section of the holder exactly once *)
Theorem C10_sections_by_id_permutation : forall h, reachable h -> Permutation (sections_by_id h) h.
Proof. exact sections_by_id_permutation. Qed.
Print Assumptions C10_sections_by_id_permutation.

Theorem C10_example_jit_copy : exists h m1, flatten ex_h3 = (EOk, h) /\
  copy_flat h (repeat 205 104) 104 true false = (EOk, m1) /\ jit_copy h (repeat 205 104) = m1.
Proof. exact jit_copy_example. Qed.
Print Assumptions C10_example_jit_copy.

(* ---- premises discharged: holders BUILT through the API with well-sized buffers (init, new_section, setting a section's bytes
   together with its size, flatten) are reachable and have well-sized buffers, so the copy / JitRuntime statements hold for them
   with no side condition at all ---- *)
Theorem C10_built_ok : forall h, built h -> reachable h /\ data_len_ok h.
Proof. exact built_ok. Qed.
Print Assumptions C10_built_ok.

Theorem C10_built_jit_image : forall h fill n img h1, built h -> jit_add h fill = (EOk, n, img, h1) ->
  flatten h = (EOk, h1) /\ n = code_size h1 /\ 0 < n /\ Z.of_nat (length img) = n /\
  forall c, 0 <= c < n -> exists s, In s h1 /\
    ((soff s <= c < soff s + sbsize s /\ cell img c = cell (sdata s) (c - soff s)) \/
     (soff s + sbsize s <= c < soff s + real_size s /\ cell img c = 0)).
Proof. exact built_jit_image. Qed.
Print Assumptions C10_built_jit_image.

Theorem C10_built_copy_exact : forall h h' mem dst ps pt mem', built h -> flatten h = (EOk, h') -> 0 <= dst <= Z.of_nat (length mem) ->
  copy_flat h' mem dst ps pt = (EOk, mem') ->
  length mem' = length mem /\
  (forall c, dst <= c -> cell mem' c = cell mem c) /\
  (forall s, In s h' -> forall k, 0 <= k < sbsize s -> cell mem' (soff s + k) = cell (sdata s) k) /\
  (forall s, In s h' -> forall c, soff s + sbsize s <= c < wend ps dst s -> cell mem' c = 0) /\
  (pt = true -> forall c, ends ps dst h' 0 <= c < dst -> cell mem' c = 0) /\
  (forall c, 0 <= c -> (forall s, In s h' -> ~ (soff s <= c < wend ps dst s)) -> (pt = false \/ c < ends ps dst h' 0) ->
             cell mem' c = cell mem c).
Proof. exact built_copy_exact. Qed.
Print Assumptions C10_built_copy_exact.

Theorem C10_example_built : built ex_h3.
Proof. exact built_example. Qed.
Print Assumptions C10_example_built.

(* emitter states built the way emitters build them (sections through new_section, bytes appended together with the size, site
   placeholders appended to .text): reachable, well-sized, the table (if any) without a buffer — and therefore JitRuntime::_add with
   relocations needs NO premise: final size = estimate - reduction = code_size of the relocated holder, relocated bytes and zero tails
   at their offsets, every cell below the final size covered *)
Theorem C10_builtj_inv : forall st, builtj st ->
  reachable (jh st) /\ data_len_ok (jh st) /\ Forall (fun s => Some (sid s) = jtab st -> sbsize s = 0) (jh st) /\ (forall t, jtab st = Some t -> 0 < t).
Proof. exact builtj_inv. Qed.
Print Assumptions C10_builtj_inv.

Theorem C10_builtj_jit_add_reloc : forall st calls base fill final img h2, builtj st ->
  jit_add_reloc st calls base fill = (JOk, final, img, h2) ->
  exists h1 red, flatten (jh st) = (EOk, h1) /\ relocate_holder h1 (jtab st) calls base = inl (h2, red) /\
    0 <= red /\ final = code_size h1 - red /\ code_size h2 = final /\ map soff h2 = map soff h1 /\
    (forall s, In s h2 -> forall k, 0 <= k < sbsize s -> soff s + k < final -> cell (flat img) (soff s + k) = cell (sdata s) k) /\
    (forall s, In s h2 -> forall c, soff s + sbsize s <= c < wend true (code_size h1) s -> c < final -> cell (flat img) c = 0) /\
    (forall c, 0 <= c < final -> exists s2, In s2 h2 /\ soff s2 <= c < soff s2 + real_size s2).
Proof. exact builtj_jit_add_reloc. Qed.
Print Assumptions C10_builtj_jit_add_reloc.

Theorem C10_example_builtj : builtj exj /\
  exists img h2, jit_add_reloc exj [SAbs 0 1 5] 4194304 205 = (JOk, 21, img, h2) /\
                 flat img = [21; 0; 64; 0; 0; 0; 0; 0; 0; 0; 0; 0; 0; 0; 0; 0; 1; 2; 3; 4; 5].
Proof. exact builtj_example. Qed.
Print Assumptions C10_example_builtj.

(* the same with `call abs` sites (builtc adds emit_call_bytes: the address table is created on demand by new_section — always
   accepted — gets one reserved slot per distinct target and never a buffer): JitRuntime::_add with call / embed_label /
   embed_label_delta / jz sites has NO premise *)
Theorem C10_builtc_inv : forall st, builtc st ->
  reachable (jh st) /\ data_len_ok (jh st) /\ Forall (fun s => Some (sid s) = jtab st -> sbsize s = 0) (jh st) /\ (forall t, jtab st = Some t -> 0 < t).
Proof. exact builtc_inv. Qed.
Print Assumptions C10_builtc_inv.

Theorem C10_builtc_jit_add_reloc : forall st calls base fill final img h2, builtc st ->
  jit_add_reloc st calls base fill = (JOk, final, img, h2) ->
  exists h1 red, flatten (jh st) = (EOk, h1) /\ relocate_holder h1 (jtab st) calls base = inl (h2, red) /\
    0 <= red /\ final = code_size h1 - red /\ code_size h2 = final /\ map soff h2 = map soff h1 /\
    (forall s, In s h2 -> forall k, 0 <= k < sbsize s -> soff s + k < final -> cell (flat img) (soff s + k) = cell (sdata s) k) /\
    (forall s, In s h2 -> forall c, soff s + sbsize s <= c < wend true (code_size h1) s -> c < final -> cell (flat img) c = 0) /\
    (forall c, 0 <= c < final -> exists s2, In s2 h2 /\ soff s2 <= c < soff s2 + real_size s2).
Proof. exact builtc_jit_add_reloc. Qed.
Print Assumptions C10_builtc_jit_add_reloc.

Theorem C10_example_builtc : builtc exc /\
  exists img h2, jit_add_reloc exc [SCall 0 1311768467463790320; SCall 6 4198400] 4194304 205 = (JOk, 24, img, h2) /\
                 flat img = [255; 21; 10; 0; 0; 0; 64; 232; 244; 15; 0; 0; 0; 0; 0; 0; 240; 222; 188; 154; 120; 86; 52; 18].
Proof. exact builtc_example. Qed.
Print Assumptions C10_example_builtc.

(* ---- translator tie: the constants the model hard-codes equal those re-extracted from /repo's headers and from a freshly
   initialised holder on THIS run (coq/gen/C10Consts.v is regenerated by the check; a changed limit / enumerator / initial field /
   placeholder encoding makes this theorem fail before anything else is compared) ---- *)
Theorem C10_constants_match :
  C10Consts.g_max_name = MAX_NAME /\ C10Consts.g_name_cells = Z.of_nat NAME_CELLS /\ C10Consts.g_no_offset = NO_OFFSET /\
  (C10Consts.g_f_executable, C10Consts.g_f_readonly, C10Consts.g_f_zeroinit, C10Consts.g_f_comment, C10Consts.g_f_builtin, C10Consts.g_f_implicit)
    = (F_EXECUTABLE, F_READONLY, F_ZEROINIT, F_COMMENT, F_BUILTIN, F_IMPLICIT) /\
  (C10Consts.g_copy_pad_section, C10Consts.g_copy_pad_target) = (COPY_PAD_SECTION, COPY_PAD_TARGET) /\
  (C10Consts.g_text_id, C10Consts.g_text_flags, C10Consts.g_text_align, C10Consts.g_text_order, C10Consts.g_text_offset)
    = (sid text_section, TEXT_FLAGS, salign text_section, sorder text_section, soff text_section) /\
  pad_name C10Consts.g_text_name = sname text_section /\
  (forall h nm ord, Z.of_nat (length nm) <= MAX_NAME ->
     exists s, In s (snd (new_section h nm 0 ord)) /\ salign s = C10Consts.g_new_section_align_of_0 /\ soff s = C10Consts.g_new_section_offset) /\
  C10Consts.g_call_bytes = CALL_BYTES /\ Z.of_nat (length C10Consts.g_call_bytes) = CALL_LEN /\
  (C10Consts.g_addrtab_align, C10Consts.g_addrtab_vsize_per_slot, C10Consts.g_addrtab_order) = (REG_SIZE, REG_SIZE, INT_MAX) /\
  C10Consts.g_addrtab_name = addrtab_name /\ C10Consts.g_embed_label_size = ABS_LEN.
Proof.
  repeat (split; [vm_compute; reflexivity|]). split; [exact new_section_zero_align|]. repeat (split; [vm_compute; reflexivity|]). vm_compute; reflexivity.
Qed.
Print Assumptions C10_constants_match.

(* ---- round 7 ---- *)
(* frame condition for the image: section NAMES never influence what is copied — neither copy_flattened_data nor copy_section_data,
   nor the whole pipeline flatten-then-copy (same error, same memory), for any renaming g of the name field *)
Theorem C10_copy_independent_of_names : forall g h mem dst ps pt,
  copy_flat (map (rename g) h) mem dst ps pt = copy_flat h mem dst ps pt.
Proof. exact copy_independent_of_names. Qed.
Print Assumptions C10_copy_independent_of_names.

Theorem C10_copy_section_independent_of_names : forall g h mem dst id ps,
  copy_section (map (rename g) h) mem dst id ps = copy_section h mem dst id ps.
Proof. exact copy_section_independent_of_names. Qed.
Print Assumptions C10_copy_section_independent_of_names.

Theorem C10_image_independent_of_names : forall g h mem dst ps pt,
  fst (flatten (map (rename g) h)) = fst (flatten h) /\
  copy_flat (snd (flatten (map (rename g) h))) mem dst ps pt = copy_flat (snd (flatten h)) mem dst ps pt.
Proof. exact image_independent_of_names. Qed.
Print Assumptions C10_image_independent_of_names.

Theorem C10_example_image_independent_of_names :
  copy_flat (snd (flatten (map (rename (fun _ => [1; 2; 3])) ex_h3))) (repeat 205 110) 110 true true
  = copy_flat (snd (flatten ex_h3)) (repeat 205 110) 110 true true /\
  fst (copy_flat (snd (flatten ex_h3)) (repeat 205 110) 110 true true) = EOk.
Proof. exact image_independent_of_names_example. Qed.
Print Assumptions C10_example_image_independent_of_names.

(* JitRuntime::_add's OWN copy loop on the relocated holder of a built emitter state (call / embed_label / embed_label_delta / jz
   sites, table on demand) installs, cell by cell, what copy_flattened_data(kPadSectionBuffer) installs: no premise besides `builtc` *)
Theorem C10_builtc_jit_loop : forall st calls base h1 h2 red mem m1, builtc st ->
  flatten (jh st) = (EOk, h1) -> relocate_holder h1 (jtab st) calls base = inl (h2, red) ->
  code_size h1 <= Z.of_nat (length mem) ->
  copy_flat h2 mem (Z.of_nat (length mem)) true false = (EOk, m1) ->
  length (jit_copy h2 mem) = length m1 /\ forall c, 0 <= c -> cell (jit_copy h2 mem) c = cell m1 c.
Proof. exact builtc_jit_loop. Qed.
Print Assumptions C10_builtc_jit_loop.

Theorem C10_example_builtc_jit_loop : exists h1 h2 m1,
  builtc exc /\ flatten (jh exc) = (EOk, h1) /\
  relocate_holder h1 (jtab exc) [SCall 0 1311768467463790320; SCall 6 4198400] 4194304 = inl (h2, 8) /\
  copy_flat h2 (repeat 205 32) 32 true false = (EOk, m1) /\ jit_copy h2 (repeat 205 32) = m1.
Proof. exact builtc_jit_loop_example. Qed.
Print Assumptions C10_example_builtc_jit_loop.

(* round 8: the layout depends only on sizes, alignments, orders and ids - the bytes held in the section buffers never influence
   flatten() or code_size() (redata g replaces CodeBuffer contents, keeping CodeBuffer::_size); no hypothesis on the holder *)
Theorem C10_layout_independent_of_data : forall g h,
  flatten (map (redata g) h) = (fst (flatten h), map (redata g) (snd (flatten h))) /\
  code_size (map (redata g) h) = code_size h.
Proof. exact layout_independent_of_data. Qed.
Print Assumptions C10_layout_independent_of_data.

Theorem C10_example_layout_independent_of_data :
  let h := [mkSection 0 0 0 0 0 3 [1; 2; 3] []; mkSection 1 0 16 0 0 2 [9; 9] []] in
  map soff (snd (flatten h)) = [0; 16] /\ map soff (snd (flatten (map (redata (map (fun _ => 0))) h))) = [0; 16].
Proof. exact layout_independent_of_data_example. Qed.
Print Assumptions C10_example_layout_independent_of_data.

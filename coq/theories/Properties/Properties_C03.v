(* C03 — Every label reference resolves to the position where the label was bound.
   This file holds ONLY the property theorems (each closed by `exact <lemma>`) and their Print Assumptions.
   Model: Verif.Labels.LabelsModel (operations on sections / labels / fixups / relocations; `write_offset` is the C17 model).
   `run init ops` = the state after an ARBITRARY list of operations (any interleaving of label creation, references of every
   displacement kind, binds, data, gaps, section switches, embedded labels, label deltas, layout+cross-section resolution). *)
From Coq Require Import ZArith List Bool.
From Verif Require Import A64.A64Tmpl A64.A64Sem.
From VerifGen Require Import IsaA64Db.
From Verif Require Import Codec.OffsetModel Labels.LabelsModel Labels.LabelsProofs Labels.LabelsExact Labels.LabelsAbs
  Labels.FlatModel Labels.FlatLemmas Labels.FlatProofs Labels.SparseModel Labels.SparseProofs Labels.A64Dec Labels.A64DbTie Labels.A64RefMeaning Labels.A64RefDb.
From Verif Require Import X86.X86Model Reloc.X86Meaning Labels.X86RefMeaning.
Import ListNotations.
Local Open Scope Z_scope.

(* the reported number of unresolved references is the number of pending fixups, after ANY sequence of operations *)
Theorem C03_count_exact : forall ops,
  let s := run init ops in unresolved s = zlen (pending s) + zlen (pending_rel s).
Proof. exact count_exact. Qed.
Print Assumptions C03_count_exact.

Theorem C03_count_zero_iff : forall ops,
  let s := run init ops in unresolved s = 0 <-> (pending s = [] /\ pending_rel s = []).
Proof. exact count_zero_iff. Qed.
Print Assumptions C03_count_zero_iff.

(* after any operations followed by layout (ANY section offsets `offs`) + cross-section resolution: every logged reference that
   is not pending has a bound label, its word decodes (architectural decoder) to exactly
   (offs[label section] + label offset) - (offs[section] + site) + addend, and all bits outside the field are the emitted ones *)
Theorem C03_resolved_exact : forall ops offs id r,
  no_resolve ops ->
  let s := run init (ops ++ [OResolve offs]) in
  nth_error (refs s) id = Some r -> ~ In id (ids (pending s)) ->
  exists ls lo, nth_error (labels s) (r_label r) = Some (Some (ls, lo)) /\
                decode_kind (r_kind r) (r_word r) = final_disp offs ls lo r /\
                Z.land (r_word r) (Z.lnot (kind_mask (r_kind r))) = r_w0 r.
Proof. exact resolved_exact. Qed.
Print Assumptions C03_resolved_exact.

(* same-section references are exact in EVERY reachable state (bound before or after the reference, no layout needed) *)
Theorem C03_resolved_same_section : forall ops id r lo,
  let s := run init ops in
  nth_error (refs s) id = Some r -> ~ In id (ids (pending s)) ->
  nth_error (labels s) (r_label r) = Some (Some (r_sec r, lo)) ->
  decode_kind (r_kind r) (r_word r) = to_i64 (lo - r_site r + r_rel r) /\
  Z.land (r_word r) (Z.lnot (kind_mask (r_kind r))) = r_w0 r.
Proof. exact resolved_same_section. Qed.
Print Assumptions C03_resolved_same_section.

(* invariant form, any reachable state, also across several layouts: a non-pending reference carries the encoding of the
   displacement computed with the section offsets that were in force when it was patched (ghost r_lay) *)
Theorem C03_resolved_invariant : forall ops id r,
  let s := run init ops in
  nth_error (refs s) id = Some r -> ~ In id (ids (pending s)) -> resolved_ok (labels s) r.
Proof. exact resolved_inv. Qed.
Print Assumptions C03_resolved_invariant.

(* a displacement the format cannot encode (by C17_signed_refused_iff: cannot represent) is never patched: the reference stays
   pending, its word is untouched and the unresolved count is positive *)
Theorem C03_never_truncates : forall ops offs id r ls lo,
  no_resolve ops ->
  let s := run init (ops ++ [OResolve offs]) in
  nth_error (refs s) id = Some r -> nth_error (labels s) (r_label r) = Some (Some (ls, lo)) ->
  encode_offset (fmt_of_kind (r_kind r)) (final_disp offs ls lo r) = None ->
  In id (ids (pending s)) /\ r_word r = r_w0 r /\ 0 < unresolved s.
Proof. exact never_truncates_final. Qed.
Print Assumptions C03_never_truncates.

Theorem C03_never_truncates_same_section : forall ops id r lo,
  let s := run init ops in
  nth_error (refs s) id = Some r -> nth_error (labels s) (r_label r) = Some (Some (r_sec r, lo)) ->
  encode_offset (fmt_of_kind (r_kind r)) (to_i64 (lo - r_site r + r_rel r)) = None ->
  In id (ids (pending s)).
Proof. exact never_truncates_same_section. Qed.
Print Assumptions C03_never_truncates_same_section.

(* reporting (behaviour since fix 6b578fc): bind_label checks the displacements of the label's same-section fixups BEFORE binding; a bind
   that is refused (InvalidDisplacement, already bound, invalid label) is a NO-OP: the label stays unbound, every fixup stays pending
   and untouched, the counter is unchanged - so nothing can be truncated by a refused bind, and an accepted bind reports nothing *)
Theorem C03_bind_refused_no_change : forall s l, inv s ->
  snd (step s (OBind l)) <> EOk -> fst (step s (OBind l)) = s.
Proof. exact bind_refused_no_change. Qed.
Print Assumptions C03_bind_refused_no_change.

Theorem C03_bind_refused_iff : forall s l, nth_error (labels s) l = Some None ->
  (snd (step s (OBind l)) = EInvalidDisp /\ fst (step s (OBind l)) = s) \/
  bind_precheck l (cur s) (s_len (cur_sec s)) (pending s) (refs s) = true.
Proof. exact bind_refused_iff. Qed.
Print Assumptions C03_bind_refused_iff.

Theorem C03_bind_error_means_pending : forall s l,
  snd (step s (OBind l)) = EInvalidDisp -> pending (fst (step s (OBind l))) <> [].
Proof. exact bind_error_means_pending. Qed.
Print Assumptions C03_bind_error_means_pending.

Theorem C03_ref_error_no_change : forall s k rel l pre w0 post,
  snd (step s (ORef k rel l pre w0 post)) <> EOk -> fst (step s (ORef k rel l pre w0 post)) = s.
Proof. exact ref_error_no_change. Qed.
Print Assumptions C03_ref_error_no_change.

(* every displacement format the two backends build: encoding then architectural decoding is the identity, other bits survive *)
Theorem C03_kind_roundtrip : forall k w0 m off,
  hole_ok k w0 = true -> int64 off -> encode_offset (fmt_of_kind k) off = Some m ->
  decode_kind k (Z.lor w0 m) = off /\ Z.land (Z.lor w0 m) (Z.lnot (kind_mask k)) = w0.
Proof. exact enc_decode. Qed.
Print Assumptions C03_kind_roundtrip.

(* hypotheses are satisfiable: a forward rel8 jump over 100 bytes resolves to 100; over 128 bytes it stays pending and is reported *)
Theorem C03_resolved_exact_witness :
  let ops := [ONewLabel; ORef K_Rel8 (-1) O [235] 0 []; OGap 100; OBind O] in
  let s := run init (ops ++ [OResolve [0]]) in
  no_resolve ops /\ pending s = [] /\ unresolved s = 0 /\
  exists r, nth_error (refs s) O = Some r /\ r_word r = 100 /\ decode_kind K_Rel8 (r_word r) = 100.
Proof. exact resolved_exact_witness. Qed.
Print Assumptions C03_resolved_exact_witness.

Theorem C03_never_truncates_witness :
  let ops := [ONewLabel; ORef K_Rel8 (-1) O [235] 0 []; OGap 128; OBind O] in
  let s := run init (ops ++ [OResolve [0]]) in
  no_resolve ops /\ unresolved s = 1 /\ snd (step (run init [ONewLabel; ORef K_Rel8 (-1) O [235] 0 []; OGap 128]) (OBind O)) = EInvalidDisp /\
  exists r, nth_error (refs s) O = Some r /\ r_word r = 0.
Proof. exact never_truncates_witness. Qed.
Print Assumptions C03_never_truncates_witness.

(* label deltas: both labels bound in one section -> the low 8*size bits of the difference are emitted at once; otherwise an
   expression relocation (label - base) of that width is recorded (evaluated at relocation time: C04) *)
Theorem C03_delta_immediate_exact : forall s l b size ls lo bo,
  nth_error (labels s) l = Some (Some (ls, lo)) -> nth_error (labels s) b = Some (Some (ls, bo)) -> size_ok size = true ->
  step s (ODelta l b size) = (append_cur s [IRaw (le_split (Z.to_nat size) ((lo - bo) mod 2 ^ (8 * size)))] size, EOk).
Proof. exact delta_immediate_exact. Qed.
Print Assumptions C03_delta_immediate_exact.

Theorem C03_delta_expression_recorded : forall s l b size ll lb,
  nth_error (labels s) l = Some ll -> nth_error (labels s) b = Some lb -> size_ok size = true ->
  (match ll, lb with Some (ls, _), Some (bs, _) => ls <> bs | _, _ => True end) ->
  let s' := fst (step s (ODelta l b size)) in
  snd (step s (ODelta l b size)) = EOk /\
  relocs s' = relocs s ++ [{| rl_type := Expr l b; rl_sec := cur s; rl_off := s_len (cur_sec s); rl_lead := 0; rl_size := size;
                              rl_trail := 0; rl_payload := 0; rl_target := None; rl_label := l; rl_addend := 0 |}] /\
  unresolved s' = unresolved s.
Proof. exact delta_expression_recorded. Qed.
Print Assumptions C03_delta_expression_recorded.

(* KNOWN FINDING (faithful model of the pinned tree): the immediate path of embed_label_delta emits a delta that does not fit
   the requested width, and reports nothing *)
Theorem C03_delta_truncated_refuted :
  exists ops l b lo bo,
    let s := run init ops in
    nth_error (labels s) l = Some (Some (O, lo)) /\ nth_error (labels s) b = Some (Some (O, bo)) /\
    ~ (- 2 ^ 7 <= lo - bo < 2 ^ 8) /\
    step s (ODelta l b 1) = (append_cur s [IRaw [(lo - bo) mod 2 ^ 8]] 1, EOk).
Proof. exact delta_truncated_refuted. Qed.
Print Assumptions C03_delta_truncated_refuted.

(* x86 EmitJmpCallRel: the short form is chosen only when the rel8 displacement fits; "no form" only when none can be used *)
Theorem C03_form_short_fits : forall h8 h32 fs fl s8 s32 ip tgt,
  x86_branch_form h8 h32 fs fl s8 s32 ip tgt = Some FShort ->
  - 128 <= tgt - (ip + s8) < 128 /\ h8 = true /\ fl = false.
Proof. exact form_short_fits. Qed.
Print Assumptions C03_form_short_fits.

Theorem C03_form_long_available : forall h8 h32 fs fl s8 s32 ip tgt,
  x86_branch_form h8 h32 fs fl s8 s32 ip tgt = Some FLong -> h32 = true /\ fs = false.
Proof. exact form_long_available. Qed.
Print Assumptions C03_form_long_available.

Theorem C03_form_none_justified : forall h8 h32 fs fl s8 s32 ip tgt,
  x86_branch_form h8 h32 fs fl s8 s32 ip tgt = None ->
  (h32 = false \/ fs = true) /\ (~ (- 128 <= tgt - (ip + s8) < 128) \/ h8 = false \/ fl = true).
Proof. exact form_none_justified. Qed.
Print Assumptions C03_form_none_justified.

(* x86-64 [rip + label + disp] with the label already bound in the section: the inline int32 computation is exact whenever the
   operands and the true displacement are in range ... *)
Theorem C03_x64_rip_field_exact : forall disp imm lo hole,
  (- 2 ^ 31 <= disp - (4 + imm) < 2 ^ 31) -> (- 2 ^ 31 <= lo - hole < 2 ^ 31) ->
  (- 2 ^ 31 <= lo + disp - (hole + 4 + imm) < 2 ^ 31) ->
  x64_rip_field disp imm lo hole = lo + disp - (hole + 4 + imm).
Proof. exact x64_rip_field_exact. Qed.
Print Assumptions C03_x64_rip_field_exact.

(* ... KNOWN FINDING: and wraps silently (no error, no pending fixup) when an addend near -2^31 makes it unrepresentable *)
Theorem C03_x64_rip_wrap_refuted :
  exists disp imm lo hole,
    (- 2 ^ 31 <= disp < 2 ^ 31) /\ (0 <= lo <= hole) /\
    ~ (- 2 ^ 31 <= lo + disp - (hole + 4 + imm) < 2 ^ 31) /\
    x64_rip_field disp imm lo hole <> lo + disp - (hole + 4 + imm).
Proof. exact x64_rip_wrap_refuted. Qed.
Print Assumptions C03_x64_rip_wrap_refuted.

(* absolute references (embed_label of any size, x86-32 [label + disp]): in every reachable state the RelToAbs relocation entry of a
   bound label carries payload = addend + label offset (mod 2^64) and the label's section; for an unbound label it is linked from a
   counted fixup.  (What relocation does with the entry is C04.) *)
Theorem C03_abs_exact : forall ops rid re,
  let s := run init ops in
  nth_error (relocs s) rid = Some re -> rl_type re = RelToAbs ->
  (In (rl_label re, rid) (pending_rel s) /\ nth_error (labels s) (rl_label re) = Some None /\ 0 < unresolved s) \/
  (exists ls lo, nth_error (labels s) (rl_label re) = Some (Some (ls, lo)) /\
                 rl_payload re = (rl_addend re + lo) mod 2 ^ 64 /\ rl_target re = Some ls).
Proof. exact abs_exact. Qed.
Print Assumptions C03_abs_exact.

(* FULL form of C03_resolved_exact (round 2): ANY operation list with any number of layout+resolve steps anywhere in it (several
   Flatten/ResolveCross, references created and labels bound between them), provided the layouts report the same section offsets:
   every non-pending reference decodes to target - site + addend under those offsets; a cross-section one was patched by a layout step *)
Theorem C03_resolved_exact_any_layouts : forall ops offs id r,
  resolves_with offs ops ->
  let s := run init ops in
  nth_error (refs s) id = Some r -> ~ In id (ids (pending s)) ->
  exists ls lo, nth_error (labels s) (r_label r) = Some (Some (ls, lo)) /\
                decode_kind (r_kind r) (r_word r) = final_disp offs ls lo r /\
                Z.land (r_word r) (Z.lnot (kind_mask (r_kind r))) = r_w0 r /\
                (ls <> r_sec r -> exists so to, r_lay r = Some (so, to)).
Proof. exact resolved_exact_stable. Qed.
Print Assumptions C03_resolved_exact_any_layouts.

(* order irrelevance: programs whose reference logs and final label tables agree (they differ only in when labels were bound, when
   layouts were requested, and in the interleaving of operations on different sections) leave the same word in every resolved reference *)
Theorem C03_order_irrelevant : forall ops1 ops2 offs id r1 r2,
  resolves_with offs ops1 -> resolves_with offs ops2 ->
  let s1 := run init ops1 in let s2 := run init ops2 in
  labels s1 = labels s2 ->
  nth_error (refs s1) id = Some r1 -> nth_error (refs s2) id = Some r2 -> ghost_of r1 = ghost_of r2 ->
  ~ In id (ids (pending s1)) -> ~ In id (ids (pending s2)) ->
  r_word r1 = r_word r2.
Proof. exact order_irrelevant. Qed.
Print Assumptions C03_order_irrelevant.

(* embed_label_delta WITH the range check of fixes/C03-label-delta-range.patch (model operation ODeltaChecked, used by the check when the
   tree has the check): the immediate path either emits the exact delta, which fits the signed width, or reports and changes nothing *)
Theorem C03_delta_checked_never_truncates : forall s l b size ls lo bo,
  nth_error (labels s) l = Some (Some (ls, lo)) -> nth_error (labels s) b = Some (Some (ls, bo)) -> size_ok size = true ->
  (snd (step s (ODeltaChecked l b size)) = EOk /\
   fst (step s (ODeltaChecked l b size)) = append_cur s [IRaw (le_split (Z.to_nat size) ((lo - bo) mod 2 ^ (8 * size)))] size /\
   (size = 8 \/ - 2 ^ (8 * size - 1) <= lo - bo < 2 ^ (8 * size - 1))) \/
  (step s (ODeltaChecked l b size) = (s, EInvalidDisp) /\ size <> 8 /\ ~ (- 2 ^ (8 * size - 1) <= lo - bo < 2 ^ (8 * size - 1))).
Proof. exact delta_checked_never_truncates. Qed.
Print Assumptions C03_delta_checked_never_truncates.

(* ---- round 2: the FLAT byte-buffer model (Labels.FlatModel: sections are byte lists, a fixup is patched by reading the value word at
   its numeric offset, OR-ing the encoded displacement in, writing it back - what bind_label / resolve_cross_section_fixups do) runs in
   lock step with the structured model the theorems above are about ---- *)
Theorem C03_flat_refines : forall ops,
  let s := run init ops in let f := frun finit ops in
  f_secs f = imgs (secs s) (refs s) /\ f_labels f = labels s /\ f_unresolved f = unresolved s /\ f_relocs f = relocs s /\
  length (f_pending f) = length (pending s) /\ f_pending_rel f = pending_rel s.
Proof. exact flat_refines. Qed.
Print Assumptions C03_flat_refines.

Theorem C03_flat_errors_agree : forall ops o,
  snd (step (run init ops) o) = snd (fstep (frun finit ops) o).
Proof. exact step_errors_agree. Qed.
Print Assumptions C03_flat_errors_agree.

(* the little-endian word read from the flat buffer at a reference's numeric site is the reference's word ... *)
Theorem C03_image_word : forall ops id r,
  let s := run init ops in let f := frun finit ops in
  nth_error (refs s) id = Some r ->
  read_word (nth (r_sec r) (f_secs f) []) (r_site r) (vnat (r_kind r)) = r_word r.
Proof. exact image_word. Qed.
Print Assumptions C03_image_word.

(* ... hence resolved_exact is a statement about IMAGE BYTES: after any operations (any layouts with stable offsets) the word found
   in the flat buffer at the site of a non-pending reference decodes to target - site + addend and its bits outside the field are the
   emitted bits *)
Theorem C03_image_resolved_exact : forall ops offs id r,
  resolves_with offs ops ->
  let s := run init ops in let f := frun finit ops in
  nth_error (refs s) id = Some r -> ~ In id (ids (pending s)) ->
  exists ls lo, nth_error (f_labels f) (r_label r) = Some (Some (ls, lo)) /\
    let w := read_word (nth (r_sec r) (f_secs f) []) (r_site r) (vnat (r_kind r)) in
    decode_kind (r_kind r) w = final_disp offs ls lo r /\ Z.land w (Z.lnot (kind_mask (r_kind r))) = r_w0 r.
Proof. exact image_resolved_exact. Qed.
Print Assumptions C03_image_resolved_exact.

(* binding a label / resolving cross-section fixups changes no byte of the flat image outside the value words of logged references *)
Theorem C03_image_outside_untouched : forall ops o k p,
  (match o with OBind _ | OResolve _ => True | _ => False end) ->
  let s := run init ops in let f := frun finit ops in let f' := fst (fstep f o) in
  0 <= p ->
  (forall id r, nth_error (refs s) id = Some r -> r_sec r = k -> ~ (r_site r <= p < r_site r + Z.of_nat (vnat (r_kind r)))) ->
  nth (Z.to_nat p) (nth k (f_secs f') []) 0 = nth (Z.to_nat p) (nth k (f_secs f) []) 0.
Proof. exact patch_outside_untouched. Qed.
Print Assumptions C03_image_outside_untouched.

(* round 3: the flat model with SPARSE buffers (Labels.SparseModel: chunks of explicit bytes / runs of zeros; what the check's driver runs on
   EVERY program, also those with 128 MiB gaps) is the flat model: expanding the chunks gives FlatModel's buffers after any operations,
   all other components and every error code are equal *)
Theorem C03_sparse_refines : forall ops,
  f_secs (frun finit ops) = map expand (s_bufs (srun sinit ops)) /\
  f_labels (frun finit ops) = s_labels (srun sinit ops) /\ f_unresolved (frun finit ops) = s_unresolved (srun sinit ops) /\
  f_relocs (frun finit ops) = s_relocs (srun sinit ops) /\ f_pending (frun finit ops) = s_pending (srun sinit ops).
Proof. exact sparse_refines. Qed.
Print Assumptions C03_sparse_refines.

Theorem C03_sparse_errors_agree : forall ops o, snd (fstep (frun finit ops) o) = snd (sstep (srun sinit ops) o).
Proof. exact sparse_errors_agree. Qed.
Print Assumptions C03_sparse_errors_agree.

(* ---- round 4: architectural meaning of the patched AArch64 words through a STRUCTURAL decoder (Labels.A64Dec, written from ARM ARM C4.1.3 /
   C6.2 for B, BL, B.cond, CBZ/CBNZ, TBZ/TBNZ, ADR, ADRP, LDR/LDRSW/PRFM literal, LDR literal SIMD&FP) ---- *)
Theorem C03_a64_dec_enc : forall i, a64_wf i -> a64_dec (a64_enc i) = Some i.
Proof. exact a64_dec_enc. Qed.
Print Assumptions C03_a64_dec_enc.

(* the word = (instruction emitted with a zero displacement field) OR (encoded displacement off), i.e. what every resolved reference holds
   by C03_resolved_exact*, decodes to that very instruction with the displacement and designates pc + off (ADRP: Page(pc) + off) *)
Theorem C03_a64_patched_meaning : forall i off m pc,
  a64_wf (set_imm i 0) -> hole_ok (kind_of i) (a64_enc (set_imm i 0)) = true -> int64 off ->
  encode_offset (fmt_of_kind (kind_of i)) off = Some m ->
  let w := Z.lor (a64_enc (set_imm i 0)) m in
  let v := off / 2 ^ discard (fmt_of_kind (kind_of i)) in
  a64_dec w = Some (set_imm i v) /\
  a64_site_target pc w = Some (match i with IAdr true _ _ => ((pc - pc mod 4096) + off) mod 2 ^ 64 | _ => (pc + off) mod 2 ^ 64 end).
Proof. exact a64_patched_meaning. Qed.
Print Assumptions C03_a64_patched_meaning.

Theorem C03_a64_patched_meaning_witness :
  let i := ICb true false 5 0 in
  a64_wf (set_imm i 0) /\ hole_ok (kind_of i) (a64_enc (set_imm i 0)) = true /\
  exists m, encode_offset (fmt_of_kind (kind_of i)) 1048572 = Some m /\
            a64_site_target 4096 (Z.lor (a64_enc (set_imm i 0)) m) = Some (4096 + 1048572).
Proof. exact a64_patched_meaning_witness. Qed.
Print Assumptions C03_a64_patched_meaning_witness.

(* ---- round 5: the structural decoder against C02's model of the assembler's words (the ISA-database rows of coq/gen/IsaA64Db.v: bit
   templates + operand syntaxes).  a64_mn / a64_rid name the database mnemonic / row of an instruction, a64_ops its operands in C02's
   language (registers by AsmJit id, condition by CondCode, ORel d / OLit d = "label at pc + d").  For every well-formed label-bearing
   instruction the database row packs exactly those operands into exactly a64_enc i, and C02's inverse operand map reads them back. ---- *)
Theorem C03_a64_db_agrees : forall i, a64_wf i -> a64_db_ok i ->
  exists r, In r rows /\ r_id r = a64_rid i /\ r_mn r = a64_mn i /\
            spec_row r (a64_ops i) = Some (a64_enc i) /\
            tmatch (r_tmpl r) (a64_enc i) = true /\ decode_row r (a64_enc i) = a64_ops i.
Proof. exact a64_db_agrees. Qed.
Print Assumptions C03_a64_db_agrees.

(* the displacement operand of a64_ops is the displacement the architectural reading (a64_target) adds to pc (ADRP: to Page(pc)) *)
Theorem C03_a64_db_target : forall i pc,
  disp_of (last (a64_ops i) (OImm 0 0)) = Some (a64_disp i) /\
  a64_target pc i = ((match i with IAdr true _ _ => pc - pc mod 4096 | _ => pc end) + a64_disp i) mod 2 ^ 64.
Proof. exact a64_db_target. Qed.
Print Assumptions C03_a64_db_target.

(* the word at a resolved reference (zero-displacement instruction OR encoded displacement off) IS the word C02's model assigns to the
   instruction with the displacement operand off, and C02's decoder reads `off` back from it *)
Theorem C03_a64_db_patched : forall i off m,
  a64_wf (set_imm i 0) -> a64_db_ok i -> hole_ok (kind_of i) (a64_enc (set_imm i 0)) = true -> int64 off ->
  encode_offset (fmt_of_kind (kind_of i)) off = Some m ->
  let w := Z.lor (a64_enc (set_imm i 0)) m in
  let i' := set_imm i (off / 2 ^ discard (fmt_of_kind (kind_of i))) in
  exists r, In r rows /\ r_id r = a64_rid i /\ r_mn r = a64_mn i /\
            spec_row r (a64_ops i') = Some w /\ decode_row r w = a64_ops i' /\
            disp_of (last (a64_ops i') (OImm 0 0)) = Some off.
Proof. exact a64_db_patched. Qed.
Print Assumptions C03_a64_db_patched.

Theorem C03_a64_db_patched_witness :
  let i := ICb true false 5 0 in
  a64_wf (set_imm i 0) /\ a64_db_ok i /\ hole_ok (kind_of i) (a64_enc (set_imm i 0)) = true /\
  encode_offset (fmt_of_kind (kind_of i)) 1048572 = Some 8388576 /\
  spec_rows rows (a64_mn i) [OGp true 5; ORel 1048572] = Some (a64_rid i, Z.lor (a64_enc (set_imm i 0)) 8388576).
Proof. exact a64_db_patched_witness. Qed.
Print Assumptions C03_a64_db_patched_witness.

(* instruction level: C02's model of an a64 emit is `spec_rows` - the FIRST row of the mnemonic whose operand syntaxes accept the operands
   (that function is what C02's check ties to the real assembler).  It picks exactly the row named by a64_rid and yields a64_enc i. *)
Theorem C03_a64_db_spec_rows : forall i, a64_wf i -> a64_db_ok i ->
  spec_rows rows (a64_mn i) (a64_ops i) = Some (a64_rid i, a64_enc i).
Proof. exact a64_db_spec_rows. Qed.
Print Assumptions C03_a64_db_spec_rows.

Theorem C03_a64_db_patched_spec_rows : forall i off m,
  a64_wf (set_imm i 0) -> a64_db_ok i -> hole_ok (kind_of i) (a64_enc (set_imm i 0)) = true -> int64 off ->
  encode_offset (fmt_of_kind (kind_of i)) off = Some m ->
  let i' := set_imm i (off / 2 ^ discard (fmt_of_kind (kind_of i))) in
  spec_rows rows (a64_mn i) (a64_ops i') = Some (a64_rid i, Z.lor (a64_enc (set_imm i 0)) m) /\
  disp_of (last (a64_ops i') (OImm 0 0)) = Some off.
Proof. exact a64_db_patched_spec_rows. Qed.
Print Assumptions C03_a64_db_patched_spec_rows.

(* ---- round 6: THE PROPERTY IN ARCHITECTURAL TERMS (AArch64).  After ANY label program (any interleaving of references, binds, data,
   section switches and layouts with the offsets offs), the 32-bit word found in the BYTE IMAGE at a resolved reference that was emitted
   as the instruction i with a zero displacement field decodes to that instruction, and the address it designates when executed at its
   flattened position pc is the address where the label was bound plus the addend (ADRP: Page(pc) + (target - pc), AsmJit's encoding of
   a page displacement; target - pc is a multiple of 4096 whenever the reference is resolved). ---- *)
Theorem C03_a64_reference_meaning : forall ops offs id r i,
  resolves_with offs ops ->
  let s := run init ops in let f := frun finit ops in
  nth_error (refs s) id = Some r -> ~ In id (ids (pending s)) ->
  r_kind r = kind_of i -> r_w0 r = a64_enc (set_imm i 0) -> a64_wf (set_imm i 0) ->
  exists ls lo, nth_error (f_labels f) (r_label r) = Some (Some (ls, lo)) /\
    let w := read_word (nth (r_sec r) (f_secs f) []) (r_site r) 4 in
    let pc := nth (r_sec r) offs 0 + r_site r in
    let target := nth ls offs 0 + lo + r_rel r in
    a64_dec w = Some (set_imm i (final_disp offs ls lo r / 2 ^ discard (fmt_of_kind (kind_of i)))) /\
    a64_site_target pc w = Some (match i with
                                 | IAdr true _ _ => ((pc - pc mod 4096) + (target - pc)) mod 2 ^ 64
                                 | _ => target mod 2 ^ 64
                                 end).
Proof. exact a64_reference_meaning. Qed.
Print Assumptions C03_a64_reference_meaning.

Theorem C03_a64_reference_meaning_witness :
  let ops := [ONewLabel; ONewSection; ORaw [31; 32; 3; 213]; ORef K_Imm19 0 O [] 3019898885 []; OSection 1%nat; OGap 8; OBind O; OResolve [0; 4096]] in
  let i := ICb true false 5 0 in
  let s := run init ops in let f := frun finit ops in
  resolves_with [0; 4096] ops /\ pending s = [] /\
  exists r, nth_error (refs s) O = Some r /\ r_kind r = kind_of i /\ r_w0 r = a64_enc (set_imm i 0) /\ a64_wf (set_imm i 0) /\
            r_sec r = O /\ r_site r = 4 /\
            a64_site_target 4 (read_word (nth O (f_secs f) []) 4 4) = Some 4104.
Proof. exact a64_reference_meaning_witness. Qed.
Print Assumptions C03_a64_reference_meaning_witness.

(* ---- round 6: THE PROPERTY IN ARCHITECTURAL TERMS (x86, both modes) through C01's PROVEN decoder (X86Model.sdec, round trip sdec_senc) and
   the reading `designated` of Reloc.X86Meaning (rel = end of instruction + immediate; RIP-relative = end of instruction + disp32).  After
   ANY label program, an instruction whose rel32 immediate is the word of a resolved label reference (emitted by EmitJmpCall: zero hole,
   addend -4, field = the last four bytes) designates the address where the label was bound, modulo the address width. ---- *)
Theorem C03_x86_branch_reference_meaning : forall ops offs id r (m : mode) sh s c xr xx xb xr' rest,
  resolves_with offs ops ->
  let st := run init ops in
  nth_error (refs st) id = Some r -> ~ In id (ids (pending st)) ->
  r_kind r = K_Rel32 -> r_w0 r = 0 -> r_rel r = -4 ->
  s_modrm s = MNone xr xx xb xr' -> s_imm s = r_word r -> wf m sh s = true -> adm m sh s c = true ->
  let len := Z.of_nat (length (senc m sh s c)) in
  let pc := nth (r_sec r) offs 0 + r_site r + 4 - len in
  exists ls lo, nth_error (labels st) (r_label r) = Some (Some (ls, lo)) /\
    site_target m CBranch sh pc (senc m sh s c ++ rest) = Some ((nth ls offs 0 + lo) mod 2 ^ abits m).
Proof. exact x86_branch_reference_meaning. Qed.
Print Assumptions C03_x86_branch_reference_meaning.

(* x86-64 `[rip + label + d]` operands (with or without a trailing immediate): tail = distance from the disp32 field to the end of the
   instruction; the recorded addend is d - tail, so r_rel r + tail is the operand's own displacement d *)
Theorem C03_x86_rip_reference_meaning : forall ops offs id r sh s c reg rest tail,
  resolves_with offs ops ->
  let st := run init ops in
  nth_error (refs st) id = Some r -> ~ In id (ids (pending st)) ->
  r_kind r = K_Rel32 -> r_w0 r = 0 ->
  s_modrm s = MMem reg (mkM BRip None 0 (sext32 (r_word r))) -> wf M64 sh s = true -> adm M64 sh s c = true ->
  let len := Z.of_nat (length (senc M64 sh s c)) in
  let pc := nth (r_sec r) offs 0 + r_site r + tail - len in
  exists ls lo, nth_error (labels st) (r_label r) = Some (Some (ls, lo)) /\
    site_target M64 CMem sh pc (senc M64 sh s c ++ rest) = Some ((nth ls offs 0 + lo + (r_rel r + tail)) mod 2 ^ 64).
Proof. exact x86_rip_reference_meaning. Qed.
Print Assumptions C03_x86_rip_reference_meaning.

Theorem C03_x86_branch_reference_meaning_witness :
  let ops := [ONewLabel; ORaw [144]; ORef K_Rel32 (-4) O [233] 0 []; OGap 100; OBind O; OResolve [0]] in
  let st := run init ops in let sh := mkSh false false 4 1 in let c := mkC false 0 false in
  resolves_with [0] ops /\ pending st = [] /\
  exists r, nth_error (refs st) O = Some r /\ r_kind r = K_Rel32 /\ r_w0 r = 0 /\ r_rel r = -4 /\ r_sec r = O /\ r_site r = 2 /\
            wf M64 sh (ex_jmp (r_word r)) = true /\ adm M64 sh (ex_jmp (r_word r)) c = true /\
            senc M64 sh (ex_jmp (r_word r)) c = [233; 100; 0; 0; 0] /\
            nth_error (labels st) O = Some (Some (O, 106)) /\
            site_target M64 CBranch sh 1 (senc M64 sh (ex_jmp (r_word r)) c) = Some 106.
Proof. exact x86_branch_reference_meaning_witness. Qed.
Print Assumptions C03_x86_branch_reference_meaning_witness.

Theorem C03_x86_rip_reference_meaning_witness :
  let ops := [ONewLabel; ORaw [144]; ORef K_Rel32 (-4) O [72; 141; 5] 0 []; OGap 100; OBind O; OResolve [0]] in
  let st := run init ops in let sh := mkSh true false 0 1 in let c := mkC false 0 false in
  resolves_with [0] ops /\ pending st = [] /\
  exists r, nth_error (refs st) O = Some r /\ r_kind r = K_Rel32 /\ r_w0 r = 0 /\ r_rel r = -4 /\ r_sec r = O /\ r_site r = 4 /\
            wf M64 sh (ex_lea (sext32 (r_word r))) = true /\ adm M64 sh (ex_lea (sext32 (r_word r))) c = true /\
            senc M64 sh (ex_lea (sext32 (r_word r))) c = [72; 141; 5; 100; 0; 0; 0] /\
            nth_error (labels st) O = Some (Some (O, 108)) /\
            site_target M64 CMem sh 1 (senc M64 sh (ex_lea (sext32 (r_word r))) c) = Some 108.
Proof. exact x86_rip_reference_meaning_witness. Qed.
Print Assumptions C03_x86_rip_reference_meaning_witness.

(* short branches (jmp / jcc / jecxz / loop rel8): same statement with the one-byte field *)
Theorem C03_x86_branch8_reference_meaning : forall ops offs id r (m : mode) sh s c xr xx xb xr' rest,
  resolves_with offs ops ->
  let st := run init ops in
  nth_error (refs st) id = Some r -> ~ In id (ids (pending st)) ->
  r_kind r = K_Rel8 -> r_w0 r = 0 -> r_rel r = -1 ->
  s_modrm s = MNone xr xx xb xr' -> s_imm s = r_word r -> wf m sh s = true -> adm m sh s c = true ->
  let len := Z.of_nat (length (senc m sh s c)) in
  let pc := nth (r_sec r) offs 0 + r_site r + 1 - len in
  exists ls lo, nth_error (labels st) (r_label r) = Some (Some (ls, lo)) /\
    branch8_target m sh pc (senc m sh s c ++ rest) = Some ((nth ls offs 0 + lo) mod 2 ^ abits m).
Proof. exact x86_branch8_reference_meaning. Qed.
Print Assumptions C03_x86_branch8_reference_meaning.

(* the same about the BYTE IMAGE alone: whatever well-formed immediate-only instruction with a 4-byte (1-byte) immediate lies in the
   section image so that it ends where the resolved reference's field ends - decoding the image bytes from its first byte with C01's
   proven decoder designates the address where the label was bound; nothing relates the instruction to the reference but its position *)
Theorem C03_x86_branch_in_image : forall ops offs id r (m : mode) sh s c xr xx xb xr' (A B : list Z),
  resolves_with offs ops ->
  let st := run init ops in let f := frun finit ops in
  nth_error (refs st) id = Some r -> ~ In id (ids (pending st)) ->
  r_kind r = K_Rel32 -> r_w0 r = 0 -> r_rel r = -4 ->
  nth (r_sec r) (f_secs f) [] = A ++ senc m sh s c ++ B ->
  zlen A + zlen (senc m sh s c) = r_site r + 4 -> sh_imm sh = 4%nat ->
  s_modrm s = MNone xr xx xb xr' -> wf m sh s = true -> adm m sh s c = true ->
  exists ls lo, nth_error (labels st) (r_label r) = Some (Some (ls, lo)) /\
    site_target m CBranch sh (nth (r_sec r) offs 0 + zlen A) (senc m sh s c ++ B) = Some ((nth ls offs 0 + lo) mod 2 ^ abits m).
Proof. exact x86_branch_in_image. Qed.
Print Assumptions C03_x86_branch_in_image.

Theorem C03_x86_branch8_in_image : forall ops offs id r (m : mode) sh s c xr xx xb xr' (A B : list Z),
  resolves_with offs ops ->
  let st := run init ops in let f := frun finit ops in
  nth_error (refs st) id = Some r -> ~ In id (ids (pending st)) ->
  r_kind r = K_Rel8 -> r_w0 r = 0 -> r_rel r = -1 ->
  nth (r_sec r) (f_secs f) [] = A ++ senc m sh s c ++ B ->
  zlen A + zlen (senc m sh s c) = r_site r + 1 -> sh_imm sh = 1%nat ->
  s_modrm s = MNone xr xx xb xr' -> wf m sh s = true -> adm m sh s c = true ->
  exists ls lo, nth_error (labels st) (r_label r) = Some (Some (ls, lo)) /\
    branch8_target m sh (nth (r_sec r) offs 0 + zlen A) (senc m sh s c ++ B) = Some ((nth ls offs 0 + lo) mod 2 ^ abits m).
Proof. exact x86_branch8_in_image. Qed.
Print Assumptions C03_x86_branch8_in_image.

Theorem C03_x86_branch_in_image_witness :
  let ops := [ONewLabel; ORaw [144]; ORef K_Rel32 (-4) O [233] 0 []; OGap 100; OBind O; OResolve [0]] in
  let f := frun finit ops in let sh := mkSh false false 4 1 in let c := mkC false 0 false in
  nth O (f_secs f) [] = [144] ++ senc M64 sh (ex_jmp 100) c ++ repeat 0 100 /\
  wf M64 sh (ex_jmp 100) = true /\ adm M64 sh (ex_jmp 100) c = true /\
  site_target M64 CBranch sh 1 (senc M64 sh (ex_jmp 100) c ++ repeat 0 100) = Some 106.
Proof. exact x86_branch_in_image_witness. Qed.
Print Assumptions C03_x86_branch_in_image_witness.

(* `op reg, [rip + label + d]` / `op [rip + label + d], imm` found in the image: the displacement of the structural instruction is not
   assumed, it is read from the image; the designated address is the label's + (recorded addend + 4 + size of the trailing immediate) *)
Theorem C03_x86_rip_in_image : forall ops offs id r sh s c reg d (A B : list Z),
  resolves_with offs ops ->
  let st := run init ops in let f := frun finit ops in
  nth_error (refs st) id = Some r -> ~ In id (ids (pending st)) ->
  r_kind r = K_Rel32 -> r_w0 r = 0 ->
  nth (r_sec r) (f_secs f) [] = A ++ senc M64 sh s c ++ B ->
  zlen A + zlen (senc M64 sh s c) - Z.of_nat (sh_imm sh) - 4 = r_site r ->
  s_modrm s = MMem reg (mkM BRip None 0 d) -> wf M64 sh s = true -> adm M64 sh s c = true ->
  exists ls lo, nth_error (labels st) (r_label r) = Some (Some (ls, lo)) /\
    site_target M64 CMem sh (nth (r_sec r) offs 0 + zlen A) (senc M64 sh s c ++ B) =
      Some ((nth ls offs 0 + lo + (r_rel r + 4 + Z.of_nat (sh_imm sh))) mod 2 ^ 64).
Proof. exact x86_rip_in_image. Qed.
Print Assumptions C03_x86_rip_in_image.

Theorem C03_x86_rip_in_image_witness :
  let ops := [ONewLabel; ORaw [144]; ORef K_Rel32 (-4) O [72; 141; 5] 0 []; OGap 100; OBind O; OResolve [0]] in
  let f := frun finit ops in let sh := mkSh true false 0 1 in let c := mkC false 0 false in
  nth O (f_secs f) [] = [144] ++ senc M64 sh (ex_lea 100) c ++ repeat 0 100 /\
  wf M64 sh (ex_lea 100) = true /\ adm M64 sh (ex_lea 100) c = true /\
  site_target M64 CMem sh 1 (senc M64 sh (ex_lea 100) c ++ repeat 0 100) = Some 108.
Proof. exact x86_rip_in_image_witness. Qed.
Print Assumptions C03_x86_rip_in_image_witness.

(* patched later = assembled with the target known: the word in the image at a resolved AArch64 reference is exactly the word C02's
   instruction-level database model (the one C02's check ties to the real assembler) emits for the same instruction with the displacement
   operand "label at pc + final displacement" *)
Theorem C03_a64_reference_is_db_word : forall ops offs id r i,
  resolves_with offs ops ->
  let s := run init ops in let f := frun finit ops in
  nth_error (refs s) id = Some r -> ~ In id (ids (pending s)) ->
  r_kind r = kind_of i -> r_w0 r = a64_enc (set_imm i 0) -> a64_wf (set_imm i 0) -> a64_db_ok i ->
  exists ls lo, nth_error (f_labels f) (r_label r) = Some (Some (ls, lo)) /\
    let d := final_disp offs ls lo r in
    let i' := set_imm i (d / 2 ^ discard (fmt_of_kind (kind_of i))) in
    spec_rows rows (a64_mn i) (a64_ops i') = Some (a64_rid i, read_word (nth (r_sec r) (f_secs f) []) (r_site r) 4) /\
    disp_of (last (a64_ops i') (OImm 0 0)) = Some d.
Proof. exact a64_reference_is_db_word. Qed.
Print Assumptions C03_a64_reference_is_db_word.

(* ADRP: a resolved reference designates the 4 KiB page of the label (+ addend): resolution guarantees that the distance is a multiple
   of 4096 (anything else is refused, never truncated), so Page(pc) + (target - pc) = Page(target) *)
Theorem C03_a64_adrp_reference_page : forall ops offs id r rd,
  resolves_with offs ops ->
  let s := run init ops in let f := frun finit ops in
  nth_error (refs s) id = Some r -> ~ In id (ids (pending s)) ->
  r_kind r = K_Adrp -> r_w0 r = a64_enc (IAdr true rd 0) -> 0 <= rd < 32 ->
  exists ls lo, nth_error (f_labels f) (r_label r) = Some (Some (ls, lo)) /\
    let w := read_word (nth (r_sec r) (f_secs f) []) (r_site r) 4 in
    let pc := nth (r_sec r) offs 0 + r_site r in
    let target := nth ls offs 0 + lo + r_rel r in
    (target - pc) mod 4096 = 0 /\
    a64_site_target pc w = Some ((target - target mod 4096) mod 2 ^ 64).
Proof. exact a64_adrp_reference_page. Qed.
Print Assumptions C03_a64_adrp_reference_page.

Theorem C03_a64_adrp_reference_page_witness :
  let ops := [ONewLabel; ORef K_Adrp 0 O [] 2415919107 []; OGap 4092; OBind O; OResolve [0]] in
  let s := run init ops in let f := frun finit ops in
  resolves_with [0] ops /\ pending s = [] /\ 2415919107 = a64_enc (IAdr true 3 0) /\
  nth_error (labels s) O = Some (Some (O, 4096)) /\
  a64_site_target 0 (read_word (nth O (f_secs f) []) 0 4) = Some 4096.
Proof. exact a64_adrp_reference_page_witness. Qed.
Print Assumptions C03_a64_adrp_reference_page_witness.

(* C03 — Every label reference resolves to the position where the label was bound.
   This file holds ONLY the property theorems (each closed by `exact <lemma>`) and their Print Assumptions.
   Model: Verif.Labels.LabelsModel (operations on sections / labels / fixups / relocations; `write_offset` is the C17 model).
   `run init ops` = the state after an ARBITRARY list of operations (any interleaving of label creation, references of every
   displacement kind, binds, data, gaps, section switches, embedded labels, label deltas, layout+cross-section resolution). *)
From Coq Require Import ZArith List Bool.
From Verif Require Import A64.A64Tmpl A64.A64Sem.
From VerifGen Require Import IsaA64Db.
From Verif Require Import Codec.OffsetModel Labels.LabelsModel Labels.LabelsProofs Labels.LabelsExact Labels.LabelsAbs
  Labels.FlatModel Labels.FlatLemmas Labels.FlatProofs Labels.SparseModel Labels.SparseProofs Labels.A64Dec Labels.A64DbTie Labels.A64RefMeaning Labels.A64RefDb Labels.A64EndToEnd Labels.ResolveComplete Labels.ResolvedStable.
From Verif Require Import X86.X86Model Reloc.X86Meaning Labels.X86RefMeaning Labels.X86EndToEnd.
Import ListNotations.
Local Open Scope Z_scope.

(* the reported number of unresolved references is the number of pending fixups, after ANY sequence of operations *)
Theorem C03_count_exact : forall ops,
  let s := run init ops in unresolved s = zlen (pending s) + zlen (pending_rel s).
Proof. exact count_exact. Qed.
Print Assumptions C03_count_exact.

Theorem C03_count_zero_iff : forall ops,
  let s := run init ops in unresolved s = 0 <-> (pending s = [] /\ pending_rel s = []).
Proof. exact count_zero_iff. Qed.
Print Assumptions C03_count_zero_iff.

(* after any operations followed by layout (ANY section offsets `offs`) + cross-section resolution: every logged reference that
   is not pending has a bound label, its word decodes (architectural decoder) to exactly
   (offs[label section] + label offset) - (offs[section] + site) + addend, and all bits outside the field are the emitted ones *)
Theorem C03_resolved_exact : forall ops offs id r,
  no_resolve ops ->
  let s := run init (ops ++ [OResolve offs]) in
  nth_error (refs s) id = Some r -> ~ In id (ids (pending s)) ->
  exists ls lo, nth_error (labels s) (r_label r) = Some (Some (ls, lo)) /\
                decode_kind (r_kind r) (r_word r) = final_disp offs ls lo r /\
                Z.land (r_word r) (Z.lnot (kind_mask (r_kind r))) = r_w0 r.
Proof. exact resolved_exact. Qed.
Print Assumptions C03_resolved_exact.

(* same-section references are exact in EVERY reachable state (bound before or after the reference, no layout needed) *)
Theorem C03_resolved_same_section : forall ops id r lo,
  let s := run init ops in
  nth_error (refs s) id = Some r -> ~ In id (ids (pending s)) ->
  nth_error (labels s) (r_label r) = Some (Some (r_sec r, lo)) ->
  decode_kind (r_kind r) (r_word r) = to_i64 (lo - r_site r + r_rel r) /\
  Z.land (r_word r) (Z.lnot (kind_mask (r_kind r))) = r_w0 r.
Proof. exact resolved_same_section. Qed.
Print Assumptions C03_resolved_same_section.

(* invariant form, any reachable state, also across several layouts: a non-pending reference carries the encoding of the
   displacement computed with the section offsets that were in force when it was patched (ghost r_lay) *)
Theorem C03_resolved_invariant : forall ops id r,
  let s := run init ops in
  nth_error (refs s) id = Some r -> ~ In id (ids (pending s)) -> resolved_ok (labels s) r.
Proof. exact resolved_inv. Qed.
Print Assumptions C03_resolved_invariant.

(* a displacement the format cannot encode (by C17_signed_refused_iff: cannot represent) is never patched: the reference stays
   pending, its word is untouched and the unresolved count is positive *)
Theorem C03_never_truncates : forall ops offs id r ls lo,
  no_resolve ops ->
  let s := run init (ops ++ [OResolve offs]) in
  nth_error (refs s) id = Some r -> nth_error (labels s) (r_label r) = Some (Some (ls, lo)) ->
  encode_offset (fmt_of_kind (r_kind r)) (final_disp offs ls lo r) = None ->
  In id (ids (pending s)) /\ r_word r = r_w0 r /\ 0 < unresolved s.
Proof. exact never_truncates_final. Qed.
Print Assumptions C03_never_truncates.

Theorem C03_never_truncates_same_section : forall ops id r lo,
  let s := run init ops in
  nth_error (refs s) id = Some r -> nth_error (labels s) (r_label r) = Some (Some (r_sec r, lo)) ->
  encode_offset (fmt_of_kind (r_kind r)) (to_i64 (lo - r_site r + r_rel r)) = None ->
  In id (ids (pending s)).
Proof. exact never_truncates_same_section. Qed.
Print Assumptions C03_never_truncates_same_section.

(* reporting (behaviour since fix 6b578fc): bind_label checks the displacements of the label's same-section fixups BEFORE binding; a bind
   that is refused (InvalidDisplacement, already bound, invalid label) is a NO-OP: the label stays unbound, every fixup stays pending
   and untouched, the counter is unchanged - so nothing can be truncated by a refused bind, and an accepted bind reports nothing *)
Theorem C03_bind_refused_no_change : forall s l, inv s ->
  snd (step s (OBind l)) <> EOk -> fst (step s (OBind l)) = s.
Proof. exact bind_refused_no_change. Qed.
Print Assumptions C03_bind_refused_no_change.

Theorem C03_bind_refused_iff : forall s l, nth_error (labels s) l = Some None ->
  (snd (step s (OBind l)) = EInvalidDisp /\ fst (step s (OBind l)) = s) \/
  bind_precheck l (cur s) (s_len (cur_sec s)) (pending s) (refs s) = true.
Proof. exact bind_refused_iff. Qed.
Print Assumptions C03_bind_refused_iff.

Theorem C03_bind_error_means_pending : forall s l,
  snd (step s (OBind l)) = EInvalidDisp -> pending (fst (step s (OBind l))) <> [].
Proof. exact bind_error_means_pending. Qed.
Print Assumptions C03_bind_error_means_pending.

Theorem C03_ref_error_no_change : forall s k rel l pre w0 post,
  snd (step s (ORef k rel l pre w0 post)) <> EOk -> fst (step s (ORef k rel l pre w0 post)) = s.
Proof. exact ref_error_no_change. Qed.
Print Assumptions C03_ref_error_no_change.

(* every displacement format the two backends build: encoding then architectural decoding is the identity, other bits survive *)
Theorem C03_kind_roundtrip : forall k w0 m off,
  hole_ok k w0 = true -> int64 off -> encode_offset (fmt_of_kind k) off = Some m ->
  decode_kind k (Z.lor w0 m) = off /\ Z.land (Z.lor w0 m) (Z.lnot (kind_mask k)) = w0.
Proof. exact enc_decode. Qed.
Print Assumptions C03_kind_roundtrip.

(* hypotheses are satisfiable: a forward rel8 jump over 100 bytes resolves to 100; over 128 bytes it stays pending and is reported *)
Theorem C03_resolved_exact_witness :
  let ops := [ONewLabel; ORef K_Rel8 (-1) O [235] 0 []; OGap 100; OBind O] in
  let s := run init (ops ++ [OResolve [0]]) in
  no_resolve ops /\ pending s = [] /\ unresolved s = 0 /\
  exists r, nth_error (refs s) O = Some r /\ r_word r = 100 /\ decode_kind K_Rel8 (r_word r) = 100.
Proof. exact resolved_exact_witness. Qed.
Print Assumptions C03_resolved_exact_witness.

Theorem C03_never_truncates_witness :
  let ops := [ONewLabel; ORef K_Rel8 (-1) O [235] 0 []; OGap 128; OBind O] in
  let s := run init (ops ++ [OResolve [0]]) in
  no_resolve ops /\ unresolved s = 1 /\ snd (step (run init [ONewLabel; ORef K_Rel8 (-1) O [235] 0 []; OGap 128]) (OBind O)) = EInvalidDisp /\
  exists r, nth_error (refs s) O = Some r /\ r_word r = 0.
Proof. exact never_truncates_witness. Qed.
Print Assumptions C03_never_truncates_witness.

(* label deltas: both labels bound in one section -> the low 8*size bits of the difference are emitted at once; otherwise an
   expression relocation (label - base) of that width is recorded (evaluated at relocation time: C04) *)
Theorem C03_delta_immediate_exact : forall s l b size ls lo bo,
  nth_error (labels s) l = Some (Some (ls, lo)) -> nth_error (labels s) b = Some (Some (ls, bo)) -> size_ok size = true ->
  step s (ODelta l b size) = (append_cur s [IRaw (le_split (Z.to_nat size) ((lo - bo) mod 2 ^ (8 * size)))] size, EOk).
Proof. exact delta_immediate_exact. Qed.
Print Assumptions C03_delta_immediate_exact.

Theorem C03_delta_expression_recorded : forall s l b size ll lb,
  nth_error (labels s) l = Some ll -> nth_error (labels s) b = Some lb -> size_ok size = true ->
  (match ll, lb with Some (ls, _), Some (bs, _) => ls <> bs | _, _ => True end) ->
  let s' := fst (step s (ODelta l b size)) in
  snd (step s (ODelta l b size)) = EOk /\
  relocs s' = relocs s ++ [{| rl_type := Expr l b; rl_sec := cur s; rl_off := s_len (cur_sec s); rl_lead := 0; rl_size := size;
                              rl_trail := 0; rl_payload := 0; rl_target := None; rl_label := l; rl_addend := 0 |}] /\
  unresolved s' = unresolved s.
Proof. exact delta_expression_recorded. Qed.
Print Assumptions C03_delta_expression_recorded.

(* KNOWN FINDING (faithful model of the pinned tree): the immediate path of embed_label_delta emits a delta that does not fit
   the requested width, and reports nothing *)
Theorem C03_delta_truncated_refuted :
  exists ops l b lo bo,
    let s := run init ops in
    nth_error (labels s) l = Some (Some (O, lo)) /\ nth_error (labels s) b = Some (Some (O, bo)) /\
    ~ (- 2 ^ 7 <= lo - bo < 2 ^ 8) /\
    step s (ODelta l b 1) = (append_cur s [IRaw [(lo - bo) mod 2 ^ 8]] 1, EOk).
Proof. exact delta_truncated_refuted. Qed.
Print Assumptions C03_delta_truncated_refuted.

(* x86 EmitJmpCallRel: the short form is chosen only when the rel8 displacement fits; "no form" only when none can be used *)
Theorem C03_form_short_fits : forall h8 h32 fs fl s8 s32 ip tgt,
  x86_branch_form h8 h32 fs fl s8 s32 ip tgt = Some FShort ->
  - 128 <= tgt - (ip + s8) < 128 /\ h8 = true /\ fl = false.
Proof. exact form_short_fits. Qed.
Print Assumptions C03_form_short_fits.

Theorem C03_form_long_available : forall h8 h32 fs fl s8 s32 ip tgt,
  x86_branch_form h8 h32 fs fl s8 s32 ip tgt = Some FLong -> h32 = true /\ fs = false.
Proof. exact form_long_available. Qed.
Print Assumptions C03_form_long_available.

Theorem C03_form_none_justified : forall h8 h32 fs fl s8 s32 ip tgt,
  x86_branch_form h8 h32 fs fl s8 s32 ip tgt = None ->
  (h32 = false \/ fs = true) /\ (~ (- 128 <= tgt - (ip + s8) < 128) \/ h8 = false \/ fl = true).
Proof. exact form_none_justified. Qed.
Print Assumptions C03_form_none_justified.

(* x86-64 [rip + label + disp] with the label already bound in the section: the inline int32 computation is exact whenever the
   operands and the true displacement are in range ... *)
Theorem C03_x64_rip_field_exact : forall disp imm lo hole,
  (- 2 ^ 31 <= disp - (4 + imm) < 2 ^ 31) -> (- 2 ^ 31 <= lo - hole < 2 ^ 31) ->
  (- 2 ^ 31 <= lo + disp - (hole + 4 + imm) < 2 ^ 31) ->
  x64_rip_field disp imm lo hole = lo + disp - (hole + 4 + imm).
Proof. exact x64_rip_field_exact. Qed.
Print Assumptions C03_x64_rip_field_exact.

(* ... KNOWN FINDING: and wraps silently (no error, no pending fixup) when an addend near -2^31 makes it unrepresentable *)
Theorem C03_x64_rip_wrap_refuted :
  exists disp imm lo hole,
    (- 2 ^ 31 <= disp < 2 ^ 31) /\ (0 <= lo <= hole) /\
    ~ (- 2 ^ 31 <= lo + disp - (hole + 4 + imm) < 2 ^ 31) /\
    x64_rip_field disp imm lo hole <> lo + disp - (hole + 4 + imm).
Proof. exact x64_rip_wrap_refuted. Qed.
Print Assumptions C03_x64_rip_wrap_refuted.

(* absolute references (embed_label of any size, x86-32 [label + disp]): in every reachable state the RelToAbs relocation entry of a
   bound label carries payload = addend + label offset (mod 2^64) and the label's section; for an unbound label it is linked from a
   counted fixup.  (What relocation does with the entry is C04.) *)
Theorem C03_abs_exact : forall ops rid re,
  let s := run init ops in
  nth_error (relocs s) rid = Some re -> rl_type re = RelToAbs ->
  (In (rl_label re, rid) (pending_rel s) /\ nth_error (labels s) (rl_label re) = Some None /\ 0 < unresolved s) \/
  (exists ls lo, nth_error (labels s) (rl_label re) = Some (Some (ls, lo)) /\
                 rl_payload re = (rl_addend re + lo) mod 2 ^ 64 /\ rl_target re = Some ls).
Proof. exact abs_exact. Qed.
Print Assumptions C03_abs_exact.

(* FULL form of C03_resolved_exact (round 2): ANY operation list with any number of layout+resolve steps anywhere in it (several
   Flatten/ResolveCross, references created and labels bound between them), provided the layouts report the same section offsets:
   every non-pending reference decodes to target - site + addend under those offsets; a cross-section one was patched by a layout step *)
Theorem C03_resolved_exact_any_layouts : forall ops offs id r,
  resolves_with offs ops ->
  let s := run init ops in
  nth_error (refs s) id = Some r -> ~ In id (ids (pending s)) ->
  exists ls lo, nth_error (labels s) (r_label r) = Some (Some (ls, lo)) /\
                decode_kind (r_kind r) (r_word r) = final_disp offs ls lo r /\
                Z.land (r_word r) (Z.lnot (kind_mask (r_kind r))) = r_w0 r /\
                (ls <> r_sec r -> exists so to, r_lay r = Some (so, to)).
Proof. exact resolved_exact_stable. Qed.
Print Assumptions C03_resolved_exact_any_layouts.

(* order irrelevance: programs whose reference logs and final label tables agree (they differ only in when labels were bound, when
   layouts were requested, and in the interleaving of operations on different sections) leave the same word in every resolved reference *)
Theorem C03_order_irrelevant : forall ops1 ops2 offs id r1 r2,
  resolves_with offs ops1 -> resolves_with offs ops2 ->
  let s1 := run init ops1 in let s2 := run init ops2 in
  labels s1 = labels s2 ->
  nth_error (refs s1) id = Some r1 -> nth_error (refs s2) id = Some r2 -> ghost_of r1 = ghost_of r2 ->
  ~ In id (ids (pending s1)) -> ~ In id (ids (pending s2)) ->
  r_word r1 = r_word r2.
Proof. exact order_irrelevant. Qed.
Print Assumptions C03_order_irrelevant.

(* embed_label_delta WITH the range check of fixes/C03-label-delta-range.patch (model operation ODeltaChecked, used by the check when the
   tree has the check): the immediate path either emits the exact delta, which fits the signed width, or reports and changes nothing *)
Theorem C03_delta_checked_never_truncates : forall s l b size ls lo bo,
  nth_error (labels s) l = Some (Some (ls, lo)) -> nth_error (labels s) b = Some (Some (ls, bo)) -> size_ok size = true ->
  (snd (step s (ODeltaChecked l b size)) = EOk /\
   fst (step s (ODeltaChecked l b size)) = append_cur s [IRaw (le_split (Z.to_nat size) ((lo - bo) mod 2 ^ (8 * size)))] size /\
   (size = 8 \/ - 2 ^ (8 * size - 1) <= lo - bo < 2 ^ (8 * size - 1))) \/
  (step s (ODeltaChecked l b size) = (s, EInvalidDisp) /\ size <> 8 /\ ~ (- 2 ^ (8 * size - 1) <= lo - bo < 2 ^ (8 * size - 1))).
Proof. exact delta_checked_never_truncates. Qed.
Print Assumptions C03_delta_checked_never_truncates.

(* ---- round 2: the FLAT byte-buffer model (Labels.FlatModel: sections are byte lists, a fixup is patched by reading the value word at
   its numeric offset, OR-ing the encoded displacement in, writing it back - what bind_label / resolve_cross_section_fixups do) runs in
   lock step with the structured model the theorems above are about ---- *)
Theorem C03_flat_refines : forall ops,
  let s := run init ops in let f := frun finit ops in
  f_secs f = imgs (secs s) (refs s) /\ f_labels f = labels s /\ f_unresolved f = unresolved s /\ f_relocs f = relocs s /\
  length (f_pending f) = length (pending s) /\ f_pending_rel f = pending_rel s.
Proof. exact flat_refines. Qed.
Print Assumptions C03_flat_refines.

Theorem C03_flat_errors_agree : forall ops o,
  snd (step (run init ops) o) = snd (fstep (frun finit ops) o).
Proof. exact step_errors_agree. Qed.
Print Assumptions C03_flat_errors_agree.

(* the little-endian word read from the flat buffer at a reference's numeric site is the reference's word ... *)
Theorem C03_image_word : forall ops id r,
  let s := run init ops in let f := frun finit ops in
  nth_error (refs s) id = Some r ->
  read_word (nth (r_sec r) (f_secs f) []) (r_site r) (vnat (r_kind r)) = r_word r.
Proof. exact image_word. Qed.
Print Assumptions C03_image_word.

(* ... hence resolved_exact is a statement about IMAGE BYTES: after any operations (any layouts with stable offsets) the word found
   in the flat buffer at the site of a non-pending reference decodes to target - site + addend and its bits outside the field are the
   emitted bits *)
Theorem C03_image_resolved_exact : forall ops offs id r,
  resolves_with offs ops ->
  let s := run init ops in let f := frun finit ops in
  nth_error (refs s) id = Some r -> ~ In id (ids (pending s)) ->
  exists ls lo, nth_error (f_labels f) (r_label r) = Some (Some (ls, lo)) /\
    let w := read_word (nth (r_sec r) (f_secs f) []) (r_site r) (vnat (r_kind r)) in
    decode_kind (r_kind r) w = final_disp offs ls lo r /\ Z.land w (Z.lnot (kind_mask (r_kind r))) = r_w0 r.
Proof. exact image_resolved_exact. Qed.
Print Assumptions C03_image_resolved_exact.

(* binding a label / resolving cross-section fixups changes no byte of the flat image outside the value words of logged references *)
Theorem C03_image_outside_untouched : forall ops o k p,
  (match o with OBind _ | OResolve _ => True | _ => False end) ->
  let s := run init ops in let f := frun finit ops in let f' := fst (fstep f o) in
  0 <= p ->
  (forall id r, nth_error (refs s) id = Some r -> r_sec r = k -> ~ (r_site r <= p < r_site r + Z.of_nat (vnat (r_kind r)))) ->
  nth (Z.to_nat p) (nth k (f_secs f') []) 0 = nth (Z.to_nat p) (nth k (f_secs f) []) 0.
Proof. exact patch_outside_untouched. Qed.
Print Assumptions C03_image_outside_untouched.

(* round 3: the flat model with SPARSE buffers (Labels.SparseModel: chunks of explicit bytes / runs of zeros; what the check's driver runs on
   EVERY program, also those with 128 MiB gaps) is the flat model: expanding the chunks gives FlatModel's buffers after any operations,
   all other components and every error code are equal *)
Theorem C03_sparse_refines : forall ops,
  f_secs (frun finit ops) = map expand (s_bufs (srun sinit ops)) /\
  f_labels (frun finit ops) = s_labels (srun sinit ops) /\ f_unresolved (frun finit ops) = s_unresolved (srun sinit ops) /\
  f_relocs (frun finit ops) = s_relocs (srun sinit ops) /\ f_pending (frun finit ops) = s_pending (srun sinit ops).
Proof. exact sparse_refines. Qed.
Print Assumptions C03_sparse_refines.

Theorem C03_sparse_errors_agree : forall ops o, snd (fstep (frun finit ops) o) = snd (sstep (srun sinit ops) o).
Proof. exact sparse_errors_agree. Qed.
Print Assumptions C03_sparse_errors_agree.

(* ---- round 4: architectural meaning of the patched AArch64 words through a STRUCTURAL decoder (Labels.A64Dec, written from ARM ARM C4.1.3 /
   C6.2 for B, BL, B.cond, CBZ/CBNZ, TBZ/TBNZ, ADR, ADRP, LDR/LDRSW/PRFM literal, LDR literal SIMD&FP) ---- *)
Theorem C03_a64_dec_enc : forall i, a64_wf i -> a64_dec (a64_enc i) = Some i.
Proof. exact a64_dec_enc. Qed.
Print Assumptions C03_a64_dec_enc.

(* the word = (instruction emitted with a zero displacement field) OR (encoded displacement off), i.e. what every resolved reference holds
   by C03_resolved_exact*, decodes to that very instruction with the displacement and designates pc + off (ADRP: Page(pc) + off) *)
Theorem C03_a64_patched_meaning : forall i off m pc,
  a64_wf (set_imm i 0) -> hole_ok (kind_of i) (a64_enc (set_imm i 0)) = true -> int64 off ->
  encode_offset (fmt_of_kind (kind_of i)) off = Some m ->
  let w := Z.lor (a64_enc (set_imm i 0)) m in
  let v := off / 2 ^ discard (fmt_of_kind (kind_of i)) in
  a64_dec w = Some (set_imm i v) /\
  a64_site_target pc w = Some (match i with IAdr true _ _ => ((pc - pc mod 4096) + off) mod 2 ^ 64 | _ => (pc + off) mod 2 ^ 64 end).
Proof. exact a64_patched_meaning. Qed.
Print Assumptions C03_a64_patched_meaning.

Theorem C03_a64_patched_meaning_witness :
  let i := ICb true false 5 0 in
  a64_wf (set_imm i 0) /\ hole_ok (kind_of i) (a64_enc (set_imm i 0)) = true /\
  exists m, encode_offset (fmt_of_kind (kind_of i)) 1048572 = Some m /\
            a64_site_target 4096 (Z.lor (a64_enc (set_imm i 0)) m) = Some (4096 + 1048572).
Proof. exact a64_patched_meaning_witness. Qed.
Print Assumptions C03_a64_patched_meaning_witness.

(* ---- round 5: the structural decoder against C02's model of the assembler's words (the ISA-database rows of coq/gen/IsaA64Db.v: bit
   templates + operand syntaxes).  a64_mn / a64_rid name the database mnemonic / row of an instruction, a64_ops its operands in C02's
   language (registers by AsmJit id, condition by CondCode, ORel d / OLit d = "label at pc + d").  For every well-formed label-bearing
   instruction the database row packs exactly those operands into exactly a64_enc i, and C02's inverse operand map reads them back. ---- *)
Theorem C03_a64_db_agrees : forall i, a64_wf i -> a64_db_ok i ->
  exists r, In r rows /\ r_id r = a64_rid i /\ r_mn r = a64_mn i /\
            spec_row r (a64_ops i) = Some (a64_enc i) /\
            tmatch (r_tmpl r) (a64_enc i) = true /\ decode_row r (a64_enc i) = a64_ops i.
Proof. exact a64_db_agrees. Qed.
Print Assumptions C03_a64_db_agrees.

(* the displacement operand of a64_ops is the displacement the architectural reading (a64_target) adds to pc (ADRP: to Page(pc)) *)
Theorem C03_a64_db_target : forall i pc,
  disp_of (last (a64_ops i) (OImm 0 0)) = Some (a64_disp i) /\
  a64_target pc i = ((match i with IAdr true _ _ => pc - pc mod 4096 | _ => pc end) + a64_disp i) mod 2 ^ 64.
Proof. exact a64_db_target. Qed.
Print Assumptions C03_a64_db_target.

(* the word at a resolved reference (zero-displacement instruction OR encoded displacement off) IS the word C02's model assigns to the
   instruction with the displacement operand off, and C02's decoder reads `off` back from it *)
Theorem C03_a64_db_patched : forall i off m,
  a64_wf (set_imm i 0) -> a64_db_ok i -> hole_ok (kind_of i) (a64_enc (set_imm i 0)) = true -> int64 off ->
  encode_offset (fmt_of_kind (kind_of i)) off = Some m ->
  let w := Z.lor (a64_enc (set_imm i 0)) m in
  let i' := set_imm i (off / 2 ^ discard (fmt_of_kind (kind_of i))) in
  exists r, In r rows /\ r_id r = a64_rid i /\ r_mn r = a64_mn i /\
            spec_row r (a64_ops i') = Some w /\ decode_row r w = a64_ops i' /\
            disp_of (last (a64_ops i') (OImm 0 0)) = Some off.
Proof. exact a64_db_patched. Qed.
Print Assumptions C03_a64_db_patched.

Theorem C03_a64_db_patched_witness :
  let i := ICb true false 5 0 in
  a64_wf (set_imm i 0) /\ a64_db_ok i /\ hole_ok (kind_of i) (a64_enc (set_imm i 0)) = true /\
  encode_offset (fmt_of_kind (kind_of i)) 1048572 = Some 8388576 /\
  spec_rows rows (a64_mn i) [OGp true 5; ORel 1048572] = Some (a64_rid i, Z.lor (a64_enc (set_imm i 0)) 8388576).
Proof. exact a64_db_patched_witness. Qed.
Print Assumptions C03_a64_db_patched_witness.

(* instruction level: C02's model of an a64 emit is `spec_rows` - the FIRST row of the mnemonic whose operand syntaxes accept the operands
   (that function is what C02's check ties to the real assembler).  It picks exactly the row named by a64_rid and yields a64_enc i. *)
Theorem C03_a64_db_spec_rows : forall i, a64_wf i -> a64_db_ok i ->
  spec_rows rows (a64_mn i) (a64_ops i) = Some (a64_rid i, a64_enc i).
Proof. exact a64_db_spec_rows. Qed.
Print Assumptions C03_a64_db_spec_rows.

Theorem C03_a64_db_patched_spec_rows : forall i off m,
  a64_wf (set_imm i 0) -> a64_db_ok i -> hole_ok (kind_of i) (a64_enc (set_imm i 0)) = true -> int64 off ->
  encode_offset (fmt_of_kind (kind_of i)) off = Some m ->
  let i' := set_imm i (off / 2 ^ discard (fmt_of_kind (kind_of i))) in
  spec_rows rows (a64_mn i) (a64_ops i') = Some (a64_rid i, Z.lor (a64_enc (set_imm i 0)) m) /\
  disp_of (last (a64_ops i') (OImm 0 0)) = Some off.
Proof. exact a64_db_patched_spec_rows. Qed.
Print Assumptions C03_a64_db_patched_spec_rows.

(* ---- round 6: THE PROPERTY IN ARCHITECTURAL TERMS (AArch64).  After ANY label program (any interleaving of references, binds, data,
   section switches and layouts with the offsets offs), the 32-bit word found in the BYTE IMAGE at a resolved reference that was emitted
   as the instruction i with a zero displacement field decodes to that instruction, and the address it designates when executed at its
   flattened position pc is the address where the label was bound plus the addend (ADRP: Page(pc) + (target - pc), AsmJit's encoding of
   a page displacement; target - pc is a multiple of 4096 whenever the reference is resolved). ---- *)
Theorem C03_a64_reference_meaning : forall ops offs id r i,
  resolves_with offs ops ->
  let s := run init ops in let f := frun finit ops in
  nth_error (refs s) id = Some r -> ~ In id (ids (pending s)) ->
  r_kind r = kind_of i -> r_w0 r = a64_enc (set_imm i 0) -> a64_wf (set_imm i 0) ->
  exists ls lo, nth_error (f_labels f) (r_label r) = Some (Some (ls, lo)) /\
    let w := read_word (nth (r_sec r) (f_secs f) []) (r_site r) 4 in
    let pc := nth (r_sec r) offs 0 + r_site r in
    let target := nth ls offs 0 + lo + r_rel r in
    a64_dec w = Some (set_imm i (final_disp offs ls lo r / 2 ^ discard (fmt_of_kind (kind_of i)))) /\
    a64_site_target pc w = Some (match i with
                                 | IAdr true _ _ => ((pc - pc mod 4096) + (target - pc)) mod 2 ^ 64
                                 | _ => target mod 2 ^ 64
                                 end).
Proof. exact a64_reference_meaning. Qed.
Print Assumptions C03_a64_reference_meaning.

Theorem C03_a64_reference_meaning_witness :
  let ops := [ONewLabel; ONewSection; ORaw [31; 32; 3; 213]; ORef K_Imm19 0 O [] 3019898885 []; OSection 1%nat; OGap 8; OBind O; OResolve [0; 4096]] in
  let i := ICb true false 5 0 in
  let s := run init ops in let f := frun finit ops in
  resolves_with [0; 4096] ops /\ pending s = [] /\
  exists r, nth_error (refs s) O = Some r /\ r_kind r = kind_of i /\ r_w0 r = a64_enc (set_imm i 0) /\ a64_wf (set_imm i 0) /\
            r_sec r = O /\ r_site r = 4 /\
            a64_site_target 4 (read_word (nth O (f_secs f) []) 4 4) = Some 4104.
Proof. exact a64_reference_meaning_witness. Qed.
Print Assumptions C03_a64_reference_meaning_witness.

(* ---- round 6: THE PROPERTY IN ARCHITECTURAL TERMS (x86, both modes) through C01's PROVEN decoder (X86Model.sdec, round trip sdec_senc) and
   the reading `designated` of Reloc.X86Meaning (rel = end of instruction + immediate; RIP-relative = end of instruction + disp32).  After
   ANY label program, an instruction whose rel32 immediate is the word of a resolved label reference (emitted by EmitJmpCall: zero hole,
   addend -4, field = the last four bytes) designates the address where the label was bound, modulo the address width. ---- *)
Theorem C03_x86_branch_reference_meaning : forall ops offs id r (m : mode) sh s c xr xx xb xr' rest,
  resolves_with offs ops ->
  let st := run init ops in
  nth_error (refs st) id = Some r -> ~ In id (ids (pending st)) ->
  r_kind r = K_Rel32 -> r_w0 r = 0 -> r_rel r = -4 ->
  s_modrm s = MNone xr xx xb xr' -> s_imm s = r_word r -> wf m sh s = true -> adm m sh s c = true ->
  let len := Z.of_nat (length (senc m sh s c)) in
  let pc := nth (r_sec r) offs 0 + r_site r + 4 - len in
  exists ls lo, nth_error (labels st) (r_label r) = Some (Some (ls, lo)) /\
    site_target m CBranch sh pc (senc m sh s c ++ rest) = Some ((nth ls offs 0 + lo) mod 2 ^ abits m).
Proof. exact x86_branch_reference_meaning. Qed.
Print Assumptions C03_x86_branch_reference_meaning.

(* x86-64 `[rip + label + d]` operands (with or without a trailing immediate): tail = distance from the disp32 field to the end of the
   instruction; the recorded addend is d - tail, so r_rel r + tail is the operand's own displacement d *)
Theorem C03_x86_rip_reference_meaning : forall ops offs id r sh s c reg rest tail,
  resolves_with offs ops ->
  let st := run init ops in
  nth_error (refs st) id = Some r -> ~ In id (ids (pending st)) ->
  r_kind r = K_Rel32 -> r_w0 r = 0 ->
  s_modrm s = MMem reg (mkM BRip None 0 (sext32 (r_word r))) -> wf M64 sh s = true -> adm M64 sh s c = true ->
  let len := Z.of_nat (length (senc M64 sh s c)) in
  let pc := nth (r_sec r) offs 0 + r_site r + tail - len in
  exists ls lo, nth_error (labels st) (r_label r) = Some (Some (ls, lo)) /\
    site_target M64 CMem sh pc (senc M64 sh s c ++ rest) = Some ((nth ls offs 0 + lo + (r_rel r + tail)) mod 2 ^ 64).
Proof. exact x86_rip_reference_meaning. Qed.
Print Assumptions C03_x86_rip_reference_meaning.

Theorem C03_x86_branch_reference_meaning_witness :
  let ops := [ONewLabel; ORaw [144]; ORef K_Rel32 (-4) O [233] 0 []; OGap 100; OBind O; OResolve [0]] in
  let st := run init ops in let sh := mkSh false false 4 1 in let c := mkC false 0 false in
  resolves_with [0] ops /\ pending st = [] /\
  exists r, nth_error (refs st) O = Some r /\ r_kind r = K_Rel32 /\ r_w0 r = 0 /\ r_rel r = -4 /\ r_sec r = O /\ r_site r = 2 /\
            wf M64 sh (ex_jmp (r_word r)) = true /\ adm M64 sh (ex_jmp (r_word r)) c = true /\
            senc M64 sh (ex_jmp (r_word r)) c = [233; 100; 0; 0; 0] /\
            nth_error (labels st) O = Some (Some (O, 106)) /\
            site_target M64 CBranch sh 1 (senc M64 sh (ex_jmp (r_word r)) c) = Some 106.
Proof. exact x86_branch_reference_meaning_witness. Qed.
Print Assumptions C03_x86_branch_reference_meaning_witness.

Theorem C03_x86_rip_reference_meaning_witness :
  let ops := [ONewLabel; ORaw [144]; ORef K_Rel32 (-4) O [72; 141; 5] 0 []; OGap 100; OBind O; OResolve [0]] in
  let st := run init ops in let sh := mkSh true false 0 1 in let c := mkC false 0 false in
  resolves_with [0] ops /\ pending st = [] /\
  exists r, nth_error (refs st) O = Some r /\ r_kind r = K_Rel32 /\ r_w0 r = 0 /\ r_rel r = -4 /\ r_sec r = O /\ r_site r = 4 /\
            wf M64 sh (ex_lea (sext32 (r_word r))) = true /\ adm M64 sh (ex_lea (sext32 (r_word r))) c = true /\
            senc M64 sh (ex_lea (sext32 (r_word r))) c = [72; 141; 5; 100; 0; 0; 0] /\
            nth_error (labels st) O = Some (Some (O, 108)) /\
            site_target M64 CMem sh 1 (senc M64 sh (ex_lea (sext32 (r_word r))) c) = Some 108.
Proof. exact x86_rip_reference_meaning_witness. Qed.
Print Assumptions C03_x86_rip_reference_meaning_witness.

(* short branches (jmp / jcc / jecxz / loop rel8): same statement with the one-byte field *)
Theorem C03_x86_branch8_reference_meaning : forall ops offs id r (m : mode) sh s c xr xx xb xr' rest,
  resolves_with offs ops ->
  let st := run init ops in
  nth_error (refs st) id = Some r -> ~ In id (ids (pending st)) ->
  r_kind r = K_Rel8 -> r_w0 r = 0 -> r_rel r = -1 ->
  s_modrm s = MNone xr xx xb xr' -> s_imm s = r_word r -> wf m sh s = true -> adm m sh s c = true ->
  let len := Z.of_nat (length (senc m sh s c)) in
  let pc := nth (r_sec r) offs 0 + r_site r + 1 - len in
  exists ls lo, nth_error (labels st) (r_label r) = Some (Some (ls, lo)) /\
    branch8_target m sh pc (senc m sh s c ++ rest) = Some ((nth ls offs 0 + lo) mod 2 ^ abits m).
Proof. exact x86_branch8_reference_meaning. Qed.
Print Assumptions C03_x86_branch8_reference_meaning.

(* the same about the BYTE IMAGE alone: whatever well-formed immediate-only instruction with a 4-byte (1-byte) immediate lies in the
   section image so that it ends where the resolved reference's field ends - decoding the image bytes from its first byte with C01's
   proven decoder designates the address where the label was bound; nothing relates the instruction to the reference but its position *)
Theorem C03_x86_branch_in_image : forall ops offs id r (m : mode) sh s c xr xx xb xr' (A B : list Z),
  resolves_with offs ops ->
  let st := run init ops in let f := frun finit ops in
  nth_error (refs st) id = Some r -> ~ In id (ids (pending st)) ->
  r_kind r = K_Rel32 -> r_w0 r = 0 -> r_rel r = -4 ->
  nth (r_sec r) (f_secs f) [] = A ++ senc m sh s c ++ B ->
  zlen A + zlen (senc m sh s c) = r_site r + 4 -> sh_imm sh = 4%nat ->
  s_modrm s = MNone xr xx xb xr' -> wf m sh s = true -> adm m sh s c = true ->
  exists ls lo, nth_error (labels st) (r_label r) = Some (Some (ls, lo)) /\
    site_target m CBranch sh (nth (r_sec r) offs 0 + zlen A) (senc m sh s c ++ B) = Some ((nth ls offs 0 + lo) mod 2 ^ abits m).
Proof. exact x86_branch_in_image. Qed.
Print Assumptions C03_x86_branch_in_image.

Theorem C03_x86_branch8_in_image : forall ops offs id r (m : mode) sh s c xr xx xb xr' (A B : list Z),
  resolves_with offs ops ->
  let st := run init ops in let f := frun finit ops in
  nth_error (refs st) id = Some r -> ~ In id (ids (pending st)) ->
  r_kind r = K_Rel8 -> r_w0 r = 0 -> r_rel r = -1 ->
  nth (r_sec r) (f_secs f) [] = A ++ senc m sh s c ++ B ->
  zlen A + zlen (senc m sh s c) = r_site r + 1 -> sh_imm sh = 1%nat ->
  s_modrm s = MNone xr xx xb xr' -> wf m sh s = true -> adm m sh s c = true ->
  exists ls lo, nth_error (labels st) (r_label r) = Some (Some (ls, lo)) /\
    branch8_target m sh (nth (r_sec r) offs 0 + zlen A) (senc m sh s c ++ B) = Some ((nth ls offs 0 + lo) mod 2 ^ abits m).
Proof. exact x86_branch8_in_image. Qed.
Print Assumptions C03_x86_branch8_in_image.

Theorem C03_x86_branch_in_image_witness :
  let ops := [ONewLabel; ORaw [144]; ORef K_Rel32 (-4) O [233] 0 []; OGap 100; OBind O; OResolve [0]] in
  let f := frun finit ops in let sh := mkSh false false 4 1 in let c := mkC false 0 false in
  nth O (f_secs f) [] = [144] ++ senc M64 sh (ex_jmp 100) c ++ repeat 0 100 /\
  wf M64 sh (ex_jmp 100) = true /\ adm M64 sh (ex_jmp 100) c = true /\
  site_target M64 CBranch sh 1 (senc M64 sh (ex_jmp 100) c ++ repeat 0 100) = Some 106.
Proof. exact x86_branch_in_image_witness. Qed.
Print Assumptions C03_x86_branch_in_image_witness.

(* `op reg, [rip + label + d]` / `op [rip + label + d], imm` found in the image: the displacement of the structural instruction is not
   assumed, it is read from the image; the designated address is the label's + (recorded addend + 4 + size of the trailing immediate) *)
Theorem C03_x86_rip_in_image : forall ops offs id r sh s c reg d (A B : list Z),
  resolves_with offs ops ->
  let st := run init ops in let f := frun finit ops in
  nth_error (refs st) id = Some r -> ~ In id (ids (pending st)) ->
  r_kind r = K_Rel32 -> r_w0 r = 0 ->
  nth (r_sec r) (f_secs f) [] = A ++ senc M64 sh s c ++ B ->
  zlen A + zlen (senc M64 sh s c) - Z.of_nat (sh_imm sh) - 4 = r_site r ->
  s_modrm s = MMem reg (mkM BRip None 0 d) -> wf M64 sh s = true -> adm M64 sh s c = true ->
  exists ls lo, nth_error (labels st) (r_label r) = Some (Some (ls, lo)) /\
    site_target M64 CMem sh (nth (r_sec r) offs 0 + zlen A) (senc M64 sh s c ++ B) =
      Some ((nth ls offs 0 + lo + (r_rel r + 4 + Z.of_nat (sh_imm sh))) mod 2 ^ 64).
Proof. exact x86_rip_in_image. Qed.
Print Assumptions C03_x86_rip_in_image.

Theorem C03_x86_rip_in_image_witness :
  let ops := [ONewLabel; ORaw [144]; ORef K_Rel32 (-4) O [72; 141; 5] 0 []; OGap 100; OBind O; OResolve [0]] in
  let f := frun finit ops in let sh := mkSh true false 0 1 in let c := mkC false 0 false in
  nth O (f_secs f) [] = [144] ++ senc M64 sh (ex_lea 100) c ++ repeat 0 100 /\
  wf M64 sh (ex_lea 100) = true /\ adm M64 sh (ex_lea 100) c = true /\
  site_target M64 CMem sh 1 (senc M64 sh (ex_lea 100) c ++ repeat 0 100) = Some 108.
Proof. exact x86_rip_in_image_witness. Qed.
Print Assumptions C03_x86_rip_in_image_witness.

(* patched later = assembled with the target known: the word in the image at a resolved AArch64 reference is exactly the word C02's
   instruction-level database model (the one C02's check ties to the real assembler) emits for the same instruction with the displacement
   operand "label at pc + final displacement" *)
Theorem C03_a64_reference_is_db_word : forall ops offs id r i,
  resolves_with offs ops ->
  let s := run init ops in let f := frun finit ops in
  nth_error (refs s) id = Some r -> ~ In id (ids (pending s)) ->
  r_kind r = kind_of i -> r_w0 r = a64_enc (set_imm i 0) -> a64_wf (set_imm i 0) -> a64_db_ok i ->
  exists ls lo, nth_error (f_labels f) (r_label r) = Some (Some (ls, lo)) /\
    let d := final_disp offs ls lo r in
    let i' := set_imm i (d / 2 ^ discard (fmt_of_kind (kind_of i))) in
    spec_rows rows (a64_mn i) (a64_ops i') = Some (a64_rid i, read_word (nth (r_sec r) (f_secs f) []) (r_site r) 4) /\
    disp_of (last (a64_ops i') (OImm 0 0)) = Some d.
Proof. exact a64_reference_is_db_word. Qed.
Print Assumptions C03_a64_reference_is_db_word.

(* ADRP: a resolved reference designates the 4 KiB page of the label (+ addend): resolution guarantees that the distance is a multiple
   of 4096 (anything else is refused, never truncated), so Page(pc) + (target - pc) = Page(target) *)
Theorem C03_a64_adrp_reference_page : forall ops offs id r rd,
  resolves_with offs ops ->
  let s := run init ops in let f := frun finit ops in
  nth_error (refs s) id = Some r -> ~ In id (ids (pending s)) ->
  r_kind r = K_Adrp -> r_w0 r = a64_enc (IAdr true rd 0) -> 0 <= rd < 32 ->
  exists ls lo, nth_error (f_labels f) (r_label r) = Some (Some (ls, lo)) /\
    let w := read_word (nth (r_sec r) (f_secs f) []) (r_site r) 4 in
    let pc := nth (r_sec r) offs 0 + r_site r in
    let target := nth ls offs 0 + lo + r_rel r in
    (target - pc) mod 4096 = 0 /\
    a64_site_target pc w = Some ((target - target mod 4096) mod 2 ^ 64).
Proof. exact a64_adrp_reference_page. Qed.
Print Assumptions C03_a64_adrp_reference_page.

Theorem C03_a64_adrp_reference_page_witness :
  let ops := [ONewLabel; ORef K_Adrp 0 O [] 2415919107 []; OGap 4092; OBind O; OResolve [0]] in
  let s := run init ops in let f := frun finit ops in
  resolves_with [0] ops /\ pending s = [] /\ 2415919107 = a64_enc (IAdr true 3 0) /\
  nth_error (labels s) O = Some (Some (O, 4096)) /\
  a64_site_target 0 (read_word (nth O (f_secs f) []) 0 4) = Some 4096.
Proof. exact a64_adrp_reference_page_witness. Qed.
Print Assumptions C03_a64_adrp_reference_page_witness.

(* ---- round 7: END TO END for x86 branches, no hypothesis about a structural instruction.  A reference operation whose emitted bytes are
   `pre` (prefix + opcode as the assembler writes them) followed by the displacement hole, accepted anywhere in ANY label program, once
   resolved, is - decoded from the FINAL byte image at the first byte of `pre` by C01's proven decoder - a branch to the address where
   the label was bound.  branch_form m n pre mk says that pre ++ (n-byte immediate w) is C01's encoding of the explicit well-formed
   structural instruction mk w; it is proved below for every form the assembler emits for label branches. ---- *)
Theorem C03_x86_label_branch32 : forall ops1 ops2 offs l (m : mode) pre post mk,
  branch_form m 4 pre mk ->
  let s1 := run init ops1 in let o := ORef K_Rel32 (-4) l pre 0 post in
  snd (step s1 o) = EOk ->
  let ops := ops1 ++ o :: ops2 in
  resolves_with offs ops ->
  let st := run init ops in let f := frun finit ops in let id := length (refs s1) in
  ~ In id (ids (pending st)) ->
  exists r ls lo, nth_error (refs st) id = Some r /\ r_sec r = cur s1 /\ nth_error (labels st) l = Some (Some (ls, lo)) /\
    let start := r_site r - zlen pre in
    site_target m CBranch (mkSh false false 4 1) (nth (r_sec r) offs 0 + start) (skipn (Z.to_nat start) (nth (r_sec r) (f_secs f) []))
      = Some ((nth ls offs 0 + lo) mod 2 ^ abits m).
Proof. exact x86_label_branch32. Qed.
Print Assumptions C03_x86_label_branch32.

Theorem C03_x86_label_branch8 : forall ops1 ops2 offs l (m : mode) pre post mk,
  branch_form m 1 pre mk ->
  let s1 := run init ops1 in let o := ORef K_Rel8 (-1) l pre 0 post in
  snd (step s1 o) = EOk ->
  let ops := ops1 ++ o :: ops2 in
  resolves_with offs ops ->
  let st := run init ops in let f := frun finit ops in let id := length (refs s1) in
  ~ In id (ids (pending st)) ->
  exists r ls lo, nth_error (refs st) id = Some r /\ r_sec r = cur s1 /\ nth_error (labels st) l = Some (Some (ls, lo)) /\
    let start := r_site r - zlen pre in
    branch8_target m (mkSh false false 1 1) (nth (r_sec r) offs 0 + start) (skipn (Z.to_nat start) (nth (r_sec r) (f_secs f) []))
      = Some ((nth ls offs 0 + lo) mod 2 ^ abits m).
Proof. exact x86_label_branch8. Qed.
Print Assumptions C03_x86_label_branch8.

(* the forms: jmp rel32 (E9), call rel32 (E8), jcc rel32 (0F 80+cc), jmp rel8 (EB), jcc rel8 (70+cc), loopnz/loopz/loop/jecxz (E0..E3),
   jecxz with an address-size prefix (67 E3), in both modes *)
Theorem C03_x86_branch_forms : forall m,
  branch_form m 4 [233] (mk_leg false 0 233) /\ branch_form m 4 [232] (mk_leg false 0 232) /\
  (forall cc, 0 <= cc < 16 -> branch_form m 4 [15; 128 + cc] (mk_leg false 1 (128 + cc))) /\
  branch_form m 1 [235] (mk_leg false 0 235) /\
  (forall cc, 0 <= cc < 16 -> branch_form m 1 [112 + cc] (mk_leg false 0 (112 + cc))) /\
  (forall k, 0 <= k < 4 -> branch_form m 1 [224 + k] (mk_leg false 0 (224 + k))) /\
  branch_form m 1 [103; 227] (mk_leg true 0 227).
Proof.
  exact (fun m => conj (form_jmp32 m) (conj (form_call32 m) (conj (form_jcc32 m) (conj (form_jmp8 m) (conj (form_jcc8 m) (conj (form_loop8 m) (form_jecxz67 m))))))).
Qed.
Print Assumptions C03_x86_branch_forms.

Theorem C03_x86_label_branch32_witness :
  let ops1 := [ONewLabel; ORaw [144]] in let o := ORef K_Rel32 (-4) O [233] 0 [] in let ops2 := [OGap 100; OBind O; OResolve [0]] in
  let s1 := run init ops1 in let ops := ops1 ++ o :: ops2 in let st := run init ops in let f := frun finit ops in
  branch_form M64 4 [233] (mk_leg false 0 233) /\ snd (step s1 o) = EOk /\ resolves_with [0] ops /\ ~ In (length (refs s1)) (ids (pending st)) /\
  site_target M64 CBranch (mkSh false false 4 1) (0 + 1) (skipn 1 (nth O (f_secs f) [])) = Some 106.
Proof. exact x86_label_branch32_witness. Qed.
Print Assumptions C03_x86_label_branch32_witness.

Theorem C03_x86_label_branch8_witness :
  let ops1 := [ONewLabel; ORaw [144]] in let o := ORef K_Rel8 (-1) O [116] 0 [] in let ops2 := [OGap 10; OBind O; OResolve [0]] in
  let s1 := run init ops1 in let ops := ops1 ++ o :: ops2 in let st := run init ops in let f := frun finit ops in
  branch_form M32 1 [112 + 4] (mk_leg false 0 (112 + 4)) /\ snd (step s1 o) = EOk /\ resolves_with [0] ops /\ ~ In (length (refs s1)) (ids (pending st)) /\
  branch8_target M32 (mkSh false false 1 1) (0 + 1) (skipn 1 (nth O (f_secs f) [])) = Some 13.
Proof. exact x86_label_branch8_witness. Qed.
Print Assumptions C03_x86_label_branch8_witness.

(* x86-64 `lea r64, [rip + L + d]` / `mov r64, [rip + L + d]` / `mov [rip + L + d], r64`: the same, for the forms without trailing immediate
   (rip_form pre mk reg: pre ++ disp32 is C01's encoding of mk d; proved for REX.W, opcodes 8D / 8B / 89, all 16 registers) *)
Theorem C03_x86_label_rip : forall ops1 ops2 offs l rel pre mk reg,
  rip_form pre mk reg ->
  let s1 := run init ops1 in let o := ORef K_Rel32 rel l pre 0 [] in
  snd (step s1 o) = EOk ->
  let ops := ops1 ++ o :: ops2 in
  resolves_with offs ops ->
  let st := run init ops in let f := frun finit ops in let id := length (refs s1) in
  ~ In id (ids (pending st)) ->
  exists r ls lo, nth_error (refs st) id = Some r /\ r_sec r = cur s1 /\ nth_error (labels st) l = Some (Some (ls, lo)) /\
    let start := r_site r - zlen pre in
    site_target M64 CMem (mkSh true false 0 1) (nth (r_sec r) offs 0 + start) (skipn (Z.to_nat start) (nth (r_sec r) (f_secs f) []))
      = Some ((nth ls offs 0 + lo + (rel + 4)) mod 2 ^ 64).
Proof. exact x86_label_rip. Qed.
Print Assumptions C03_x86_label_rip.

Theorem C03_x86_rip_forms : forall opc reg, opc = 141 \/ opc = 139 \/ opc = 137 -> 0 <= reg < 16 ->
  rip_form [72 + 4 * (reg / 8); opc; 8 * (reg mod 8) + 5] (mk_rip opc reg) reg.
Proof. exact rip_forms. Qed.
Print Assumptions C03_x86_rip_forms.

Theorem C03_x86_label_rip_witness :
  let ops1 := [ONewLabel; ORaw [144]] in let o := ORef K_Rel32 (-4) O [72; 141; 5] 0 [] in let ops2 := [OGap 100; OBind O; OResolve [0]] in
  let s1 := run init ops1 in let ops := ops1 ++ o :: ops2 in let st := run init ops in let f := frun finit ops in
  rip_form [72 + 4 * (0 / 8); 141; 8 * (0 mod 8) + 5] (mk_rip 141 0) 0 /\ snd (step s1 o) = EOk /\ resolves_with [0] ops /\
  ~ In (length (refs s1)) (ids (pending st)) /\
  site_target M64 CMem (mkSh true false 0 1) (0 + 1) (skipn 1 (nth O (f_secs f) [])) = Some 108.
Proof. exact x86_label_rip_witness. Qed.
Print Assumptions C03_x86_label_rip_witness.

(* AArch64 end to end, hypotheses about the OPERATION only: instruction i emitted with a zero displacement field anywhere in any program,
   once resolved, is found in the final image as a word that decodes to i with the displacement, designates label + addend (ADRP: its
   page), and is the word C02's instruction-level database model emits for the operand "label at pc + final displacement" *)
Theorem C03_a64_label_reference : forall ops1 ops2 offs l i rel,
  a64_wf (set_imm i 0) ->
  let s1 := run init ops1 in let o := ORef (kind_of i) rel l [] (a64_enc (set_imm i 0)) [] in
  snd (step s1 o) = EOk ->
  let ops := ops1 ++ o :: ops2 in
  resolves_with offs ops ->
  let st := run init ops in let f := frun finit ops in let id := length (refs s1) in
  ~ In id (ids (pending st)) ->
  exists r ls lo, nth_error (refs st) id = Some r /\ r_sec r = cur s1 /\ nth_error (labels st) l = Some (Some (ls, lo)) /\
    let w := read_word (nth (r_sec r) (f_secs f) []) (r_site r) 4 in
    let pc := nth (r_sec r) offs 0 + r_site r in
    let target := nth ls offs 0 + lo + rel in
    a64_dec w = Some (set_imm i (final_disp offs ls lo r / 2 ^ discard (fmt_of_kind (kind_of i)))) /\
    a64_site_target pc w = Some (match i with
                                 | IAdr true _ _ => ((target - target mod 4096) mod 2 ^ 64)
                                 | _ => target mod 2 ^ 64
                                 end) /\
    (a64_db_ok i ->
     spec_rows rows (a64_mn i) (a64_ops (set_imm i (final_disp offs ls lo r / 2 ^ discard (fmt_of_kind (kind_of i))))) = Some (a64_rid i, w)).
Proof. exact a64_label_reference. Qed.
Print Assumptions C03_a64_label_reference.

Theorem C03_a64_label_reference_witness :
  let ops1 := [ONewLabel; ONewSection; ORaw [31; 32; 3; 213]] in let i := ICb true false 5 0 in
  let o := ORef (kind_of i) 0 O [] (a64_enc (set_imm i 0)) [] in let ops2 := [OSection 1%nat; OGap 8; OBind O; OResolve [0; 4096]] in
  let s1 := run init ops1 in let ops := ops1 ++ o :: ops2 in let st := run init ops in let f := frun finit ops in
  a64_wf (set_imm i 0) /\ a64_db_ok i /\ snd (step s1 o) = EOk /\ resolves_with [0; 4096] ops /\ ~ In (length (refs s1)) (ids (pending st)) /\
  a64_site_target 4 (read_word (nth O (f_secs f) []) 4 4) = Some 4104.
Proof. exact a64_label_reference_witness. Qed.
Print Assumptions C03_a64_label_reference_witness.

(* x86-64 `mov [rip + L + d], imm` / `add dword [rip + L + d], imm8`: RIP-relative operand followed by an n-byte immediate (the `post` bytes
   of the operation); the instruction designates label + (recorded addend + 4 + n) = label + d *)
Theorem C03_x86_label_rip_imm : forall ops1 ops2 offs l rel n pre mk reg imm,
  rip_form_imm n pre mk reg -> 0 <= imm < 256 ^ Z.of_nat n ->
  let s1 := run init ops1 in let o := ORef K_Rel32 rel l pre 0 (X86Model.le_bytes n imm) in
  snd (step s1 o) = EOk ->
  let ops := ops1 ++ o :: ops2 in
  resolves_with offs ops ->
  let st := run init ops in let f := frun finit ops in let id := length (refs s1) in
  ~ In id (ids (pending st)) ->
  exists r ls lo, nth_error (refs st) id = Some r /\ r_sec r = cur s1 /\ nth_error (labels st) l = Some (Some (ls, lo)) /\
    let start := r_site r - zlen pre in
    site_target M64 CMem (mkSh true false n 1) (nth (r_sec r) offs 0 + start) (skipn (Z.to_nat start) (nth (r_sec r) (f_secs f) []))
      = Some ((nth ls offs 0 + lo + (rel + 4 + Z.of_nat n)) mod 2 ^ 64).
Proof. exact x86_label_rip_imm. Qed.
Print Assumptions C03_x86_label_rip_imm.

Theorem C03_x86_rip_imm_forms :
  rip_form_imm 1 [198; 5] (mk_rip_imm false false 198 0) 0 /\ rip_form_imm 2 [102; 199; 5] (mk_rip_imm true false 199 0) 0 /\
  rip_form_imm 4 [199; 5] (mk_rip_imm false false 199 0) 0 /\ rip_form_imm 4 [72; 199; 5] (mk_rip_imm false true 199 0) 0 /\
  rip_form_imm 1 [131; 5] (mk_rip_imm false false 131 0) 0.
Proof. exact (conj rip_form_mov8 (conj rip_form_mov16 (conj rip_form_mov32 (conj rip_form_mov64 rip_form_add8)))). Qed.
Print Assumptions C03_x86_rip_imm_forms.

Theorem C03_x86_label_rip_imm_witness :
  let ops1 := [ONewLabel; ORaw [144]] in let o := ORef K_Rel32 (-8) O [199; 5] 0 (X86Model.le_bytes 4 305419896) in
  let ops2 := [OGap 100; OBind O; OResolve [0]] in
  let s1 := run init ops1 in let ops := ops1 ++ o :: ops2 in let st := run init ops in let f := frun finit ops in
  snd (step s1 o) = EOk /\ resolves_with [0] ops /\ ~ In (length (refs s1)) (ids (pending st)) /\
  nth_error (labels st) O = Some (Some (O, 111)) /\
  site_target M64 CMem (mkSh true false 4 1) (0 + 1) (skipn 1 (nth O (f_secs f) [])) = Some 111.
Proof. exact x86_label_rip_imm_witness. Qed.
Print Assumptions C03_x86_label_rip_imm_witness.

(* ---- round 7: the COMPLETENESS direction.  C03_never_truncates: an unencodable displacement is never patched.  Here: after
   resolve_cross_section_fixups every reference whose label is bound, whose flattened positions do not overflow 64 bits and whose
   displacement IS encodable is resolved; so after a resolve such a reference is pending iff its displacement is not encodable. ---- *)
Theorem C03_resolve_complete : forall ops offs id r ls lo m,
  let s0 := run init ops in let s := run init (ops ++ [OResolve offs]) in
  nth_error (refs s0) id = Some r -> nth_error (labels s0) (r_label r) = Some (Some (ls, lo)) ->
  nth ls offs 0 + lo < 2 ^ 64 -> nth (r_sec r) offs 0 + r_site r < 2 ^ 64 ->
  encode_offset (fmt_of_kind (r_kind r)) (final_disp offs ls lo r) = Some m ->
  ~ In id (ids (pending s)).
Proof. exact resolve_complete. Qed.
Print Assumptions C03_resolve_complete.

(* an ACCEPTED bind resolves every pending reference of the label in the section it is bound in *)
Theorem C03_bind_complete : forall ops l id r,
  let s0 := run init ops in
  snd (step s0 (OBind l)) = EOk ->
  let s := fst (step s0 (OBind l)) in
  nth_error (refs s0) id = Some r -> r_label r = l -> r_sec r = cur s0 ->
  ~ In id (ids (pending s)).
Proof. exact bind_complete. Qed.
Print Assumptions C03_bind_complete.

(* a reference whose label has no position is pending, in every reachable state *)
Theorem C03_unbound_is_pending : forall ops id r,
  let s := run init ops in
  nth_error (refs s) id = Some r -> nth_error (labels s) (r_label r) = Some None -> In id (ids (pending s)).
Proof. exact unbound_is_pending. Qed.
Print Assumptions C03_unbound_is_pending.

Theorem C03_resolve_complete_witness :
  let ops := [ONewLabel; ONewSection; ORef K_Rel32 (-4) O [233] 0 []; OSection 1%nat; OGap 7; OBind O] in
  let s0 := run init ops in let s := run init (ops ++ [OResolve [0; 16]]) in
  exists r m, nth_error (refs s0) O = Some r /\ nth_error (labels s0) (r_label r) = Some (Some (1%nat, 7)) /\ In O (ids (pending s0)) /\
    encode_offset (fmt_of_kind (r_kind r)) (final_disp [0; 16] 1 7 r) = Some m /\ pending s = [] /\ unresolved s = 0.
Proof. exact resolve_complete_witness. Qed.
Print Assumptions C03_resolve_complete_witness.

(* nothing is ever half patched: while a reference is pending, the word in the byte image at its site is exactly the word the assembler
   emitted (zero displacement field), in every reachable state *)
Theorem C03_pending_image_untouched : forall ops id r,
  let s := run init ops in let f := frun finit ops in
  nth_error (refs s) id = Some r -> In id (ids (pending s)) ->
  read_word (nth (r_sec r) (f_secs f) []) (r_site r) (vnat (r_kind r)) = r_w0 r.
Proof. exact pending_image_untouched. Qed.
Print Assumptions C03_pending_image_untouched.

Theorem C03_pending_image_untouched_witness :
  let ops := [ONewLabel; ORaw [144]; ORef K_Rel8 (-1) O [235] 0 []; OGap 200; OBind O] in
  let s := run init ops in let f := frun finit ops in
  In O (ids (pending s)) /\ read_word (nth O (f_secs f) []) 2 1 = 0 /\ unresolved s = 1.
Proof. exact pending_image_untouched_witness. Qed.
Print Assumptions C03_pending_image_untouched_witness.

(* ---- round 8: resolution is PERMANENT (sequence-level lift): a reference that is resolved in some reachable state stays resolved through
   any further operations, its ghost log (site, format, addend, label, emitted word) unchanged; step level: an operation never makes an
   existing reference pending again ---- *)
Theorem C03_step_pending_sub : forall s o id,
  In id (ids (pending (fst (step s o)))) -> In id (ids (pending s)) \/ id = length (refs s).
Proof. exact step_pending_sub. Qed.
Print Assumptions C03_step_pending_sub.

Theorem C03_resolved_stays_resolved : forall ops1 ops2 id r,
  nth_error (refs (run init ops1)) id = Some r -> ~ In id (ids (pending (run init ops1))) ->
  exists r', nth_error (refs (run init (ops1 ++ ops2))) id = Some r' /\ same_ghost r' r /\ ~ In id (ids (pending (run init (ops1 ++ ops2)))).
Proof. exact resolved_stays_resolved_run. Qed.
Print Assumptions C03_resolved_stays_resolved.

Theorem C03_resolved_stays_resolved_witness :
  let ops1 := [ONewLabel; ORaw [144]; ORef K_Rel8 (-1) O [235] 0 []; OGap 10; OBind O] in
  let ops2 := [ONewLabel; ONewSection; OSection 1%nat; ORef K_Rel32 (-4) 1%nat [233] 0 []; OGap 300; OResolve [0; 64]] in
  exists r, nth_error (refs (run init ops1)) O = Some r /\ ~ In O (ids (pending (run init ops1))) /\
            In 1%nat (ids (pending (run init (ops1 ++ ops2)))) /\ ~ In O (ids (pending (run init (ops1 ++ ops2)))).
Proof. exact resolved_stays_resolved_witness. Qed.
Print Assumptions C03_resolved_stays_resolved_witness.

(* C03 — Every label reference resolves to the position where the label was bound.
   This file holds ONLY the property theorems (each closed by `exact <lemma>`) and their Print Assumptions.
   Model: Verif.Labels.LabelsModel (operations on sections / labels / fixups / relocations; `write_offset` is the C17 model).
   `run init ops` = the state after an ARBITRARY list of operations (any interleaving of label creation, references of every
   displacement kind, binds, data, gaps, section switches, embedded labels, label deltas, layout+cross-section resolution). *)
From Coq Require Import ZArith List Bool.
From Verif Require Import A64.A64Tmpl A64.A64Sem.
From VerifGen Require Import IsaA64Db.
From Verif Require Import Codec.OffsetModel Labels.LabelsModel Labels.LabelsProofs Labels.LabelsExact Labels.LabelsAbs
  Labels.FlatModel Labels.FlatLemmas Labels.FlatProofs Labels.SparseModel Labels.SparseProofs Labels.A64Dec Labels.A64DbTie.
Import ListNotations.
Local Open Scope Z_scope.

(* the reported number of unresolved references is the number of pending fixups, after ANY sequence of operations *)
Theorem C03_count_exact : forall ops,
  let s := run init ops in unresolved s = zlen (pending s) + zlen (pending_rel s).
Proof. exact count_exact. Qed.
Print Assumptions C03_count_exact.

Theorem C03_count_zero_iff : forall ops,
  let s := run init ops in unresolved s = 0 <-> (pending s = [] /\ pending_rel s = []).
Proof. exact count_zero_iff. Qed.
Print Assumptions C03_count_zero_iff.

(* after any operations followed by layout (ANY section offsets `offs`) + cross-section resolution: every logged reference that
   is not pending has a bound label, its word decodes (architectural decoder) to exactly
   (offs[label section] + label offset) - (offs[section] + site) + addend, and all bits outside the field are the emitted ones *)
Theorem C03_resolved_exact : forall ops offs id r,
  no_resolve ops ->
  let s := run init (ops ++ [OResolve offs]) in
  nth_error (refs s) id = Some r -> ~ In id (ids (pending s)) ->
  exists ls lo, nth_error (labels s) (r_label r) = Some (Some (ls, lo)) /\
                decode_kind (r_kind r) (r_word r) = final_disp offs ls lo r /\
                Z.land (r_word r) (Z.lnot (kind_mask (r_kind r))) = r_w0 r.
Proof. exact resolved_exact. Qed.
Print Assumptions C03_resolved_exact.

(* same-section references are exact in EVERY reachable state (bound before or after the reference, no layout needed) *)
Theorem C03_resolved_same_section : forall ops id r lo,
  let s := run init ops in
  nth_error (refs s) id = Some r -> ~ In id (ids (pending s)) ->
  nth_error (labels s) (r_label r) = Some (Some (r_sec r, lo)) ->
  decode_kind (r_kind r) (r_word r) = to_i64 (lo - r_site r + r_rel r) /\
  Z.land (r_word r) (Z.lnot (kind_mask (r_kind r))) = r_w0 r.
Proof. exact resolved_same_section. Qed.
Print Assumptions C03_resolved_same_section.

(* invariant form, any reachable state, also across several layouts: a non-pending reference carries the encoding of the
   displacement computed with the section offsets that were in force when it was patched (ghost r_lay) *)
Theorem C03_resolved_invariant : forall ops id r,
  let s := run init ops in
  nth_error (refs s) id = Some r -> ~ In id (ids (pending s)) -> resolved_ok (labels s) r.
Proof. exact resolved_inv. Qed.
Print Assumptions C03_resolved_invariant.

(* a displacement the format cannot encode (by C17_signed_refused_iff: cannot represent) is never patched: the reference stays
   pending, its word is untouched and the unresolved count is positive *)
Theorem C03_never_truncates : forall ops offs id r ls lo,
  no_resolve ops ->
  let s := run init (ops ++ [OResolve offs]) in
  nth_error (refs s) id = Some r -> nth_error (labels s) (r_label r) = Some (Some (ls, lo)) ->
  encode_offset (fmt_of_kind (r_kind r)) (final_disp offs ls lo r) = None ->
  In id (ids (pending s)) /\ r_word r = r_w0 r /\ 0 < unresolved s.
Proof. exact never_truncates_final. Qed.
Print Assumptions C03_never_truncates.

Theorem C03_never_truncates_same_section : forall ops id r lo,
  let s := run init ops in
  nth_error (refs s) id = Some r -> nth_error (labels s) (r_label r) = Some (Some (r_sec r, lo)) ->
  encode_offset (fmt_of_kind (r_kind r)) (to_i64 (lo - r_site r + r_rel r)) = None ->
  In id (ids (pending s)).
Proof. exact never_truncates_same_section. Qed.
Print Assumptions C03_never_truncates_same_section.

(* reporting (behaviour since fix 6b578fc): bind_label checks the displacements of the label's same-section fixups BEFORE binding; a bind
   that is refused (InvalidDisplacement, already bound, invalid label) is a NO-OP: the label stays unbound, every fixup stays pending
   and untouched, the counter is unchanged - so nothing can be truncated by a refused bind, and an accepted bind reports nothing *)
Theorem C03_bind_refused_no_change : forall s l, inv s ->
  snd (step s (OBind l)) <> EOk -> fst (step s (OBind l)) = s.
Proof. exact bind_refused_no_change. Qed.
Print Assumptions C03_bind_refused_no_change.

Theorem C03_bind_refused_iff : forall s l, nth_error (labels s) l = Some None ->
  (snd (step s (OBind l)) = EInvalidDisp /\ fst (step s (OBind l)) = s) \/
  bind_precheck l (cur s) (s_len (cur_sec s)) (pending s) (refs s) = true.
Proof. exact bind_refused_iff. Qed.
Print Assumptions C03_bind_refused_iff.

Theorem C03_bind_error_means_pending : forall s l,
  snd (step s (OBind l)) = EInvalidDisp -> pending (fst (step s (OBind l))) <> [].
Proof. exact bind_error_means_pending. Qed.
Print Assumptions C03_bind_error_means_pending.

Theorem C03_ref_error_no_change : forall s k rel l pre w0 post,
  snd (step s (ORef k rel l pre w0 post)) <> EOk -> fst (step s (ORef k rel l pre w0 post)) = s.
Proof. exact ref_error_no_change. Qed.
Print Assumptions C03_ref_error_no_change.

(* every displacement format the two backends build: encoding then architectural decoding is the identity, other bits survive *)
Theorem C03_kind_roundtrip : forall k w0 m off,
  hole_ok k w0 = true -> int64 off -> encode_offset (fmt_of_kind k) off = Some m ->
  decode_kind k (Z.lor w0 m) = off /\ Z.land (Z.lor w0 m) (Z.lnot (kind_mask k)) = w0.
Proof. exact enc_decode. Qed.
Print Assumptions C03_kind_roundtrip.

(* hypotheses are satisfiable: a forward rel8 jump over 100 bytes resolves to 100; over 128 bytes it stays pending and is reported *)
Theorem C03_resolved_exact_witness :
  let ops := [ONewLabel; ORef K_Rel8 (-1) O [235] 0 []; OGap 100; OBind O] in
  let s := run init (ops ++ [OResolve [0]]) in
  no_resolve ops /\ pending s = [] /\ unresolved s = 0 /\
  exists r, nth_error (refs s) O = Some r /\ r_word r = 100 /\ decode_kind K_Rel8 (r_word r) = 100.
Proof. exact resolved_exact_witness. Qed.
Print Assumptions C03_resolved_exact_witness.

Theorem C03_never_truncates_witness :
  let ops := [ONewLabel; ORef K_Rel8 (-1) O [235] 0 []; OGap 128; OBind O] in
  let s := run init (ops ++ [OResolve [0]]) in
  no_resolve ops /\ unresolved s = 1 /\ snd (step (run init [ONewLabel; ORef K_Rel8 (-1) O [235] 0 []; OGap 128]) (OBind O)) = EInvalidDisp /\
  exists r, nth_error (refs s) O = Some r /\ r_word r = 0.
Proof. exact never_truncates_witness. Qed.
Print Assumptions C03_never_truncates_witness.

(* label deltas: both labels bound in one section -> the low 8*size bits of the difference are emitted at once; otherwise an
   expression relocation (label - base) of that width is recorded (evaluated at relocation time: C04) *)
Theorem C03_delta_immediate_exact : forall s l b size ls lo bo,
  nth_error (labels s) l = Some (Some (ls, lo)) -> nth_error (labels s) b = Some (Some (ls, bo)) -> size_ok size = true ->
  step s (ODelta l b size) = (append_cur s [IRaw (le_split (Z.to_nat size) ((lo - bo) mod 2 ^ (8 * size)))] size, EOk).
Proof. exact delta_immediate_exact. Qed.
Print Assumptions C03_delta_immediate_exact.

Theorem C03_delta_expression_recorded : forall s l b size ll lb,
  nth_error (labels s) l = Some ll -> nth_error (labels s) b = Some lb -> size_ok size = true ->
  (match ll, lb with Some (ls, _), Some (bs, _) => ls <> bs | _, _ => True end) ->
  let s' := fst (step s (ODelta l b size)) in
  snd (step s (ODelta l b size)) = EOk /\
  relocs s' = relocs s ++ [{| rl_type := Expr l b; rl_sec := cur s; rl_off := s_len (cur_sec s); rl_lead := 0; rl_size := size;
                              rl_trail := 0; rl_payload := 0; rl_target := None; rl_label := l; rl_addend := 0 |}] /\
  unresolved s' = unresolved s.
Proof. exact delta_expression_recorded. Qed.
Print Assumptions C03_delta_expression_recorded.

(* KNOWN FINDING (faithful model of the pinned tree): the immediate path of embed_label_delta emits a delta that does not fit
   the requested width, and reports nothing *)
Theorem C03_delta_truncated_refuted :
  exists ops l b lo bo,
    let s := run init ops in
    nth_error (labels s) l = Some (Some (O, lo)) /\ nth_error (labels s) b = Some (Some (O, bo)) /\
    ~ (- 2 ^ 7 <= lo - bo < 2 ^ 8) /\
    step s (ODelta l b 1) = (append_cur s [IRaw [(lo - bo) mod 2 ^ 8]] 1, EOk).
Proof. exact delta_truncated_refuted. Qed.
Print Assumptions C03_delta_truncated_refuted.

(* x86 EmitJmpCallRel: the short form is chosen only when the rel8 displacement fits; "no form" only when none can be used *)
Theorem C03_form_short_fits : forall h8 h32 fs fl s8 s32 ip tgt,
  x86_branch_form h8 h32 fs fl s8 s32 ip tgt = Some FShort ->
  - 128 <= tgt - (ip + s8) < 128 /\ h8 = true /\ fl = false.
Proof. exact form_short_fits. Qed.
Print Assumptions C03_form_short_fits.

Theorem C03_form_long_available : forall h8 h32 fs fl s8 s32 ip tgt,
  x86_branch_form h8 h32 fs fl s8 s32 ip tgt = Some FLong -> h32 = true /\ fs = false.
Proof. exact form_long_available. Qed.
Print Assumptions C03_form_long_available.

Theorem C03_form_none_justified : forall h8 h32 fs fl s8 s32 ip tgt,
  x86_branch_form h8 h32 fs fl s8 s32 ip tgt = None ->
  (h32 = false \/ fs = true) /\ (~ (- 128 <= tgt - (ip + s8) < 128) \/ h8 = false \/ fl = true).
Proof. exact form_none_justified. Qed.
Print Assumptions C03_form_none_justified.

(* x86-64 [rip + label + disp] with the label already bound in the section: the inline int32 computation is exact whenever the
   operands and the true displacement are in range ... *)
Theorem C03_x64_rip_field_exact : forall disp imm lo hole,
  (- 2 ^ 31 <= disp - (4 + imm) < 2 ^ 31) -> (- 2 ^ 31 <= lo - hole < 2 ^ 31) ->
  (- 2 ^ 31 <= lo + disp - (hole + 4 + imm) < 2 ^ 31) ->
  x64_rip_field disp imm lo hole = lo + disp - (hole + 4 + imm).
Proof. exact x64_rip_field_exact. Qed.
Print Assumptions C03_x64_rip_field_exact.

(* ... KNOWN FINDING: and wraps silently (no error, no pending fixup) when an addend near -2^31 makes it unrepresentable *)
Theorem C03_x64_rip_wrap_refuted :
  exists disp imm lo hole,
    (- 2 ^ 31 <= disp < 2 ^ 31) /\ (0 <= lo <= hole) /\
    ~ (- 2 ^ 31 <= lo + disp - (hole + 4 + imm) < 2 ^ 31) /\
    x64_rip_field disp imm lo hole <> lo + disp - (hole + 4 + imm).
Proof. exact x64_rip_wrap_refuted. Qed.
Print Assumptions C03_x64_rip_wrap_refuted.

(* absolute references (embed_label of any size, x86-32 [label + disp]): in every reachable state the RelToAbs relocation entry of a
   bound label carries payload = addend + label offset (mod 2^64) and the label's section; for an unbound label it is linked from a
   counted fixup.  (What relocation does with the entry is C04.) *)
Theorem C03_abs_exact : forall ops rid re,
  let s := run init ops in
  nth_error (relocs s) rid = Some re -> rl_type re = RelToAbs ->
  (In (rl_label re, rid) (pending_rel s) /\ nth_error (labels s) (rl_label re) = Some None /\ 0 < unresolved s) \/
  (exists ls lo, nth_error (labels s) (rl_label re) = Some (Some (ls, lo)) /\
                 rl_payload re = (rl_addend re + lo) mod 2 ^ 64 /\ rl_target re = Some ls).
Proof. exact abs_exact. Qed.
Print Assumptions C03_abs_exact.

(* FULL form of C03_resolved_exact (round 2): ANY operation list with any number of layout+resolve steps anywhere in it (several
   Flatten/ResolveCross, references created and labels bound between them), provided the layouts report the same section offsets:
   every non-pending reference decodes to target - site + addend under those offsets; a cross-section one was patched by a layout step *)
Theorem C03_resolved_exact_any_layouts : forall ops offs id r,
  resolves_with offs ops ->
  let s := run init ops in
  nth_error (refs s) id = Some r -> ~ In id (ids (pending s)) ->
  exists ls lo, nth_error (labels s) (r_label r) = Some (Some (ls, lo)) /\
                decode_kind (r_kind r) (r_word r) = final_disp offs ls lo r /\
                Z.land (r_word r) (Z.lnot (kind_mask (r_kind r))) = r_w0 r /\
                (ls <> r_sec r -> exists so to, r_lay r = Some (so, to)).
Proof. exact resolved_exact_stable. Qed.
Print Assumptions C03_resolved_exact_any_layouts.

(* order irrelevance: programs whose reference logs and final label tables agree (they differ only in when labels were bound, when
   layouts were requested, and in the interleaving of operations on different sections) leave the same word in every resolved reference *)
Theorem C03_order_irrelevant : forall ops1 ops2 offs id r1 r2,
  resolves_with offs ops1 -> resolves_with offs ops2 ->
  let s1 := run init ops1 in let s2 := run init ops2 in
  labels s1 = labels s2 ->
  nth_error (refs s1) id = Some r1 -> nth_error (refs s2) id = Some r2 -> ghost_of r1 = ghost_of r2 ->
  ~ In id (ids (pending s1)) -> ~ In id (ids (pending s2)) ->
  r_word r1 = r_word r2.
Proof. exact order_irrelevant. Qed.
Print Assumptions C03_order_irrelevant.

(* embed_label_delta WITH the range check of fixes/C03-label-delta-range.patch (model operation ODeltaChecked, used by the check when the
   tree has the check): the immediate path either emits the exact delta, which fits the signed width, or reports and changes nothing *)
Theorem C03_delta_checked_never_truncates : forall s l b size ls lo bo,
  nth_error (labels s) l = Some (Some (ls, lo)) -> nth_error (labels s) b = Some (Some (ls, bo)) -> size_ok size = true ->
  (snd (step s (ODeltaChecked l b size)) = EOk /\
   fst (step s (ODeltaChecked l b size)) = append_cur s [IRaw (le_split (Z.to_nat size) ((lo - bo) mod 2 ^ (8 * size)))] size /\
   (size = 8 \/ - 2 ^ (8 * size - 1) <= lo - bo < 2 ^ (8 * size - 1))) \/
  (step s (ODeltaChecked l b size) = (s, EInvalidDisp) /\ size <> 8 /\ ~ (- 2 ^ (8 * size - 1) <= lo - bo < 2 ^ (8 * size - 1))).
Proof. exact delta_checked_never_truncates. Qed.
Print Assumptions C03_delta_checked_never_truncates.

(* ---- round 2: the FLAT byte-buffer model (Labels.FlatModel: sections are byte lists, a fixup is patched by reading the value word at
   its numeric offset, OR-ing the encoded displacement in, writing it back - what bind_label / resolve_cross_section_fixups do) runs in
   lock step with the structured model the theorems above are about ---- *)
Theorem C03_flat_refines : forall ops,
  let s := run init ops in let f := frun finit ops in
  f_secs f = imgs (secs s) (refs s) /\ f_labels f = labels s /\ f_unresolved f = unresolved s /\ f_relocs f = relocs s /\
  length (f_pending f) = length (pending s) /\ f_pending_rel f = pending_rel s.
Proof. exact flat_refines. Qed.
Print Assumptions C03_flat_refines.

Theorem C03_flat_errors_agree : forall ops o,
  snd (step (run init ops) o) = snd (fstep (frun finit ops) o).
Proof. exact step_errors_agree. Qed.
Print Assumptions C03_flat_errors_agree.

(* the little-endian word read from the flat buffer at a reference's numeric site is the reference's word ... *)
Theorem C03_image_word : forall ops id r,
  let s := run init ops in let f := frun finit ops in
  nth_error (refs s) id = Some r ->
  read_word (nth (r_sec r) (f_secs f) []) (r_site r) (vnat (r_kind r)) = r_word r.
Proof. exact image_word. Qed.
Print Assumptions C03_image_word.

(* ... hence resolved_exact is a statement about IMAGE BYTES: after any operations (any layouts with stable offsets) the word found
   in the flat buffer at the site of a non-pending reference decodes to target - site + addend and its bits outside the field are the
   emitted bits *)
Theorem C03_image_resolved_exact : forall ops offs id r,
  resolves_with offs ops ->
  let s := run init ops in let f := frun finit ops in
  nth_error (refs s) id = Some r -> ~ In id (ids (pending s)) ->
  exists ls lo, nth_error (f_labels f) (r_label r) = Some (Some (ls, lo)) /\
    let w := read_word (nth (r_sec r) (f_secs f) []) (r_site r) (vnat (r_kind r)) in
    decode_kind (r_kind r) w = final_disp offs ls lo r /\ Z.land w (Z.lnot (kind_mask (r_kind r))) = r_w0 r.
Proof. exact image_resolved_exact. Qed.
Print Assumptions C03_image_resolved_exact.

(* binding a label / resolving cross-section fixups changes no byte of the flat image outside the value words of logged references *)
Theorem C03_image_outside_untouched : forall ops o k p,
  (match o with OBind _ | OResolve _ => True | _ => False end) ->
  let s := run init ops in let f := frun finit ops in let f' := fst (fstep f o) in
  0 <= p ->
  (forall id r, nth_error (refs s) id = Some r -> r_sec r = k -> ~ (r_site r <= p < r_site r + Z.of_nat (vnat (r_kind r)))) ->
  nth (Z.to_nat p) (nth k (f_secs f') []) 0 = nth (Z.to_nat p) (nth k (f_secs f) []) 0.
Proof. exact patch_outside_untouched. Qed.
Print Assumptions C03_image_outside_untouched.

(* round 3: the flat model with SPARSE buffers (Labels.SparseModel: chunks of explicit bytes / runs of zeros; what the check's driver runs on
   EVERY program, also those with 128 MiB gaps) is the flat model: expanding the chunks gives FlatModel's buffers after any operations,
   all other components and every error code are equal *)
Theorem C03_sparse_refines : forall ops,
  f_secs (frun finit ops) = map expand (s_bufs (srun sinit ops)) /\
  f_labels (frun finit ops) = s_labels (srun sinit ops) /\ f_unresolved (frun finit ops) = s_unresolved (srun sinit ops) /\
  f_relocs (frun finit ops) = s_relocs (srun sinit ops) /\ f_pending (frun finit ops) = s_pending (srun sinit ops).
Proof. exact sparse_refines. Qed.
Print Assumptions C03_sparse_refines.

Theorem C03_sparse_errors_agree : forall ops o, snd (fstep (frun finit ops) o) = snd (sstep (srun sinit ops) o).
Proof. exact sparse_errors_agree. Qed.
Print Assumptions C03_sparse_errors_agree.

(* ---- round 4: architectural meaning of the patched AArch64 words through a STRUCTURAL decoder (Labels.A64Dec, written from ARM ARM C4.1.3 /
   C6.2 for B, BL, B.cond, CBZ/CBNZ, TBZ/TBNZ, ADR, ADRP, LDR/LDRSW/PRFM literal, LDR literal SIMD&FP) ---- *)
Theorem C03_a64_dec_enc : forall i, a64_wf i -> a64_dec (a64_enc i) = Some i.
Proof. exact a64_dec_enc. Qed.
Print Assumptions C03_a64_dec_enc.

(* the word = (instruction emitted with a zero displacement field) OR (encoded displacement off), i.e. what every resolved reference holds
   by C03_resolved_exact*, decodes to that very instruction with the displacement and designates pc + off (ADRP: Page(pc) + off) *)
Theorem C03_a64_patched_meaning : forall i off m pc,
  a64_wf (set_imm i 0) -> hole_ok (kind_of i) (a64_enc (set_imm i 0)) = true -> int64 off ->
  encode_offset (fmt_of_kind (kind_of i)) off = Some m ->
  let w := Z.lor (a64_enc (set_imm i 0)) m in
  let v := off / 2 ^ discard (fmt_of_kind (kind_of i)) in
  a64_dec w = Some (set_imm i v) /\
  a64_site_target pc w = Some (match i with IAdr true _ _ => ((pc - pc mod 4096) + off) mod 2 ^ 64 | _ => (pc + off) mod 2 ^ 64 end).
Proof. exact a64_patched_meaning. Qed.
Print Assumptions C03_a64_patched_meaning.

Theorem C03_a64_patched_meaning_witness :
  let i := ICb true false 5 0 in
  a64_wf (set_imm i 0) /\ hole_ok (kind_of i) (a64_enc (set_imm i 0)) = true /\
  exists m, encode_offset (fmt_of_kind (kind_of i)) 1048572 = Some m /\
            a64_site_target 4096 (Z.lor (a64_enc (set_imm i 0)) m) = Some (4096 + 1048572).
Proof. exact a64_patched_meaning_witness. Qed.
Print Assumptions C03_a64_patched_meaning_witness.

(* ---- round 5: the structural decoder against C02's model of the assembler's words (the ISA-database rows of coq/gen/IsaA64Db.v: bit
   templates + operand syntaxes).  a64_mn / a64_rid name the database mnemonic / row of an instruction, a64_ops its operands in C02's
   language (registers by AsmJit id, condition by CondCode, ORel d / OLit d = "label at pc + d").  For every well-formed label-bearing
   instruction the database row packs exactly those operands into exactly a64_enc i, and C02's inverse operand map reads them back. ---- *)
Theorem C03_a64_db_agrees : forall i, a64_wf i -> a64_db_ok i ->
  exists r, In r rows /\ r_id r = a64_rid i /\ r_mn r = a64_mn i /\
            spec_row r (a64_ops i) = Some (a64_enc i) /\
            tmatch (r_tmpl r) (a64_enc i) = true /\ decode_row r (a64_enc i) = a64_ops i.
Proof. exact a64_db_agrees. Qed.
Print Assumptions C03_a64_db_agrees.

(* the displacement operand of a64_ops is the displacement the architectural reading (a64_target) adds to pc (ADRP: to Page(pc)) *)
Theorem C03_a64_db_target : forall i pc,
  disp_of (last (a64_ops i) (OImm 0 0)) = Some (a64_disp i) /\
  a64_target pc i = ((match i with IAdr true _ _ => pc - pc mod 4096 | _ => pc end) + a64_disp i) mod 2 ^ 64.
Proof. exact a64_db_target. Qed.
Print Assumptions C03_a64_db_target.

(* the word at a resolved reference (zero-displacement instruction OR encoded displacement off) IS the word C02's model assigns to the
   instruction with the displacement operand off, and C02's decoder reads `off` back from it *)
Theorem C03_a64_db_patched : forall i off m,
  a64_wf (set_imm i 0) -> a64_db_ok i -> hole_ok (kind_of i) (a64_enc (set_imm i 0)) = true -> int64 off ->
  encode_offset (fmt_of_kind (kind_of i)) off = Some m ->
  let w := Z.lor (a64_enc (set_imm i 0)) m in
  let i' := set_imm i (off / 2 ^ discard (fmt_of_kind (kind_of i))) in
  exists r, In r rows /\ r_id r = a64_rid i /\ r_mn r = a64_mn i /\
            spec_row r (a64_ops i') = Some w /\ decode_row r w = a64_ops i' /\
            disp_of (last (a64_ops i') (OImm 0 0)) = Some off.
Proof. exact a64_db_patched. Qed.
Print Assumptions C03_a64_db_patched.

Theorem C03_a64_db_patched_witness :
  let i := ICb true false 5 0 in
  a64_wf (set_imm i 0) /\ a64_db_ok i /\ hole_ok (kind_of i) (a64_enc (set_imm i 0)) = true /\
  encode_offset (fmt_of_kind (kind_of i)) 1048572 = Some 8388576 /\
  spec_rows rows (a64_mn i) [OGp true 5; ORel 1048572] = Some (a64_rid i, Z.lor (a64_enc (set_imm i 0)) 8388576).
Proof. exact a64_db_patched_witness. Qed.
Print Assumptions C03_a64_db_patched_witness.

(* instruction level: C02's model of an a64 emit is `spec_rows` - the FIRST row of the mnemonic whose operand syntaxes accept the operands
   (that function is what C02's check ties to the real assembler).  It picks exactly the row named by a64_rid and yields a64_enc i. *)
Theorem C03_a64_db_spec_rows : forall i, a64_wf i -> a64_db_ok i ->
  spec_rows rows (a64_mn i) (a64_ops i) = Some (a64_rid i, a64_enc i).
Proof. exact a64_db_spec_rows. Qed.
Print Assumptions C03_a64_db_spec_rows.

Theorem C03_a64_db_patched_spec_rows : forall i off m,
  a64_wf (set_imm i 0) -> a64_db_ok i -> hole_ok (kind_of i) (a64_enc (set_imm i 0)) = true -> int64 off ->
  encode_offset (fmt_of_kind (kind_of i)) off = Some m ->
  let i' := set_imm i (off / 2 ^ discard (fmt_of_kind (kind_of i))) in
  spec_rows rows (a64_mn i) (a64_ops i') = Some (a64_rid i, Z.lor (a64_enc (set_imm i 0)) m) /\
  disp_of (last (a64_ops i') (OImm 0 0)) = Some off.
Proof. exact a64_db_patched_spec_rows. Qed.
Print Assumptions C03_a64_db_patched_spec_rows.

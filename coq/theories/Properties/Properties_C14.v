(* C14 — Invalid input is rejected with an error and leaves emitter state untouched.
   This file holds ONLY the property theorems (each closed by `exact <lemma>`) and their Print Assumptions.
   Model: coq/theories/EmitState/EmitStateModel.v (state machine of one public call; the instruction encoder's verdict is
   a parameter, so every theorem holds for EVERY encoder), LookupModel.v (bounds-instrumented table reads);
   tables: coq/gen/C14Tables.v (regenerated from the repository on every run). *)
From Coq Require Import ZArith List Bool String.
From Verif Require Import EmitState.EmitStateModel EmitState.EmitStateProofs EmitState.LookupModel EmitState.LookupProofs.
From Verif Require Import EmitState.EncPathModel EmitState.EncPathProofs Codec.OffsetModel Codec.OffsetProofs.
From Verif Require Import EmitState.EmitFrameModel EmitState.EmitFrameProofs.
From VerifGen Require Import C14Tables C14TableProofs C14MemPathModel C14MemPathProofs C14SpecProofs.
Import ListNotations.
Local Open Scope Z_scope.

(* A failed call — non-zero return value or an exception out of the error handler — appends no bytes, creates no labels,
   fixups, relocations, address-table entries or nodes and does not switch section: Assembler, Builder and Compiler,
   x86-32/x86-64/AArch64, no/returning/recording/throwing handler, every state, every call and every encoder verdict.
   (Guard: the Assembler bind whose pending displacement does not fit — see the refuted statement below.) *)
Theorem C14_failed_call_no_effect : forall fl a h s c s' o,
  step fl a h s c = (s', o) -> failed o = true -> ~ partial_bind fl c o ->
  persistent s' = persistent s.
Proof. exact failed_call_no_effect. Qed.
Print Assumptions C14_failed_call_no_effect.

(* the faithful model of CodeHolder::bind_label binds the label and then reports kInvalidDisplacement (C03's domain;
   recorded as known finding C14/bind-invalid-displacement-binds-label) *)
Theorem C14_failed_bind_displacement_refuted : exists fl a h s c s' o,
  step fl a h s c = (s', o) /\ failed o = true /\ persistent s' <> persistent s.
Proof. exact failed_bind_displacement_refuted. Qed.
Print Assumptions C14_failed_bind_displacement_refuted.

(* with an atomic bind (CodeHolder::bind_label checks the pending displacements before it binds: fixes/C14-bind-atomic.patch,
   command CBindAtomic) the statement holds without any guard *)
Theorem C14_failed_call_no_effect_atomic : forall fl a h s c s' o,
  no_legacy_bind c = true -> step fl a h s c = (s', o) -> failed o = true -> persistent s' = persistent s.
Proof. exact failed_call_no_effect_atomic. Qed.
Print Assumptions C14_failed_call_no_effect_atomic.

(* whether a bind is refused is COMPUTED from the positions, addends and offset formats of the label's pending fixups
   (what the instructions handed to new_fixup): the count the code reports is ignored *)
Theorem C14_bind_atomic_ignores_patchfail : forall h s id pf1 pf2,
  bind_assembler_atomic h s id pf1 = bind_assembler_atomic h s id pf2.
Proof. exact bind_atomic_ignores_patchfail. Qed.
Print Assumptions C14_bind_atomic_ignores_patchfail.

Theorem C14_bind_atomic_refuses_iff : forall h s id pf p,
  nthZ (st_labels s) id = Some (LUnbound p) ->
  (o_ret (snd (bind_assembler_atomic h s id pf)) = kInvalidDisplacement <->
   exists f, In f p /\ fx_reloc f = false /\ fx_section f = st_cur s /\ disp_fits f (cur_size s) = false).
Proof. exact bind_atomic_refuses_iff. Qed.
Print Assumptions C14_bind_atomic_refuses_iff.

(* a failed instruction clears the one-shot state (options, extra register, inline comment), also under a throwing handler *)
Theorem C14_state_cleared : forall fl a h s r s' o,
  step fl a h s (CInst r) = (s', o) -> failed o = true -> st_one s' = one_clear.
Proof. exact state_cleared. Qed.
Print Assumptions C14_state_cleared.

Theorem C14_state_consumed : forall fl a h s r s' o,
  step fl a h s (CInst r) = (s', o) -> st_one s' = one_clear.
Proof. exact state_consumed. Qed.
Print Assumptions C14_state_consumed.

(* the error of a failed emitter call reaches the attached handler exactly once and is the returned value; a throwing
   handler throws; without a handler nothing is reported *)
Theorem C14_reports_once : forall fl a h s c s' o,
  wf_cmd c ->
  step fl a h s c = (s', o) -> failed o = true -> is_new_section c = false ->
  exists e, e <> 0 /\
    o_calls o = match h with HNone => [] | _ => [e] end /\
    o_thrown o = match h with HThrow => true | _ => false end /\
    (returns_label c = false -> o_ret o = e).
Proof. exact reports_once. Qed.
Print Assumptions C14_reports_once.

Theorem C14_success_reports_nothing : forall fl a h s c s' o,
  wf_cmd c ->
  step fl a h s c = (s', o) -> failed o = false -> o_calls o = [] /\ o_thrown o = false.
Proof. exact success_reports_nothing. Qed.
Print Assumptions C14_success_reports_nothing.

(* "even if the error handler throws": the state left behind does not depend on the handler kind *)
Theorem C14_handler_irrelevant_for_state : forall fl a h1 h2 s c,
  fst (step fl a h1 s c) = fst (step fl a h2 s c).
Proof. exact handler_irrelevant_for_state. Qed.
Print Assumptions C14_handler_irrelevant_for_state.

(* after any history the emitter is in exactly the state (persistent AND one-shot part) it reaches when given only the
   calls that succeeded (failed instructions replaced by reset_state(), failed binds by reset_inline_comment()) — from
   any start state, in particular a fresh emitter; and that pruned history contains no failing call *)
Theorem C14_fresh_equivalent : forall fl a h cs s,
  fst (run fl a h s cs) = fst (run fl a h s (prune fl a h s cs)).
Proof. exact fresh_equivalent. Qed.
Print Assumptions C14_fresh_equivalent.

Theorem C14_pruned_history_succeeds : forall fl a h cs s,
  forallb patchfail_free cs = true ->
  forallb (fun x => negb (failed x)) (snd (run fl a h s (prune fl a h s cs))) = true.
Proof. exact pruned_history_succeeds. Qed.
Print Assumptions C14_pruned_history_succeeds.


(* ---- label / relocation paths of both assemblers at micro-operation level (EncPathModel.v): jmp/jcc/call LABEL and
   lea r,[LABEL+d] on x86-32/x86-64, b/bl/b.cond/cbz/tbz/adr/ldr-literal on AArch64; every state, label id, option ---- *)
(* no label entry is read for an invalid label id *)
Theorem C14_rel_paths_never_stuck : forall a s k id sh lg, rel_result a s k id sh lg <> UStuck.
Proof. exact rel_paths_never_stuck. Qed.
Print Assumptions C14_rel_paths_never_stuck.

(* a failing path has not created a relocation entry or a fixup before it fails *)
Theorem C14_rel_paths_fail_before_effects : forall a s k id sh lg e d,
  rel_result a s k id sh lg = UErr e d -> d = false.
Proof. exact rel_paths_fail_before_effects. Qed.
Print Assumptions C14_rel_paths_fail_before_effects.

Theorem C14_rel_invalid_label_refused : forall a s k id sh lg,
  label_valid s id = false ->
  rel_result a s k id sh lg = UErr kInvalidLabel false \/ rel_result a s k id sh lg = UErr kInvalidPhysId false.
Proof. exact rel_invalid_label_refused. Qed.
Print Assumptions C14_rel_invalid_label_refused.

(* AArch64 cbz/tbz/adr/ldr-literal: a register id that names no register is refused before the label is looked at, so no
   fixup / relocation exists afterwards whatever the label's state *)
Theorem C14_a64_rel_bad_register_refused : forall a s bits discard id sh lg,
  rel_result a s (A64Rel bits discard false) id sh lg = UErr kInvalidPhysId false.
Proof. exact a64_rel_bad_register_refused. Qed.
Print Assumptions C14_a64_rel_bad_register_refused.

(* the verdict computed for these instructions is a well-formed encoder verdict: all theorems above apply to it *)
Theorem C14_rel_cmd_wf : forall a s k id, wf_cmd (rel_cmd a s k id).
Proof. exact rel_cmd_wf. Qed.
Print Assumptions C14_rel_cmd_wf.

(* the 32-bit `[label]` path as written in the pinned tree reads the label table with an invalid id (DESIGN 7.3) *)
Theorem C14_x86_lea32_pinned_refuted : exists s id, exec (label_valid s) (cur_size s) (x86_lea32_path_pinned s id) acc0 = UStuck.
Proof. exact x86_lea32_pinned_refuted. Qed.
Print Assumptions C14_x86_lea32_pinned_refuted.

(* the AArch64 displacement test of the path model accepts exactly what C17's proven offset encoder accepts *)
Theorem C14_a64_disp_codec : forall bits shift discard d,
  wf_contig (a64_fmt bits shift discard) -> int64 d ->
  (((d mod 2 ^ discard =? 0) && fits_signed bits (d / 2 ^ discard)) = true <->
   encode_offset (a64_fmt bits shift discard) d <> None).
Proof. exact a64_disp_codec. Qed.
Print Assumptions C14_a64_disp_codec.

(* ---- memory-operand path of `add r32, [mem]` on x86-32/x86-64 (C14MemPathModel.v): C13's validator model, then
   EmitX86M prefixes + EmitModSib with every table read instrumented; the verdict (bytes | error) is computed ---- *)
(* no table is read out of bounds for ANY base/index type (5-bit fields), segment (3-bit field), id, shift, offset *)
Theorem C14_mem_path_never_stuck : forall x64 absloc cur add_id m,
  0 <= m_btype m <= x86c_mem_base_type_max -> 0 <= m_itype m <= x86c_mem_index_type_max -> 0 <= m_seg m <= x86c_mem_segment_max ->
  x86_add_mem x64 absloc cur add_id m <> MStuck.
Proof. exact mem_path_never_stuck. Qed.
Print Assumptions C14_mem_path_never_stuck.

Theorem C14_mem_encode_never_stuck : forall x64 absloc cur m,
  0 <= m_btype m <= x86c_mem_base_type_max -> 0 <= m_itype m <= x86c_mem_index_type_max -> 0 <= m_seg m <= x86c_mem_segment_max ->
  x86_add_mem_encode x64 absloc cur m <> MStuck.
Proof. exact mem_encode_never_stuck. Qed.
Print Assumptions C14_mem_encode_never_stuck.

Theorem C14_mem_cmd_wf : forall a hb s add_id m c, mem_cmd a hb s add_id m = Some c -> wf_cmd c.
Proof. exact mem_cmd_wf. Qed.
Print Assumptions C14_mem_cmd_wf.

Theorem C14_mem_cmd_bytes_only : forall a hb s add_id m c, mem_cmd a hb s add_id m = Some c ->
  exists r, c = CInst r /\ match r with EncOk _ fx _ dr da ds => fx = None /\ 0 <= dr <= 1 /\ da = 0 /\ ds = 0 | EncErr _ => True end.
Proof. exact mem_cmd_bytes_only. Qed.
Print Assumptions C14_mem_cmd_bytes_only.

(* ---- VEX + VSIB path of `vgatherdps v, [base + v*s + d], v` (VEX forms): opcode_l_by_vmem / opcode_l_by_size, EmitVexEvexM
   prefixes, EmitModVSib; all four table reads instrumented; verdict computed ---- *)
Theorem C14_vsib_encode_never_stuck : forall x64 v,
  0 <= m_btype (v_mem v) <= x86c_mem_base_type_max -> 0 <= m_itype (v_mem v) <= x86c_mem_index_type_max ->
  0 <= m_seg (v_mem v) <= x86c_mem_segment_max -> 0 <= v_dsize v <= x86c_size_max ->
  index_type_allowed (m_itype (v_mem v)) ->
  x86_vgather_encode x64 v <> MStuck.
Proof. exact vsib_encode_never_stuck. Qed.
Print Assumptions C14_vsib_encode_never_stuck.

(* for the VALIDATED instruction the hypothesis is discharged through C13's validator model (validate = kOk implies the index
   type is in the validator's accept mask): no table read of the whole path validate -> encode is out of bounds *)
Theorem C14_vsib_path_never_stuck : forall x64 inst_id v,
  0 <= m_btype (v_mem v) <= x86c_mem_base_type_max -> 0 <= m_itype (v_mem v) <= x86c_mem_index_type_max ->
  0 <= m_seg (v_mem v) <= x86c_mem_segment_max -> 0 <= v_dsize v <= x86c_size_max ->
  x86_vgather x64 inst_id v <> MStuck.
Proof. exact vsib_path_never_stuck. Qed.
Print Assumptions C14_vsib_path_never_stuck.

(* the hypothesis "index type allowed by the validator" is needed: kMask (16) as index type reads past ll_by_reg_type_table *)
Theorem C14_vsib_unvalidated_refuted : exists x64 v,
  0 <= m_itype (v_mem v) <= x86c_mem_index_type_max /\ x86_vgather_encode x64 v = MStuck.
Proof. exact vsib_unvalidated_refuted. Qed.
Print Assumptions C14_vsib_unvalidated_refuted.

Theorem C14_vsib_cmd_wf : forall a inst_id v c, vsib_cmd a inst_id v = Some c -> wf_cmd c.
Proof. exact vsib_cmd_wf. Qed.
Print Assumptions C14_vsib_cmd_wf.

(* ---- push / pop of a segment register: C13's validator model, the id guard, opcode_push/pop_sreg_table and opcode_mm_table
   reads instrumented; for EVERY register id ---- *)
Theorem C14_pushpop_never_stuck : forall x64 is_pop inst_id id, 0 <= id -> x86_pushpop_sreg x64 is_pop inst_id id <> MStuck.
Proof. exact pushpop_never_stuck. Qed.
Print Assumptions C14_pushpop_never_stuck.

(* ---- bounds of the table look-ups indexed by operand fields (tables and index sets dumped from the repository) ---- *)
Theorem C14_lookups_in_range : forall s, In s sites -> forall i, In i (site_idx s) ->
  exists v, lookup (site_table s) i = Some v.
Proof. exact lookups_in_range. Qed.
Print Assumptions C14_lookups_in_range.

Theorem C14_mem_info_lookup : forall bt it,
  0 <= bt <= x86c_mem_base_type_max -> 0 <= it <= x86c_mem_index_type_max ->
  exists v, lookup x86_mem_info_table (bt + 32 * it) = Some v.
Proof. exact mem_info_lookup. Qed.
Print Assumptions C14_mem_info_lookup.

Theorem C14_segment_lookup : forall sg, 0 <= sg <= x86c_mem_segment_max ->
  exists v, lookup x86_segment_prefix_table sg = Some v.
Proof. exact segment_lookup. Qed.
Print Assumptions C14_segment_lookup.

Theorem C14_ll_lookup_validated : forall t, 0 <= t <= x86c_mem_index_type_max ->
  (t = 0 \/ Z.testbit x86c_allowed_mem_index_regs_x86 t = true \/ Z.testbit x86c_allowed_mem_index_regs_x64 t = true) ->
  exists v, lookup x86_ll_by_reg_type_table t = Some v.
Proof. exact ll_lookup_validated. Qed.
Print Assumptions C14_ll_lookup_validated.

(* without strict validation (outside the property's quantifier) the same read can be out of bounds *)
Theorem C14_ll_lookup_unvalidated_refuted : exists t,
  0 <= t <= x86c_mem_index_type_max /\ lookup x86_ll_by_reg_type_table t = None.
Proof. exact ll_lookup_unvalidated_refuted. Qed.
Print Assumptions C14_ll_lookup_unvalidated_refuted.

Theorem C14_sreg_lookup : forall id, 0 <= id < x86c_sreg_id_count ->
  (exists v, lookup x86_opcode_push_sreg_table id = Some v) /\ (exists v, lookup x86_opcode_pop_sreg_table id = Some v).
Proof. exact (fun id H => conj (push_sreg_lookup id H) (pop_sreg_lookup id H)). Qed.
Print Assumptions C14_sreg_lookup.

Theorem C14_opcode_tables_lookup : forall k,
  (In k x86_inst_main_idx -> exists v, lookup x86_main_opcode_table k = Some v) /\
  (In k x86_inst_alt_idx -> exists v, lookup x86_alt_opcode_table k = Some v).
Proof. exact opcode_tables_lookup. Qed.
Print Assumptions C14_opcode_tables_lookup.

Theorem C14_opcode_mm_lookup : forall o, In o x86_legacy_opcodes ->
  exists v, lookup x86_opcode_mm_table (Z.land (Z.shiftr o x86c_mm_shift) x86c_mm_index_max) = Some v.
Proof. exact opcode_mm_lookup. Qed.
Print Assumptions C14_opcode_mm_lookup.

(* the bound comes from the opcode DATA, not from the field width: kMM_ForceEvex (bit 4) would index past the table *)
Theorem C14_opcode_mm_field_refuted : exists m, 0 <= m <= x86c_mm_index_max /\ lookup x86_opcode_mm_table m = None.
Proof. exact opcode_mm_field_refuted. Qed.
Print Assumptions C14_opcode_mm_field_refuted.

Theorem C14_common_hi_lookup : forall t, 0 <= t <= a64c_reg_type_max ->
  exists v, lookup a64_common_hi_reg_id_of_type_table t = Some v.
Proof. exact common_hi_lookup. Qed.
Print Assumptions C14_common_hi_lookup.

Theorem C14_size_op_lookup : forall rt et i,
  0 <= rt <= a64c_reg_type_max -> 0 <= et <= a64c_element_type_max ->
  size_op_read rt et = Some i -> 0 <= i < a64c_size_op_array_len.
Proof. exact size_op_lookup. Qed.
Print Assumptions C14_size_op_lookup.

Theorem C14_size_op_reads_vectors : forall rt et,
  a64c_reg_type_vec8 <= rt <= a64c_reg_type_vec128 -> 0 <= et <= a64c_element_type_max ->
  exists i, size_op_read rt et = Some i.
Proof. exact size_op_reads_vectors. Qed.
Print Assumptions C14_size_op_reads_vectors.

(* a64 load / store addressing (kEncodingBaseLdSt + the ldur/stur fallback): table reads in range for every instruction
   id, the whole path never reads out of bounds, and what is accepted is encodable *)
Theorem C14_a64_ldst_row_never_stuck : forall inst_id, 0 <= inst_id -> a64_ldst_row inst_id <> RStuck.
Proof. exact a64_ldst_row_never_stuck. Qed.
Print Assumptions C14_a64_ldst_row_never_stuck.

Theorem C14_a64_ldst_never_stuck : forall inst_id m,
  0 <= inst_id -> 0 <= a_shiftop m <= a64c_mem_shift_op_max -> a64_ldst inst_id m <> MStuck.
Proof. exact a64_ldst_never_stuck. Qed.
Print Assumptions C14_a64_ldst_never_stuck.

Theorem C14_a64_ldst_accepted_encodable : forall inst_id m n d,
  a64_ldst inst_id m = MOk n d ->
  n = 4 /\ d = 0 /\ a_btype m = a64c_reg_type_gp64 /\ a_bid m <= 31 /\
  (a_rid m < 31 \/ a_rid m = a64c_zr) /\ (a_itype m <> 0 -> a_iid m <= 30 \/ a_iid m = a64c_id_zr).
Proof. exact a64_ldst_accepted_encodable. Qed.
Print Assumptions C14_a64_ldst_accepted_encodable.

(* x86 shift / rotate of a register by an immediate (kEncodingX86Rot -> EmitX86R): every table read in range for every
   instruction id, register type / id and operand size, with and without the validator in front *)
Theorem C14_shift_encode_never_stuck : forall x64 long inst_id f, 0 <= inst_id -> x86_shift_imm_encode x64 long inst_id f <> MStuck.
Proof. exact shift_encode_never_stuck. Qed.
Print Assumptions C14_shift_encode_never_stuck.

Theorem C14_shift_never_stuck : forall x64 long inst_id f, 0 <= inst_id -> x86_shift_imm x64 long inst_id f <> MStuck.
Proof. exact shift_never_stuck. Qed.
Print Assumptions C14_shift_never_stuck.

(* EVEX / VEX + VSIB, the two-operand gather with a mask register (ids >= 16, 512-bit, compressed disp8): no table read
   out of bounds — under the explicit index-type hypothesis, and for the validated instruction without it *)
Theorem C14_vsib2_encode_never_stuck : forall x64 kid v,
  0 <= m_btype (v_mem v) <= x86c_mem_base_type_max -> 0 <= m_itype (v_mem v) <= x86c_mem_index_type_max ->
  0 <= m_seg (v_mem v) <= x86c_mem_segment_max -> 0 <= v_dsize v <= x86c_size_max ->
  index_type_allowed (m_itype (v_mem v)) ->
  x86_vgather2_encode x64 kid v <> MStuck.
Proof. exact vsib2_encode_never_stuck. Qed.
Print Assumptions C14_vsib2_encode_never_stuck.

Theorem C14_vsib2_path_never_stuck : forall x64 inst_id etype kid v,
  0 <= m_btype (v_mem v) <= x86c_mem_base_type_max -> 0 <= m_itype (v_mem v) <= x86c_mem_index_type_max ->
  0 <= m_seg (v_mem v) <= x86c_mem_segment_max -> 0 <= v_dsize v <= x86c_size_max ->
  x86_vgather2 x64 inst_id etype kid v <> MStuck.
Proof. exact vsib2_path_never_stuck. Qed.
Print Assumptions C14_vsib2_path_never_stuck.

(* a64 load / store pair (kEncodingBaseLdpStp): table reads in range for every instruction id; what is accepted is encodable *)
Theorem C14_a64_ldp_never_stuck : forall inst_id m, 0 <= inst_id -> a64_ldp inst_id m <> MStuck.
Proof. exact a64_ldp_never_stuck. Qed.
Print Assumptions C14_a64_ldp_never_stuck.

Theorem C14_a64_ldp_accepted_encodable : forall inst_id m n d,
  a64_ldp inst_id m = MOk n d ->
  n = 4 /\ d = 0 /\ p_rtype0 m = p_rtype1 m /\ (p_rid0 m < 31 \/ p_rid0 m = a64c_zr) /\ (p_rid1 m < 31 \/ p_rid1 m = a64c_zr) /\
  p_btype m = a64c_reg_type_gp64 /\ p_itype m = 0 /\ p_bid m <= 31.
Proof. exact a64_ldp_accepted_encodable. Qed.
Print Assumptions C14_a64_ldp_accepted_encodable.

(* non-vacuity of the computed-verdict families: each verdict class (accepted with its byte count, each kind of refusal) is
   inhabited by a concrete instruction; ids come from the dumped enums *)
Theorem C14_a64_ldst_verdicts_inhabited :
  a64_ldst a64c_id_ldr (mkA64Mem 6 1 6 2 0 0 0 0 0 8) = MOk 4 0 /\
  a64_ldst a64c_id_ldr (mkA64Mem 6 1 6 2 0 0 0 0 0 (-8)) = MOk 4 0 /\
  a64_ldst a64c_id_ldr (mkA64Mem 6 1 6 2 0 0 0 0 0 4097) = MErr kInvalidDisplacement /\
  a64_ldst a64c_id_ldr (mkA64Mem 6 40 6 2 0 0 0 0 0 8) = MErr kInvalidPhysId /\
  a64_ldst a64c_id_ldr (mkA64Mem 6 1 6 2 6 3 0 2 0 0) = MErr kInvalidAddressScale /\
  a64_ldst a64c_id_ldr (mkA64Mem 6 1 6 2 6 3 0 3 0 0) = MOk 4 0.
Proof. exact a64_ldst_verdicts. Qed.
Print Assumptions C14_a64_ldst_verdicts_inhabited.

Theorem C14_a64_ldp_verdicts_inhabited :
  a64_ldp a64c_id_ldp (mkA64Pair 6 1 6 2 6 3 0 0 16) = MOk 4 0 /\
  a64_ldp a64c_id_ldp (mkA64Pair 6 1 6 2 6 3 0 0 4) = MErr kInvalidDisplacement /\
  a64_ldp a64c_id_ldp (mkA64Pair 6 1 5 2 6 3 0 0 16) = MErr kInvalidInstruction /\
  a64_ldp a64c_id_ldp (mkA64Pair 6 1 6 2 6 40 0 0 16) = MErr kInvalidAddress.
Proof. exact a64_ldp_verdicts. Qed.
Print Assumptions C14_a64_ldp_verdicts_inhabited.

Theorem C14_shift_verdicts_inhabited :
  x86_shift_imm true false x86c_id_shl (mkShift 5 0 4 1) = MOk 2 0 /\
  x86_shift_imm true true x86c_id_shl (mkShift 5 0 4 1) = MOk 3 0 /\
  x86_shift_imm true false x86c_id_shl (mkShift 6 9 8 5) = MOk 4 0 /\
  x86_shift_imm false false x86c_id_shl (mkShift 6 1 8 5) = MErr 58 /\
  x86_shift_imm true false x86c_id_shl (mkShift 11 31 16 5) = MErr kInvalidPhysId.
Proof. exact shift_verdicts. Qed.
Print Assumptions C14_shift_verdicts_inhabited.

Theorem C14_pushpop_verdicts_inhabited :
  x86_pushpop_sreg true false x86c_id_push 5 = MOk 2 0 /\
  x86_pushpop_sreg true true x86c_id_pop 2 = MErr kInvalidInstruction /\
  x86_pushpop_sreg true false x86c_id_push 7 = MErr kInvalidPhysId.
Proof. exact pushpop_verdicts. Qed.
Print Assumptions C14_pushpop_verdicts_inhabited.

Theorem C14_vsib2_verdicts_inhabited :
  x86_vgather2 true x86c_vgatherdps_id 16 1 (mkVsib 13 17 0 64 (mkMem 0 6 3 13 18 2 0 0 0 256)) = MOk 8 0 /\
  x86_vgather2 true x86c_vgatherdps_id 16 1 (mkVsib 13 17 0 64 (mkMem 0 6 3 13 18 2 0 0 0 258)) = MOk 11 0 /\
  x86_vgather2 true x86c_vgatherdps_id 16 1 (mkVsib 11 1 0 16 (mkMem 0 6 3 11 2 0 0 0 0 0)) = MOk 7 0 /\
  x86_vgather2 true x86c_vgatherdps_id 16 9 (mkVsib 11 1 0 16 (mkMem 0 6 3 11 2 0 0 0 0 0)) = MErr 39 /\
  x86_vgather true x86c_vgatherdps_id (mkVsib 11 16 2 16 (mkMem 0 6 3 11 2 0 0 0 0 0)) = MErr kInvalidPhysId /\
  x86_vgather true x86c_vgatherdps_id (mkVsib 11 1 2 16 (mkMem 0 6 3 11 3 0 0 0 0 0)) = MOk 6 0.
Proof. exact vsib2_verdicts. Qed.
Print Assumptions C14_vsib2_verdicts_inhabited.

(* end to end: a refusal computed by any verdict model, handed to the emit transaction, is a failed call that reports exactly
   that error, leaves sections / labels / fixups / relocations / address table / nodes / current section untouched and clears
   the one-shot state - every flavour, architecture, handler kind, state *)
Theorem C14_refused_instruction_end_to_end : forall fl a h s e s' o,
  e <> 0 -> step fl a h s (CInst (EncErr e)) = (s', o) ->
  o = report h e /\ failed o = true /\ persistent s' = persistent s /\ st_one s' = one_clear.
Proof. exact refused_instruction_end_to_end. Qed.
Print Assumptions C14_refused_instruction_end_to_end.

(* ... and the refusals of the computed-verdict families always carry a non-zero error code (its hypothesis) *)
Theorem C14_a64_ldst_cmd_wf : forall inst_id m c, a64_ldst_cmd inst_id m = Some c -> wf_cmd c.
Proof. exact a64_ldst_cmd_wf. Qed.
Print Assumptions C14_a64_ldst_cmd_wf.

Theorem C14_a64_ldp_cmd_wf : forall inst_id m c, a64_ldp_cmd inst_id m = Some c -> wf_cmd c.
Proof. exact a64_ldp_cmd_wf. Qed.
Print Assumptions C14_a64_ldp_cmd_wf.

Theorem C14_shift_cmd_wf : forall a s inst_id f c, shift_cmd a s inst_id f = Some c -> wf_cmd c.
Proof. exact shift_cmd_wf. Qed.
Print Assumptions C14_shift_cmd_wf.

Theorem C14_pushpop_cmd_wf : forall a is_pop inst_id id c, pushpop_cmd a is_pop inst_id id = Some c -> wf_cmd c.
Proof. exact pushpop_cmd_wf. Qed.
Print Assumptions C14_pushpop_cmd_wf.

Theorem C14_vsib2_cmd_wf : forall a s inst_id v c, vsib2_cmd a s inst_id v = Some c -> wf_cmd c.
Proof. exact vsib2_cmd_wf. Qed.
Print Assumptions C14_vsib2_cmd_wf.

(* mov r, [mem] / mov [mem], r for every GP width, the moffs special form included (kEncodingX86Mov -> EmitX86OpMovAbs |
   EmitX86M): no table read out of bounds; refusals carry an error; the moffs form has an address-independent length *)
Theorem C14_modrm_encode_never_stuck : forall x64 absloc cur npp rexop m,
  0 <= m_btype m <= x86c_mem_base_type_max -> 0 <= m_itype m <= x86c_mem_index_type_max -> 0 <= m_seg m <= x86c_mem_segment_max ->
  x86_modrm_mem_encode x64 absloc cur npp rexop m <> MStuck.
Proof. exact modrm_encode_never_stuck. Qed.
Print Assumptions C14_modrm_encode_never_stuck.

Theorem C14_mov_never_stuck : forall x64 absloc cur inst_id f,
  0 <= inst_id ->
  0 <= m_btype (mv_mem f) <= x86c_mem_base_type_max -> 0 <= m_itype (mv_mem f) <= x86c_mem_index_type_max ->
  0 <= m_seg (mv_mem f) <= x86c_mem_segment_max ->
  x86_mov_rm x64 absloc cur inst_id f <> MStuck.
Proof. exact mov_never_stuck. Qed.
Print Assumptions C14_mov_never_stuck.

Theorem C14_mov_cmd_wf : forall a hb s inst_id f c, mov_cmd a hb s inst_id f = Some c -> wf_cmd c.
Proof. exact mov_cmd_wf. Qed.
Print Assumptions C14_mov_cmd_wf.

Theorem C14_movabs_length : forall x64 absloc cur f n d,
  m_dst (mv_mem f) = 0 -> m_btype (mv_mem f) = 0 -> m_itype (mv_mem f) = 0 ->
  mv_rtype f <> kRegTypeSegment -> mv_rtype f <> x86c_reg_type_gp8hi ->
  x86_use_movabs x64 absloc cur (mv_rsize f) (mv_mem f) = true ->
  x86_mov_rm_encode x64 absloc cur f = MOk n d ->
  d = 0 /\ (if x64 then 9 else 5) <= n <= (if x64 then 12 else 8).
Proof. exact movabs_length. Qed.
Print Assumptions C14_movabs_length.

Theorem C14_mov_verdicts_inhabited :
  x86_mov_rm true false 0 x86c_id_mov (mkMov 6 8 false (mkMem 0 0 0 0 0 0 0 0 8 78187493530)) = MOk 10 0 /\
  x86_mov_rm true false 0 x86c_id_mov (mkMov 5 4 false (mkMem 0 0 0 0 0 0 0 0 4 4096)) = MOk 6 1 /\
  x86_mov_rm false false 0 x86c_id_mov (mkMov 5 4 false (mkMem 0 0 0 0 0 0 0 0 4 4096)) = MOk 5 0 /\
  x86_mov_rm false false 0 x86c_id_mov (mkMov 4 2 true (mkMem 0 0 0 0 0 0 5 0 2 4096)) = MOk 7 0 /\
  x86_mov_rm true false 0 x86c_id_mov (mkMov 3 1 false (mkMem 0 6 9 0 0 0 0 0 1 0)) = MErr 57 /\
  x86_mov_rm true false 0 x86c_id_mov (mkMov 2 1 false (mkMem 6 6 3 0 0 0 0 0 1 0)) = MOk 3 0 /\
  x86_mov_rm true false 0 x86c_id_mov (mkMov 6 8 false (mkMem 1 6 3 0 0 0 7 0 8 0)) = MErr kInvalidSegment.
Proof. exact mov_verdicts. Qed.
Print Assumptions C14_mov_verdicts_inhabited.

(* the success side at full strength: what an accepted instruction of the computed-verdict families changes, and everything it
   must NOT change *)
Theorem C14_accepted_instruction_end_to_end : forall a h s n d s' o,
  step FAssembler a h s (CInst (EncOk n None false d 0 0)) = (s', o) ->
  o = ok_out /\ st_sizes s' = updZ (st_sizes s) (st_cur s) (cur_size s + n) /\ st_relocs s' = st_relocs s + d /\
  st_cur s' = st_cur s /\ st_labels s' = st_labels s /\ st_fixups s' = st_fixups s /\ st_addrs s' = st_addrs s /\
  st_nodes s' = st_nodes s /\ st_one s' = one_clear.
Proof. exact accepted_instruction_end_to_end. Qed.
Print Assumptions C14_accepted_instruction_end_to_end.

(* a64 SIMD / FP load / store (kEncodingSimdLdSt + the ldur/stur fallback) *)
Theorem C14_a64_simd_ldst_never_stuck : forall inst_id v,
  0 <= inst_id -> 0 <= a_shiftop (av_mem v) <= a64c_mem_shift_op_max -> a64_simd_ldst inst_id v <> MStuck.
Proof. exact a64_simd_ldst_never_stuck. Qed.
Print Assumptions C14_a64_simd_ldst_never_stuck.

Theorem C14_a64_simd_ldst_accepted_encodable : forall inst_id v n d,
  a64_simd_ldst inst_id v = MOk n d ->
  n = 4 /\ d = 0 /\ a_rid (av_mem v) <= 31 /\ av_ei v = false /\ av_et v = 0 /\
  a_btype (av_mem v) = a64c_reg_type_gp64 /\ a_bid (av_mem v) <= 31 /\
  (a_itype (av_mem v) <> 0 -> a_iid (av_mem v) <= 30 \/ a_iid (av_mem v) = a64c_id_zr).
Proof. exact a64_simd_ldst_accepted_encodable. Qed.
Print Assumptions C14_a64_simd_ldst_accepted_encodable.

Theorem C14_a64_simd_ldst_cmd_wf : forall inst_id v c, a64_simd_ldst_cmd inst_id v = Some c -> wf_cmd c.
Proof. exact a64_simd_ldst_cmd_wf. Qed.
Print Assumptions C14_a64_simd_ldst_cmd_wf.

Theorem C14_a64_simd_ldst_verdicts_inhabited :
  a64_simd_ldst a64c_id_ldr_v (mkA64VMem 0 false (mkA64Mem a64c_reg_type_vec128 1 6 2 0 0 0 0 0 32)) = MOk 4 0 /\
  a64_simd_ldst a64c_id_ldr_v (mkA64VMem 0 false (mkA64Mem a64c_reg_type_vec128 1 6 2 0 0 0 0 0 8)) = MOk 4 0 /\
  a64_simd_ldst a64c_id_ldr_v (mkA64VMem 0 false (mkA64Mem a64c_reg_type_vec128 1 6 2 0 0 0 0 0 264)) = MErr kInvalidDisplacement /\
  a64_simd_ldst a64c_id_ldr_v (mkA64VMem 0 false (mkA64Mem a64c_reg_type_vec128 40 6 2 0 0 0 0 0 32)) = MErr kInvalidPhysId /\
  a64_simd_ldst a64c_id_ldr_v (mkA64VMem 2 false (mkA64Mem a64c_reg_type_vec128 1 6 2 0 0 0 0 0 32)) = MErr kInvalidRegType /\
  a64_simd_ldst a64c_id_str_v (mkA64VMem 0 false (mkA64Mem a64c_reg_type_vec128 1 6 2 6 3 0 4 0 0)) = MOk 4 0 /\
  a64_simd_ldst a64c_id_str_v (mkA64VMem 0 false (mkA64Mem a64c_reg_type_vec128 1 6 2 6 3 0 3 0 0)) = MErr kInvalidAddressScale.
Proof. exact a64_simd_ldst_verdicts. Qed.
Print Assumptions C14_a64_simd_ldst_verdicts_inhabited.

(* VEX / EVEX register form (vaddps v, v, v {k} through EmitVexEvexR) *)
Theorem C14_vrrr_never_stuck : forall x64 inst_id etype kid f, 0 <= vr_size f <= x86c_size_max -> x86_vrrr x64 inst_id etype kid f <> MStuck.
Proof. exact vrrr_never_stuck. Qed.
Print Assumptions C14_vrrr_never_stuck.

Theorem C14_vrrr_accepted_length : forall x64 inst_id etype kid f n d,
  x86_vrrr x64 inst_id etype kid f = MOk n d -> d = 0 /\ (n = 4 \/ n = 5 \/ n = 6).
Proof. exact vrrr_accepted_length. Qed.
Print Assumptions C14_vrrr_accepted_length.

Theorem C14_vrrr_cmd_wf : forall a s inst_id f c, vrrr_cmd a s inst_id f = Some c -> wf_cmd c.
Proof. exact vrrr_cmd_wf. Qed.
Print Assumptions C14_vrrr_cmd_wf.

Theorem C14_vrrr_verdicts_inhabited :
  x86_vrrr true x86c_vaddps_id 0 0 (mkVrrr 11 1 11 2 11 3 16) = MOk 4 0 /\
  x86_vrrr true x86c_vaddps_id 0 0 (mkVrrr 11 1 11 2 11 9 16) = MOk 5 0 /\
  x86_vrrr true x86c_vaddps_id 0 0 (mkVrrr 11 1 11 2 11 17 16) = MOk 6 0 /\
  x86_vrrr true x86c_vaddps_id 16 3 (mkVrrr 12 1 12 2 12 3 32) = MOk 6 0 /\
  x86_vrrr true x86c_vaddps_id 0 0 (mkVrrr 13 1 13 2 13 3 64) = MOk 6 0 /\
  x86_vrrr true x86c_vaddps_id 0 0 (mkVrrr 11 1 11 2 11 32 16) = MErr kInvalidPhysId /\
  x86_vrrr true x86c_vaddps_id 0 0 (mkVrrr 11 1 12 2 11 3 48) = MErr kInvalidInstruction /\
  x86_vrrr false x86c_vaddps_id 0 0 (mkVrrr 11 1 11 2 11 9 16) = MErr kInvalidPhysId.
Proof. exact vrrr_verdicts. Qed.
Print Assumptions C14_vrrr_verdicts_inhabited.

(* the eight kEncodingX86Arith instructions with (Reg, Mem) / (Mem, Reg), every GP width: same ModRM path, table reads in range *)
Theorem C14_arith_rm_encode_never_stuck : forall x64 absloc cur inst_id f,
  0 <= inst_id ->
  0 <= m_btype (mv_mem f) <= x86c_mem_base_type_max -> 0 <= m_itype (mv_mem f) <= x86c_mem_index_type_max ->
  0 <= m_seg (mv_mem f) <= x86c_mem_segment_max ->
  x86_arith_rm_encode x64 absloc cur inst_id f <> MStuck.
Proof. exact arith_rm_encode_never_stuck. Qed.
Print Assumptions C14_arith_rm_encode_never_stuck.

(* a64 ldr / str `[base, #off]`, characterised arithmetically for EVERY 32-bit offset (no enumeration): accepted exactly when off
   is a multiple of the access size inside the scaled uimm12 range or lies in the simm9 range of the ldur/stur fallback; refused
   with kInvalidDisplacement otherwise.  The second statement shows the hypotheses hold for the rows of ldr (X: scale 3, W: 2)
   and ldrb (scale 0). *)
Theorem C14_a64_ldst_imm_offset_spec : forall r m,
  a64_gp_type_ok (l_allowed r) (a_rtype m) = true -> a64_check_gp_id (a_rid m) a64c_zr = true ->
  a64_gp_type_ok (l2_allowed r) (a_rtype m) = true -> a64_check_gp_id (a_rid m) (l2_hi r) = true -> l2_shift r = 0 ->
  a_btype m = a64c_reg_type_gp64 -> a_bid m <= 31 -> a_itype m = 0 -> a_mode m = 0 ->
  - 2 ^ 31 <= a_off m < 2 ^ 31 -> 0 <= a64_imm_shift r m <= 4 ->
  let s := a64_imm_shift r m in
  let fits := (0 <= a_off m < 4096 * 2 ^ s /\ (a_off m) mod 2 ^ s = 0) \/ (-256 <= a_off m <= 255) in
  (fits -> a64_ldst_encode_row r m = MOk 4 0) /\ (~ fits -> a64_ldst_encode_row r m = MErr kInvalidDisplacement).
Proof. exact a64_ldst_imm_offset_spec. Qed.
Print Assumptions C14_a64_ldst_imm_offset_spec.

Theorem C14_a64_ldst_imm_offset_spec_applies :
  match a64_ldst_row a64c_id_ldr, a64_ldst_row a64c_id_ldrb with
  | RRow r, RRow rb =>
      (l2_shift r =? 0) && a64_gp_type_ok (l_allowed r) 6 && a64_gp_type_ok (l2_allowed r) 6 && a64_check_gp_id 1 (l2_hi r) &&
      (a64_imm_shift r (mkA64Mem 6 1 6 2 0 0 0 0 0 0) =? 3) && (a64_imm_shift r (mkA64Mem 5 1 6 2 0 0 0 0 0 0) =? 2) &&
      (l2_shift rb =? 0) && a64_gp_type_ok (l_allowed rb) 5 && (a64_imm_shift rb (mkA64Mem 5 1 6 2 0 0 0 0 0 0) =? 0)
  | _, _ => false
  end = true.
Proof. exact a64_ldst_imm_offset_spec_applies. Qed.
Print Assumptions C14_a64_ldst_imm_offset_spec_applies.

(* a64 ldp / stp, for EVERY 32-bit offset: accepted exactly when off is a multiple of the access size inside the scaled simm7
   range; the hypotheses hold for the row of ldp (X: scale 3, W: scale 2, write-back forms exist) *)
Theorem C14_a64_ldp_offset_spec : forall r m,
  a64_gp_type_ok (lp_allowed r) (p_rtype0 m) = true -> p_rtype0 m = p_rtype1 m ->
  a64_check_gp_id (p_rid0 m) a64c_zr = true -> a64_check_gp_id (p_rid1 m) a64c_zr = true ->
  p_btype m = a64c_reg_type_gp64 -> p_bid m <= 31 -> p_itype m = 0 -> (p_mode m = 0 \/ lp_prepost r <> 0) ->
  - 2 ^ 31 <= p_off m < 2 ^ 31 ->
  let s := lp_shift r + a64_gp_x (lp_allowed r) (p_rtype0 m) in
  0 <= s <= 5 ->
  let fits := - 64 * 2 ^ s <= p_off m < 64 * 2 ^ s /\ (p_off m) mod 2 ^ s = 0 in
  (fits -> a64_ldp_encode_row r m = MOk 4 0) /\ (~ fits -> a64_ldp_encode_row r m = MErr kInvalidDisplacement).
Proof. exact a64_ldp_offset_spec. Qed.
Print Assumptions C14_a64_ldp_offset_spec.

Theorem C14_a64_ldp_offset_spec_applies :
  match a64_ldp_row a64c_id_ldp with
  | PRow r => a64_gp_type_ok (lp_allowed r) 6 && a64_gp_type_ok (lp_allowed r) 5 && negb (lp_prepost r =? 0) &&
              (lp_shift r + a64_gp_x (lp_allowed r) 6 =? 3) && (lp_shift r + a64_gp_x (lp_allowed r) 5 =? 2)
  | _ => false
  end = true.
Proof. exact a64_ldp_offset_spec_applies. Qed.
Print Assumptions C14_a64_ldp_offset_spec_applies.

(* the moffs decision (x86_should_use_movabs) of a 64-bit Assembler without a base address, for EVERY 64-bit address: the 8-byte
   address form is chosen exactly when neither a sign-extended nor a zero-extended 32-bit displacement reaches the address *)
Theorem C14_x86_use_movabs_spec : forall cur rs m,
  m_addr m <> 2 ->
  let addr := sext 64 (m_off m) in
  x86_use_movabs true false cur rs m = true <-> (addr < - 2 ^ 31 \/ 2 ^ 32 <= addr).
Proof. exact x86_use_movabs_spec. Qed.
Print Assumptions C14_x86_use_movabs_spec.

(* the EVEX compressed displacement (disp8*N) of the gather path, for EVERY 32-bit displacement and every scale 1..64: one byte
   exactly when the displacement is a multiple of the scale inside [-128*N, 127*N] *)
Theorem C14_cdisp8_ok_iff : forall rel cd, 0 <= cd <= 6 -> - 2 ^ 31 <= rel < 2 ^ 31 ->
  cdisp8_ok rel cd = true <-> (-128 * 2 ^ cd <= rel <= 127 * 2 ^ cd /\ rel mod 2 ^ cd = 0).
Proof. exact cdisp8_ok_iff. Qed.
Print Assumptions C14_cdisp8_ok_iff.

(* ---------------------------------------------------------------- frame conditions (round 6)
   WHATEVER happens in a call - success, refusal, an exception out of the handler - no component outside the footprint of its
   kind changes: every flavour, architecture, handler kind, state, argument and encoder verdict.  The extracted `footprint_of`
   is printed by the model driver for every call and checked against the snapshots of the REAL emitter. *)
Theorem C14_call_frame : forall fl a h s c s' o,
  step fl a h s c = (s', o) ->
  let fp := footprint_of fl c in
  (fp_sizes fp = false -> st_sizes s' = st_sizes s) /\
  (fp_cur fp = false -> st_cur s' = st_cur s) /\
  (fp_labels fp = false -> st_labels s' = st_labels s) /\
  (fp_fixups fp = false -> st_fixups s' = st_fixups s) /\
  (fp_relocs fp = false -> st_relocs s' = st_relocs s) /\
  (fp_addrs fp = false -> st_addrs s' = st_addrs s) /\
  (fp_nodes fp = false -> st_nodes s' = st_nodes s).
Proof. exact call_frame. Qed.
Print Assumptions C14_call_frame.

(* no call ever touches the size of a section other than the one the emitter is in (new sections are appended behind) *)
Theorem C14_other_sections_untouched : forall fl a h s c s' o, step fl a h s c = (s', o) -> other_sections_kept s s'.
Proof. exact other_sections_untouched. Qed.
Print Assumptions C14_other_sections_untouched.

(* a history of calls whose footprints all exclude a component leaves it as it was, however many calls fail, throw or succeed *)
Theorem C14_history_frame : forall fl a h cs s s' os,
  run fl a h s cs = (s', os) ->
  ((forall c, In c cs -> fp_sizes (footprint_of fl c) = false) -> st_sizes s' = st_sizes s) /\
  ((forall c, In c cs -> fp_cur (footprint_of fl c) = false) -> st_cur s' = st_cur s) /\
  ((forall c, In c cs -> fp_labels (footprint_of fl c) = false) -> st_labels s' = st_labels s) /\
  ((forall c, In c cs -> fp_fixups (footprint_of fl c) = false) -> st_fixups s' = st_fixups s) /\
  ((forall c, In c cs -> fp_relocs (footprint_of fl c) = false) -> st_relocs s' = st_relocs s) /\
  ((forall c, In c cs -> fp_addrs (footprint_of fl c) = false) -> st_addrs s' = st_addrs s) /\
  ((forall c, In c cs -> fp_nodes (footprint_of fl c) = false) -> st_nodes s' = st_nodes s).
Proof. exact history_frame. Qed.
Print Assumptions C14_history_frame.

Theorem C14_frame_examples :
  footprint_of FAssembler (CSection 1 false) = mkFp false true false false false false false /\
  footprint_of FBuilder (CEmbed 4) = mkFp false false false false false false true /\
  (let '(s', _) := run FAssembler X86_64 HThrow init_state [CNewLabel; CEmbed 3; CInst (EncErr 26); CAlign 0 8; CBindAtomic 0 0; CBindAtomic 7 0] in
   (st_sizes s', st_labels s', st_fixups s', st_cur s')) = ([8], [LBound 0 8], 0, 0).
Proof. exact frame_examples. Qed.
Print Assumptions C14_frame_examples.

(* ---------------------------------------------------------------- instruction-level specifications (round 6): the hypotheses about
   instruction-table rows are DISCHARGED by reflection over every row of the generated tables; what remains are statements
   about the operands of the instruction only, for every instruction of the encoding and every offset *)
Theorem C14_a64_ldst_imm_offset_inst_spec : forall inst_id m r,
  0 <= inst_id -> a64_ldst_row inst_id = RRow r ->
  a64_gp_type_ok (l_allowed r) (a_rtype m) = true -> a64_check_gp_id (a_rid m) a64c_zr = true ->
  a_btype m = a64c_reg_type_gp64 -> a_bid m <= 31 -> a_itype m = 0 -> a_mode m = 0 -> - 2 ^ 31 <= a_off m < 2 ^ 31 ->
  let s := a64_imm_shift r m in
  let fits := (0 <= a_off m < 4096 * 2 ^ s /\ (a_off m) mod 2 ^ s = 0) \/ (-256 <= a_off m <= 255) in
  (a64_ldst inst_id m = MOk 4 0 <-> fits) /\ (~ fits -> a64_ldst inst_id m = MErr kInvalidDisplacement).
Proof. exact a64_ldst_imm_offset_inst_spec. Qed.
Print Assumptions C14_a64_ldst_imm_offset_inst_spec.

(* the register-index form: sound AND complete (accepted iff ...) *)
Theorem C14_a64_ldst_index_inst_spec : forall inst_id m r opt,
  0 <= inst_id -> a64_ldst_row inst_id = RRow r ->
  a64_gp_type_ok (l_allowed r) (a_rtype m) = true -> a64_check_gp_id (a_rid m) a64c_zr = true ->
  a_btype m = a64c_reg_type_gp64 -> a_bid m <= 31 -> a_itype m <> 0 -> a_off m = 0 ->
  lookup a64_shift_op_to_ld_st_opt_map (a_shiftop m) = Some opt ->
  (a64_ldst inst_id m = MOk 4 0 <->
   opt <> 255 /\ a_itype m = (if Z.testbit opt 0 then a64c_reg_type_gp64 else a64c_reg_type_gp32) /\ a_mode m = 0 /\
   (a_shift m = 0 \/ a_shift m = a64_imm_shift r m) /\ (a_iid m <= 30 \/ a_iid m = a64c_id_zr)).
Proof. exact a64_ldst_index_inst_spec. Qed.
Print Assumptions C14_a64_ldst_index_inst_spec.

Theorem C14_a64_ldp_offset_inst_spec : forall inst_id m r,
  0 <= inst_id -> a64_ldp_row inst_id = PRow r ->
  a64_gp_type_ok (lp_allowed r) (p_rtype0 m) = true -> p_rtype0 m = p_rtype1 m ->
  a64_check_gp_id (p_rid0 m) a64c_zr = true -> a64_check_gp_id (p_rid1 m) a64c_zr = true ->
  p_btype m = a64c_reg_type_gp64 -> p_bid m <= 31 -> p_itype m = 0 -> (p_mode m = 0 \/ lp_prepost r <> 0) ->
  - 2 ^ 31 <= p_off m < 2 ^ 31 ->
  let s := lp_shift r + a64_gp_x (lp_allowed r) (p_rtype0 m) in
  let fits := - 64 * 2 ^ s <= p_off m < 64 * 2 ^ s /\ (p_off m) mod 2 ^ s = 0 in
  (a64_ldp inst_id m = MOk 4 0 <-> fits) /\ (~ fits -> a64_ldp inst_id m = MErr kInvalidDisplacement).
Proof. exact a64_ldp_offset_inst_spec. Qed.
Print Assumptions C14_a64_ldp_offset_inst_spec.

Theorem C14_a64_simd_imm_offset_spec : forall inst_id v r,
  0 <= inst_id -> a64_simd_row inst_id = SRow r ->
  let m := av_mem v in
  let s := diff32 (a_rtype m) a64c_reg_type_vec8 in
  s <= 4 -> av_ei v = false -> av_et v = 0 -> a_rid m <= 31 ->
  a_btype m = a64c_reg_type_gp64 -> a_bid m <= 31 -> a_itype m = 0 -> a_mode m = 0 -> - 2 ^ 31 <= a_off m < 2 ^ 31 ->
  let fits := (0 <= a_off m < 4096 * 2 ^ s /\ (a_off m) mod 2 ^ s = 0) \/ (-256 <= a_off m <= 255) in
  (a64_simd_ldst inst_id v = MOk 4 0 <-> fits) /\ (~ fits -> a64_simd_ldst inst_id v = MErr kInvalidDisplacement).
Proof. exact a64_simd_imm_offset_spec. Qed.
Print Assumptions C14_a64_simd_imm_offset_spec.

(* a data register the instruction takes is a W or an X register and its X bit is 0 or 1 (used to bound the scales) *)
Theorem C14_gp_type_ok_cases : forall allowed rt, 0 <= allowed <= 3 -> a64_gp_type_ok allowed rt = true ->
  (rt = a64c_reg_type_gp32 \/ rt = a64c_reg_type_gp64) /\ 0 <= a64_gp_x allowed rt <= 1.
Proof. exact gp_type_ok_cases. Qed.
Print Assumptions C14_gp_type_ok_cases.

Theorem C14_inst_specs_apply :
  (exists r, a64_ldst_row a64c_id_ldr = RRow r /\ a64_gp_type_ok (l_allowed r) 6 = true /\ a64_gp_type_ok (l_allowed r) 5 = true) /\
  (exists r, a64_ldp_row a64c_id_ldp = PRow r /\ a64_gp_type_ok (lp_allowed r) 6 = true /\ lp_prepost r <> 0) /\
  (exists r, a64_simd_row a64c_id_ldr_v = SRow r) /\
  a64_ldst a64c_id_ldr (mkA64Mem 6 1 6 2 6 3 8 0 0 0) = MErr kInvalidAddress /\
  a64_ldst a64c_id_ldr (mkA64Mem 6 1 6 2 5 3 8 3 0 0) = MOk 4 0.
Proof. exact inst_specs_apply. Qed.
Print Assumptions C14_inst_specs_apply.

(* x86: an accepted ModRM memory form (add / mov / arith r,[mem] families) is 2..12 bytes long - well inside the architectural
   limit of 15 - and creates at most one relocation; for every operand field value and both modes *)
Theorem C14_modrm_accepted_length : forall x64 absloc cur npp rexop m n d,
  0 <= npp <= 1 -> x86_modrm_mem_encode x64 absloc cur npp rexop m = MOk n d -> 2 <= n <= 12 /\ 0 <= d <= 1.
Proof. exact modrm_accepted_length. Qed.
Print Assumptions C14_modrm_accepted_length.

(* binding is final: NO call - successful, refused, thrown out of - moves, rebinds or unbinds a bound label, and labels are never
   removed; also over whole histories *)
Theorem C14_bound_label_final : forall fl a h s c s' o i sec off,
  step fl a h s c = (s', o) -> nthZ (st_labels s) i = Some (LBound sec off) -> nthZ (st_labels s') i = Some (LBound sec off).
Proof. exact bound_label_final. Qed.
Print Assumptions C14_bound_label_final.

Theorem C14_label_count_monotone : forall fl a h s c s' o,
  step fl a h s c = (s', o) -> lenZ (st_labels s) <= lenZ (st_labels s').
Proof. exact label_count_monotone. Qed.
Print Assumptions C14_label_count_monotone.

Theorem C14_history_bound_label_final : forall fl a h cs s s' os i sec off,
  run fl a h s cs = (s', os) -> nthZ (st_labels s) i = Some (LBound sec off) -> nthZ (st_labels s') i = Some (LBound sec off).
Proof. exact history_bound_label_final. Qed.
Print Assumptions C14_history_bound_label_final.

Theorem C14_bound_label_example :
  let '(s', os) := run FAssembler X86_64 HReturn init_state
                     [CNewLabel; CEmbed 3; CBindAtomic 0 0; CBindAtomic 0 0; CInst (EncErr 26); CNewLabel; CEmbed 5; CBindAtomic 9 0] in
  (nthZ (st_labels s') 0, map o_ret os) = (Some (LBound 0 3), [0; 0; 0; kLabelAlreadyBound; 26; 0; 0; kInvalidLabel]).
Proof. exact bound_label_example. Qed.
Print Assumptions C14_bound_label_example.

(* supported domains: on these domains the verdict models are TOTAL - they answer accepted-with-N-bytes or refused-with-error,
   never "outside the model" and never "table read out of bounds" (what the correspondence driver only guarded by failing) *)
Theorem C14_a64_ldst_total : forall inst_id m r,
  0 <= inst_id -> 0 <= a_shiftop m <= a64c_mem_shift_op_max -> a64_ldst_row inst_id = RRow r ->
  (a64c_reg_type_label_tag < a_btype m \/ l_literal r = 0 \/ a64_check_mem_base_index_rel m = false) -> answers (a64_ldst inst_id m).
Proof. exact a64_ldst_total. Qed.
Print Assumptions C14_a64_ldst_total.

Theorem C14_a64_ldp_total : forall inst_id m r, 0 <= inst_id -> a64_ldp_row inst_id = PRow r -> answers (a64_ldp inst_id m).
Proof. exact a64_ldp_total. Qed.
Print Assumptions C14_a64_ldp_total.

Theorem C14_shift_encode_total : forall x64 long inst_id f,
  0 <= inst_id -> (exists npp mm opc, x86_shift_row_at (x86_norm_id inst_id) (Z.land (s_size f) 15) = ShRow npp mm opc) ->
  answers (x86_shift_imm_encode x64 long inst_id f).
Proof. exact shift_encode_total. Qed.
Print Assumptions C14_shift_encode_total.

Theorem C14_pushpop_total : forall x64 is_pop inst_id id, 0 <= id -> answers (x86_pushpop_sreg x64 is_pop inst_id id).
Proof. exact pushpop_total. Qed.
Print Assumptions C14_pushpop_total.

Theorem C14_vrrr_total : forall x64 etype kid f, 0 <= vr_size f <= x86c_size_max -> answers (x86_vrrr x64 x86c_vaddps_id etype kid f).
Proof. exact vrrr_total. Qed.
Print Assumptions C14_vrrr_total.

Theorem C14_totality_applies :
  answers (a64_ldst a64c_id_ldr (mkA64Mem 6 1 6 2 0 0 0 0 0 8)) /\ answers (a64_ldp a64c_id_ldp (mkA64Pair 6 1 6 2 6 3 0 0 4)) /\
  answers (x86_vrrr true x86c_vaddps_id 0 0 (mkVrrr 11 1 11 2 11 40 16)) /\ ~ answers (a64_ldst a64c_id_ldr (mkA64Mem 6 1 0 0 0 0 0 0 0 8)).
Proof. exact totality_applies. Qed.
Print Assumptions C14_totality_applies.

(* emitted bytes are never taken back and sections never disappear: for every call whose byte counts are not negative, every
   section keeps existing and its size does not decrease - success, refusal or exception, every flavour / handler / state *)
Theorem C14_sizes_never_shrink : forall fl a h s c s' o, cmd_nonneg c -> step fl a h s c = (s', o) -> sizes_le s s'.
Proof. exact sizes_never_shrink. Qed.
Print Assumptions C14_sizes_never_shrink.

Theorem C14_sizes_example :
  let '(s', _) := run FAssembler A64 HRecord init_state [CEmbed 3; CAlign 0 4; CInst (EncErr 29); CNewSection 8 5; CInst (EncOk 4 None false 0 0 0)] in
  st_sizes s' = [7; 0].
Proof. exact sizes_example. Qed.
Print Assumptions C14_sizes_example.

(* the whole mov / arith r,[mem] family (moffs form included): an accepted instruction is 2..12 bytes, at most one relocation *)
Theorem C14_mov_accepted_length : forall x64 absloc cur inst_id f n d,
  0 <= inst_id -> x86_mov_rm x64 absloc cur inst_id f = MOk n d -> 2 <= n <= 12 /\ 0 <= d <= 1.
Proof. exact mov_accepted_length. Qed.
Print Assumptions C14_mov_accepted_length.

(* the gather families: an accepted VEX gather is 6..12 bytes, an accepted two-operand (EVEX or VEX) gather 5..13 bytes; no relocation *)
Theorem C14_vgather_accepted_length : forall x64 inst_id v n d, x86_vgather x64 inst_id v = MOk n d -> 6 <= n <= 12 /\ d = 0.
Proof. exact vgather_accepted_length. Qed.
Print Assumptions C14_vgather_accepted_length.

Theorem C14_vgather2_accepted_length : forall x64 inst_id etype kid v n d,
  x86_vgather2 x64 inst_id etype kid v = MOk n d -> 5 <= n <= 13 /\ d = 0.
Proof. exact vgather2_accepted_length. Qed.
Print Assumptions C14_vgather2_accepted_length.

(* ---------------------------------------------------------------- round 7: sequence-level lifts of the step-level frame theorems *)
Theorem C14_history_sizes_never_shrink : forall fl a h cs s s' os,
  (forall c, In c cs -> cmd_nonneg c) -> run fl a h s cs = (s', os) -> sizes_le s s'.
Proof. exact history_sizes_never_shrink. Qed.
Print Assumptions C14_history_sizes_never_shrink.

Theorem C14_history_label_count_monotone : forall fl a h cs s s' os,
  run fl a h s cs = (s', os) -> lenZ (st_labels s) <= lenZ (st_labels s').
Proof. exact history_label_count_monotone. Qed.
Print Assumptions C14_history_label_count_monotone.

(* a history without a section switch never touches a section other than the one it started in *)
Theorem C14_history_other_sections_untouched : forall fl a h cs s s' os,
  (forall c, In c cs -> fp_cur (footprint_of fl c) = false) -> run fl a h s cs = (s', os) -> other_sections_kept s s'.
Proof. exact history_other_sections_untouched. Qed.
Print Assumptions C14_history_other_sections_untouched.

Theorem C14_history_lifts_example :
  let cs := [CNewSection 8 5; CEmbed 3; CNewLabel; CInst (EncErr 26); CAlign 0 8; CBindAtomic 0 0; CEmbed 2] in
  (forall c, In c cs -> cmd_nonneg c) /\ (forall c, In c cs -> fp_cur (footprint_of FAssembler c) = false) /\
  (let '(s', _) := run FAssembler X86_64 HThrow init_state cs in (st_sizes s', lenZ (st_labels s'))) = ([10; 0], 1).
Proof. exact history_lifts_example. Qed.
Print Assumptions C14_history_lifts_example.

(* C14 — Invalid input is rejected with an error and leaves emitter state untouched.
   This file holds ONLY the property theorems (each closed by `exact <lemma>`) and their Print Assumptions.
   Model: coq/theories/EmitState/EmitStateModel.v (state machine of one public call; the instruction encoder's verdict is
   a parameter, so every theorem holds for EVERY encoder), LookupModel.v (bounds-instrumented table reads);
   tables: coq/gen/C14Tables.v (regenerated from the repository on every run). *)
From Coq Require Import ZArith List Bool String.
From Verif Require Import EmitState.EmitStateModel EmitState.EmitStateProofs EmitState.LookupModel EmitState.LookupProofs.
From Verif Require Import EmitState.EncPathModel EmitState.EncPathProofs Codec.OffsetModel Codec.OffsetProofs.
From VerifGen Require Import C14Tables C14TableProofs C14MemPathModel C14MemPathProofs.
Import ListNotations.
Local Open Scope Z_scope.

(* A failed call — non-zero return value or an exception out of the error handler — appends no bytes, creates no labels,
   fixups, relocations, address-table entries or nodes and does not switch section: Assembler, Builder and Compiler,
   x86-32/x86-64/AArch64, no/returning/recording/throwing handler, every state, every call and every encoder verdict.
   (Guard: the Assembler bind whose pending displacement does not fit — see the refuted statement below.) *)
Theorem C14_failed_call_no_effect : forall fl a h s c s' o,
  step fl a h s c = (s', o) -> failed o = true -> ~ partial_bind fl c o ->
  persistent s' = persistent s.
Proof. exact failed_call_no_effect. Qed.
Print Assumptions C14_failed_call_no_effect.

(* the faithful model of CodeHolder::bind_label binds the label and then reports kInvalidDisplacement (C03's domain;
   recorded as known finding C14/bind-invalid-displacement-binds-label) *)
Theorem C14_failed_bind_displacement_refuted : exists fl a h s c s' o,
  step fl a h s c = (s', o) /\ failed o = true /\ persistent s' <> persistent s.
Proof. exact failed_bind_displacement_refuted. Qed.
Print Assumptions C14_failed_bind_displacement_refuted.

(* with an atomic bind (CodeHolder::bind_label checks the pending displacements before it binds: fixes/C14-bind-atomic.patch,
   command CBindAtomic) the statement holds without any guard *)
Theorem C14_failed_call_no_effect_atomic : forall fl a h s c s' o,
  no_legacy_bind c = true -> step fl a h s c = (s', o) -> failed o = true -> persistent s' = persistent s.
Proof. exact failed_call_no_effect_atomic. Qed.
Print Assumptions C14_failed_call_no_effect_atomic.

(* whether a bind is refused is COMPUTED from the positions, addends and offset formats of the label's pending fixups
   (what the instructions handed to new_fixup): the count the code reports is ignored *)
Theorem C14_bind_atomic_ignores_patchfail : forall h s id pf1 pf2,
  bind_assembler_atomic h s id pf1 = bind_assembler_atomic h s id pf2.
Proof. exact bind_atomic_ignores_patchfail. Qed.
Print Assumptions C14_bind_atomic_ignores_patchfail.

Theorem C14_bind_atomic_refuses_iff : forall h s id pf p,
  nthZ (st_labels s) id = Some (LUnbound p) ->
  (o_ret (snd (bind_assembler_atomic h s id pf)) = kInvalidDisplacement <->
   exists f, In f p /\ fx_reloc f = false /\ fx_section f = st_cur s /\ disp_fits f (cur_size s) = false).
Proof. exact bind_atomic_refuses_iff. Qed.
Print Assumptions C14_bind_atomic_refuses_iff.

(* a failed instruction clears the one-shot state (options, extra register, inline comment), also under a throwing handler *)
Theorem C14_state_cleared : forall fl a h s r s' o,
  step fl a h s (CInst r) = (s', o) -> failed o = true -> st_one s' = one_clear.
Proof. exact state_cleared. Qed.
Print Assumptions C14_state_cleared.

Theorem C14_state_consumed : forall fl a h s r s' o,
  step fl a h s (CInst r) = (s', o) -> st_one s' = one_clear.
Proof. exact state_consumed. Qed.
Print Assumptions C14_state_consumed.

(* the error of a failed emitter call reaches the attached handler exactly once and is the returned value; a throwing
   handler throws; without a handler nothing is reported *)
Theorem C14_reports_once : forall fl a h s c s' o,
  wf_cmd c ->
  step fl a h s c = (s', o) -> failed o = true -> is_new_section c = false ->
  exists e, e <> 0 /\
    o_calls o = match h with HNone => [] | _ => [e] end /\
    o_thrown o = match h with HThrow => true | _ => false end /\
    (returns_label c = false -> o_ret o = e).
Proof. exact reports_once. Qed.
Print Assumptions C14_reports_once.

Theorem C14_success_reports_nothing : forall fl a h s c s' o,
  wf_cmd c ->
  step fl a h s c = (s', o) -> failed o = false -> o_calls o = [] /\ o_thrown o = false.
Proof. exact success_reports_nothing. Qed.
Print Assumptions C14_success_reports_nothing.

(* "even if the error handler throws": the state left behind does not depend on the handler kind *)
Theorem C14_handler_irrelevant_for_state : forall fl a h1 h2 s c,
  fst (step fl a h1 s c) = fst (step fl a h2 s c).
Proof. exact handler_irrelevant_for_state. Qed.
Print Assumptions C14_handler_irrelevant_for_state.

(* after any history the emitter is in exactly the state (persistent AND one-shot part) it reaches when given only the
   calls that succeeded (failed instructions replaced by reset_state(), failed binds by reset_inline_comment()) — from
   any start state, in particular a fresh emitter; and that pruned history contains no failing call *)
Theorem C14_fresh_equivalent : forall fl a h cs s,
  fst (run fl a h s cs) = fst (run fl a h s (prune fl a h s cs)).
Proof. exact fresh_equivalent. Qed.
Print Assumptions C14_fresh_equivalent.

Theorem C14_pruned_history_succeeds : forall fl a h cs s,
  forallb patchfail_free cs = true ->
  forallb (fun x => negb (failed x)) (snd (run fl a h s (prune fl a h s cs))) = true.
Proof. exact pruned_history_succeeds. Qed.
Print Assumptions C14_pruned_history_succeeds.


(* ---- label / relocation paths of both assemblers at micro-operation level (EncPathModel.v): jmp/jcc/call LABEL and
   lea r,[LABEL+d] on x86-32/x86-64, b/bl/b.cond/cbz/tbz/adr/ldr-literal on AArch64; every state, label id, option ---- *)
(* no label entry is read for an invalid label id *)
Theorem C14_rel_paths_never_stuck : forall a s k id sh lg, rel_result a s k id sh lg <> UStuck.
Proof. exact rel_paths_never_stuck. Qed.
Print Assumptions C14_rel_paths_never_stuck.

(* a failing path has not created a relocation entry or a fixup before it fails *)
Theorem C14_rel_paths_fail_before_effects : forall a s k id sh lg e d,
  rel_result a s k id sh lg = UErr e d -> d = false.
Proof. exact rel_paths_fail_before_effects. Qed.
Print Assumptions C14_rel_paths_fail_before_effects.

Theorem C14_rel_invalid_label_refused : forall a s k id sh lg,
  label_valid s id = false ->
  rel_result a s k id sh lg = UErr kInvalidLabel false \/ rel_result a s k id sh lg = UErr kInvalidPhysId false.
Proof. exact rel_invalid_label_refused. Qed.
Print Assumptions C14_rel_invalid_label_refused.

(* AArch64 cbz/tbz/adr/ldr-literal: a register id that names no register is refused before the label is looked at, so no
   fixup / relocation exists afterwards whatever the label's state *)
Theorem C14_a64_rel_bad_register_refused : forall a s bits discard id sh lg,
  rel_result a s (A64Rel bits discard false) id sh lg = UErr kInvalidPhysId false.
Proof. exact a64_rel_bad_register_refused. Qed.
Print Assumptions C14_a64_rel_bad_register_refused.

(* the verdict computed for these instructions is a well-formed encoder verdict: all theorems above apply to it *)
Theorem C14_rel_cmd_wf : forall a s k id, wf_cmd (rel_cmd a s k id).
Proof. exact rel_cmd_wf. Qed.
Print Assumptions C14_rel_cmd_wf.

(* the 32-bit `[label]` path as written in the pinned tree reads the label table with an invalid id (DESIGN 7.3) *)
Theorem C14_x86_lea32_pinned_refuted : exists s id, exec (label_valid s) (cur_size s) (x86_lea32_path_pinned s id) acc0 = UStuck.
Proof. exact x86_lea32_pinned_refuted. Qed.
Print Assumptions C14_x86_lea32_pinned_refuted.

(* the AArch64 displacement test of the path model accepts exactly what C17's proven offset encoder accepts *)
Theorem C14_a64_disp_codec : forall bits shift discard d,
  wf_contig (a64_fmt bits shift discard) -> int64 d ->
  (((d mod 2 ^ discard =? 0) && fits_signed bits (d / 2 ^ discard)) = true <->
   encode_offset (a64_fmt bits shift discard) d <> None).
Proof. exact a64_disp_codec. Qed.
Print Assumptions C14_a64_disp_codec.

(* ---- memory-operand path of `add r32, [mem]` on x86-32/x86-64 (C14MemPathModel.v): C13's validator model, then
   EmitX86M prefixes + EmitModSib with every table read instrumented; the verdict (bytes | error) is computed ---- *)
(* no table is read out of bounds for ANY base/index type (5-bit fields), segment (3-bit field), id, shift, offset *)
Theorem C14_mem_path_never_stuck : forall x64 absloc cur add_id m,
  0 <= m_btype m <= x86c_mem_base_type_max -> 0 <= m_itype m <= x86c_mem_index_type_max -> 0 <= m_seg m <= x86c_mem_segment_max ->
  x86_add_mem x64 absloc cur add_id m <> MStuck.
Proof. exact mem_path_never_stuck. Qed.
Print Assumptions C14_mem_path_never_stuck.

Theorem C14_mem_encode_never_stuck : forall x64 absloc cur m,
  0 <= m_btype m <= x86c_mem_base_type_max -> 0 <= m_itype m <= x86c_mem_index_type_max -> 0 <= m_seg m <= x86c_mem_segment_max ->
  x86_add_mem_encode x64 absloc cur m <> MStuck.
Proof. exact mem_encode_never_stuck. Qed.
Print Assumptions C14_mem_encode_never_stuck.

Theorem C14_mem_cmd_wf : forall a hb s add_id m c, mem_cmd a hb s add_id m = Some c -> wf_cmd c.
Proof. exact mem_cmd_wf. Qed.
Print Assumptions C14_mem_cmd_wf.

Theorem C14_mem_cmd_bytes_only : forall a hb s add_id m c, mem_cmd a hb s add_id m = Some c ->
  exists r, c = CInst r /\ match r with EncOk _ fx _ dr da ds => fx = None /\ 0 <= dr <= 1 /\ da = 0 /\ ds = 0 | EncErr _ => True end.
Proof. exact mem_cmd_bytes_only. Qed.
Print Assumptions C14_mem_cmd_bytes_only.

(* ---- VEX + VSIB path of `vgatherdps v, [base + v*s + d], v` (VEX forms): opcode_l_by_vmem / opcode_l_by_size, EmitVexEvexM
   prefixes, EmitModVSib; all four table reads instrumented; verdict computed ---- *)
Theorem C14_vsib_encode_never_stuck : forall x64 v,
  0 <= m_btype (v_mem v) <= x86c_mem_base_type_max -> 0 <= m_itype (v_mem v) <= x86c_mem_index_type_max ->
  0 <= m_seg (v_mem v) <= x86c_mem_segment_max -> 0 <= v_dsize v <= x86c_size_max ->
  index_type_allowed (m_itype (v_mem v)) ->
  x86_vgather_encode x64 v <> MStuck.
Proof. exact vsib_encode_never_stuck. Qed.
Print Assumptions C14_vsib_encode_never_stuck.

(* for the VALIDATED instruction the hypothesis is discharged through C13's validator model (validate = kOk implies the index
   type is in the validator's accept mask): no table read of the whole path validate -> encode is out of bounds *)
Theorem C14_vsib_path_never_stuck : forall x64 inst_id v,
  0 <= m_btype (v_mem v) <= x86c_mem_base_type_max -> 0 <= m_itype (v_mem v) <= x86c_mem_index_type_max ->
  0 <= m_seg (v_mem v) <= x86c_mem_segment_max -> 0 <= v_dsize v <= x86c_size_max ->
  x86_vgather x64 inst_id v <> MStuck.
Proof. exact vsib_path_never_stuck. Qed.
Print Assumptions C14_vsib_path_never_stuck.

(* the hypothesis "index type allowed by the validator" is needed: kMask (16) as index type reads past ll_by_reg_type_table *)
Theorem C14_vsib_unvalidated_refuted : exists x64 v,
  0 <= m_itype (v_mem v) <= x86c_mem_index_type_max /\ x86_vgather_encode x64 v = MStuck.
Proof. exact vsib_unvalidated_refuted. Qed.
Print Assumptions C14_vsib_unvalidated_refuted.

Theorem C14_vsib_cmd_wf : forall a inst_id v c, vsib_cmd a inst_id v = Some c -> wf_cmd c.
Proof. exact vsib_cmd_wf. Qed.
Print Assumptions C14_vsib_cmd_wf.

(* ---- push / pop of a segment register: C13's validator model, the id guard, opcode_push/pop_sreg_table and opcode_mm_table
   reads instrumented; for EVERY register id ---- *)
Theorem C14_pushpop_never_stuck : forall x64 is_pop inst_id id, 0 <= id -> x86_pushpop_sreg x64 is_pop inst_id id <> MStuck.
Proof. exact pushpop_never_stuck. Qed.
Print Assumptions C14_pushpop_never_stuck.

(* ---- bounds of the table look-ups indexed by operand fields (tables and index sets dumped from the repository) ---- *)
Theorem C14_lookups_in_range : forall s, In s sites -> forall i, In i (site_idx s) ->
  exists v, lookup (site_table s) i = Some v.
Proof. exact lookups_in_range. Qed.
Print Assumptions C14_lookups_in_range.

Theorem C14_mem_info_lookup : forall bt it,
  0 <= bt <= x86c_mem_base_type_max -> 0 <= it <= x86c_mem_index_type_max ->
  exists v, lookup x86_mem_info_table (bt + 32 * it) = Some v.
Proof. exact mem_info_lookup. Qed.
Print Assumptions C14_mem_info_lookup.

Theorem C14_segment_lookup : forall sg, 0 <= sg <= x86c_mem_segment_max ->
  exists v, lookup x86_segment_prefix_table sg = Some v.
Proof. exact segment_lookup. Qed.
Print Assumptions C14_segment_lookup.

Theorem C14_ll_lookup_validated : forall t, 0 <= t <= x86c_mem_index_type_max ->
  (t = 0 \/ Z.testbit x86c_allowed_mem_index_regs_x86 t = true \/ Z.testbit x86c_allowed_mem_index_regs_x64 t = true) ->
  exists v, lookup x86_ll_by_reg_type_table t = Some v.
Proof. exact ll_lookup_validated. Qed.
Print Assumptions C14_ll_lookup_validated.

(* without strict validation (outside the property's quantifier) the same read can be out of bounds *)
Theorem C14_ll_lookup_unvalidated_refuted : exists t,
  0 <= t <= x86c_mem_index_type_max /\ lookup x86_ll_by_reg_type_table t = None.
Proof. exact ll_lookup_unvalidated_refuted. Qed.
Print Assumptions C14_ll_lookup_unvalidated_refuted.

Theorem C14_sreg_lookup : forall id, 0 <= id < x86c_sreg_id_count ->
  (exists v, lookup x86_opcode_push_sreg_table id = Some v) /\ (exists v, lookup x86_opcode_pop_sreg_table id = Some v).
Proof. exact (fun id H => conj (push_sreg_lookup id H) (pop_sreg_lookup id H)). Qed.
Print Assumptions C14_sreg_lookup.

Theorem C14_opcode_tables_lookup : forall k,
  (In k x86_inst_main_idx -> exists v, lookup x86_main_opcode_table k = Some v) /\
  (In k x86_inst_alt_idx -> exists v, lookup x86_alt_opcode_table k = Some v).
Proof. exact opcode_tables_lookup. Qed.
Print Assumptions C14_opcode_tables_lookup.

Theorem C14_opcode_mm_lookup : forall o, In o x86_legacy_opcodes ->
  exists v, lookup x86_opcode_mm_table (Z.land (Z.shiftr o x86c_mm_shift) x86c_mm_index_max) = Some v.
Proof. exact opcode_mm_lookup. Qed.
Print Assumptions C14_opcode_mm_lookup.

(* the bound comes from the opcode DATA, not from the field width: kMM_ForceEvex (bit 4) would index past the table *)
Theorem C14_opcode_mm_field_refuted : exists m, 0 <= m <= x86c_mm_index_max /\ lookup x86_opcode_mm_table m = None.
Proof. exact opcode_mm_field_refuted. Qed.
Print Assumptions C14_opcode_mm_field_refuted.

Theorem C14_common_hi_lookup : forall t, 0 <= t <= a64c_reg_type_max ->
  exists v, lookup a64_common_hi_reg_id_of_type_table t = Some v.
Proof. exact common_hi_lookup. Qed.
Print Assumptions C14_common_hi_lookup.

Theorem C14_size_op_lookup : forall rt et i,
  0 <= rt <= a64c_reg_type_max -> 0 <= et <= a64c_element_type_max ->
  size_op_read rt et = Some i -> 0 <= i < a64c_size_op_array_len.
Proof. exact size_op_lookup. Qed.
Print Assumptions C14_size_op_lookup.

Theorem C14_size_op_reads_vectors : forall rt et,
  a64c_reg_type_vec8 <= rt <= a64c_reg_type_vec128 -> 0 <= et <= a64c_element_type_max ->
  exists i, size_op_read rt et = Some i.
Proof. exact size_op_reads_vectors. Qed.
Print Assumptions C14_size_op_reads_vectors.

(* a64 load / store addressing (kEncodingBaseLdSt + the ldur/stur fallback): table reads in range for every instruction
   id, the whole path never reads out of bounds, and what is accepted is encodable *)
Theorem C14_a64_ldst_row_never_stuck : forall inst_id, 0 <= inst_id -> a64_ldst_row inst_id <> RStuck.
Proof. exact a64_ldst_row_never_stuck. Qed.
Print Assumptions C14_a64_ldst_row_never_stuck.

Theorem C14_a64_ldst_never_stuck : forall inst_id m,
  0 <= inst_id -> 0 <= a_shiftop m <= a64c_mem_shift_op_max -> a64_ldst inst_id m <> MStuck.
Proof. exact a64_ldst_never_stuck. Qed.
Print Assumptions C14_a64_ldst_never_stuck.

Theorem C14_a64_ldst_accepted_encodable : forall inst_id m n d,
  a64_ldst inst_id m = MOk n d ->
  n = 4 /\ d = 0 /\ a_btype m = a64c_reg_type_gp64 /\ a_bid m <= 31 /\
  (a_rid m < 31 \/ a_rid m = a64c_zr) /\ (a_itype m <> 0 -> a_iid m <= 30 \/ a_iid m = a64c_id_zr).
Proof. exact a64_ldst_accepted_encodable. Qed.
Print Assumptions C14_a64_ldst_accepted_encodable.

(* x86 shift / rotate of a register by an immediate (kEncodingX86Rot -> EmitX86R): every table read in range for every
   instruction id, register type / id and operand size, with and without the validator in front *)
Theorem C14_shift_encode_never_stuck : forall x64 long inst_id f, 0 <= inst_id -> x86_shift_imm_encode x64 long inst_id f <> MStuck.
Proof. exact shift_encode_never_stuck. Qed.
Print Assumptions C14_shift_encode_never_stuck.

Theorem C14_shift_never_stuck : forall x64 long inst_id f, 0 <= inst_id -> x86_shift_imm x64 long inst_id f <> MStuck.
Proof. exact shift_never_stuck. Qed.
Print Assumptions C14_shift_never_stuck.

(* EVEX / VEX + VSIB, the two-operand gather with a mask register (ids >= 16, 512-bit, compressed disp8): no table read
   out of bounds — under the explicit index-type hypothesis, and for the validated instruction without it *)
Theorem C14_vsib2_encode_never_stuck : forall x64 kid v,
  0 <= m_btype (v_mem v) <= x86c_mem_base_type_max -> 0 <= m_itype (v_mem v) <= x86c_mem_index_type_max ->
  0 <= m_seg (v_mem v) <= x86c_mem_segment_max -> 0 <= v_dsize v <= x86c_size_max ->
  index_type_allowed (m_itype (v_mem v)) ->
  x86_vgather2_encode x64 kid v <> MStuck.
Proof. exact vsib2_encode_never_stuck. Qed.
Print Assumptions C14_vsib2_encode_never_stuck.

Theorem C14_vsib2_path_never_stuck : forall x64 inst_id etype kid v,
  0 <= m_btype (v_mem v) <= x86c_mem_base_type_max -> 0 <= m_itype (v_mem v) <= x86c_mem_index_type_max ->
  0 <= m_seg (v_mem v) <= x86c_mem_segment_max -> 0 <= v_dsize v <= x86c_size_max ->
  x86_vgather2 x64 inst_id etype kid v <> MStuck.
Proof. exact vsib2_path_never_stuck. Qed.
Print Assumptions C14_vsib2_path_never_stuck.

(* C19 — Constant pool returns aligned, stable, deduplicated offsets with exact contents.
   This file holds ONLY the property theorems (each closed by `exact <lemma>`) and their Print Assumptions.

   Vocabulary (coq/theories/ConstPool/ConstPoolModel.v = the model of asmjit::ConstPool, ConstPoolSpec.v = definitions):
     cmd = (data, size); run/final/results : the pool and the list of answers after a history of add(data, size) calls
                         starting from the empty pool (cp_init = ConstPool::reset)
     added cmds k d s off : the k-th call was add(d, s) and returned kOk with offset `off`
     wf_cmds cmds         : every `data` has at least `size` readable bytes (only required for sizes <= 64)
     guard cmds           : the final pool is at most 2^32 bytes (Node::_offset is a uint32_t; beyond that the model, like
                            the code, truncates stored offsets and none of the statements below is claimed)
     valid_size s         : s is one of 1 2 4 8 16 32 64
     cp_fill p            : the byte image ConstPool::fill writes;  psize/palign/pmin = size()/alignment()/min_item_size()
     regions p            : ranges (offset, length) of the non-shared nodes followed by the free gaps
   The theorems quantify over ALL histories: any order, valid and invalid sizes, repeated values, parts of wider values. *)
From Coq Require Import ZArith List Bool.
From Verif Require Import ConstPool.ConstPoolModel ConstPool.ConstPoolSpec ConstPool.ConstPoolProofs.
Import ListNotations.
Local Open Scope Z_scope.

(* each returned offset is non-negative and a multiple of the constant's size *)
Theorem C19_aligned : forall cmds k d s off,
  wf_cmds cmds -> guard cmds -> added cmds k d s off ->
  valid_size s /\ 0 <= off /\ off mod s = 0.
Proof. exact aligned_thm. Qed.
Print Assumptions C19_aligned.

(* offsets stay valid as more constants are added: the answer is still the same in the longer history, adding the same
   constant again returns the same offset and leaves the pool untouched, and the bytes at the offset equal the constant
   both before and after the extension *)
Theorem C19_stable : forall cmds more k d s off,
  wf_cmds (cmds ++ more) -> guard (cmds ++ more) -> added cmds k d s off ->
  added (cmds ++ more) k d s off /\
  cp_add (final (cmds ++ more)) d s = (final (cmds ++ more), Ok off) /\
  slice (cp_fill (final cmds)) off s = slice d 0 s /\
  slice (cp_fill (final (cmds ++ more))) off s = slice d 0 s.
Proof. exact stable_thm. Qed.
Print Assumptions C19_stable.

(* identical constants of the same size share one offset, wherever in the history they were added *)
Theorem C19_dedup : forall cmds k1 k2 d1 d2 s off1 off2,
  wf_cmds cmds -> guard cmds ->
  added cmds k1 d1 s off1 -> added cmds k2 d2 s off2 -> slice d1 0 s = slice d2 0 s -> off1 = off2.
Proof. exact dedup_thm. Qed.
Print Assumptions C19_dedup.

(* distinct storage never overlaps: the regions owning bytes and the free gaps are pairwise disjoint sub-ranges of
   [0, size()); every owning region is exactly the range returned by some add; every returned range lies inside one
   owning region *)
Theorem C19_no_overlap : forall cmds,
  wf_cmds cmds -> guard cmds ->
  pairwise disj (regions (final cmds)) /\
  Forall (fun r => 0 <= fst r /\ fst r + snd r <= psize (final cmds)) (regions (final cmds)) /\
  (forall r, In r (flat_map stored (trees (final cmds))) -> exists k d s off, added cmds k d s off /\ r = (off, s)) /\
  (forall k d s off, added cmds k d s off ->
     exists r, In r (flat_map stored (trees (final cmds))) /\ fst r <= off /\ off + s <= fst r + snd r).
Proof. exact no_overlap_thm. Qed.
Print Assumptions C19_no_overlap.

(* ... and where two returned ranges do share a byte position (a part of a wider constant), both constants have the
   same byte there *)
Theorem C19_overlap_consistent : forall cmds k1 d1 s1 off1 k2 d2 s2 off2 x,
  wf_cmds cmds -> guard cmds ->
  added cmds k1 d1 s1 off1 -> added cmds k2 d2 s2 off2 ->
  off1 <= x < off1 + s1 -> off2 <= x < off2 + s2 ->
  nth (Z.to_nat (x - off1)) d1 0 = nth (Z.to_nat (x - off2)) d2 0.
Proof. exact overlap_consistent_thm. Qed.
Print Assumptions C19_overlap_consistent.

(* after the pool is written out: the image has size() bytes, the bytes at every returned offset equal the constant
   that was added, and every byte that no returned range covers is zero *)
Theorem C19_fill_exact : forall cmds,
  wf_cmds cmds -> guard cmds ->
  Z.of_nat (length (cp_fill (final cmds))) = psize (final cmds) /\
  (forall k d s off, added cmds k d s off -> slice (cp_fill (final cmds)) off s = slice d 0 s) /\
  (forall x, 0 <= x < psize (final cmds) ->
     (forall k d s off, added cmds k d s off -> ~ (off <= x < off + s)) ->
     nth (Z.to_nat x) (cp_fill (final cmds)) 0 = 0).
Proof. exact fill_exact_thm. Qed.
Print Assumptions C19_fill_exact.

(* the reported size and alignment cover everything: every constant ends inside size(), its size divides alignment();
   alignment() is the largest size added and min_item_size() the smallest size that received storage (both are sizes of
   successful adds), size() is a multiple of min_item_size(); with no successful add all three are 0 *)
Theorem C19_size_alignment_cover : forall cmds,
  wf_cmds cmds -> guard cmds ->
  let p := final cmds in
  (forall k d s off, added cmds k d s off -> off + s <= psize p /\ s <= palign p /\ palign p mod s = 0) /\
  ((palign p = 0 /\ pmin p = 0 /\ psize p = 0 /\ forall k d s off, ~ added cmds k d s off) \/
   (exists k d off, added cmds k d (palign p) off) /\
   (exists k d off, added cmds k d (pmin p) off) /\ psize p mod pmin p = 0 /\ 0 < pmin p <= palign p /\
   (forall r, In r (flat_map stored (trees p)) -> pmin p <= snd r <= palign p)).
Proof. exact size_alignment_cover_thm. Qed.
Print Assumptions C19_size_alignment_cover.

(* embedding: when the pool is placed at a base aligned to alignment() (what embed_const_pool's align() does), every
   constant ends up at an address aligned to its own size *)
Theorem C19_embedded_aligned : forall cmds k d s off base,
  wf_cmds cmds -> guard cmds -> added cmds k d s off ->
  base mod palign (final cmds) = 0 -> (base + off) mod s = 0.
Proof. exact embedded_aligned_thm. Qed.
Print Assumptions C19_embedded_aligned.

(* sizes 0, non-powers of two and sizes above 64 are refused and leave ANY pool state unchanged *)
Theorem C19_invalid_size_refused : forall p d s,
  ~ valid_size s -> cp_add p d s = (p, InvalidArgument).
Proof. exact invalid_size_refused_thm. Qed.
Print Assumptions C19_invalid_size_refused.

(* ... and in a history an add is refused exactly when its size is invalid (valid sizes always succeed) *)
Theorem C19_refused_iff_invalid : forall cmds k d s,
  wf_cmds cmds -> guard cmds -> nth_error cmds k = Some (d, s) ->
  (nth_error (results cmds) k = Some InvalidArgument <-> ~ valid_size s) /\
  (valid_size s -> exists off, added cmds k d s off).
Proof. exact result_error_iff. Qed.
Print Assumptions C19_refused_iff_invalid.

(* the hypotheses above are satisfiable (the sequence of asmjit's own unit test plus one invalid size) *)
Theorem C19_hypotheses_satisfiable :
  wf_cmds ex_unit_test /\ guard ex_unit_test /\
  results ex_unit_test = [Ok 0; Ok 2; Ok 4; Ok 4; InvalidArgument; Ok 32] /\
  added ex_unit_test 1 (repeat 0 32) 2 2 /\ psize (final ex_unit_test) = 64 /\ palign (final ex_unit_test) = 32.
Proof. exact hypotheses_satisfiable. Qed.
Print Assumptions C19_hypotheses_satisfiable.

(* the reading "min_item_size() = smallest size of ALL items added" (header comment) is false of the faithful model: a
   4-byte constant served from a shared half of an 8-byte one is not counted (only logging uses this accessor) *)
Theorem C19_min_item_size_all_added_refuted :
  exists cmds, wf_cmds cmds /\ guard cmds /\ (exists k d off, added cmds k d 4 off) /\ pmin (final cmds) = 8.
Proof. exact min_item_size_all_added_refuted. Qed.
Print Assumptions C19_min_item_size_all_added_refuted.

(* DESIGN 7.12 (harmless): the gap loop pops several equal-size gaps and uses the last; the popped gap (10, 2) is never
   used again and the next 2-byte constant is appended at 16 *)
Theorem C19_gap_quirk_witness :
  results ex_quirk = [Ok 0; Ok 4; Ok 1; Ok 8; Ok 12; Ok 2; Ok 16] /\
  cp_fill (final ex_quirk) = [1; 3; 6; 6; 2; 2; 2; 2; 4; 0; 0; 0; 5; 5; 5; 5; 7; 7] /\
  concat (gaps (final ex_quirk)) = [(9, 1)].
Proof. exact gap_quirk_witness. Qed.
Print Assumptions C19_gap_quirk_witness.

(* the fuel parameters of the model's two fuelled loops (sub-constant levels, ConstPool_addGap) never cut a loop short:
   more fuel gives the same result, i.e. the model computes what the unbounded C++ loops compute *)
Theorem C19_model_loops_total : forall extra : nat,
  (forall ts ti pc data off, (ti <= 6)%nat ->
     share_loop (7 + extra)%nat ts ti (pow2 ti) pc data off = share_loop 7%nat ts ti (pow2 ti) pc data off) /\
  (forall gs off sz, add_gap_f (Z.to_nat sz + extra)%nat gs off sz = add_gap gs off sz).
Proof. exact model_loops_total. Qed.
Print Assumptions C19_model_loops_total.

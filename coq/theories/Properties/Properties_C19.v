(* C19 — Constant pool returns aligned, stable, deduplicated offsets with exact contents.
   This file holds ONLY the property theorems (each closed by `exact <lemma>`) and their Print Assumptions.

   Vocabulary (coq/theories/ConstPool/ConstPoolModel.v = the model of asmjit::ConstPool, ConstPoolSpec.v = definitions):
     cmd = (data, size); run/final/results : the pool and the list of answers after a history of add(data, size) calls
                         starting from the empty pool (cp_init = ConstPool::reset)
     added cmds k d s off : the k-th call was add(d, s) and returned kOk with offset `off`
     wf_cmds cmds         : every `data` has at least `size` readable bytes (only required for sizes <= 64)
     guard cmds           : the final pool is at most 2^32 bytes (Node::_offset is a uint32_t; beyond that the model, like
                            the code, truncates stored offsets and none of the statements below is claimed)
     valid_size s         : s is one of 1 2 4 8 16 32 64
     cp_fill p            : the byte image ConstPool::fill writes;  psize/palign/pmin = size()/alignment()/min_item_size()
     regions p            : ranges (offset, length) of the non-shared nodes followed by the free gaps
   The theorems quantify over ALL histories: any order, valid and invalid sizes, repeated values, parts of wider values. *)
From Coq Require Import ZArith List Bool.
From Verif Require Import ConstPool.ConstPoolModel ConstPool.ConstPoolSpec ConstPool.ConstPoolInv ConstPool.ConstPoolProofs
  ConstPool.ConstPoolJudge ConstPool.ConstPoolJudgeProofs ConstPool.ConstPoolTreeBridge ConstPool.ConstPoolPartition ConstPool.ConstPoolSharing ConstPool.ConstPoolRBTree ConstPool.ConstPoolFrame ConstPool.ConstPoolGrowth ConstPool.ConstPoolReads.
From Verif Require Containers.TreeModel Containers.TreeGeneral Containers.TreeRotate.
Import ListNotations.
Local Open Scope Z_scope.

(* each returned offset is non-negative and a multiple of the constant's size *)
Theorem C19_aligned : forall cmds k d s off,
  wf_cmds cmds -> guard cmds -> added cmds k d s off ->
  valid_size s /\ 0 <= off /\ off mod s = 0.
Proof. exact aligned_thm. Qed.
Print Assumptions C19_aligned.

(* offsets stay valid as more constants are added: the answer is still the same in the longer history, adding the same
   constant again returns the same offset and leaves the pool untouched, and the bytes at the offset equal the constant
   both before and after the extension *)
Theorem C19_stable : forall cmds more k d s off,
  wf_cmds (cmds ++ more) -> guard (cmds ++ more) -> added cmds k d s off ->
  added (cmds ++ more) k d s off /\
  cp_add (final (cmds ++ more)) d s = (final (cmds ++ more), Ok off) /\
  slice (cp_fill (final cmds)) off s = slice d 0 s /\
  slice (cp_fill (final (cmds ++ more))) off s = slice d 0 s.
Proof. exact stable_thm. Qed.
Print Assumptions C19_stable.

(* identical constants of the same size share one offset, wherever in the history they were added *)
Theorem C19_dedup : forall cmds k1 k2 d1 d2 s off1 off2,
  wf_cmds cmds -> guard cmds ->
  added cmds k1 d1 s off1 -> added cmds k2 d2 s off2 -> slice d1 0 s = slice d2 0 s -> off1 = off2.
Proof. exact dedup_thm. Qed.
Print Assumptions C19_dedup.

(* distinct storage never overlaps: the regions owning bytes and the free gaps are pairwise disjoint sub-ranges of
   [0, size()); every owning region is exactly the range returned by some add; every returned range lies inside one
   owning region *)
Theorem C19_no_overlap : forall cmds,
  wf_cmds cmds -> guard cmds ->
  pairwise disj (regions (final cmds)) /\
  Forall (fun r => 0 <= fst r /\ fst r + snd r <= psize (final cmds)) (regions (final cmds)) /\
  (forall r, In r (flat_map stored (trees (final cmds))) -> exists k d s off, added cmds k d s off /\ r = (off, s)) /\
  (forall k d s off, added cmds k d s off ->
     exists r, In r (flat_map stored (trees (final cmds))) /\ fst r <= off /\ off + s <= fst r + snd r).
Proof. exact no_overlap_thm. Qed.
Print Assumptions C19_no_overlap.

(* ... and where two returned ranges do share a byte position (a part of a wider constant), both constants have the
   same byte there *)
Theorem C19_overlap_consistent : forall cmds k1 d1 s1 off1 k2 d2 s2 off2 x,
  wf_cmds cmds -> guard cmds ->
  added cmds k1 d1 s1 off1 -> added cmds k2 d2 s2 off2 ->
  off1 <= x < off1 + s1 -> off2 <= x < off2 + s2 ->
  nth (Z.to_nat (x - off1)) d1 0 = nth (Z.to_nat (x - off2)) d2 0.
Proof. exact overlap_consistent_thm. Qed.
Print Assumptions C19_overlap_consistent.

(* after the pool is written out: the image has size() bytes, the bytes at every returned offset equal the constant
   that was added, and every byte that no returned range covers is zero *)
Theorem C19_fill_exact : forall cmds,
  wf_cmds cmds -> guard cmds ->
  Z.of_nat (length (cp_fill (final cmds))) = psize (final cmds) /\
  (forall k d s off, added cmds k d s off -> slice (cp_fill (final cmds)) off s = slice d 0 s) /\
  (forall x, 0 <= x < psize (final cmds) ->
     (forall k d s off, added cmds k d s off -> ~ (off <= x < off + s)) ->
     nth (Z.to_nat x) (cp_fill (final cmds)) 0 = 0).
Proof. exact fill_exact_thm. Qed.
Print Assumptions C19_fill_exact.

(* the reported size and alignment cover everything: every constant ends inside size(), its size divides alignment();
   alignment() is the largest size added and min_item_size() the smallest size that received storage (both are sizes of
   successful adds), size() is a multiple of min_item_size(); with no successful add all three are 0 *)
Theorem C19_size_alignment_cover : forall cmds,
  wf_cmds cmds -> guard cmds ->
  let p := final cmds in
  (forall k d s off, added cmds k d s off -> off + s <= psize p /\ s <= palign p /\ palign p mod s = 0) /\
  ((palign p = 0 /\ pmin p = 0 /\ psize p = 0 /\ forall k d s off, ~ added cmds k d s off) \/
   (exists k d off, added cmds k d (palign p) off) /\
   (exists k d off, added cmds k d (pmin p) off) /\ psize p mod pmin p = 0 /\ 0 < pmin p <= palign p /\
   (forall r, In r (flat_map stored (trees p)) -> pmin p <= snd r <= palign p)).
Proof. exact size_alignment_cover_thm. Qed.
Print Assumptions C19_size_alignment_cover.

(* embedding: when the pool is placed at a base aligned to alignment() (what embed_const_pool's align() does), every
   constant ends up at an address aligned to its own size *)
Theorem C19_embedded_aligned : forall cmds k d s off base,
  wf_cmds cmds -> guard cmds -> added cmds k d s off ->
  base mod palign (final cmds) = 0 -> (base + off) mod s = 0.
Proof. exact embedded_aligned_thm. Qed.
Print Assumptions C19_embedded_aligned.

(* the model of embed_const_pool's layout (embed_layout: align to alignment(), bind the label, size() bytes of fill()):
   the label lands on the first multiple of alignment() at or after the current offset, every constant is then at a
   section offset aligned to its own size, inside the section, and the bytes there are the constant *)
Theorem C19_embed_layout : forall cmds pre, wf_cmds cmds -> guard cmds -> 0 <= pre ->
  let p := final cmds in
  let lab := fst (embed_layout pre p) in
  pre <= lab < pre + Z.max (palign p) 1 /\ lab mod Z.max (palign p) 1 = 0 /\ snd (embed_layout pre p) = lab + psize p /\
  (forall k d s off, added cmds k d s off ->
     (lab + off) mod s = 0 /\ lab + off + s <= snd (embed_layout pre p) /\ slice (cp_fill p) off s = slice d 0 s).
Proof. exact embed_layout_thm. Qed.
Print Assumptions C19_embed_layout.

(* sizes 0, non-powers of two and sizes above 64 are refused and leave ANY pool state unchanged *)
Theorem C19_invalid_size_refused : forall p d s,
  ~ valid_size s -> cp_add p d s = (p, InvalidArgument).
Proof. exact invalid_size_refused_thm. Qed.
Print Assumptions C19_invalid_size_refused.

(* ... and in a history an add is refused exactly when its size is invalid (valid sizes always succeed) *)
Theorem C19_refused_iff_invalid : forall cmds k d s,
  wf_cmds cmds -> guard cmds -> nth_error cmds k = Some (d, s) ->
  (nth_error (results cmds) k = Some InvalidArgument <-> ~ valid_size s) /\
  (valid_size s -> exists off, added cmds k d s off).
Proof. exact result_error_iff. Qed.
Print Assumptions C19_refused_iff_invalid.

(* the hypotheses above are satisfiable (the sequence of asmjit's own unit test plus one invalid size) *)
Theorem C19_hypotheses_satisfiable :
  wf_cmds ex_unit_test /\ guard ex_unit_test /\
  results ex_unit_test = [Ok 0; Ok 2; Ok 4; Ok 4; InvalidArgument; Ok 32] /\
  added ex_unit_test 1 (repeat 0 32) 2 2 /\ psize (final ex_unit_test) = 64 /\ palign (final ex_unit_test) = 32.
Proof. exact hypotheses_satisfiable. Qed.
Print Assumptions C19_hypotheses_satisfiable.

(* the reading "min_item_size() = smallest size of ALL items added" (header comment) is false of the faithful model: a
   4-byte constant served from a shared half of an 8-byte one is not counted (only logging uses this accessor) *)
Theorem C19_min_item_size_all_added_refuted :
  exists cmds, wf_cmds cmds /\ guard cmds /\ (exists k d off, added cmds k d 4 off) /\ pmin (final cmds) = 8.
Proof. exact min_item_size_all_added_refuted. Qed.
Print Assumptions C19_min_item_size_all_added_refuted.

(* DESIGN 7.12 (harmless): the gap loop pops several equal-size gaps and uses the last; the popped gap (10, 2) is never
   used again and the next 2-byte constant is appended at 16 *)
Theorem C19_gap_quirk_witness :
  results ex_quirk = [Ok 0; Ok 4; Ok 1; Ok 8; Ok 12; Ok 2; Ok 16] /\
  cp_fill (final ex_quirk) = [1; 3; 6; 6; 2; 2; 2; 2; 4; 0; 0; 0; 5; 5; 5; 5; 7; 7] /\
  concat (gaps (final ex_quirk)) = [(9, 1)].
Proof. exact gap_quirk_witness. Qed.
Print Assumptions C19_gap_quirk_witness.

(* ConstPool_addGap tiles the WHOLE alignment padding: when an add grows the pool (from any state satisfying the
   representation invariant), every new byte belongs to the constant just placed or to a free gap registered in the new
   state -- nothing of a freshly appended area is leaked (gaps are only ever lost by the pop-several quirk of 7.12) *)
Theorem C19_fresh_area_covered : forall p d s p' off x,
  Inv p -> wf_cmd d s -> cp_add p d s = (p', Ok off) -> psize p <= x < psize p' ->
  off <= x < off + s \/ exists i g, In g (nth i (gaps p') []) /\ fst g <= x < fst g + snd g.
Proof. exact fresh_area_covered_thm. Qed.
Print Assumptions C19_fresh_area_covered.

(* exact accounting of every byte after ANY history: the stored regions, the free gaps and the gaps LOST by the
   pop-several quirk (`lost cmds`, a ghost computed from the history in ConstPoolPartition.v: for every add that takes the
   gap path, all gaps it popped from its class stack except the one it used) are pairwise disjoint and together cover
   [0, size()); if the quirk never fired (lost = []) stored regions and free gaps alone tile the pool *)
Theorem C19_partition : forall cmds, wf_cmds cmds -> guard cmds ->
  let p := final cmds in
  pairwise disj (regions p ++ lost cmds) /\
  (forall x, 0 <= x < psize p -> exists r, In r (regions p ++ lost cmds) /\ fst r <= x < fst r + snd r) /\
  Forall (fun r => 0 <= fst r /\ fst r + snd r <= psize p) (lost cmds) /\
  (lost cmds = [] -> forall x, 0 <= x < psize p -> exists r, In r (regions p) /\ fst r <= x < fst r + snd r).
Proof. exact partition_thm. Qed.
Print Assumptions C19_partition.

(* the cost of the 7.12 quirk and a bound on the pool size, for ANY history: size() = bytes owned by constants (payload) +
   bytes in registered free gaps + bytes of lost gaps -- so the bytes that can never be used again are EXACTLY the lost
   gaps -- and size() <= 2 * payload: alignment padding, free gaps and lost gaps together never exceed the payload *)
Theorem C19_quirk_cost : forall cmds, wf_cmds cmds -> guard cmds ->
  let p := final cmds in
  psize p = payload p + free_bytes p + total (lost cmds) /\
  psize p <= 2 * payload p /\
  free_bytes p + total (lost cmds) <= payload p /\
  0 <= total (lost cmds).
Proof. exact quirk_cost_thm. Qed.
Print Assumptions C19_quirk_cost.

(* the gap loop in every reachable state pops min(6 - ti, |stack|) gaps of its class and answers the last one; the "split
   the rest of the gap" branch of ConstPool::add (which would re-register the remainder at the gap's original offset --
   what the seeded change C19-1 activates) is dead: every gap on stack ti is exactly 2^ti bytes and 2^ti-aligned *)
Theorem C19_gap_loop_exact : forall cmds ti, wf_cmds cmds -> guard cmds -> (ti <= 6)%nat ->
  let p := final cmds in
  let stack := nth ti (gaps p) [] in
  gap_loop (6 - ti) ti (pow2 ti) (gaps p) None =
    (upd ti (skipn (6 - ti) stack) (gaps p), last_off (firstn (6 - ti) stack) None) /\
  (forall g, In g stack -> snd g = pow2 ti /\ fst g mod pow2 ti = 0).
Proof. exact gap_loop_reachable_thm. Qed.
Print Assumptions C19_gap_loop_exact.

Theorem C19_partition_quirk_witness : lost ex_quirk = [(10, 2)].
Proof. exact lost_quirk_witness. Qed.
Print Assumptions C19_partition_quirk_witness.

(* why every history theorem carries `guard`: a state satisfying the whole representation invariant that already holds
   2^32 bytes. A fresh 8-byte constant is appended at offset 2^32 (returned as such) but its node stores the offset
   truncated to 32 bits, so adding the same constant again returns 0: C19_stable and C19_dedup are FALSE beyond 4 GiB.
   State-level witness (reaching such a state takes >= 2^26 adds; not exercised by the harness, not a recorded finding) *)
Theorem C19_beyond_4GiB_refuted :
  exists p d s off off', Inv p /\ wf_cmd d s /\ psize p = 4294967296 /\
    snd (cp_add p d s) = Ok off /\ snd (cp_add (fst (cp_add p d s)) d s) = Ok off' /\ off <> off' /\
    psize (fst (cp_add p d s)) = 4294967304.
Proof. exact offset_truncation_refuted. Qed.
Print Assumptions C19_beyond_4GiB_refuted.

(* ... and the same happens in EVERY state of exactly 2^32 bytes that satisfies the invariant (so in every reachable one):
   a new 8-byte constant that finds no free 8-byte gap is answered with 2^32, and asked again with 0 *)
Theorem C19_beyond_4GiB_refuted_general : forall p d,
  Inv p -> psize p = 4294967296 -> 8 <= Z.of_nat (length d) ->
  tree_get (nth 3 (trees p) []) (slice d 0 8) = None -> nth 3 (gaps p) [] = [] ->
  snd (cp_add p d 8) = Ok 4294967296 /\ snd (cp_add (fst (cp_add p d 8)) d 8) = Ok 0.
Proof. exact offset_truncation_general. Qed.
Print Assumptions C19_beyond_4GiB_refuted_general.

(* sub-constant sharing is COMPLETE (the feature described in constpool.h: "AsmJit is able to subdivide added constants"):
   after any history, adding any aligned part of at least 4 bytes (sizes 4 .. size/2) of any byte-owning constant -- as its
   bytes stand in the image -- allocates nothing: the pool state is unchanged and the answer is an offset holding these bytes *)
Theorem C19_subconstants_shared : forall cmds, wf_cmds cmds -> guard cmds ->
  let p := final cmds in
  forall off s, In (off, s) (flat_map stored (trees p)) ->
  forall s' i, valid_size s' -> 4 <= s' < s -> 0 <= i -> (i + 1) * s' <= s ->
  exists o', cp_add p (slice (cp_fill p) (off + i * s') s') s' = (p, Ok o') /\
             slice (cp_fill p) o' s' = slice (cp_fill p) (off + i * s') s'.
Proof. exact subconstants_shared_thm. Qed.
Print Assumptions C19_subconstants_shared.

Theorem C19_subconstants_shared_example :
  let cmds := [([0; 1; 2; 3; 4; 5; 6; 7; 8; 9; 10; 11; 12; 13; 14; 15], 16)] in
  wf_cmds cmds /\ guard cmds /\ In (0, 16) (flat_map stored (trees (final cmds))) /\
  cp_add (final cmds) [8; 9; 10; 11] 4 = (final cmds, Ok 8).
Proof. exact subconstants_example. Qed.
Print Assumptions C19_subconstants_shared_example.

(* the logging branch of embed_const_pool (model log_layout: items of min(min_item_size(), 8) bytes, size() / width of
   them): for every non-empty pool the width is 1, 2, 4 or 8, divides min_item_size(), and width * count = size() -- the
   logged data directives cover the image exactly, no byte is dropped (this is what min_item_size() is for) *)
Theorem C19_log_layout : forall cmds, wf_cmds cmds -> guard cmds -> 0 < psize (final cmds) ->
  let p := final cmds in
  let w := fst (log_layout p) in let c := snd (log_layout p) in
  (w = 1 \/ w = 2 \/ w = 4 \/ w = 8) /\ w * c = psize p /\ w <= pmin p /\ pmin p mod w = 0 /\ (pmin p <= 8 -> w = pmin p).
Proof. exact log_layout_thm. Qed.
Print Assumptions C19_log_layout.

(* Compiler-level constants: BaseCompiler::_new_const adds to the scope's pool and builds the memory operand
   [pool_label + int32_t(offset)] of the constant's size. While the pool stays within 2 GiB the operand's displacement IS the
   offset ConstPool::add answered (so every statement above about offsets holds for the operands the Compiler emits); a refused
   size yields no operand and leaves the pool untouched *)
Theorem C19_new_const_operand : forall p d s p' o,
  Inv p -> wf_cmd d s -> new_const_operand p d s = (p', o) -> psize p' <= 2147483648 ->
  match o with
  | Some (disp, sz) => cp_add p d s = (p', Ok disp) /\ sz = s /\ valid_size s /\ 0 <= disp /\ disp + s <= psize p'
  | None => ~ valid_size s /\ p' = p
  end.
Proof. exact new_const_operand_thm. Qed.
Print Assumptions C19_new_const_operand.

(* ... beyond 2 GiB the int32 cast wraps (state-level witness; needs 2^25 64-byte constants, not exercised, no finding) *)
Theorem C19_new_const_beyond_2GiB_refuted :
  exists p d s, Inv p /\ wf_cmd d s /\ psize p = 2147483648 /\
    snd (cp_add p d s) = Ok 2147483648 /\ snd (new_const_operand p d s) = Some (-2147483648, s).
Proof. exact new_const_operand_2GiB_refuted. Qed.
Print Assumptions C19_new_const_beyond_2GiB_refuted.

(* sharing, observable form for EVERY successful add (round 6: no longer only byte-owning constants): whether add(d, s)
   received storage, hit an identical constant or was itself served from a part of a wider one, adding any aligned part of
   d of at least 4 bytes afterwards allocates nothing and leaves the pool untouched *)
Theorem C19_parts_of_added_shared : forall cmds k d s off, wf_cmds cmds -> guard cmds -> added cmds k d s off ->
  forall s' i, valid_size s' -> 4 <= s' < s -> 0 <= i -> (i + 1) * s' <= s ->
  exists o', cp_add (final cmds) (slice d (i * s') s') s' = (final cmds, Ok o') /\
             slice (cp_fill (final cmds)) o' s' = slice d (i * s') s'.
Proof. exact parts_of_added_shared_thm. Qed.
Print Assumptions C19_parts_of_added_shared.

Theorem C19_parts_of_added_shared_example :
  let w := [0; 1; 2; 3; 4; 5; 6; 7; 8; 9; 10; 11; 12; 13; 14; 15] in
  let cmds := [(w, 16); ([8; 9; 10; 11; 12; 13; 14; 15], 8)] in
  wf_cmds cmds /\ guard cmds /\ added cmds 1 [8; 9; 10; 11; 12; 13; 14; 15] 8 8 /\
  cp_add (final cmds) [12; 13; 14; 15] 4 = (final cmds, Ok 12).
Proof. exact parts_of_added_example. Qed.
Print Assumptions C19_parts_of_added_shared_example.

(* converse of C19_dedup: an offset determines its constant (two adds of one size answered with the same offset carried the
   same bytes) -- so for a fixed size, constant |-> offset is injective in both directions *)
Theorem C19_offset_determines_constant : forall cmds k1 k2 d1 d2 s off, wf_cmds cmds -> guard cmds ->
  added cmds k1 d1 s off -> added cmds k2 d2 s off -> slice d1 0 s = slice d2 0 s.
Proof. exact offset_determines_thm. Qed.
Print Assumptions C19_offset_determines_constant.

(* frame -- what ONE add (from any state satisfying the invariant, whatever it answers) must NOT change: no node is
   removed or altered, size() and alignment() never shrink, a refused add leaves the state untouched, and every byte owned
   by a constant that was already stored is the same in the image written afterwards *)
Theorem C19_add_frame : forall p d s p' r,
  Inv p -> wf_cmd d s -> cp_add p d s = (p', r) -> psize p' <= 4294967296 ->
  (forall j n, In n (nth j (trees p) []) -> In n (nth j (trees p') [])) /\
  psize p <= psize p' /\ palign p <= palign p' /\
  (r = InvalidArgument -> p' = p) /\
  (forall j n x, In n (nth j (trees p) []) -> n_shared n = false -> covers n x ->
     nth x (cp_fill p') 0 = nth x (cp_fill p) 0).
Proof. exact add_frame_thm. Qed.
Print Assumptions C19_add_frame.

(* the model's functions are the ones determined by the record of structural constants `model_params` (index count, the
   enum of sizes, the if-chain of ConstPool_addGap, the sharing threshold, the width of Node::_offset, the two quirk flags of
   the gap loop, the two flags of fill). tools/c19_params.py re-extracts that record from the SOURCE on every run and
   coq/gen/C19_Params.v re-proves `src_params = model_params` (obligation C19_params_ok of the check) *)
Theorem C19_model_built_from_params :
  (forall off sz, gap_class off sz = gap_class_of (par_gap_chain model_params) (par_gap_else model_params) off sz) /\
  cp_init = mkPool (repeat [] (par_index_count model_params)) (repeat [] (par_index_count model_params)) 0 0 0 /\
  (forall s, valid_size s <-> exists i, In (s, i) (par_index_sizes model_params)) /\
  (forall s i, In (s, i) (par_index_sizes model_params) -> ctz s = i /\ pow2 i = s /\ (i < par_index_count model_params)%nat) /\
  (forall z, trunc32 z = z mod 2 ^ par_offset_bits model_params) /\
  (forall f ts ti ss pc d off, share_loop (S f) ts ti ss pc d off =
     if par_share_above model_params <? ss
     then share_loop f (share_row (pred ti) (ss / 2) d off (2 * pc) ts) (pred ti) (ss / 2) (2 * pc)%nat d off else ts) /\
  (forall n ti size gs acc,
     gap_loop (S n) ti size gs acc =
       match nth ti gs [] with
       | [] => gap_loop n ti size gs acc
       | (goff, gsz) :: rest =>
         gap_loop n ti size (if 0 <? gsz - size then add_gap (upd ti rest gs) goff (gsz - size) else upd ti rest gs) (Some goff)
       end) /\
  (forall p,
     cp_fill p = fold_left (fun buf t => fold_left (fun b n => if n_shared n then b else write_at b (n_off n) (n_key n)) t buf)
                           (trees p) (repeat 0 (Z.to_nat (psize p)))) /\
  (forall z, wrap_i32 z = (z + 2 ^ (par_new_const_disp_bits model_params - 1)) mod 2 ^ par_new_const_disp_bits model_params
                          - 2 ^ (par_new_const_disp_bits model_params - 1)) /\
  (forall p, psize p <> 0 ->
     log_layout p = (pow2 (Nat.min (ctz (pmin p)) (par_log_max_log2 model_params)),
                     psize p / pow2 (Nat.min (ctz (pmin p)) (par_log_max_log2 model_params)))).
Proof. exact params_used. Qed.
Print Assumptions C19_model_built_from_params.

(* the fuel parameters of the model's two fuelled loops (sub-constant levels, ConstPool_addGap) never cut a loop short:
   more fuel gives the same result, i.e. the model computes what the unbounded C++ loops compute *)
Theorem C19_model_loops_total : forall extra : nat,
  (forall ts ti pc data off, (ti <= 6)%nat ->
     share_loop (7 + extra)%nat ts ti (pow2 ti) pc data off = share_loop 7%nat ts ti (pow2 ti) pc data off) /\
  (forall gs off sz, add_gap_f (Z.to_nat sz + extra)%nat gs off sz = add_gap gs off sz).
Proof. exact model_loops_total. Qed.
Print Assumptions C19_model_loops_total.

(* the executable judge applied by the check to the ANSWERS OF THE IMPLEMENTATION (coq/theories/ConstPool/ConstPoolJudge.v,
   extracted): whenever it accepts an observed transcript (commands, answers, image, size(), alignment()), the clauses of
   the property hold of that transcript: aligned in-bounds offsets, errors only for invalid sizes, equal constants at equal
   offsets, image = constant at every offset and zero elsewhere, alignment() / min_item_size() = sizes that were added (or
   nothing was), size() a multiple of min_item_size() *)
Theorem C19_judge_sound : forall tr img sz al mn, judge tr img sz al mn = true ->
  (forall d s off, In (d, s, Ok off) tr ->
     valid_size s /\ 0 <= off /\ off mod s = 0 /\ off + s <= sz /\ s <= al /\ al mod s = 0 /\ slice img off s = slice d 0 s) /\
  (forall d s, In (d, s, InvalidArgument) tr -> ~ valid_size s) /\
  (forall d1 d2 s o1 o2, In (d1, s, Ok o1) tr -> In (d2, s, Ok o2) tr -> slice d1 0 s = slice d2 0 s -> o1 = o2) /\
  Z.of_nat (length img) = sz /\
  (forall x, 0 <= x < sz -> (forall d s off, In (d, s, Ok off) tr -> ~ (off <= x < off + s)) -> nth (Z.to_nat x) img 0 = 0) /\
  ((exists d off, In (d, al, Ok off) tr) \/ (al = 0 /\ forall d s off, ~ In (d, s, Ok off) tr)) /\
  (((exists d off, In (d, mn, Ok off) tr) /\ sz mod mn = 0 /\ 0 < mn <= al) \/ (mn = 0 /\ forall d s off, ~ In (d, s, Ok off) tr)) /\
  sz <= 2 * total_len (nodup range_eq_dec (ok_ranges tr)).   (* size() <= twice the bytes of the distinct answered ranges (C19_quirk_cost) *)
Proof. exact judge_sound. Qed.
Print Assumptions C19_judge_sound.

(* ... and it never rejects what the model answers (so a rejection of the implementation's transcript is a real difference) *)
Theorem C19_judge_accepts_model : forall cmds, wf_cmds cmds -> guard cmds ->
  judge (transcript cmds (results cmds)) (cp_fill (final cmds)) (psize (final cmds)) (palign (final cmds)) (pmin (final cmds)) = true.
Proof. exact judge_model. Qed.
Print Assumptions C19_judge_accepts_model.

(* link to C18: the key-sorted node list that models each per-size tree is exactly the abstract set (`ts_ids`, kept by
   sorted_insert / lookup) against which C18 verifies the red-black ArenaTree, under key bytes -> big-endian number
   (memcmp order = numeric order for equal-length byte strings) and id := node offset. Unbounded. (The link to the
   pointer-level red-black tree itself is C19_tree_realised_by_rb_tree below, also unbounded.) *)
Theorem C19_tree_is_C18_abstract_set : forall L,
  (forall n t, key_ok L (n_key n) -> Forall (fun m => key_ok L (n_key m)) t ->
     map enc (ConstPoolModel.tree_insert n t) = TreeProofs.sorted_insert (map enc t) (be (n_key n)) (n_off n)) /\
  (forall k t, key_ok L k -> Forall (fun m => key_ok L (n_key m)) t ->
     TreeProofs.lookup (map enc t) (be k) = option_map n_off (ConstPoolModel.tree_get t k)) /\
  (forall a b, key_ok L a -> key_ok L b -> key_lt a b = (be a <? be b) /\ (be a = be b -> a = b)).
Proof. exact tree_bridge_thm. Qed.
Print Assumptions C19_tree_is_C18_abstract_set.

(* link to C18, UNBOUNDED (round 6; replaces the "C18's tree theorem is bounded" caveat): the key-sorted node list that models
   a per-size tree is realised by C18's POINTER-LEVEL red-black tree (heap of nodes, iterative top-down insertion of
   support/arenatree.h as modelled in Containers/TreeModel.v). `RBRel L t ct T next`: the heap tree `ct` represents the abstract
   red-black tree T (black root, equal black heights, no red-red, height <= 2*(bh-1), distinct node ids in (1, next)), the
   in-order keys of T are exactly the list's keys (bytes -> big-endian number, memcmp order = numeric order) and lookup finds
   exactly what tree_get finds. One insertion of an absent key with ANY fuel above 2*height+1 preserves it; moreover the
   traversal that ConstPool::fill uses (in-order) visits the keys in the list's order, get_loop computes lookup, and no heap
   cell outside the tree, the new node and the false root changes *)
Theorem C19_tree_realised_by_rb_tree_step : forall L t ct T next n fuel,
  RBRel L t ct T next -> key_ok L (n_key n) -> Forall (fun m => key_ok L (n_key m)) t ->
  ConstPoolModel.tree_get t (n_key n) = None -> (2 * TreeGeneral.bheight T + 1 < fuel)%nat ->
  let ct' := TreeModel.tree_insert_f fuel ct next (bek n) in
  exists R, RBRel L (ConstPoolModel.tree_insert n t) ct' R (next + 1) /\
    (forall f', (TreeGeneral.bheight R < f')%nat ->
       map (fun x => fst (fst x)) (TreeModel.inorder f' (TreeModel.heap ct') (TreeModel.root ct')) = map bek (ConstPoolModel.tree_insert n t) /\
       (forall k, TreeModel.get_loop f' (TreeModel.heap ct') (TreeModel.root ct') k = TreeGeneral.lookup R k)) /\
    (forall i, ~ In i (TreeRotate.bids T) -> i <> TreeModel.HEAD -> i <> next ->
       TreeModel.hget (TreeModel.heap ct') i = TreeModel.hget (TreeModel.heap ct) i).
Proof. exact rb_insert_step. Qed.
Print Assumptions C19_tree_realised_by_rb_tree_step.

(* ... hence for insertion sequences of ANY length (distinct keys of one size class, starting from any related pair, in
   particular from the empty tree): some fuels exist (2*height+2 at each step) with which the heap-level tree realises the list *)
Theorem C19_tree_realised_by_rb_tree : forall L ns t ct T next,
  RBRel L t ct T next -> Forall (fun m => key_ok L (n_key m)) (t ++ ns) -> NoDup (map n_key (t ++ ns)) ->
  exists fuels T', length fuels = length ns /\
    RBRel L (build t ns) (ct_build ct next ns fuels) T' (next + Z.of_nat (length ns)).
Proof. exact rb_insert_run. Qed.
Print Assumptions C19_tree_realised_by_rb_tree.

(* ... and the FIXED fuel 200 of C18's executable tree_insert is enough for every pool within the guard: a per-size tree of
   a pool of at most 2^32 bytes has at most 2^32 nodes (they sit at distinct offsets), so its black height is at most 34 and
   its height at most 66 -- the executable heap-level insertion itself realises the list insertion, its in-order keys are
   the list and its lookup is the abstract lookup *)
Theorem C19_tree_realised_by_executable_rb_insert : forall p i ct T next n,
  Inv p -> psize p <= 4294967296 ->
  let t := nth i (trees p) [] in let L := Z.to_nat (pow2 i) in
  RBRel L t ct T next -> key_ok L (n_key n) -> Forall (fun m => key_ok L (n_key m)) t ->
  ConstPoolModel.tree_get t (n_key n) = None ->
  exists R, RBRel L (ConstPoolModel.tree_insert n t) (TreeModel.tree_insert ct next (bek n)) R (next + 1) /\
    TreeModel.tree_keys (TreeModel.tree_insert ct next (bek n)) = map bek (ConstPoolModel.tree_insert n t) /\
    (forall k, TreeModel.tree_get (TreeModel.tree_insert ct next (bek n)) k = TreeGeneral.lookup R k).
Proof. exact rb_insert_fuel200. Qed.
Print Assumptions C19_tree_realised_by_executable_rb_insert.

Theorem C19_tree_realised_by_rb_tree_example :
  (forall L, RBRel L [] TreeModel.tree_empty TreeGeneral.BL 2) /\
  (let n1 := mkNode [2; 0] 0 false in let n2 := mkNode [1; 0] 2 false in let n3 := mkNode [0; 7] 4 false in
   let ct := ct_build TreeModel.tree_empty 2 [n1; n2; n3] [200; 200; 200]%nat in
   map bek (build [] [n1; n2; n3]) = [7; 256; 512] /\ TreeModel.tree_keys ct = [7; 256; 512] /\ TreeModel.rb_valid ct = true /\
   TreeModel.tree_get ct 256 = 3 /\ TreeModel.tree_get ct 300 = 0).
Proof. exact rb_example_full. Qed.
Print Assumptions C19_tree_realised_by_rb_tree_example.

(* completeness of the judge (round 6): it rejects ONLY transcripts that violate a clause -- judge = true exactly when the
   clauses of C19_judge_sound hold, so a `C19/coq-judge-rejects` verdict always names a real violation of the property *)
Theorem C19_judge_iff : forall tr img sz al mn, judge tr img sz al mn = true <-> Judged tr img sz al mn.
Proof. exact judge_iff. Qed.
Print Assumptions C19_judge_iff.

(* sequence-level lift of C19_add_frame (round 7): extending a history by ANY further adds (valid or invalid sizes, repeats,
   parts of wider constants) keeps every node, never shrinks size() or alignment(), keeps every byte-owning region, and leaves
   every byte owned by an already stored constant unchanged in the image written afterwards *)
Theorem C19_history_frame : forall cmds more, wf_cmds (cmds ++ more) -> guard (cmds ++ more) ->
  let p := final cmds in let p' := final (cmds ++ more) in
  (forall j n, In n (nth j (trees p) []) -> In n (nth j (trees p') [])) /\
  psize p <= psize p' /\ palign p <= palign p' /\
  (forall off s x, In (off, s) (flat_map stored (trees p)) -> off <= x < off + s ->
     nth (Z.to_nat x) (cp_fill p') 0 = nth (Z.to_nat x) (cp_fill p) 0) /\
  (forall r, In r (flat_map stored (trees p)) -> In r (flat_map stored (trees p'))).
Proof. exact history_frame_thm. Qed.
Print Assumptions C19_history_frame.

Theorem C19_history_frame_example :
  let cmds := [([1], 1); ([2; 2; 2; 2], 4)] in let more := [([9; 9; 9], 3); ([3], 1); ([1], 1); ([2; 2], 2)] in
  wf_cmds (cmds ++ more) /\ guard (cmds ++ more) /\ In (4, 4) (flat_map stored (trees (final cmds))) /\
  cp_fill (final cmds) = [1; 0; 0; 0; 2; 2; 2; 2] /\ cp_fill (final (cmds ++ more)) = [1; 3; 2; 2; 2; 2; 2; 2].
Proof. exact history_frame_example. Qed.
Print Assumptions C19_history_frame_example.

(* "the reported size covers everything" from above (round 8): size() of ANY history (no wf / guard hypothesis: valid and invalid
   sizes, repeats, parts) is at most the sum of 2*s - 1 over its valid-size calls (s bytes for the constant, at most s - 1 of
   alignment gap in front of it); budget is ConstPoolGrowth.budget *)
Theorem C19_size_growth_bound : forall cmds, 0 <= psize (final cmds) <= budget cmds.
Proof. exact growth_thm. Qed.
Print Assumptions C19_size_growth_bound.

(* one more add grows size() by at most 2*s - 1; a call with an invalid size is refused and leaves the whole pool as it was *)
Theorem C19_size_growth_step : forall cmds d s,
  let p := final cmds in let p' := final (cmds ++ [(d, s)]) in
  psize p <= psize p' <= psize p + (if valid_sizeb s then 2 * s - 1 else 0) /\
  (valid_sizeb s = false -> p' = p /\ results (cmds ++ [(d, s)]) = results cmds ++ [InvalidArgument]).
Proof. exact growth_step_thm. Qed.
Print Assumptions C19_size_growth_step.

(* the bound is reached: one byte, then a 64-byte constant -> 1 + 63 bytes of gap + 64 = 128 = (2*1-1) + (2*64-1) *)
Theorem C19_size_growth_bound_tight : psize (final tight_cmds) = budget tight_cmds /\ budget tight_cmds = 128.
Proof. exact tight_example. Qed.
Print Assumptions C19_size_growth_bound_tight.

(* "exact contents" (round 8): add(data, size) reads exactly `size` bytes of `data` - the new pool (trees incl. the shared
   sub-constants, gaps, size, alignment, min item size) and the answer are identical for any two buffers that agree on their
   first `size` bytes, in every pool state and for every size, valid or not (no hypothesis).  The harness passes every constant
   followed by 160 bytes of 0xA5 slack that the model never sees, so an over-read of the real add shows up as a difference. *)
Theorem C19_add_reads_only_size : forall p d1 d2 size,
  firstn (Z.to_nat size) d1 = firstn (Z.to_nat size) d2 -> cp_add p d1 size = cp_add p d2 size.
Proof. exact add_reads_only_size_thm. Qed.
Print Assumptions C19_add_reads_only_size.

Theorem C19_add_reads_only_size_example :
  cp_add cp_init [1; 2; 3; 4; 5; 6; 7; 8; 99; 98] 8 = cp_add cp_init [1; 2; 3; 4; 5; 6; 7; 8] 8 /\
  snd (cp_add cp_init [1; 2; 3; 4; 5; 6; 7; 8; 99; 98] 8) = Ok 0.
Proof. exact add_reads_example. Qed.
Print Assumptions C19_add_reads_only_size_example.

(* history form of C19_add_reads_only_size: two histories whose calls have the same sizes and buffers agreeing on their first
   `size` bytes produce the same pool and the same answers, from any starting pool (hence the same image, size, alignment) *)
Theorem C19_history_reads_only_sizes : forall cmds1 cmds2 p, Forall2 same_reads cmds1 cmds2 -> run p cmds1 = run p cmds2.
Proof. exact run_reads_only_sizes_thm. Qed.
Print Assumptions C19_history_reads_only_sizes.

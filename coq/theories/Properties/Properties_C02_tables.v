(* C02 — property theorem about the assembler's opcode tables (separate module: it depends on coq/gen/A64Tables.v, the dump of the
   InstDB::EncodingData arrays, so that a change of a table constant breaks exactly this theorem and the differential run still searches a
   failing input). *)
From Coq Require Import ZArith List Bool.
From Verif Require Import A64.A64Tmpl A64.A64Sem.
From VerifGen Require Import IsaA64Db A64Tables.
Import ListNotations.
Local Open Scope Z_scope.

(* The opcode constants of the assembler's InstDB::EncodingData tables (dumped from the current tree) agree with the fixed bits of the
   database templates: for every instruction of the covered encoding classes and every supported database row of that instruction, the
   table word and the row's fixed bits are equal on all fixed-bit positions except the ones the encoding class ORs in itself (sf, Q,
   size, scalar, ...; listed per class in tools/c02_tables.py).
   Classes with several opcode constants per row (ADD/SUB, CMP/CMN, TST, logical, shifts, MIN/MAX, LDR/STR, LDP/STP, LDUR-like, FP scalar/
   vector/by-element, integer by-element, SIMD shifts, SIMD load/store) contribute one entry per variant; the variant is compared with the
   database rows whose operand syntaxes select it (row_filter in tools/c02_tables.py mirrors the case split of the encoder).
   PARTIAL: enc_table_count entries (the evidence gives the count of instructions covered of the 774); not covered: instructions without a
   supported database row, PRFM unscaled, and MOVI/MVNI, FCMLA, SIMD MOV (listed in the evidence). The classes whose opcodes are literals in
   the encoder's source are covered by C02_literal_opcodes_agree_db below. *)
Theorem C02_tables_agree_db_partial : forall id w var rids rid, In (id, w, var, rids) enc_table -> In rid rids ->
  exists r, In r rows /\ r_id r = rid /\ tword_agrees (r_tmpl r) w var = true.
Proof.
  intros id w var rids rid Hin Hrid.
  pose proof (proj1 (forallb_forall (table_entry_ok rows) enc_table) enc_table_agrees _ Hin) as H.
  unfold table_entry_ok in H.
  pose proof (proj1 (forallb_forall _ rids) H rid Hrid) as H1. cbv beta in H1.
  destruct (find (fun r => r_id r =? rid) rows) as [r|] eqn:F; [|discriminate H1].
  apply find_some in F. destruct F as [Fi Fe]. apply Z.eqb_eq in Fe. exists r. auto.
Qed.
Print Assumptions C02_tables_agree_db_partial.

(* Classes without table constants (REV, MOV, AT/DC/IC/TLBI, SYS, MRS, MSR, FCSEL, FCVT, FMOV, DUP, INS): the binary literals passed to
   opcode.reset() inside the class's `case` of a64assembler.cpp are extracted from the source text on every run (tools/c02_tables.py
   literals()); every supported database row of such an instruction agrees, on its fixed bits outside the bits the case ORs in, with at
   least one of the literals of its case. *)
Theorem C02_literal_opcodes_agree_db : forall id ws var rids rid, In (id, ws, var, rids) lit_table -> In rid rids ->
  exists r w, In r rows /\ r_id r = rid /\ In w ws /\ tword_agrees (r_tmpl r) w var = true.
Proof.
  intros id ws var rids rid Hin Hrid.
  pose proof (proj1 (forallb_forall (lit_entry_ok rows) lit_table) lit_table_agrees _ Hin) as H.
  unfold lit_entry_ok in H.
  pose proof (proj1 (forallb_forall _ rids) H rid Hrid) as H1. cbv beta in H1.
  destruct (find (fun r => r_id r =? rid) rows) as [r|] eqn:F; [|discriminate H1].
  apply find_some in F. destruct F as [Fi Fe]. apply Z.eqb_eq in Fe.
  apply existsb_exists in H1. destruct H1 as [w [Hw Ha]]. exists r, w. auto.
Qed.
Print Assumptions C02_literal_opcodes_agree_db.
(* non-vacuity: both tables are non-empty *)
Example tables_nonempty : (0 < length enc_table)%nat /\ (0 < length lit_table)%nat.
Proof. vm_compute. split; apply le_n_S, Nat.le_0_l || (repeat constructor). Qed.

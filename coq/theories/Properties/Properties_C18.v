(* C18 — Arena-backed containers and strings behave like their abstract data types.
   This file holds ONLY the property theorems (each closed by `exact <lemma>`) and their Print Assumptions. *)
From Coq Require Import ZArith List Bool Permutation Lia.
From Verif Require Import Containers.BitVecModel Containers.BitVecProofs Containers.ArenaModel Containers.ArenaProofs
  Containers.VecModel Containers.VecProofs Containers.WorldProofs Containers.World2Proofs Containers.HashModel Containers.HashProofs Containers.NameHashModel Containers.NameHashProofs Containers.StrModel Containers.StrProofs Containers.StrMove
  Containers.TreeModel Containers.TreeProofs Containers.TreeGeneral Containers.TreeRotate Containers.TreeRecolor Containers.TreeLink Containers.TreeInsertAbs Containers.TreeInsertRefine Containers.TreeRemoveAbs Containers.TreeRemoveRefine Containers.TreeOps Containers.TreeKeys Containers.TreeMap Containers.TreeMap2 Containers.ArenaChainModel Containers.ArenaChainProofs Containers.ArenaChainGeneral Containers.C18Examples
  Containers.ListModel Containers.ListProofs Containers.ListGeneral Containers.ListFrame Containers.ListOps Containers.PoolOps Containers.BitSetModel Containers.BitSetProofs Containers.BitSetWords Containers.BitSetOps Containers.BitSetOps2 Containers.RangeIterModel Containers.RangeIterProofs Containers.RangeIterGeneral Containers.RangeIterCompose.
From VerifGen Require Import C18HashTable C18VecTable.
Import ListNotations.
Local Open Scope Z_scope.

(* ================================================================== (1) bit vectors, any word size W > 0 *)
Theorem C18_bitvec_fill : forall W ws i n j,
  0 < W -> 0 <= i -> 0 <= n -> words_ok W ws -> i + n <= W * zlen ws -> 0 <= j < W * zlen ws ->
  bv_get W (bv_fill W ws i n) j = if in_range i n j then true else bv_get W ws j.
Proof. exact bv_fill_get. Qed.
Print Assumptions C18_bitvec_fill.

Theorem C18_bitvec_clear : forall W ws i n j,
  0 < W -> 0 <= i -> 0 <= n -> words_ok W ws -> i + n <= W * zlen ws -> 0 <= j < W * zlen ws ->
  bv_get W (bv_clear W ws i n) j = if in_range i n j then false else bv_get W ws j.
Proof. exact bv_clear_get. Qed.
Print Assumptions C18_bitvec_clear.

(* word-level fill/clear = overwriting a range of the boolean list; lengths and word ranges are kept *)
Theorem C18_bitvec_fill_clear_as_bit_list : forall W o ws i n,
  0 < W -> 0 <= i -> 0 <= n -> words_ok W ws -> i + n <= W * zlen ws ->
  to_bits W (bv_op W o ws i n) = bits_fill (to_bits W ws) i n (match o with OpFill => true | OpClear => false end) /\
  length (bv_op W o ws i n) = length ws /\ words_ok W (bv_op W o ws i n).
Proof. exact bv_op_as_bit_list. Qed.
Print Assumptions C18_bitvec_fill_clear_as_bit_list.

Theorem C18_bitvec_get_set : forall W ws i v j,
  0 < W -> words_ok W ws -> 0 <= i < W * zlen ws -> 0 <= j < W * zlen ws ->
  bv_get W (bv_set W ws i v) j = if j =? i then v else bv_get W ws j.
Proof. exact bv_set_get. Qed.
Print Assumptions C18_bitvec_get_set.

Theorem C18_bitvec_set_as_bit_list : forall W ws i v,
  0 < W -> words_ok W ws -> 0 <= i < W * zlen ws -> to_bits W (bv_set W ws i v) = bits_fill (to_bits W ws) i 1 v.
Proof. exact bv_set_to_bits. Qed.
Print Assumptions C18_bitvec_set_as_bit_list.

Theorem C18_bitvec_or_bit : forall W ws i v j,
  0 < W -> words_ok W ws -> 0 <= i < W * zlen ws -> 0 <= j < W * zlen ws ->
  bv_get W (bv_or_bit W ws i v) j = if j =? i then v || bv_get W ws j else bv_get W ws j.
Proof. exact bv_or_bit_get. Qed.
Print Assumptions C18_bitvec_or_bit.

Theorem C18_bitvec_xor_bit : forall W ws i v j,
  0 < W -> words_ok W ws -> 0 <= i < W * zlen ws -> 0 <= j < W * zlen ws ->
  bv_get W (bv_xor_bit W ws i v) j = if j =? i then xorb (bv_get W ws j) v else bv_get W ws j.
Proof. exact bv_xor_bit_get. Qed.
Print Assumptions C18_bitvec_xor_bit.

(* index_of returns the least index >= start holding `value`; it leaves the array (None) exactly when there is none *)
Theorem C18_bitvec_index_of : forall W ws start value,
  0 < W -> words_ok W ws -> 0 <= start ->
  match bv_index_of W ws start value with
  | Some r => start <= r < W * zlen ws /\ bv_get W ws r = value /\ forall j, start <= j < r -> bv_get W ws j = negb value
  | None => forall j, start <= j < W * zlen ws -> bv_get W ws j = negb value
  end.
Proof. exact bv_index_of_spec. Qed.
Print Assumptions C18_bitvec_index_of.

Example C18_bitvec_hypotheses_satisfiable : words_ok 64 [5; 0] /\ 3 + 70 <= 64 * zlen [5; 0] /\ bv_fill 64 [5; 0] 3 70 = [18446744073709551613; 511].
Proof. split; [repeat constructor; vm_compute; intuition discriminate|split; vm_compute; [intuition discriminate|reflexivity]]. Qed.

(* ================================================================== (5) arena *)
(* the representation invariant holds initially and after EVERY sequence of operations whose caller obligations hold *)
Theorem C18_arena_init_inv : forall mbs st, 1024 <= mbs <= 2 ^ 62 -> (st = 0 \/ 16 <= st < 2 ^ 64) -> inv (arena_init mbs st).
Proof. exact inv_init. Qed.
Print Assumptions C18_arena_init_inv.

Theorem C18_arena_reachable_inv : forall mok a0 a, inv a0 -> reachable mok a0 a -> inv a.
Proof. exact reachable_inv. Qed.
Print Assumptions C18_arena_reachable_inv.

(* in every reachable state the live blocks are pairwise disjoint, 8-aligned and inside a managed or dynamic block *)
Theorem C18_arena_disjoint : forall mok a0 a, inv a0 -> reachable mok a0 a ->
  pd (live a) /\ Forall (fun r => a_off (fst r) mod 8 = 0 /\ region_in a r) (live a).
Proof. exact reachable_live_disjoint. Qed.
Print Assumptions C18_arena_disjoint.

(* one-shot allocation: the block is aligned, inside the arena, disjoint from every live block AND every free slot entry *)
Theorem C18_arena_alloc_oneshot : forall mok a size, inv a -> 0 < size <= SIZE_MAX -> size mod 8 = 0 ->
  alloc_post a (snd (alloc_oneshot mok a size)) size (fst (alloc_oneshot mok a size)).
Proof. exact alloc_oneshot_sound. Qed.
Print Assumptions C18_arena_alloc_oneshot.

(* reusable allocation: at least the requested size, aligned, inside the arena, disjoint from every live block; a slot
   entry is handed out only while it is not live (it got into the slot list by a release or from a block's left-over) *)
Theorem C18_arena_alloc_reusable : forall mok a size, inv a -> 1 <= size <= SIZE_MAX ->
  ralloc_post a (snd (alloc_reusable mok a size)) size (fst (alloc_reusable mok a size)).
Proof. exact alloc_reusable_sound. Qed.
Print Assumptions C18_arena_alloc_reusable.

Theorem C18_arena_free_reusable : forall a p size n, inv a -> In (p, n) (live a) ->
  (slot_index size < 8 -> n = slot_size (slot_index size)) ->
  (8 <= slot_index size -> In (a_blk p) (map mb_id (dyn a))) ->
  inv (free_reusable a p size) /\ Permutation (live a) ((p, n) :: live (free_reusable a p size)).
Proof. exact free_reusable_sound. Qed.
Print Assumptions C18_arena_free_reusable.

(* after a reset nothing is live, no slot entry and no dynamic block remains, the chain is well formed *)
Theorem C18_arena_reset : forall a hard, inv a ->
  inv (arena_reset a hard) /\ live (arena_reset a hard) = [] /\ regions (arena_reset a hard) = [] /\ dyn (arena_reset a hard) = [].
Proof. exact reset_sound. Qed.
Print Assumptions C18_arena_reset.

Theorem C18_arena_slot_class_fits : forall size, 1 <= size <= 2 ^ 64 -> size <= slot_size (slot_index size).
Proof. exact slot_size_fits. Qed.
Print Assumptions C18_arena_slot_class_fits.

Theorem C18_arena_statistics : forall a, inv a -> let '(_, used, reserved, _) := arena_stats a in 0 <= used <= reserved.
Proof. exact stats_used_le_reserved. Qed.
Print Assumptions C18_arena_statistics.

Example C18_arena_hypotheses_satisfiable : exists a, inv a /\ aop_ok a (AOneshot 904) /\ aop_ok a (AReusable 100).
Proof.
  exists (arena_init 1024 0). split; [apply inv_init; [vm_compute; intuition discriminate|left; reflexivity]|].
  split; vm_compute; intuition discriminate.
Qed.

(* ================================================================== (4) hash table: the reciprocal table *)
(* for EVERY row of the table in arenahash.cpp and EVERY 32-bit hash code: _calc_mod = hash mod prime *)
Theorem C18_hash_mod_correct : forall r h, In r hash_primes -> 0 <= h < 2 ^ 32 ->
  calc_mod_gen (p_prime r) (p_rcp r) (p_shift r) h = h mod p_prime r.
Proof. exact hash_mod_correct_all. Qed.
Print Assumptions C18_hash_mod_correct.

Theorem C18_hash_mod_initial : forall h, 0 <= h < 2 ^ 32 -> calc_mod_gen 1 1 0 h = 0.
Proof. exact calc_mod_initial. Qed.
Print Assumptions C18_hash_mod_initial.

(* ================================================================== (2) vector: growth policy *)
Theorem C18_vec_expand_byte_size : forall bs, 1 <= bs < 2 ^ 63 ->
  bs <= expand_byte_size vec_grow_table bs < 2 ^ 64 /\ (bs <= 2048 -> expand_byte_size vec_grow_table bs <= 2048).
Proof. exact vec_expand_byte_size_table. Qed.
Print Assumptions C18_vec_expand_byte_size.

(* ================================================================== (2) vector on top of the arena *)
(* reserve_fit / reserve_grow with the table of arenavector.cpp: either the capacity reaches n and nothing else changes, or
   kOutOfMemory and the vector is untouched; the arena invariant and the ownership of the buffer are kept *)
Theorem C18_vec_reserve : forall (grow_it : bool) mok isz a v n, inv a -> vec_inv isz a v -> 0 < isz <= 2048 ->
  reserve_post isz a v n (vec_reserve_gen (if grow_it then Some vec_grow_table else None) mok isz a v n).
Proof. exact vec_reserve_table. Qed.
Print Assumptions C18_vec_reserve.

(* one operation (append, insert, remove_at, pop, clear, truncate, reserve*, resize*, release, or foreign arena traffic):
   the result is kOk or kOutOfMemory — never an access outside the buffer —, the content is the textbook list operation
   on kOk and unchanged on kOutOfMemory, the invariants are kept *)
Theorem C18_vec_step_refines_list : forall mok isz st l o, 0 < isz <= 2048 -> vstate_ok isz st l ->
  let r := vstep vec_grow_table mok isz st o in
  (fst r = EOk \/ fst r = EOutOfMemory) /\ vstate_ok isz (snd r) (lstep l o (fst r)).
Proof. exact vec_step_refines_list. Qed.
Print Assumptions C18_vec_step_refines_list.

(* every operation sequence *)
Theorem C18_vec_ops_refine_list : forall mok isz ops st l, 0 < isz <= 2048 -> vstate_ok isz st l ->
  vstate_ok isz (fst (vrun vec_grow_table mok isz st l ops)) (snd (vrun vec_grow_table mok isz st l ops)).
Proof. exact vec_script_refines_list. Qed.
Print Assumptions C18_vec_ops_refine_list.

Theorem C18_vec_concat : forall t mok isz a v other, grow_table_ok t = true -> inv a -> vec_inv isz a v -> 0 < isz <= 2048 ->
  0 <= v_size other <= zlength (v_buf other) ->
  op_post isz a v (vec_abs v ++ vec_abs other) (vec_concat t mok isz a v other).
Proof. exact vec_concat_refines. Qed.
Print Assumptions C18_vec_concat.

(* the buffer-free reservation logic used for the 4 GiB probes is the projection of the full model *)
Theorem C18_vec_reserve_shape_agrees : forall grow mok isz a v n, table_ok grow -> inv a -> vec_inv isz a v -> 0 < isz <= 2048 ->
  let '(e, a', v') := vec_reserve_gen grow mok isz a v n in
  reserve_shape grow mok isz a (shape_of v) n = (e, a', shape_of v').
Proof. exact reserve_shape_agrees. Qed.
Print Assumptions C18_vec_reserve_shape_agrees.

Example C18_vec_hypotheses_satisfiable : vstate_ok 4 (arena_init 1024 0, vec_empty) [].
Proof.
  split; [apply inv_init; [vm_compute; intuition discriminate|left; reflexivity]|]. split; [apply vec_inv_empty|reflexivity].
Qed.

(* ================================================================== (3) String *)
(* one operation (assign, _op_string, _op_char, _op_chars, pad_end, _op_number, _op_hex, _op_format, truncate, clear, reset):
   on kOk the invariant (size <= capacity, buffer of capacity + 1 cells, NUL at data[size], SSO capacity 30) holds and the
   bytes are those of the textbook operation; a refused operation leaves the string as it was (a format operation keeps
   at least size, see the refuted statement below); no cell outside the buffer is ever touched (no SOverrun result) *)
Theorem C18_str_step_refines_bytes : forall mok s l o, str_inv s -> str_abs s = l ->
  let '(e, s') := sstep mok s o in
  (e = SOk /\ str_inv s' /\ str_abs s' = tstep l o) \/
  ((e = SOutOfMemory \/ e = SInvalidArgument) /\ str_inv s' /\ str_abs s' = l /\ (is_format o = false -> s' = s) /\ s_size s' = s_size s).
Proof. exact sstep_refines. Qed.
Print Assumptions C18_str_step_refines_bytes.

(* every operation sequence, whichever allocations are refused *)
Theorem C18_str_ops_refine_bytes : forall mok ops s l, str_inv s -> str_abs s = l ->
  str_inv (fst (srun mok s l ops)) /\ str_abs (fst (srun mok s l ops)) = snd (srun mok s l ops).
Proof. exact srun_refines. Qed.
Print Assumptions C18_str_ops_refine_bytes.

(* String::prepare: never an access outside the buffer; the bytes in front of the prepared area are the old content *)
Theorem C18_str_prepare : forall mok s op size, str_inv s -> 0 <= size -> prepare_post s op size (str_prepare mok s op size).
Proof. exact str_prepare_sound. Qed.
Print Assumptions C18_str_prepare.

(* the digits produced for bases 2, 8, 10, 16 denote the number, for every 64-bit value *)
Theorem C18_str_number_digits : forall base i, (base = 2 \/ base = 8 \/ base = 10 \/ base = 16) -> 0 <= i < 2 ^ 64 ->
  dval base (digits base i) = i /\ Forall (digit_ok base) (digits base i) /\ 1 <= zlength (digits base i).
Proof. exact digits_roundtrip. Qed.
Print Assumptions C18_str_number_digits.

Theorem C18_str_hex_length : forall data sep, zlength (hex_text data sep) =
  if zlength data =? 0 then 0 else if sep =? 0 then 2 * zlength data else 3 * zlength data - 1.
Proof. exact hex_text_length. Qed.
Print Assumptions C18_str_hex_length.

Theorem C18_str_hex_pair : forall b, 0 <= b < 256 ->
  digit_val (nth 0 (hex_pair b) 0) * 16 + digit_val (nth 1 (hex_pair b) 0) = b.
Proof. exact hex_pair_val. Qed.
Print Assumptions C18_str_hex_pair.

(* a format whose allocation is refused leaves a valid string with the same bytes (model = code with
   fixes/C18-string-format-failure.patch; round 1 had this as a refuted statement about the pinned code) *)
Theorem C18_str_format_failure_keeps_string : forall mok s op text, str_inv s ->
  let '(e, s') := str_op_format mok s op text in
  (e = SOk /\ str_inv s' /\ str_abs s' = text_of op (str_abs s) text) \/
  (e = SOutOfMemory /\ str_inv s' /\ str_abs s' = str_abs s /\ s_size s' = s_size s /\ s_cap s' = s_cap s /\ s_kind s' = s_kind s).
Proof. exact str_op_format_sound. Qed.
Print Assumptions C18_str_format_failure_keeps_string.

(* String::swap, move assignment (swap + other.reset()) and move construction on plain Strings (round 6): both strings stay
   valid, the contents are exchanged / transferred, the moved-from string is the empty small string *)
Theorem C18_str_swap : forall a b, str_inv a -> str_inv b ->
  let '(a', b') := str_swap a b in str_inv a' /\ str_inv b' /\ str_abs a' = str_abs b /\ str_abs b' = str_abs a /\ a' = b /\ b' = a.
Proof. exact str_swap_sound. Qed.
Print Assumptions C18_str_swap.
Theorem C18_str_move_assign : forall a b, str_inv a -> str_inv b ->
  let '(a', b') := str_move_assign a b in str_inv a' /\ str_inv b' /\ str_abs a' = str_abs b /\ a' = b /\ b' = str_empty /\ str_abs b' = [].
Proof. exact str_move_assign_sound. Qed.
Print Assumptions C18_str_move_assign.
Theorem C18_str_move_construct : forall b, str_inv b ->
  let '(t, b') := str_move_construct b in str_inv t /\ str_inv b' /\ str_abs t = str_abs b /\ b' = str_empty /\ str_abs b' = [].
Proof. exact str_move_construct_sound. Qed.
Print Assumptions C18_str_move_construct.
Example C18_str_move_hypotheses_satisfiable : str_inv str_empty /\ str_inv (str_tmp 200).
Proof. split; [exact str_inv_empty|]. unfold str_inv, str_tmp; cbn [s_size s_cap s_buf s_kind]. split; [vm_compute; split; discriminate|]. split; [reflexivity|]. split; [reflexivity|discriminate]. Qed.

Example C18_str_hypotheses_satisfiable : str_inv str_empty /\ str_abs str_empty = [].
Proof. split; [exact str_inv_empty|reflexivity]. Qed.

(* ================================================================== (4) hash table as a finite map *)
(* _insert (incl. the rehash at 0.9 load, with the translated prime table): the invariant (every node in the bucket
   hash mod prime, size exact, distinct nodes) is kept and exactly the new node is added *)
Theorem C18_hash_insert_refines : forall mok a h n, hash_inv h -> 0 <= hn_hash n < 2 ^ 32 -> ~ In (hn_id n) (map hn_id (hash_abs h)) ->
  hash_inv (snd (hash_insert hash_primes mok a h n)) /\ Permutation (hash_abs (snd (hash_insert hash_primes mok a h n))) (n :: hash_abs h).
Proof. exact hash_insert_refines_table. Qed.
Print Assumptions C18_hash_insert_refines.

Theorem C18_hash_insert_arena : forall mok a h n, inv a -> hash_inv h -> hash_arena_inv a h -> 0 <= hn_hash n < 2 ^ 32 ->
  ~ In (hn_id n) (map hn_id (hash_abs h)) ->
  inv (fst (hash_insert hash_primes mok a h n)) /\ hash_arena_inv (fst (hash_insert hash_primes mok a h n)) (snd (hash_insert hash_primes mok a h n)).
Proof. exact hash_insert_arena_table. Qed.
Print Assumptions C18_hash_insert_arena.

Theorem C18_hash_remove_refines : forall h n, hash_inv h -> 0 <= hn_hash n < 2 ^ 32 ->
  (In n (hash_abs h) -> fst (hash_remove h n) = true /\ hash_inv (snd (hash_remove h n)) /\
                        Permutation (hash_abs h) (n :: hash_abs (snd (hash_remove h n)))) /\
  (~ In (hn_id n) (map hn_id (hash_abs h)) -> hash_remove h n = (false, h)).
Proof. exact hash_remove_refines. Qed.
Print Assumptions C18_hash_remove_refines.

Theorem C18_hash_get_refines : forall h hc key, hash_inv h -> 0 <= hc < 2 ^ 32 ->
  match hash_get h hc key with
  | Some n => In n (hash_abs h) /\ hn_key n = key /\ calc_mod h (hn_hash n) = calc_mod h hc
  | None => forall n, In n (hash_abs h) -> hn_hash n = hc -> hn_key n <> key
  end.
Proof. exact hash_get_refines. Qed.
Print Assumptions C18_hash_get_refines.

(* ArenaHash with NAME keys (CodeHolder's named labels): Support::hash_string is the Horner polynomial in 65599 modulo 2^32,
   names are identified by their key, and a table whose nodes carry hash_name(name) finds a node by name exactly when a node with
   that name is stored — whatever collisions the hash has (two 6-letter names with equal hash are exhibited) *)
Theorem C18_name_hash_value : forall l, 0 <= hash_name l < 2 ^ 32 /\ hash_name l = poly l 0 mod 2 ^ 32.
Proof. exact (fun l => conj (hash_name_range l) (hash_name_poly l)). Qed.
Print Assumptions C18_name_hash_value.

Theorem C18_name_key_injective : forall l1 l2, bytes_ok l1 -> bytes_ok l2 -> name_key l1 = name_key l2 -> l1 = l2.
Proof. exact name_key_inj. Qed.
Print Assumptions C18_name_key_injective.

Theorem C18_name_get_correct : forall h bytes, hash_inv h -> named_table h -> bytes_ok bytes ->
  match name_get h bytes with
  | Some n => In n (hash_abs h) /\ hn_hash n = hash_name bytes /\ hn_key n = name_key bytes
  | None => forall n, In n (hash_abs h) -> hn_key n <> name_key bytes
  end.
Proof. exact name_get_correct. Qed.
Print Assumptions C18_name_get_correct.

Theorem C18_name_hash_collision : hash_name name_a = 677318532 /\ hash_name name_b = 677318532 /\ name_key name_a <> name_key name_b.
Proof. exact name_hash_collision. Qed.
Print Assumptions C18_name_hash_collision.

(* any rehash (any row that satisfies the criterion): nothing lost, nothing duplicated, every node reachable from its bucket *)
Theorem C18_hash_rehash_refines : forall primes mok a h pidx, forallb row_ok primes = true -> hash_inv h ->
  hash_inv (snd (hash_rehash primes mok a h pidx)) /\ Permutation (hash_abs (snd (hash_rehash primes mok a h pidx))) (hash_abs h).
Proof. exact hash_rehash_refines. Qed.
Print Assumptions C18_hash_rehash_refines.

Example C18_hash_hypotheses_satisfiable : hash_inv hash_empty /\ hash_arena_inv (arena_init 1024 0) hash_empty.
Proof. split; [exact hash_inv_empty|exact I]. Qed.

(* ================================================================== (5') the block chain at pointer level *)
(* the scan loop of _alloc_oneshot at pointer level (blocks with `next` fields, released blocks leave the heap), chains of ANY
   length: it returns the first following block that is large enough (as the list-level scan of the arena model does), links
   cur to it, leaves the chain from there on untouched and never dereferences a released block *)
Theorem C18_arena_chain_scan_general : forall l fuel h cur next size csz,
  (length l < fuel)%nat -> chain_at h next l -> cfind h cur = Some (mkcb cur next csz) -> cur <> 0 ->
  ~ In cur (map fst l) -> NoDup (map fst l) ->
  let '(h', found) := scan_fixed fuel h cur next size in
  match list_scan size l with
  | [] => found = 0 /\ cfind h' cur = Some (mkcb cur 0 csz)
  | (id, s) :: r => found = id /\ size <= s /\ chain_at h' id ((id, s) :: r) /\ cfind h' cur = Some (mkcb cur id csz)
  end.
Proof. exact scan_fixed_general. Qed.
Print Assumptions C18_arena_chain_scan_general.

(* FALSE of the pinned loop: "after _alloc_oneshot every next pointer of the chain points to a live block" — DESIGN 7.3' witness
   (blocks of 2000, 4048, 8144, 16336 bytes after a soft reset, request of 8000 bytes) *)
Theorem C18_arena_chain_pinned_refuted :
  let '(h, fit) := scan_pinned 10 witness_chain 1 2 8000 in fit = 3 /\ cwalk 10 h 1 = None.
Proof. exact pinned_scan_dangles. Qed.
Print Assumptions C18_arena_chain_pinned_refuted.

(* the repaired loop (fixes/C18-arena-soft-reset.patch) yields exactly the chain of the list model: every chain of 1..6
   blocks with sizes in {1,2,3}, every position of the current block, every request size 1..4 *)
Theorem C18_arena_chain_fixed_small_scope : fixed_all_ok 6 = true.
Proof. exact fixed_scan_small_scope. Qed.
Print Assumptions C18_arena_chain_fixed_small_scope.

(* ================================================================== (6) red-black tree: small scope *)
(* every sequence of at most 6 insert/remove operations over 4 keys, and of at most 5 operations over 6 keys: the in-order
   traversal is the sorted abstract set (keys and node identities), get(k) finds exactly the members, the root is black, no
   red node has a red child, all black heights agree — after insertions AND removals. The unbounded statement is not
   proved; the correspondence run checks the same invariants on the implementation after every operation. *)
Theorem C18_tree_set_and_rb_small_scope : forall ops,
  ((length ops <= 6)%nat /\ Forall (fun o => In o (alphabet 4)) ops -> tcheck 4 (fold_left tapply ops ts_init) = true) /\
  ((length ops <= 5)%nat /\ Forall (fun o => In o (alphabet 6)) ops -> tcheck 6 (fold_left tapply ops ts_init) = true).
Proof. exact tree_small_scope. Qed.
Print Assumptions C18_tree_set_and_rb_small_scope.

(* every order of inserting up to 7 distinct keys out of 7, each followed by every single removal *)
Theorem C18_tree_insert_orders_small_scope : explore_ins 7 7 ts_init = true.
Proof. exact explore_ins_7. Qed.
Print Assumptions C18_tree_insert_orders_small_scope.

(* ================================================================== (7) intrusive list (small scope) and object pool *)
(* every sequence of at most 5 operations (append, prepend, insert_after/before at positions 0..2, unlink at 0..2, pop_first,
   pop): forward walk = textbook list, backward walk = its reverse, first/last/popped nodes are its ends *)
Theorem C18_list_small_scope : forall ops, (length ops <= 5)%nat -> Forall (fun o => In o lalphabet) ops ->
  lcheck (fold_left lapply ops ls_init) = true.
Proof. exact list_small_scope. Qed.
Print Assumptions C18_list_small_scope.

(* ArenaList, lists of ANY length: the node heap with first/last represents a list of distinct non-null node ids (drep: every
   node's prev/next are its neighbours, null at the ends); append / prepend / insert_after / insert_before / unlink /
   pop_first / pop are the textbook operations and the walks in both directions read the list back. The direction-generic C++
   (_list_nodes[dir]) is covered by a mirror symmetry: swapping prev/next and first/last reverses the represented list *)
Theorem C18_list_append : forall d l node, drep d l -> node <> 0 -> ~ In node l -> drep (dl_add d node true) (l ++ [node]).
Proof. exact dl_append_sound. Qed.
Print Assumptions C18_list_append.
Theorem C18_list_prepend : forall d l node, drep d l -> node <> 0 -> ~ In node l -> drep (dl_add d node false) (node :: l).
Proof. exact dl_prepend_sound. Qed.
Print Assumptions C18_list_prepend.
Theorem C18_list_insert_after : forall d l1 ref l2 node, drep d (l1 ++ ref :: l2) -> node <> 0 -> ~ In node (l1 ++ ref :: l2) ->
  drep (dl_insert d ref node true) (l1 ++ ref :: node :: l2).
Proof. exact dl_insert_after_sound. Qed.
Print Assumptions C18_list_insert_after.
Theorem C18_list_insert_before : forall d l1 ref l2 node, drep d (l1 ++ ref :: l2) -> node <> 0 -> ~ In node (l1 ++ ref :: l2) ->
  drep (dl_insert d ref node false) (l1 ++ node :: ref :: l2).
Proof. exact dl_insert_before_sound. Qed.
Print Assumptions C18_list_insert_before.
Theorem C18_list_unlink : forall d l1 node l2, drep d (l1 ++ node :: l2) ->
  drep (dl_unlink d node) (l1 ++ l2) /\ lget (dl_heap (dl_unlink d node)) node = mkln 0 0.
Proof. exact dl_unlink_sound. Qed.
Print Assumptions C18_list_unlink.
Theorem C18_list_pop_first : forall d x r, drep d (x :: r) -> fst (dl_pop_first d) = x /\ drep (snd (dl_pop_first d)) r.
Proof. exact dl_pop_first_sound. Qed.
Print Assumptions C18_list_pop_first.
Theorem C18_list_pop : forall d l x, drep d (l ++ [x]) -> fst (dl_pop d) = x /\ drep (snd (dl_pop d)) l.
Proof. exact dl_pop_sound. Qed.
Print Assumptions C18_list_pop.
Theorem C18_list_walks : forall d l, drep d l -> (length l < 1000)%nat -> dl_forward d = l /\ dl_backward d = rev l.
Proof. exact dl_walks_sound. Qed.
Print Assumptions C18_list_walks.

(* ... for EVERY fuel above the length (the 1000 above is only the fuel of the executable model) *)
Theorem C18_list_walks_any_fuel : forall d l fuel, drep d l -> (length l < fuel)%nat ->
  walk fuel (dl_heap d) (dl_first d) true = l /\ walk fuel (dl_heap d) (dl_last d) false = rev l.
Proof. exact dl_walks_any_fuel. Qed.
Print Assumptions C18_list_walks_any_fuel.

(* ArenaList at full strength (round 5): what the operations do NOT change.  The link words of every node that is neither a
   member of the list nor the node handed to the operation stay exactly as they were, for lists of any length; as a
   consequence a second list kept in the same node heap still represents the same sequence. *)
Theorem C18_list_add_frame : forall d l node dir j, drep d l -> ~ In j l -> j <> node ->
  lget (dl_heap (dl_add d node dir)) j = lget (dl_heap d) j.
Proof. exact dl_add_frame. Qed.
Print Assumptions C18_list_add_frame.

Theorem C18_list_insert_frame : forall d l ref node dir j, drep d l -> In ref l -> ~ In j l -> j <> node -> ~ In node l ->
  lget (dl_heap (dl_insert d ref node dir)) j = lget (dl_heap d) j.
Proof. exact dl_insert_frame. Qed.
Print Assumptions C18_list_insert_frame.

Theorem C18_list_unlink_frame : forall d l node j, drep d l -> In node l -> ~ In j l ->
  lget (dl_heap (dl_unlink d node)) j = lget (dl_heap d) j.
Proof. exact dl_unlink_frame. Qed.
Print Assumptions C18_list_unlink_frame.

Theorem C18_list_pop_frame : forall d l j, drep d l -> l <> [] -> ~ In j l ->
  lget (dl_heap (snd (dl_pop_first d))) j = lget (dl_heap d) j /\ lget (dl_heap (snd (dl_pop d))) j = lget (dl_heap d) j.
Proof. intros d l j H Hne Hj. split; [exact (dl_pop_first_frame d l j H Hne Hj)|exact (dl_pop_frame d l j H Hne Hj)]. Qed.
Print Assumptions C18_list_pop_frame.

Theorem C18_list_add_keeps_other_list : forall d l node dir l' f' t', drep d l -> ~ In node l' -> (forall x, In x l' -> ~ In x l) ->
  drep (mkdl (dl_heap d) f' t') l' -> drep (mkdl (dl_heap (dl_add d node dir)) f' t') l'.
Proof. exact dl_add_keeps_other_list. Qed.
Print Assumptions C18_list_add_keeps_other_list.

(* ArenaList over ANY SEQUENCE of operations (round 6, ListOps.v): preconditions on the textbook list only (new node non-null and
   not a member; reference / unlinked node a member; pops on a non-empty list); the heap always represents the textbook list, and
   from the empty list the forward and backward walks read it and its reverse *)
Theorem C18_list_any_sequence : forall ops d l, drep d l -> dlpres l ops -> drep (fold_left dlstep ops d) (dltext_all l ops).
Proof. exact list_any_sequence. Qed.
Print Assumptions C18_list_any_sequence.

Theorem C18_list_any_sequence_from_empty : forall ops fuel, dlpres [] ops -> (length (dltext_all [] ops) < fuel)%nat ->
  let d := fold_left dlstep ops dlist_empty in
  walk fuel (dl_heap d) (dl_first d) true = dltext_all [] ops /\ walk fuel (dl_heap d) (dl_last d) false = rev (dltext_all [] ops).
Proof. exact list_any_sequence_from_empty. Qed.
Print Assumptions C18_list_any_sequence_from_empty.
Example C18_list_any_sequence_computed :
  let ops := [DApp 5; DApp 6; DPre 4; DInsA 5 7; DInsB 4 8; DUnl 6; DPop; DPopF; DApp 9] in
  dlpres [] ops /\ dltext_all [] ops = [4; 5; 9] /\ dl_forward (fold_left dlstep ops dlist_empty) = [4; 5; 9] /\
  dl_backward (fold_left dlstep ops dlist_empty) = [9; 5; 4].
Proof.
  cbv zeta. split; [|split; [reflexivity|split; vm_compute; reflexivity]].
  cbv [dlpres dlpre dltext app ins_after ins_before rem1 tl removelast Z.eqb Pos.eqb In].
  repeat split; try discriminate; try (intros Hc; intuition discriminate); auto 10.
Qed.

(* ArenaPool: an item comes from the pool (a released, distinct, still live one-shot block) or from the arena *)
Theorem C18_pool_alloc : forall mok a p item, inv a -> 0 < item <= 2 ^ 32 ->
  let sz := ((item + 7) / 8) * 8 in
  pool_inv a p sz ->
  let '(r, a', p') := pool_alloc mok a p item in
  inv a' /\ pool_inv a' p' sz /\
  match r with Some x => In (x, sz) (live a') /\ ~ In x p' | None => p' = p /\ live a' = live a end.
Proof. exact pool_alloc_sound. Qed.
Print Assumptions C18_pool_alloc.

Theorem C18_pool_release : forall a p sz x, pool_inv a p sz -> In (x, sz) (live a) -> ~ In x p -> pool_inv a (pool_release p x) sz.
Proof. exact pool_release_sound. Qed.
Print Assumptions C18_pool_release.

(* ArenaPool over ANY SEQUENCE of allocations and releases (round 6, PoolOps.v).  PInv a p U sz: arena invariant, free list of
   distinct live items, U = the items handed out and not yet released, each a live block of the item size and not in the free
   list.  The pool NEVER hands out an item that is in use (from the free list or fresh from the arena). *)
Theorem C18_pool_never_hands_out_item_in_use : forall mok a p U item, 0 < item <= 2 ^ 32 ->
  let sz := ((item + 7) / 8) * 8 in
  PInv a p U sz ->
  let '(r, a', p') := pool_alloc mok a p item in
  match r with
  | Some x => ~ In x U /\ PInv a' p' (x :: U) sz
  | None => PInv a' p' U sz
  end.
Proof. exact pool_alloc_in_use. Qed.
Print Assumptions C18_pool_never_hands_out_item_in_use.

Theorem C18_pool_release_in_use : forall a p U sz x, PInv a p U sz -> In x U ->
  PInv a (pool_release p x) (urem x U) sz /\ ~ In x (urem x U).
Proof. exact pool_release_in_use. Qed.
Print Assumptions C18_pool_release_in_use.

Theorem C18_pool_any_sequence : forall mok item, 0 < item <= 2 ^ 32 -> forall ops a p U,
  PInv a p U (((item + 7) / 8) * 8) -> ppres mok item (a, p, U) ops ->
  let '(a', p', U') := fold_left (pstep mok item) ops (a, p, U) in PInv a' p' U' (((item + 7) / 8) * 8).
Proof. exact pool_any_sequence. Qed.
Print Assumptions C18_pool_any_sequence.
Example C18_pool_any_sequence_computed :
  let mok := fun _ : Z => true in
  PInv (arena_init 1024 0) [] [] (((24 + 7) / 8) * 8) /\
  (let '(a1, p1, U1) := fold_left (pstep mok 24) [PAlloc; PAlloc] (arena_init 1024 0, [], []) in
   length U1 = 2%nat /\ p1 = [] /\
   let x := hd (mkaddr 0 0) U1 in
   let '(a2, p2, U2) := fold_left (pstep mok 24) [PRel x; PAlloc] (a1, p1, U1) in In x U1 /\ hd (mkaddr 0 0) U2 = x /\ length U2 = 2%nat).
Proof.
  cbv zeta. split; [apply pinv_init; apply inv_init; [vm_compute; intuition discriminate|left; reflexivity]|].
  vm_compute. repeat split; auto.
Qed.

(* ================================================================== several containers sharing one arena *)
(* a step on one vector (any operation, incl. reallocation and release) keeps every OTHER live block of the arena live and,
   if it is a dynamic block, registered *)
Theorem C18_vec_step_frame : forall mok isz st l o, 0 < isz <= 2048 -> vstate_ok isz st l ->
  keeps_others (fst st) (fst (snd (vstep vec_grow_table mok isz st o))) (v_data (snd st)).
Proof. exact vec_step_frame_table. Qed.
Print Assumptions C18_vec_step_frame.

(* hence the invariant of any other vector in the same arena (a different buffer) survives; its cells are a different live
   block (C18_arena_disjoint) *)
Theorem C18_vec_other_vector_survives : forall mok isz st l o u, 0 < isz <= 2048 -> vstate_ok isz st l ->
  vec_inv isz (fst st) u -> (forall p, v_data u = Some p -> v_data (snd st) <> Some p) ->
  vec_inv isz (fst (snd (vstep vec_grow_table mok isz st o))) u.
Proof. exact vec_step_other_vector_table. Qed.
Print Assumptions C18_vec_other_vector_survives.

(* ================================================================== (1') BitVectorRangeIterator (jitallocator.cpp), small scope *)
(* word size 4 (the model is generic in the word size): every vector of 1..2 words with every 0 <= start <= end <= bits, every
   vector of 3 words with end = 12, hints 1/2/5/100, both polarities: the ranges are exactly the maximal runs of B-bits in
   [start, end), split only at a word boundary once the hint is reached — provided no B-bit lies between `end` and the end
   of its word *)
Theorem C18_range_iterator_small_scope : explore_n 1 false = true /\ explore_n 2 false = true /\ explore_n 3 true = true.
Proof. exact range_iter_small_scope. Qed.
Print Assumptions C18_range_iterator_small_scope.

(* FALSE without the proviso: one word 1000b, 1-bits searched in [0, 2): the iterator reports the inverted "range" (3, 2) *)
Theorem C18_range_iterator_unaligned_end_refuted : ranges W4 true [8] 0 2 100 = [(3, 2)].
Proof. exact range_iter_unaligned_end_refuted. Qed.
Print Assumptions C18_range_iterator_unaligned_end_refuted.

(* EVERY word size W > 0, the word-level core of BitVectorRangeIterator::next_range: i = ctz(w) starts the first run of set
   bits of the iterator word; bw = ~(w ^ ~(ones << i)) is zero exactly when the run reaches the end of the word; otherwise
   j = ctz(bw) is the first clear bit above i (the run is [i, j)) and the word left in the iterator has exactly the bits of w
   from j on. (The loops around this step: C18_range_iterator_skip / _extend, and their composition C18_range_iterator_next / _all_ranges below, for every W.) *)
Theorem C18_range_iterator_word_run : forall W w, 0 < W -> word_ok W w -> w <> 0 ->
  let i := ctz w in
  let bw := wlnot W (Z.lxor w (wlnot W (shl_ones W i))) in
  0 <= i < W /\ Z.testbit w i = true /\ (forall k, 0 <= k < i -> Z.testbit w k = false) /\ word_ok W bw /\
  (bw = 0 <-> forall k, i <= k < W -> Z.testbit w k = true) /\
  (bw <> 0 ->
     let j := ctz bw in
     let w' := wlnot W (Z.lxor bw (wlnot W (shl_ones W j))) in
     i < j < W /\ (forall k, i <= k < j -> Z.testbit w k = true) /\ Z.testbit w j = false /\ word_ok W w' /\
     forall k, 0 <= k -> Z.testbit w' k = (j <=? k) && Z.testbit w k).
Proof. exact range_word_run. Qed.
Print Assumptions C18_range_iterator_word_run.

(* the word init() starts with: the B-bits of the first word from bit (start mod W) on *)
Theorem C18_range_iterator_init_word : forall W (b : bool) x s, 0 < W -> word_ok W x -> 0 <= s < W ->
  let w0 := Z.land (Z.lxor x (xor_mask W b)) (shl_ones W s) in
  word_ok W w0 /\ forall k, 0 <= k < W -> Z.testbit w0 k = (s <=? k) && Bool.eqb (Z.testbit x k) b.
Proof. exact range_init_word. Qed.
Print Assumptions C18_range_iterator_init_word.

(* the loop that skips empty words, every W and vectors of any length: it stops at the first word (from the current one on) whose
   B-bits are not all consumed; every word passed is empty; the index advances by W per word and stays below `end` *)
Theorem C18_range_iterator_skip : forall W (b : bool) ws fuel it it', ri_skip fuel W b ws it = Some it' ->
  ri_word it' <> 0 /\ ri_end it' = ri_end it /\
  exists k, 0 <= k /\ ri_idx it' = ri_idx it + W * k /\ ri_ptr it' = ri_ptr it + k /\
    (k = 0 -> it' = it) /\
    (0 < k -> ri_word it = 0 /\ ri_word it' = mword W b ws (ri_ptr it + k) /\ ri_idx it' < ri_end it) /\
    (forall j, 0 < j < k -> mword W b ws (ri_ptr it + j) = 0).
Proof. exact ri_skip_spec. Qed.
Print Assumptions C18_range_iterator_skip.

(* the loop that extends a range over following full words (round 5), for every word width, any number of words and any fuel:
   it walks over k >= 0 words that are all ones after the xor mask, each starting before end, and stops in exactly one of
   three ways: (a) hint reached (or fuel): the range ends with the last full word, clamped to end; (b) the data ends: same
   range end and the index is moved past end; (c) the next word is not full: the range ends at its first zero bit j, clamped,
   and the iterator keeps that word with bits [0, j) cleared. *)
Theorem C18_range_iterator_extend : forall W (b : bool) ws fuel it rstart rend hint it' rend',
  ri_extend fuel W b ws it rstart rend hint = (it', rend') ->
  ri_end it' = ri_end it /\
  exists k, 0 <= k /\
    (forall j, 0 < j <= k -> mword W b ws (ri_ptr it + j) = Z.ones W /\ ri_idx it + W * j < ri_end it) /\
    let rk := if k =? 0 then rend else Z.min (ri_idx it + W * k + W) (ri_end it) in
    ((it' = (if k =? 0 then it else mkri (ri_ptr it + k) (ri_idx it + W * k) (ri_end it) 0) /\ rend' = rk)
     \/ (ri_idx it + W * k + W >= ri_end it /\
         it' = mkri (ri_ptr it + k) (ri_idx it + W * k + W) (ri_end it) (if k =? 0 then ri_word it else 0) /\ rend' = rk)
     \/ (ri_idx it + W * k + W < ri_end it /\ mword W b ws (ri_ptr it + k + 1) <> Z.ones W /\
         let bw := mword W b ws (ri_ptr it + k + 1) in let j := ctz (wlnot W bw) in
         it' = mkri (ri_ptr it + k + 1) (ri_idx it + W * k + W) (ri_end it) (Z.lxor bw (wlnot W (shl_ones W j))) /\
         rend' = Z.min (ri_idx it + W * k + W + j) (ri_end it))).
Proof. exact ri_extend_spec. Qed.
Print Assumptions C18_range_iterator_extend.
(* non-vacuity: 4-bit words 1111 1111 0111, the range that started in word 0 runs over word 1 and ends at bit 11 (exit c, k = 1);
   with hint 5 the loop stops after word 1 (exit a); with end = 8 the data ends after word 1 (exit b) *)
Example C18_range_iterator_extend_computed :
  ri_extend 10 4 true [15; 15; 7] (mkri 0 0 12 0) 0 4 100 = (mkri 2 8 12 0, 11) /\
  ri_extend 10 4 true [15; 15; 7] (mkri 0 0 12 0) 0 4 5 = (mkri 1 4 12 0, 8) /\
  ri_extend 10 4 true [15; 15; 7] (mkri 0 0 8 0) 0 4 100 = (mkri 1 8 8 0, 8).
Proof. vm_compute. auto. Qed.

(* ONE CALL of next_range and the WHOLE iteration, for every word width (round 5; RangeIterCompose.v).  Positions are W*p + k;
   `run lo hi v`: every position of [lo, hi) holds b (v = true) / does not hold b (v = false); `Inv it c`: index and word pointer
   agree and the iterator word holds exactly the not-yet-reported b-bits of its word at or above the cursor c.
   A call that answers true reports [s, e) with: no b in [c, s); b everywhere in [s, e0); e = min e0 end; and the iterator is
   left with cursor e0 where (1) position e0 does not hold b (the run is maximal), or (2) the run was cut at a word boundary by
   the hint, or (3) the data ended.  A call that answers false: no b in [c, end). *)
Theorem C18_range_iterator_next : forall W (b : bool) ws, 0 < W -> (forall p, word_ok W (mword W b ws p)) ->
  forall it c hint s e it', Inv W b ws it c -> ri_next W b ws it hint = Some (s, e, it') ->
  exists e0, c <= s < e0 /\ run W b ws c s false /\ run W b ws s e0 true /\ e = Z.min e0 (ri_end it) /\ ri_end it' = ri_end it /\
   ((Inv W b ws it' e0 /\ exists p k, 0 <= k < W /\ e0 = W * p + k /\ Z.testbit (mword W b ws p) k = false)
    \/ (Inv W b ws it' e0 /\ ri_word it' = 0)
    \/ (ri_word it' = 0 /\ ri_idx it' >= ri_end it' /\ e0 >= ri_end it)).
Proof. exact next_inv. Qed.
Print Assumptions C18_range_iterator_next.

Theorem C18_range_iterator_next_none : forall W (b : bool) ws, 0 < W -> forall it c hint,
  Inv W b ws it c -> 0 <= ri_ptr it -> ri_end it <= W * zlen ws -> ri_next W b ws it hint = None -> run W b ws c (ri_end it) false.
Proof. exact next_none. Qed.
Print Assumptions C18_range_iterator_next_none.

(* the whole list of ranges from init(start, end): increasing, separated by positions that do not hold b, each made of
   positions that hold b (chain: each range satisfies the clauses above and the next search starts at its unclipped end) *)
Theorem C18_range_iterator_all_ranges : forall W (b : bool) ws start end_ hint, 0 < W -> words_ok W ws -> 0 <= start ->
  (start / W) * W < end_ -> chain W b ws start end_ (ranges W b ws start end_ hint).
Proof. exact ranges_sound. Qed.
Print Assumptions C18_range_iterator_all_ranges.
(* ... and COMPLETE: when end lies inside the vector, the fuel of `ranges` always suffices (every call moves the cursor forward),
   and after the last range no position up to end holds b (chainc = chain + that final clause) *)
Theorem C18_range_iterator_all_ranges_complete : forall W (b : bool) ws start end_ hint, 0 < W -> words_ok W ws -> 0 <= start ->
  (start / W) * W < end_ -> end_ <= W * zlen ws -> chainc W b ws start end_ (ranges W b ws start end_ hint).
Proof. exact ranges_sound_complete. Qed.
Print Assumptions C18_range_iterator_all_ranges_complete.
(* where the reported range lies relative to `end` (round 6).  Live: an iterator with a non-empty word stands on a word that
   starts before end.  Besides everything C18_range_iterator_next says, the range starts in a word q that starts before end and
   its unclipped end e0 is at most the end of a word q' that starts before end; Live is kept.  So s < e <= end unless the run
   starts at or after end inside the last, partial word (the recorded inverted range) ... *)
Theorem C18_range_iterator_next_bounds : forall W (b : bool) ws, 0 < W -> (forall p, word_ok W (mword W b ws p)) ->
  forall it c hint s e it', Inv W b ws it c -> Live it -> ri_next W b ws it hint = Some (s, e, it') ->
  exists e0, c <= s < e0 /\ run W b ws c s false /\ run W b ws s e0 true /\ e = Z.min e0 (ri_end it) /\ ri_end it' = ri_end it /\
   ((Inv W b ws it' e0 /\ exists p k, 0 <= k < W /\ e0 = W * p + k /\ Z.testbit (mword W b ws p) k = false)
    \/ (Inv W b ws it' e0 /\ ri_word it' = 0)
    \/ (ri_word it' = 0 /\ ri_idx it' >= ri_end it' /\ e0 >= ri_end it)) /\
   Live it' /\
   exists q q', W * q <= s < W * q + W /\ W * q < ri_end it /\ W * q' < ri_end it /\ e0 <= W * q' + W.
Proof. exact next_inv2. Qed.
Print Assumptions C18_range_iterator_next_bounds.

(* ... and when end is a multiple of the word width (whole words, as JitAllocator uses it) NOTHING is clipped: the reported list
   is exactly increasing ranges [s, e) inside [start, end), b at every position of a range, no b between them nor after the
   last one up to end (chaina) *)
Theorem C18_range_iterator_aligned_end : forall W (b : bool) ws start m hint, 0 < W -> words_ok W ws -> 0 <= start < W * m ->
  m <= zlen ws -> chaina W b ws start (W * m) (ranges W b ws start (W * m) hint).
Proof. exact ranges_aligned_sound. Qed.
Print Assumptions C18_range_iterator_aligned_end.

(* ... and MAXIMAL: when moreover the hint exceeds end (the default hint is SIZE_MAX) the extend loop is never cut, every reported
   range ends at end or at a position that does not hold b, so the reported ranges are exactly the maximal runs of b in
   [start, end) (chainx = chaina + that clause) *)
Theorem C18_range_iterator_maximal_runs : forall W (b : bool) ws start m hint, 0 < W -> words_ok W ws -> 0 <= start < W * m ->
  m <= zlen ws -> W * m < hint -> W * m < 2 ^ 64 -> chainx W b ws start (W * m) (ranges W b ws start (W * m) hint).
Proof. exact ranges_aligned_max_sound. Qed.
Print Assumptions C18_range_iterator_maximal_runs.

(* ... and for ANY hint (JitAllocator passes the number of blocks it needs): a reported range ends at end, at a position that does
   not hold b, or it has reached the hint (hint <= e - s) - only then may a run of b be cut (chainh) *)
Theorem C18_range_iterator_any_hint : forall W (b : bool) ws start m hint, 0 < W -> words_ok W ws -> 0 <= start < W * m ->
  m <= zlen ws -> W * m < 2 ^ 64 -> chainh W b ws hint start (W * m) (ranges W b ws start (W * m) hint).
Proof. exact ranges_aligned_hint_sound. Qed.
Print Assumptions C18_range_iterator_any_hint.
(* non-vacuity: the hypotheses hold for the 4-bit words 0110 1111 0001, and the computed answers *)
Example C18_range_iterator_all_ranges_computed :
  words_ok 4 [6; 15; 1] /\ 12 <= 4 * zlen [6; 15; 1] /\ 3 <= zlen [6; 15; 1] /\ Live (ri_init 4 true [6; 15; 1] 0 12) /\ Inv 4 true [6; 15; 1] (ri_init 4 true [6; 15; 1] 0 12) 0 /\
  ranges 4 true [6; 15; 1] 0 12 100 = [(1, 3); (4, 9)] /\ ranges 4 true [6; 15; 1] 0 12 2 = [(1, 3); (4, 8); (8, 9)] /\
  ranges 4 false [6; 15; 1] 2 12 100 = [(3, 4); (9, 12)].
Proof.
  assert (H : words_ok 4 [6; 15; 1]) by (repeat constructor; cbv; intuition discriminate).
  split; [exact H|]. split; [discriminate|]. split; [discriminate|]. split; [apply init_live|]. split; [apply init_inv; [reflexivity|apply mword_ok; [reflexivity|exact H]|discriminate|reflexivity]|].
  vm_compute. auto.
Qed.

(* ================================================================== (6') red-black tree: unbounded semantics of every checked state *)
(* for a node heap of ANY size: if the state checker (evaluated by the model driver after every operation of the
   correspondence run) accepts, then get finds exactly the members, the in-order traversal is the strictly sorted key list,
   the root is black, the black height is the same on all paths with no red node having a red child, and the height is at
   most twice (black height - 1). That insert/remove always produce an accepted state is proved in small scope only. *)
Theorem C18_tree_checked_state_semantics : forall t, tree_state_ok t = true ->
  exists a b, rep (heap t) (root t) a /\
    (forall k, tree_get t k <> 0 <-> In k (tree_keys t)) /\
    (forall k, tree_get t k = lookup a k) /\
    tree_keys t = bkeys a /\ tree_inorder t = bflat a /\ sortedb (tree_keys t) = true /\
    bred a = false /\ bbh a = Some b /\ Z.of_nat (bheight a) <= 2 * (b - 1).
Proof. exact tree_state_ok_sound. Qed.
Print Assumptions C18_tree_checked_state_semantics.

(* ================================================================== the world: several vectors in ONE arena *)
(* any number of vectors share one arena; a step is an operation on one of them (append, insert, remove, pop, clear, truncate,
   reserve*, resize*, release, or an allocation by another user of the arena) or a soft/hard reset of the arena (after which
   every container is reset). After the step: the arena invariant holds, EVERY vector satisfies its invariant (its buffer is
   a live block of the arena of the right release class), the buffers of different vectors are different blocks, the
   stepped vector holds the textbook result (unchanged on kOutOfMemory) and every other vector holds what it held *)
Theorem C18_world_step_refines : forall mok isz w ls op, 0 < isz <= 2048 -> world_ok isz w ls -> wop_ok w op ->
  let r := wstep vec_grow_table mok isz w op in
  (fst r = EOk \/ fst r = EOutOfMemory) /\ world_ok isz (snd r) (lsstep ls op (fst r)).
Proof. exact world_step_refines_table. Qed.
Print Assumptions C18_world_step_refines.

(* every interleaving (a foreign release — a block of another container: hash table, bit set, pool ... — must be a valid
   release of a live block that is not a vector's buffer: wop_ok) *)
Theorem C18_world_ops_refine_lists : forall mok isz ops w ls, 0 < isz <= 2048 -> world_ok isz w ls ->
  wvalid vec_grow_table mok isz w ops ->
  world_ok isz (fst (wrun vec_grow_table mok isz w ls ops)) (snd (wrun vec_grow_table mok isz w ls ops)).
Proof. exact world_run_refines_table. Qed.
Print Assumptions C18_world_ops_refine_lists.

Example C18_world_hypotheses_satisfiable : world_ok 4 (mkw (arena_init 1024 0) (repeat vec_empty 3)) (repeat [] 3).
Proof. apply world_ok_initial; [vm_compute; intuition discriminate|left; reflexivity]. Qed.

(* ------------------------------------------------------------------ all containers in one arena: any number of vectors AND hash
   tables share one arena; vector operations, hash inserts (with rehash and release of the old bucket array), hash
   removes, foreign releases and arena resets (soft or hard) are interleaved in any order, with any malloc behaviour.
   After every step: the arena invariant holds, every vector and every hash table satisfies its own invariant against
   the shared arena (its buffer / bucket array is a live block of the right release class), and no two containers own
   the same block *)
Theorem C18_world2_step_ok : forall mok isz w op, 0 < isz <= 2048 -> world2_ok isz w -> w2op_ok w op ->
  let r := w2step vec_grow_table hash_primes mok isz w op in
  (fst r = EOk \/ fst r = EOutOfMemory) /\ world2_ok isz (snd r).
Proof. exact (fun mok isz w op H => w2step_ok vec_grow_table hash_primes mok isz w op vec_grow_table_ok hash_primes_ok H). Qed.
Print Assumptions C18_world2_step_ok.

Theorem C18_world2_any_interleaving : forall mok isz ops w, 0 < isz <= 2048 -> world2_ok isz w ->
  w2valid vec_grow_table hash_primes mok isz w ops -> world2_ok isz (w2run vec_grow_table hash_primes mok isz w ops).
Proof. exact (fun mok isz ops w H => w2run_ok vec_grow_table hash_primes mok isz ops vec_grow_table_ok hash_primes_ok H w). Qed.
Print Assumptions C18_world2_any_interleaving.

Example C18_world2_hypotheses_satisfiable : world2_ok 4 (mkw2 (arena_init 1024 0) (repeat vec_empty 3) (repeat hash_empty 2)).
Proof. apply world2_ok_initial; [vm_compute; intuition discriminate|left; reflexivity]. Qed.

(* ================================================================== Arena::dup *)
Theorem C18_arena_dup : forall mok a data nt, inv a -> 0 < Z.of_nat (length data) < 2 ^ 63 ->
  let r := arena_dup mok a data nt in
  inv (snd r) /\
  match fst r with
  | Some (p, bytes) => exists asz, In (p, asz) (live (snd r)) /\ Forall (disjoint (p, asz)) (regions a) /\ a_off p mod 8 = 0 /\
                         Z.of_nat (length bytes) = asz /\ Z.of_nat (length data) + (if nt then 1 else 0) <= asz /\
                         firstn (length data) bytes = data /\ Forall (fun b => b = 0) (skipn (length data) bytes)
  | None => live (snd r) = live a
  end.
Proof. exact arena_dup_sound. Qed.
Print Assumptions C18_arena_dup.

(* Arena::sformat (model = code with fixes/C18-arena-sformat-overflow.patch; the pinned code indexes its 512-byte stack buffer
   with the length of the COMPLETE output: finding C18/arena/sformat-overflows-stack-buffer): a fresh live block with the first
   min(length, 510) characters, a terminator and zero padding *)
Theorem C18_arena_sformat : forall mok a text, inv a ->
  let r := arena_sformat mok a text in
  let kept := firstn 510 text in
  inv (snd r) /\
  match fst r with
  | Some (p, bytes) => exists asz, In (p, asz) (live (snd r)) /\ Forall (disjoint (p, asz)) (regions a) /\ a_off p mod 8 = 0 /\
                         Z.of_nat (length bytes) = asz /\ Z.of_nat (length kept) + 1 <= asz /\ (length kept <= 510)%nat /\
                         firstn (length kept) bytes = kept /\ Forall (fun b => b = 0) (skipn (length kept) bytes)
  | None => live (snd r) = live a
  end.
Proof. exact arena_sformat_sound. Qed.
Print Assumptions C18_arena_sformat.

(* ArenaString<N>::set_data *)
Theorem C18_arena_string_set : forall mok a maxe data, inv a -> 0 <= maxe -> Z.of_nat (length data) < 2 ^ 63 ->
  let r := arena_string_set mok a maxe data in
  inv (snd r) /\
  match fst r with
  | Some (None, bytes) => Z.of_nat (length data) <= maxe /\ bytes = data ++ [0] /\ snd r = a
  | Some (Some p, bytes) => maxe < Z.of_nat (length data) /\
      exists asz, In (p, asz) (live (snd r)) /\ Forall (disjoint (p, asz)) (regions a) /\ Z.of_nat (length bytes) = asz /\
        Z.of_nat (length data) + 1 <= asz /\ firstn (length data) bytes = data /\ Forall (fun b => b = 0) (skipn (length data) bytes)
  | None => maxe < Z.of_nat (length data) /\ live (snd r) = live a
  end.
Proof. exact arena_string_set_sound. Qed.
Print Assumptions C18_arena_string_set.

(* ================================================================== ArenaBitSet: growing (second half of _resize) *)
(* for every old and new size and whatever the uninitialised words hold: every old bit keeps its value, every new bit gets the
   requested value (model = code with fixes/C18-bitset-resize-grow.patch; the pinned code violates both) *)
Theorem C18_bitset_grow_bits : forall ws old_size new_size v j, 0 <= old_size < new_size -> new_size <= 64 * zlength ws ->
  tail_clear ws old_size -> 0 <= j < new_size ->
  bv_get 64 (grow_words ws old_size new_size v) j = if j <? old_size then bv_get 64 ws j else v.
Proof. exact grow_words_get. Qed.
Print Assumptions C18_bitset_grow_bits.

(* and the unused bits of the new last word are clear (the precondition of the next resize) *)
Theorem C18_bitset_grow_tail : forall ws old_size new_size v, 0 <= old_size < new_size -> new_size <= 64 * zlength ws ->
  tail_clear (grow_words ws old_size new_size v) new_size.
Proof. exact grow_words_tail. Qed.
Print Assumptions C18_bitset_grow_tail.

(* ================================================================== (6'') tree: building blocks of the unbounded proof *)
(* frame rule: a heap update outside the nodes of a subtree does not change what the subtree represents *)
Theorem C18_tree_rep_frame : forall h h' t n, (forall id, In id (bids t) -> hget h' id = hget h id) -> rep h n t -> rep h' n t.
Proof. exact rep_frame. Qed.
Print Assumptions C18_tree_rep_frame.

(* _single_rotate on ANY heap representing a tree with distinct node ids: the result represents the rotated tree (same keys in
   the same in-order sequence, same nodes, old root red, new root black) and no other node of the heap is touched *)
Theorem C18_tree_single_rotate : forall h n t dir t', rep h n t -> NoDup (bids t) -> ids_pos t -> rot t dir = Some t' ->
  let '(h', n') := single_rotate h n dir in
  rep h' n' t' /\ (forall id, ~ In id (bids t) -> hget h' id = hget h id).
Proof. exact single_rotate_rep. Qed.
Print Assumptions C18_tree_single_rotate.

Theorem C18_tree_rotation_keeps_inorder : forall t dir t', rot t dir = Some t' -> bkeys t' = bkeys t /\ bids t' = bids t.
Proof. exact rot_keys. Qed.
Print Assumptions C18_tree_rotation_keeps_inorder.

(* _double_rotate on ANY heap: the result represents the doubly rotated tree (same in-order sequence, same nodes), no other
   node of the heap is touched *)
Theorem C18_tree_double_rotate : forall h n t dir t', rep h n t -> NoDup (bids t) -> ids_pos t -> drot t dir = Some t' ->
  let '(h', n') := double_rotate h n dir in
  rep h' n' t' /\ (forall id, ~ In id (bids t) -> hget h' id = hget h id).
Proof. exact double_rotate_rep. Qed.
Print Assumptions C18_tree_double_rotate.

Theorem C18_tree_double_rotation_keeps_inorder : forall t dir t', drot t dir = Some t' -> bkeys t' = bkeys t /\ bids t' = bids t.
Proof. exact drot_keys. Qed.
Print Assumptions C18_tree_double_rotation_keeps_inorder.

(* _make_red / _make_black on ANY heap: only the colour of that node changes in the represented tree *)
Theorem C18_tree_recolor : forall h x c, 0 < x -> forall t n, rep h n t -> rep (set_red h x c) n (recolor t x c).
Proof. exact set_red_rep. Qed.
Print Assumptions C18_tree_recolor.

Theorem C18_tree_recolor_keeps_inorder : forall t x c, bkeys (recolor t x c) = bkeys t /\ bids (recolor t x c) = bids t.
Proof. exact recolor_keys. Qed.
Print Assumptions C18_tree_recolor_keeps_inorder.

(* linking a fresh red leaf into an empty child slot (the last step of insert) on ANY heap *)
Theorem C18_tree_link_leaf : forall h p l rp kp r node k (dir : bool),
  rep h p (BN l p rp kp r) -> NoDup (bids (BN l p rp kp r)) -> 0 < p -> 0 < node -> ~ In node (bids (BN l p rp kp r)) ->
  (if dir then r = BL else l = BL) ->
  let h0 := hset h node (mktn 0 0 true k) in
  let h' := set_child h0 p dir node in
  rep h' p (if dir then BN l p rp kp (leaf node k) else BN (leaf node k) p rp kp r) /\
  (forall id, id <> p -> id <> node -> hget h' id = hget h id).
Proof. exact link_leaf_rep. Qed.
Print Assumptions C18_tree_link_leaf.

(* ================================================================== ArenaTree::insert, trees of ANY size (the model's loop fuel of 200
   iterations bounds the height by 98, i.e. more than 2^48 nodes).
   (1) the top-down insertion as a function on abstract trees (link / colour flip / single or double rotation / descent, one
       step per iteration of the C++ loop): the result is a red-black tree (black root, equal black heights, no red node with a
       red child) whose in-order key sequence is the old one with the new key at its sorted place *)
Theorem C18_tree_insert_abstract : forall node kn fuel T b,
  bbh T = Some b -> bred T = false -> T <> BL -> (2 * bheight T + 1 < fuel)%nat ->
  exists R, zinsert node kn fuel T = Some R /\ bred R = false /\ (bbh R = Some b \/ bbh R = Some (b + 1)) /\
    (sortedb (bkeys T) = true -> ~ In kn (bkeys T) ->
       sortedb (bkeys R) = true /\ exists L Rr, bkeys T = L ++ Rr /\ bkeys R = L ++ kn :: Rr) /\
    (exists L Rr, bids T = L ++ Rr /\ bids R = L ++ node :: Rr).
Proof. exact zinsert_correct. Qed.
Print Assumptions C18_tree_insert_abstract.

(* (2) the loop over the node heap (variables g, p, t, q, dir, last as in the C++) simulates that function iteration by
       iteration, from any state of the loop invariant (the path from the false root to q and the subtree below q are
       represented in the heap; g and t may lag behind for one or two iterations after a rotation, during which the guards of
       the invariant exclude another rotation) *)
Theorem C18_tree_insert_loop_simulates : forall node kn fuel m zs F h g p t q dir last,
  AInv node kn m zs F -> repz h zs q -> rep h q F -> Hyg node zs F -> 1 < node -> hget h node = mktn 0 0 true kn ->
  vars_ok m zs g p t dir last -> (zs = [] -> F <> BL) -> (pot node kn m F < fuel)%nat ->
  exists R, zloop node kn fuel m zs F = Some R /\
    rep (insert_loop fuel h node g p t q dir last) (child (insert_loop fuel h node g p t q dir last) HEAD true) R /\
    (forall i, ~ In i (bids (plug zs F)) -> i <> HEAD -> i <> node -> hget (insert_loop fuel h node g p t q dir last) i = hget h i).
Proof. exact insert_loop_sim. Qed.
Print Assumptions C18_tree_insert_loop_simulates.

(* (3) ArenaTree::insert on a heap that represents a red-black search tree T (distinct node ids, the new node not among them):
       the heap afterwards represents a red-black search tree R — black root, black height b', height <= 2(b'-1) — whose key
       sequence is that of T with the new key inserted at its sorted place; get() finds exactly the old keys and the new one;
       the node set is the old one plus the new node *)
Theorem C18_tree_insert_unbounded : forall node kn t T b,
  rep (heap t) (root t) T -> NoDup (bids T) -> (forall i, In i (bids T) -> 1 < i /\ i <> node) -> 1 < node ->
  bbh T = Some b -> bred T = false -> sortedb (bkeys T) = true -> ~ In kn (bkeys T) -> (bheight T < 98)%nat ->
  let t' := tree_insert t node kn in
  exists R b', rep (heap t') (root t') R /\
    bred R = false /\ bbh R = Some b' /\ Z.of_nat (bheight R) <= 2 * (b' - 1) /\
    tree_keys t = bkeys T /\ tree_keys t' = bkeys R /\ sortedb (tree_keys t') = true /\
    (exists L Rr, tree_keys t = L ++ Rr /\ tree_keys t' = L ++ kn :: Rr) /\
    (forall k, tree_get t' k <> 0 <-> k = kn \/ In k (tree_keys t)) /\
    NoDup (bids R) /\ (forall i, In i (bids R) <-> i = node \/ In i (bids T)).
Proof. exact tree_insert_unbounded. Qed.
Print Assumptions C18_tree_insert_unbounded.

(* ================================================================== ArenaTree::remove, trees of ANY size: the top-down removal
   ("search and push a red down": single rotation at q, colour flip, single/double rotation at p, one step per iteration of
   the C++ loop; then unlink the bottom node q and put q in the place of the found node) as a function on abstract trees:
   every intermediate tree obeys the red-black rules, the loop ends at a red leaf or at the only node, the result is a
   red-black tree with a black root whose in-order key sequence is the old one without the removed key.
   (That the node-heap loop of the model computes this function is C18_tree_remove_loop_simulates / C18_tree_remove_unbounded
   below; the model driver additionally re-checks the agreement on every executed remove: TreeAgreeModel.remove_agrees.) *)
Theorem C18_tree_remove_abstract : forall kn fuel T b,
  bbh T = Some b -> sortedb (bkeys T) = true -> In kn (bkeys T) -> (S (bheight T) < fuel)%nat ->
  exists R, zremove kn fuel T = Some R /\ (exists b', bbh R = Some b') /\ bred R = false /\
    exists L Rr, bkeys T = L ++ kn :: Rr /\ bkeys R = L ++ Rr /\ sortedb (bkeys R) = true.
Proof. exact zremove_correct. Qed.
Print Assumptions C18_tree_remove_abstract.

(* the invariant of the removal loop, step by step *)
Theorem C18_tree_remove_step_invariant : forall kn s s', RAll kn s -> rstep kn s = Some s' ->
  RAll kn s' /\ bkeys (whole s') = bkeys (whole s) /\ bids (whole s') = bids (whole s) /\ (rmeasure kn s' < rmeasure kn s)%nat.
Proof. exact rstep_all. Qed.
Print Assumptions C18_tree_remove_step_invariant.

(* the loop over the node heap (variables g, p, q, f, gf, dir as in the C++) simulates the abstract steps: the state relation
   Rrel (path + subtree below q represented in the heap, p the path head, the found node f and the start gf of the final re-link
   walk — null, the false root or a path node strictly above f) is kept by every iteration and the loop stops where the abstract
   loop stops *)
Theorem C18_tree_remove_loop_simulates : forall node kn fuel s h g p q dir f gf,
  RAll kn s -> Rrel node kn h s p q dir f gf -> (rmeasure kn s < fuel)%nat ->
  exists e h' g' p' q' f' gf' dir',
    rloop kn fuel s = Some e /\ remove_loop fuel h node g p q f gf dir = (h', (g', p', q', f', gf')) /\
    Rrel node kn h' e p' q' dir' f' gf' /\ RAll kn e /\ rstep kn e = None /\
    bkeys (whole e) = bkeys (whole s) /\ bids (whole e) = bids (whole s) /\
    (forall i, ~ In i (bids (whole s)) -> i <> HEAD -> hget h' i = hget h i).
Proof. exact remove_loop_sim. Qed.
Print Assumptions C18_tree_remove_loop_simulates.

(* ArenaTree::remove(node) on a heap that represents a red-black search tree T containing the node: the heap afterwards
   represents the tree computed by the abstract removal (loop, unlink of the bottom node q, re-link of q in the place of the
   found node by the walk from gf); distinct node ids *)
Theorem C18_tree_remove_refines : forall t T b node,
  rep (heap t) (root t) T -> NoDup (bids T) -> (forall i, In i (bids T) -> 1 < i) -> In node (bids T) ->
  bbh T = Some b -> sortedb (bkeys T) = true -> (bheight T < 98)%nat ->
  let kn := key (heap t) node in
  let t' := tree_remove t node in
  exists R, zremove kn 200 T = Some R /\ rep (heap t') (root t') R /\ NoDup (bids R) /\ (forall i, In i (bids R) -> 1 < i) /\
    (forall i, In i (bids R) -> In i (bids T)) /\
    (forall i, ~ In i (bids T) -> i <> HEAD -> hget (heap t') i = hget (heap t) i).
Proof. exact tree_remove_refines. Qed.
Print Assumptions C18_tree_remove_refines.

(* ... and in terms of the reading functions: red-black rules (black root, black height b', height <= 2(b'-1)), tree_keys
   loses exactly the key of the removed node and stays sorted, get() finds exactly the remaining keys *)
Theorem C18_tree_remove_unbounded : forall t T b node,
  rep (heap t) (root t) T -> NoDup (bids T) -> (forall i, In i (bids T) -> 1 < i) -> In node (bids T) ->
  bbh T = Some b -> sortedb (bkeys T) = true -> (bheight T < 98)%nat ->
  let kn := key (heap t) node in
  let t' := tree_remove t node in
  exists R b', rep (heap t') (root t') R /\
    bred R = false /\ bbh R = Some b' /\ Z.of_nat (bheight R) <= 2 * (b' - 1) /\
    tree_keys t = bkeys T /\ tree_keys t' = bkeys R /\ sortedb (tree_keys t') = true /\
    (exists L Rr, tree_keys t = L ++ kn :: Rr /\ tree_keys t' = L ++ Rr) /\
    (forall k, tree_get t' k <> 0 <-> In k (tree_keys t')) /\
    NoDup (bids R).
Proof. exact tree_remove_unbounded. Qed.
Print Assumptions C18_tree_remove_unbounded.

(* NO bound on the height: the loops of the C++ have no fuel; the model's loops take a fuel, and for EVERY tree every fuel above
   twice its height (+2) gives these statements (tree_insert / tree_remove of the executable model are the instances fuel = 200);
   the reading loops (get, in-order) likewise agree with the abstract tree for every fuel above the height of the result *)
Theorem C18_tree_insert_any_height : forall node kn fuel t T b,
  rep (heap t) (root t) T -> NoDup (bids T) -> (forall i, In i (bids T) -> 1 < i /\ i <> node) -> 1 < node ->
  bbh T = Some b -> bred T = false -> sortedb (bkeys T) = true -> ~ In kn (bkeys T) -> (2 * bheight T + 1 < fuel)%nat ->
  let t' := tree_insert_f fuel t node kn in
  exists R b', rep (heap t') (root t') R /\
    bred R = false /\ bbh R = Some b' /\ Z.of_nat (bheight R) <= 2 * (b' - 1) /\
    sortedb (bkeys R) = true /\ (exists L Rr, bkeys T = L ++ Rr /\ bkeys R = L ++ kn :: Rr) /\
    (forall k, lookup R k <> 0 <-> k = kn \/ In k (bkeys T)) /\
    (forall f', (bheight R < f')%nat ->
       (forall k, get_loop f' (heap t') (root t') k = lookup R k) /\ inorder f' (heap t') (root t') = bflat R) /\
    NoDup (bids R) /\ (forall i, In i (bids R) <-> i = node \/ In i (bids T)) /\
    (* what does NOT change: every heap cell other than the nodes of the tree, the new node and the false root *)
    (forall i, ~ In i (bids T) -> i <> HEAD -> i <> node -> hget (heap t') i = hget (heap t) i).
Proof. exact tree_insert_any_height. Qed.
Print Assumptions C18_tree_insert_any_height.

Theorem C18_tree_remove_any_height : forall fuel t T b node,
  rep (heap t) (root t) T -> NoDup (bids T) -> (forall i, In i (bids T) -> 1 < i) -> In node (bids T) ->
  bbh T = Some b -> sortedb (bkeys T) = true -> (2 * bheight T + 2 < fuel)%nat ->
  let kn := key (heap t) node in
  let t' := tree_remove_f fuel t node in
  exists R b', rep (heap t') (root t') R /\
    bred R = false /\ bbh R = Some b' /\ Z.of_nat (bheight R) <= 2 * (b' - 1) /\
    sortedb (bkeys R) = true /\ (exists L Rr, bkeys T = L ++ kn :: Rr /\ bkeys R = L ++ Rr) /\
    (forall k, lookup R k <> 0 <-> In k (bkeys R)) /\
    (forall f', (bheight R < f')%nat ->
       (forall k, get_loop f' (heap t') (root t') k = lookup R k) /\ inorder f' (heap t') (root t') = bflat R) /\
    NoDup (bids R) /\ (forall i, In i (bids R) -> In i (bids T)) /\
    (* what does NOT change: every heap cell other than the nodes of the tree and the false root *)
    (forall i, ~ In i (bids T) -> i <> HEAD -> hget (heap t') i = hget (heap t) i).
Proof. exact tree_remove_any_height. Qed.
Print Assumptions C18_tree_remove_any_height.

(* ================================================================== ArenaTree over ANY SEQUENCE of operations (round 6, TreeOps.v).
   The proven state checker is COMPLETE (it accepts every represented red-black search tree with a black root and ids > 1 whose
   height is below its fuel), so the "ok=1" that the model driver prints after every executed tree command is a theorem.
   TInv t keys I: the heap holds a red-black search tree, black root, distinct ids > 1 among the ids I handed out so far, whose
   in-order key sequence is the textbook strictly sorted list `keys`. *)
Theorem C18_tree_state_checker_complete : forall t T b, rep (heap t) (root t) T -> (bheight T < 200)%nat ->
  (forall i, In i (bids T) -> 1 < i) -> bbh T = Some b -> bred T = false -> sortedb (bkeys T) = true -> tree_state_ok t = true.
Proof. exact tree_state_ok_complete. Qed.
Print Assumptions C18_tree_state_checker_complete.

Theorem C18_tree_invariant_insert : forall t keys I node kn, TInv t keys I -> 1 < node -> ~ In node I -> ~ In kn keys ->
  Z.of_nat (length keys) + 2 < 2 ^ 49 ->
  let t' := tree_insert t node kn in
  exists L R, keys = L ++ R /\ TInv t' (L ++ kn :: R) (node :: I) /\ tree_state_ok t' = true /\
    (forall k, tree_get t' k <> 0 <-> k = kn \/ In k keys) /\
    (forall i, ~ In i I -> i <> HEAD -> i <> node -> hget (heap t') i = hget (heap t) i).
Proof. exact tinv_insert. Qed.
Print Assumptions C18_tree_invariant_insert.

(* remove of the node that get finds for a member key (how the library's users remove by key) *)
Theorem C18_tree_invariant_remove : forall t keys I kn, TInv t keys I -> In kn keys -> Z.of_nat (length keys) + 1 < 2 ^ 49 ->
  let node := tree_get t kn in
  let t' := tree_remove t node in
  exists L R, keys = L ++ kn :: R /\ TInv t' (L ++ R) I /\ tree_state_ok t' = true /\ node <> 0 /\ key (heap t) node = kn /\
    (forall k, tree_get t' k <> 0 <-> In k (L ++ R)) /\
    (forall i, ~ In i I -> i <> HEAD -> hget (heap t') i = hget (heap t) i).
Proof. exact tinv_remove. Qed.
Print Assumptions C18_tree_invariant_remove.

Theorem C18_tree_invariant_reads : forall t keys I, TInv t keys I -> Z.of_nat (length keys) + 1 < 2 ^ 49 ->
  tree_keys t = keys /\ sortedb keys = true /\ (forall k, tree_get t k <> 0 <-> In k keys) /\ tree_state_ok t = true.
Proof. exact tinv_reads. Qed.
Print Assumptions C18_tree_invariant_reads.

(* any sequence: preconditions in textbook terms only (fresh node id and new key for insert, member key for remove, fewer than
   2^49 - 2 keys = the loop fuel of the executable model); the key list follows the textbook sorted insertion / deletion, and no
   heap cell outside the ids handed out and the false root is ever written *)
Theorem C18_tree_any_sequence : forall ops t keys I, TInv t keys I -> kpres keys I ops ->
  TInv (fold_left kstep ops t) (kkeys_all keys ops) (kids_all I ops) /\
  (forall i, ~ In i (kids_all I ops) -> i <> HEAD -> hget (heap (fold_left kstep ops t)) i = hget (heap t) i).
Proof. exact tree_any_sequence. Qed.
Print Assumptions C18_tree_any_sequence.

Theorem C18_tree_any_sequence_from_empty : forall ops, kpres [] [] ops -> Z.of_nat (length (kkeys_all [] ops)) + 1 < 2 ^ 49 ->
  let t := fold_left kstep ops tree_empty in
  tree_keys t = kkeys_all [] ops /\ sortedb (tree_keys t) = true /\ (forall k, tree_get t k <> 0 <-> In k (kkeys_all [] ops)) /\
  tree_state_ok t = true.
Proof. exact tree_any_sequence_from_empty. Qed.
Print Assumptions C18_tree_any_sequence_from_empty.

(* the tree operations NEVER WRITE A KEY (round 6, TreeKeys.v): unconditionally - any heap, any fuel, any cell - the key field
   after insert / remove equals the key field before, except the inserted node's cell (it holds the new key) and the false root.
   With the refinement theorems: a node stays under its key for its whole life in the tree. *)
Theorem C18_tree_insert_keeps_keys : forall fuel t node kn i, i <> HEAD -> i <> node ->
  key (heap (tree_insert_f fuel t node kn)) i = key (heap t) i.
Proof. exact tree_insert_keeps_keys. Qed.
Print Assumptions C18_tree_insert_keeps_keys.
Theorem C18_tree_insert_sets_key : forall fuel t node kn, 1 < node -> key (heap (tree_insert_f fuel t node kn)) node = kn.
Proof. exact tree_insert_sets_key. Qed.
Print Assumptions C18_tree_insert_sets_key.
Theorem C18_tree_remove_keeps_keys : forall fuel t node i, i <> HEAD -> key (heap (tree_remove_f fuel t node)) i = key (heap t) i.
Proof. exact tree_remove_keeps_keys. Qed.
Print Assumptions C18_tree_remove_keeps_keys.

(* ArenaTree is the textbook FINITE MAP key -> node (round 6, TreeMap.v): insert updates the map at the new key only, remove (of
   the node found for a member key) clears it at that key only; over any sequence, get of the model state is the function
   obtained by the same updates, starting from the constant null map for the empty tree *)
Theorem C18_tree_insert_map : forall t keys I node kn, TInv t keys I -> 1 < node -> ~ In node I -> ~ In kn keys ->
  Z.of_nat (length keys) + 2 < 2 ^ 49 ->
  forall k, tree_get (tree_insert t node kn) k = if k =? kn then node else tree_get t k.
Proof. exact tinv_insert_map. Qed.
Print Assumptions C18_tree_insert_map.
Theorem C18_tree_remove_map : forall t keys I kn, TInv t keys I -> In kn keys -> Z.of_nat (length keys) + 1 < 2 ^ 49 ->
  forall k, tree_get (tree_remove t (tree_get t kn)) k = if k =? kn then 0 else tree_get t k.
Proof. exact tinv_remove_map. Qed.
Print Assumptions C18_tree_remove_map.
Theorem C18_tree_any_sequence_map : forall ops t keys I, TInv t keys I -> kpres keys I ops ->
  forall k, tree_get (fold_left kstep ops t) k = kmap_all (tree_get t) ops k.
Proof. exact tree_any_sequence_map. Qed.
Print Assumptions C18_tree_any_sequence_map.
Theorem C18_tree_map_from_empty : forall ops, kpres [] [] ops ->
  forall k, tree_get (fold_left kstep ops tree_empty) k = kmap_all (fun _ => 0) ops k.
Proof. exact tree_map_from_empty. Qed.
Print Assumptions C18_tree_map_from_empty.
Example C18_tree_map_computed :
  let ops := [KIns 2 10; KIns 3 5; KIns 4 20; KRem 10; KIns 5 7; KRem 20; KIns 6 1] in
  map (tree_get (fold_left kstep ops tree_empty)) [1; 5; 7; 10; 20; 99] = [6; 3; 5; 0; 0; 0] /\
  map (kmap_all (fun _ => 0) ops) [1; 5; 7; 10; 20; 99] = [6; 3; 5; 0; 0; 0].
Proof. split; vm_compute; reflexivity. Qed.

(* consequences (round 7, TreeMap2.v): get answers a member key with a node that carries this key, is > 1 and was handed out;
   different member keys are answered with different nodes; after remove NO key is answered with the removed node *)
Theorem C18_tree_get_carries_key : forall t keys I k, TInv t keys I -> Z.of_nat (length keys) + 1 < 2 ^ 49 -> In k keys ->
  key (heap t) (tree_get t k) = k /\ 1 < tree_get t k /\ In (tree_get t k) I.
Proof. exact tinv_get_key. Qed.
Print Assumptions C18_tree_get_carries_key.
Theorem C18_tree_get_injective : forall t keys I k1 k2, TInv t keys I -> Z.of_nat (length keys) + 1 < 2 ^ 49 -> In k1 keys -> In k2 keys ->
  tree_get t k1 = tree_get t k2 -> k1 = k2.
Proof. exact tinv_get_injective. Qed.
Print Assumptions C18_tree_get_injective.
Theorem C18_tree_removed_node_is_gone : forall t keys I kn, TInv t keys I -> In kn keys -> Z.of_nat (length keys) + 1 < 2 ^ 49 ->
  forall k, tree_get (tree_remove t (tree_get t kn)) k <> tree_get t kn.
Proof. exact tinv_remove_gone. Qed.
Print Assumptions C18_tree_removed_node_is_gone.
(* non-vacuity: a state reached from the empty tree satisfies TInv with member key 5 (C18_tree_any_sequence), and the computed
   answers before / after removing key 5 *)
Example C18_tree_removed_node_is_gone_computed :
  let ops := [KIns 2 10; KIns 3 5; KIns 4 20] in
  let t := fold_left kstep ops tree_empty in
  TInv t (kkeys_all [] ops) (kids_all [] ops) /\ In 5 (kkeys_all [] ops) /\ tree_get t 5 = 3 /\
  map (tree_get (tree_remove t (tree_get t 5))) [5; 10; 20] = [0; 2; 4].
Proof.
  cbv zeta. split.
  - apply (tree_any_sequence _ tree_empty [] [] tinv_empty).
    cbv [kpres kpre kkeys kids sins srem Z.ltb Z.eqb Z.compare Pos.compare Pos.compare_cont Pos.eqb length In].
    repeat split; try (intros Hc; intuition discriminate); try reflexivity.
  - split; [vm_compute; auto|]. split; vm_compute; reflexivity.
Qed.
(* non-vacuity: a sequence that satisfies the preconditions, its textbook result, and the computed model state *)
Example C18_tree_any_sequence_computed :
  let ops := [KIns 2 10; KIns 3 5; KIns 4 20; KRem 10; KIns 5 7; KRem 20; KIns 6 1] in
  kpres [] [] ops /\ kkeys_all [] ops = [1; 5; 7] /\ tree_keys (fold_left kstep ops tree_empty) = [1; 5; 7] /\
  tree_state_ok (fold_left kstep ops tree_empty) = true.
Proof.
  cbv zeta. split; [|split; [reflexivity|split; vm_compute; reflexivity]].
  cbn [kpres kpre kkeys kids sins srem Z.ltb Z.eqb Z.compare Pos.compare Pos.compare_cont Pos.eqb length].
  repeat split; try (intros Hc; cbn [In] in Hc; intuition discriminate); try (cbn [In]; auto; fail); try reflexivity.
Qed.

(* ArenaBitSet::resize growing, as a whole (reallocation through the shared arena included): on kOk the old bits are kept, the
   new bits have the requested value, the invariant (capacity/64 words in a live arena block released as capacity/8 bytes,
   unused bits clear) and the arena invariant hold; on kOutOfMemory the bit set is untouched *)
Theorem C18_bitset_resize_grow : forall mok a b new_size v, inv a -> bs_inv a b -> b_size b < new_size < 2 ^ 31 ->
  let '(e, a', b') := bs_resize mok a b new_size new_size v in
  inv a' /\
  ((e = EOk /\ bs_inv a' b' /\ b_size b' = new_size /\
    forall j, 0 <= j < new_size -> bs_bit b' j = if j <? b_size b then bs_bit b j else v)
   \/ (e = EOutOfMemory /\ b' = b /\ bs_inv a' b)).
Proof. exact bs_resize_grow_sound. Qed.
Print Assumptions C18_bitset_resize_grow.

(* the same with any ideal capacity >= the new size (the form _append uses) *)
Theorem C18_bitset_resize_grow_any_ideal : forall mok a b new_size ideal v, inv a -> bs_inv a b -> b_size b < new_size <= ideal -> ideal < 2 ^ 31 ->
  let '(e, a', b') := bs_resize mok a b new_size ideal v in
  inv a' /\
  ((e = EOk /\ bs_inv a' b' /\ b_size b' = new_size /\
    forall j, 0 <= j < new_size -> bs_bit b' j = if j <? b_size b then bs_bit b j else v)
   \/ (e = EOutOfMemory /\ b' = b /\ bs_inv a' b)).
Proof. exact bs_resize_grow_gen. Qed.
Print Assumptions C18_bitset_resize_grow_any_ideal.

(* resize to a smaller or equal size: kOk, no arena traffic, the bits below the new size kept, unused bits of the last word clear *)
Theorem C18_bitset_resize_shrink : forall mok a b new_size ideal v, bs_inv a b -> 0 <= new_size <= b_size b ->
  let '(e, a', b') := bs_resize mok a b new_size ideal v in
  e = EOk /\ a' = a /\ bs_inv a b' /\ b_size b' = new_size /\ b_cap b' = b_cap b /\ b_data b' = b_data b /\
  forall j, 0 <= j < new_size -> bs_bit b' j = bs_bit b j.
Proof. exact bs_resize_shrink_sound. Qed.
Print Assumptions C18_bitset_resize_shrink.

(* append(arena, value), inline fast path and _append with its growth policy (128 / doubling / +threshold): on kOk the size grows
   by one, the old bits are kept and the new last bit is the value; on kOutOfMemory the bit set is untouched *)
Theorem C18_bitset_append : forall mok a b v, inv a -> bs_inv a b -> b_cap b < 2 ^ 30 ->
  let '(e, a', b') := bs_append mok a b v in
  inv a' /\
  ((e = EOk /\ bs_inv a' b' /\ b_size b' = b_size b + 1 /\
    forall j, 0 <= j < b_size b + 1 -> bs_bit b' j = if j <? b_size b then bs_bit b j else v)
   \/ (e = EOutOfMemory /\ b' = b /\ bs_inv a' b)).
Proof. exact bs_append_sound. Qed.
Print Assumptions C18_bitset_append.

(* release(arena): the word array returns to the arena under its own release class, every other live block stays live *)
Theorem C18_bitset_release : forall a b, inv a -> bs_inv a b ->
  let r := bs_release a b in
  inv (fst r) /\ bs_inv (fst r) (snd r) /\ b_size (snd r) = 0 /\ keeps_others a (fst r) (b_data b).
Proof. exact bs_release_sound. Qed.
Print Assumptions C18_bitset_release.

(* set_bit(index, value), index < size, at the bit-set level (uninitialised words beyond the size allowed): invariant kept,
   bit `index` = value, all other bits unchanged *)
Theorem C18_bitset_set_bit : forall a b i v, bs_inv a b -> 0 <= i < b_size b ->
  bs_inv a (bs_set_bit b i v) /\ b_size (bs_set_bit b i v) = b_size b /\
  forall j, 0 <= j < b_size b -> bs_bit (bs_set_bit b i v) j = if j =? i then v else bs_bit b j.
Proof. exact bs_set_bit_sound. Qed.
Print Assumptions C18_bitset_set_bit.

(* clear_all / fill_all / truncate at the bit-set level (words beyond the size may be uninitialised) *)
Theorem C18_bitset_clear_all : forall a b, bs_inv a b ->
  bs_inv a (bs_clear_all b) /\ b_size (bs_clear_all b) = b_size b /\ forall j, 0 <= j < b_size b -> bs_bit (bs_clear_all b) j = false.
Proof. exact bs_clear_all_sound. Qed.
Print Assumptions C18_bitset_clear_all.

Theorem C18_bitset_fill_all : forall a b, bs_inv a b ->
  bs_inv a (bs_fill_all b) /\ b_size (bs_fill_all b) = b_size b /\ forall j, 0 <= j < b_size b -> bs_bit (bs_fill_all b) j = true.
Proof. exact bs_fill_all_sound. Qed.
Print Assumptions C18_bitset_fill_all.

Theorem C18_bitset_truncate : forall a b n, bs_inv a b -> 0 <= n ->
  bs_inv a (bs_truncate b n) /\ b_size (bs_truncate b n) = Z.min (b_size b) n /\
  forall j, 0 <= j < Z.min (b_size b) n -> bs_bit (bs_truncate b n) j = bs_bit b j.
Proof. exact bs_truncate_sound. Qed.
Print Assumptions C18_bitset_truncate.

(* the RANGE operations fill(start, count) / clear(start, count) at the bit-set level: with the invariant bs_inv2 = bs_inv + "the
   words that hold bits are 64-bit values" they change exactly the bits of the range, whatever the uninitialised words beyond
   the size hold, and keep bs_inv2 *)
Theorem C18_bitset_range_fill_clear : forall a b o start count, bs_inv2 a b -> 0 <= start -> 0 <= count -> start + count <= b_size b ->
  let b' := bs_with_words b (bv_op 64 o (b_words b) start count) in
  bs_inv2 a b' /\ b_size b' = b_size b /\
  forall j, 0 <= j < b_size b -> bs_bit b' j = if in_range start count j then (match o with OpFill => true | OpClear => false end) else bs_bit b j.
Proof. exact bs_range_op_sound. Qed.
Print Assumptions C18_bitset_range_fill_clear.

(* ... and every other operation keeps the words 64-bit: the empty set, resize (shrinking and growing, with reallocation), append,
   set_bit, clear_all, fill_all *)
Theorem C18_bitset_words_invariant :
  winit bitset_empty /\
  (forall mok a b new_size ideal v, bs_inv2 a b -> 0 <= new_size <= b_size b ->
     let '(e, a', b') := bs_resize mok a b new_size ideal v in winit b') /\
  (forall mok a b new_size ideal v, inv a -> bs_inv2 a b -> b_size b < new_size <= ideal -> ideal < 2 ^ 31 ->
     let '(e, a', b') := bs_resize mok a b new_size ideal v in e = EOk -> winit b') /\
  (forall mok a b v, inv a -> bs_inv2 a b -> b_cap b < 2 ^ 30 -> let '(e, a', b') := bs_append mok a b v in e = EOk -> winit b') /\
  (forall a b i v, bs_inv2 a b -> 0 <= i < b_size b -> winit (bs_set_bit b i v)) /\
  (forall a b, bs_inv a b -> winit (bs_clear_all b)) /\ (forall a b, bs_inv a b -> winit (bs_fill_all b)).
Proof.
  exact (conj winit_empty (conj winit_shrink (conj winit_resize_grow (conj winit_append (conj winit_set_bit (conj winit_clear_all winit_fill_all)))))).
Qed.
Print Assumptions C18_bitset_words_invariant.

(* and_(other) / and_not(other) / or_(other): bit j of the result is the Boolean combination of bit j of this set and bit j of
   the other one (false beyond the other's size); the size stays *)
Theorem C18_bitset_binary_bits : forall a a' b o, bs_inv a b -> bs_inv a' o ->
  (forall j, 0 <= j < b_size b -> bs_bit (bs_and b o) j = bs_bit b j && ((j <? b_size o) && bs_bit o j)) /\
  (forall j, 0 <= j < b_size b -> bs_bit (bs_and_not b o) j = bs_bit b j && negb ((j <? b_size o) && bs_bit o j)) /\
  (forall j, 0 <= j < b_size b -> bs_bit (bs_or b o) j = bs_bit b j || ((j <? b_size o) && bs_bit o j)) /\
  b_size (bs_and b o) = b_size b /\ b_size (bs_and_not b o) = b_size b /\ b_size (bs_or b o) = b_size b.
Proof. exact bs_binary_bits. Qed.
Print Assumptions C18_bitset_binary_bits.

(* ... and they keep the representation invariant of this set (capacity, word array in the arena, unused bits clear, 64-bit words);
   the other operand is only read *)
Theorem C18_bitset_binary_invariant : forall a a' b o, bs_inv2 a b -> bs_inv2 a' o ->
  bs_inv2 a (bs_and b o) /\ bs_inv2 a (bs_and_not b o) /\ bs_inv2 a (bs_or b o).
Proof. exact bs_binary_inv. Qed.
Print Assumptions C18_bitset_binary_invariant.

(* copy_from(arena, other): on kOk this set has the other's size and bits and satisfies its invariant (reallocating through the
   shared arena when the capacity does not suffice: new word array allocated, old one released); on kOutOfMemory it is untouched *)
Theorem C18_bitset_copy_from : forall mok a a' b o, inv a -> bs_inv2 a b -> bs_inv2 a' o -> b_size o < 2 ^ 31 ->
  let '(e, a1, b') := bs_copy_from mok a b o in
  inv a1 /\
  ((e = EOk /\ bs_inv2 a1 b' /\ b_size b' = b_size o /\ forall j, 0 <= j < b_size o -> bs_bit b' j = bs_bit o j)
   \/ (e = EOutOfMemory /\ b' = b /\ bs_inv a1 b)).
Proof. exact bs_copy_from_sound. Qed.
Print Assumptions C18_bitset_copy_from.

(* ArenaBitSet over ANY SEQUENCE of its in-place operations (round 6, BitSetOps.v): set_bit, clear_all, fill_all, truncate, resize
   to a smaller size; textbook = (size, bit function) updated the same way; preconditions on the textbook size only *)
Theorem C18_bitset_any_sequence : forall a ops b s, bs_inv a b -> BAbs b s -> bspres s ops ->
  bs_inv a (fold_left bsstep ops b) /\ BAbs (fold_left bsstep ops b) (fold_left bstext ops s).
Proof. exact bitset_any_sequence. Qed.
Print Assumptions C18_bitset_any_sequence.
Example C18_bitset_any_sequence_computed :
  let mok := fun _ : Z => true in
  let ops := [BsSet 3 false; BsTrunc 50; BsSet 7 false; BsShrink 10] in
  let '(e, a1, b1) := bs_resize mok (arena_init 1024 0) bitset_empty 100 100 true in
  e = EOk /\ bs_inv a1 b1 /\ BAbs b1 (100, fun _ => true) /\ bspres (100, fun _ => true) ops /\
  b_size (fold_left bsstep ops b1) = 10 /\ map (bs_bit (fold_left bsstep ops b1)) [0; 3; 7; 9] = [true; false; false; true].
Proof.
  cbv zeta. destruct ex_bitset_empty as [Hinv [Hbs _]].
  pose proof (bs_resize_grow_sound (fun _ : Z => true) (arena_init 1024 0) bitset_empty 100 true Hinv Hbs ltac:(cbn; lia)) as H.
  destruct (bs_resize (fun _ : Z => true) (arena_init 1024 0) bitset_empty 100 100 true) as [[e a1] b1] eqn:E.
  assert (Ee : e = EOk) by (vm_compute in E; congruence).
  destruct H as [_ [(_ & B & Sz & Bits)|(Eo & _)]]; [|congruence].
  split; [exact Ee|]. split; [exact B|]. split; [split; [exact Sz|intros j Hj; cbn [fst snd] in *; rewrite Bits by lia; cbn [b_size bitset_empty]; destruct (j <? 0) eqn:X; [apply Z.ltb_lt in X; lia|reflexivity]]|].
  split; [cbn; lia|]. assert (Eb : b1 = snd (bs_resize (fun _ : Z => true) (arena_init 1024 0) bitset_empty 100 100 true)) by (rewrite E; reflexivity).
  rewrite Eb. split; vm_compute; reflexivity.
Qed.

(* ... INCLUDING the range operations fill_bits / clear_bits (round 7, BitSetOps2.v): with the stronger invariant bs_inv2 (the words
   that hold bits are 64-bit values, whatever lies beyond the size) every step keeps the invariant and the bits follow the textbook *)
Theorem C18_bitset_any_sequence_with_ranges : forall a ops b s, bs_inv2 a b -> BAbs b s -> bspres2 s ops ->
  bs_inv2 a (fold_left bsstep2 ops b) /\ BAbs (fold_left bsstep2 ops b) (fold_left bstext2 ops s).
Proof. exact bitset_any_sequence2. Qed.
Print Assumptions C18_bitset_any_sequence_with_ranges.
Theorem C18_bitset_step_with_ranges : forall a b s o, bs_inv2 a b -> BAbs b s -> bspre2 s o ->
  bs_inv2 a (bsstep2 b o) /\ BAbs (bsstep2 b o) (bstext2 s o).
Proof. exact bitset_step2. Qed.
Print Assumptions C18_bitset_step_with_ranges.
Example C18_bitset_any_sequence_with_ranges_computed :
  let mok := fun _ : Z => true in
  let ops := [B2In (BsSet 3 false); B2Clear 10 20; B2Fill 15 3; B2In (BsTrunc 40)] in
  let '(e, a1, b1) := bs_resize mok (arena_init 1024 0) bitset_empty 100 100 true in
  e = EOk /\ bs_inv2 a1 b1 /\ BAbs b1 (100, fun _ => true) /\ bspres2 (100, fun _ => true) ops /\
  b_size (fold_left bsstep2 ops b1) = 40 /\
  map (bs_bit (fold_left bsstep2 ops b1)) [3; 9; 10; 15; 17; 18; 29; 30] = [false; true; false; true; true; false; false; true].
Proof.
  cbv zeta. destruct ex_bitset_empty as [Hinv Hbs2]. pose proof Hbs2 as [Hbs _].
  pose proof (bs_resize_grow_sound (fun _ : Z => true) (arena_init 1024 0) bitset_empty 100 true Hinv Hbs ltac:(cbn; lia)) as H.
  pose proof (winit_resize_grow (fun _ : Z => true) (arena_init 1024 0) bitset_empty 100 100 true Hinv Hbs2 ltac:(cbn; lia) ltac:(lia)) as Hw.
  destruct (bs_resize (fun _ : Z => true) (arena_init 1024 0) bitset_empty 100 100 true) as [[e a1] b1] eqn:E.
  assert (Ee : e = EOk) by (vm_compute in E; congruence).
  destruct H as [_ [(_ & B & Sz & Bits)|(Eo & _)]]; [|congruence].
  split; [exact Ee|]. split; [split; [exact B|exact (Hw Ee)]|].
  split; [split; [exact Sz|intros j Hj; cbn [fst snd] in *; rewrite Bits by lia; cbn [b_size bitset_empty]; destruct (j <? 0) eqn:X; [apply Z.ltb_lt in X; lia|reflexivity]]|].
  split; [cbn; lia|]. assert (Eb : b1 = snd (bs_resize (fun _ : Z => true) (arena_init 1024 0) bitset_empty 100 100 true)) by (rewrite E; reflexivity).
  rewrite Eb. split; vm_compute; reflexivity.
Qed.

(* ================================================================== non-vacuity of the round 3-5 theorems: concrete instances of their
   hypotheses (Containers/C18Examples.v), with the conclusions computed on them *)
Example C18_tree_hypotheses_satisfiable :
  rep (heap ex_tree) (root ex_tree) ex_T /\ NoDup (bids ex_T) /\ (forall i, In i (bids ex_T) -> 1 < i /\ i <> 4) /\ 1 < 4 /\
  bbh ex_T = Some 2 /\ bred ex_T = false /\ sortedb (bkeys ex_T) = true /\ ~ In 15 (bkeys ex_T) /\ In 3 (bids ex_T) /\
  (2 * bheight ex_T + 2 < 200)%nat /\ key (heap ex_tree) 3 = 20.
Proof. exact ex_tree_hypotheses. Qed.
Example C18_tree_insert_remove_computed :
  tree_keys (tree_insert ex_tree 4 15) = [10; 15; 20] /\ rb_valid (tree_insert ex_tree 4 15) = true /\
  tree_keys (tree_remove ex_tree 3) = [10] /\ rb_valid (tree_remove ex_tree 3) = true.
Proof. exact ex_tree_insert_remove. Qed.
Example C18_tree_loop_invariants_satisfiable : AInv 4 15 NoRot2 [] ex_T /\ RAll 20 (AtHead ex_T).
Proof. exact (conj ex_insert_invariant ex_remove_invariant). Qed.
Example C18_list_hypotheses_satisfiable : drep (dl_add (dl_add (dl_add dlist_empty 5 true) 6 true) 4 false) [4; 5; 6].
Proof. exact ex_list. Qed.
(* two lists over one node heap (the hypotheses of C18_list_add_keeps_other_list): node 9 is the only member of the second
   list; appending node 5 to the (empty) first list leaves the second list as it was *)
Example C18_list_two_lists_satisfiable :
  let h := dl_heap (dl_add dlist_empty 9 true) in
  drep (mkdl h 0 0) [] /\ drep (mkdl h 9 9) [9] /\ ~ In 5 [9] /\ (forall x, In x [9] -> ~ In x (@nil Z)) /\
  drep (mkdl (dl_heap (dl_add (mkdl h 0 0) 5 true)) 9 9) [9].
Proof.
  cbv zeta. assert (H1 : drep (mkdl (dl_heap (dl_add dlist_empty 9 true)) 0 0) []).
  { unfold drep. cbn. split; [constructor|]. split; [intros []|]. auto. }
  assert (H2 : drep (mkdl (dl_heap (dl_add dlist_empty 9 true)) 9 9) [9]).
  { unfold drep. cbn. split; [constructor; [intros []|constructor]|]. split; [intros [H|[]]; discriminate|]. auto. }
  assert (H3 : ~ In 5 [9]) by (intros [H|[]]; discriminate).
  assert (H4 : forall x, In x [9] -> ~ In x (@nil Z)) by (intros x _ []).
  split; [exact H1|]. split; [exact H2|]. split; [exact H3|]. split; [exact H4|].
  exact (dl_add_keeps_other_list _ [] 5 true [9] 9 9 H1 H3 H4 H2).
Qed.
Example C18_bitset_hypotheses_satisfiable : inv (arena_init 1024 0) /\ bs_inv2 (arena_init 1024 0) bitset_empty.
Proof. exact ex_bitset_empty. Qed.
Example C18_name_table_hypotheses_satisfiable : named_table hash_empty /\ bytes_ok name_a /\ bytes_ok name_b.
Proof. destruct ex_named_table as (H1 & H2 & H3 & _). exact (conj H1 (conj H2 H3)). Qed.
Example C18_range_word_hypotheses_satisfiable : word_ok 64 44 /\ 44 <> 0 /\ ctz 44 = 2.
Proof. exact ex_range_word. Qed.
Example C18_chain_hypotheses_satisfiable :
  chain_at (mkchain 1 [100; 200; 300]) 2 [(2, 200); (3, 300)] /\ cfind (mkchain 1 [100; 200; 300]) 1 = Some (mkcb 1 2 100).
Proof. exact ex_chain. Qed.


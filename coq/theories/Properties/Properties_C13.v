(* C13 - Validation, encoder and ISA database agree on which instruction forms exist; instruction names map back to ids.
   This file holds ONLY the property theorems (each closed by `exact <lemma>`) and their Print Assumptions.
   x86_names / x86_aliases / a64_names are the tables of /repo's working tree (coq/gen, regenerated on every run). *)
From Coq Require Import NArith List Bool.
From Verif Require Import InstNames.NameModel InstNames.NameProofs.
From VerifGen Require Import X86Names A64Names.
Import ListNotations.
Local Open Scope N_scope.

(* ---- the binary search of InstNameUtils::find_instruction is correct on ANY table whose per-letter ranges are well formed,
   strictly sorted and contain every id under its first letter (for all strings s) *)
Theorem C13_find_correct : forall T span ids,
  spans_wf T span = true -> spans_sorted T span = true -> forallb (id_indexed T span) ids = true ->
  forall s id, In id ids -> (find_instruction T span s = id <-> name_of T id = s).
Proof. exact find_correct. Qed.
Print Assumptions C13_find_correct.

(* the premises are satisfiable: the x86 tables meet them *)
Example C13_find_correct_premises_x86 :
  spans_wf x86_names (table_span x86_names) = true /\ spans_sorted x86_names (table_span x86_names) = true /\
  forallb (id_indexed x86_names (table_span x86_names)) (ids_of x86_names) = true.
Proof. exact (conj x86_spans_wf (conj x86_spans_sorted x86_ids_indexed)). Qed.

(* ---- no read of a name string table leaves the table (the C++ decoder has no bound check) *)
Theorem C13_name_tables_in_bounds :
  tables_in_bounds x86_names = true /\ tables_in_bounds a64_names = true /\
  (N.of_nat (length (at_names x86_aliases)) =? at_count x86_aliases) && (N.of_nat (length (at_ids x86_aliases)) =? at_count x86_aliases) &&
  forallb (entry_in_bounds (N.of_nat (length (at_strtab x86_aliases)))) (at_names x86_aliases) = true.
Proof. exact (conj x86_tables_in_bounds (conj a64_tables_in_bounds x86_alias_in_bounds)). Qed.
Print Assumptions C13_name_tables_in_bounds.

(* ---- x86: every instruction id's name maps back to the SAME id (so x86 names are unique) *)
Theorem C13_name_roundtrip_x86 : forall id, 1 <= id < nt_count x86_names ->
  x86_string_to_inst_id x86_names x86_aliases (name_of x86_names id) = id.
Proof. exact (x86_lookup_name x86_names x86_aliases x86_spans_wf x86_spans_sorted x86_ids_indexed). Qed.
Print Assumptions C13_name_roundtrip_x86.

(* x86: every alias maps to the id of alias_index_to_inst_id_table, which is a defined id *)
Theorem C13_alias_roundtrip_x86 : forall i, i < at_count x86_aliases ->
  x86_string_to_inst_id x86_names x86_aliases (alias_name_of x86_aliases i) = nth (N.to_nat i) (at_ids x86_aliases) 0 /\
  1 <= nth (N.to_nat i) (at_ids x86_aliases) 0 < nt_count x86_names.
Proof. exact (x86_alias_roundtrip x86_names x86_aliases x86_alias_roundtrip_all x86_aliases_wf). Qed.
Print Assumptions C13_alias_roundtrip_x86.

(* x86, ALL strings: the lookup answers id exactly when s is the name of id, or no instruction is called s and s is an
   alias of id; it answers 0 exactly when s is neither a name nor an alias *)
Theorem C13_string_to_inst_id_correct_x86 : forall s id, id <> 0 ->
  (x86_string_to_inst_id x86_names x86_aliases s = id <->
   (1 <= id < nt_count x86_names /\ name_of x86_names id = s) \/
   ((forall j, 1 <= j < nt_count x86_names -> name_of x86_names j <> s) /\
    exists i, i < at_count x86_aliases /\ alias_name_of x86_aliases i = s /\ nth (N.to_nat i) (at_ids x86_aliases) 0 = id)).
Proof. exact (x86_lookup_iff x86_names x86_aliases x86_spans_wf x86_spans_sorted x86_ids_indexed x86_aliases_sorted x86_aliases_wf). Qed.
Print Assumptions C13_string_to_inst_id_correct_x86.

Theorem C13_string_to_inst_id_none_x86 : forall s,
  x86_string_to_inst_id x86_names x86_aliases s = 0 <->
  (forall j, 1 <= j < nt_count x86_names -> name_of x86_names j <> s) /\
  (forall i, i < at_count x86_aliases -> alias_name_of x86_aliases i <> s).
Proof. exact (x86_lookup_none_iff x86_names x86_aliases x86_spans_wf x86_spans_sorted x86_ids_indexed x86_aliases_sorted x86_aliases_wf). Qed.
Print Assumptions C13_string_to_inst_id_none_x86.

(* ---- AArch64, repaired lookup (fixes/C13-a64-name-lookup.patch: scan of the letter's range): every id's name maps back to an
   id carrying the same name - the FIRST such id (one mnemonic may name a general-purpose and a SIMD id) *)
Theorem C13_name_roundtrip_a64 : forall id, 1 <= id < nt_count a64_names ->
  let r := a64_string_to_inst_id a64_names (name_of a64_names id) in
  name_of a64_names r = name_of a64_names id /\ 1 <= r <= id /\
  forall j, 1 <= j < r -> name_of a64_names j <> name_of a64_names id.
Proof. exact (a64_lookup_name a64_names a64_spans_wf a64_ids_indexed). Qed.
Print Assumptions C13_name_roundtrip_a64.

(* ... and the same id wherever the name is unique *)
Theorem C13_name_roundtrip_a64_unique : forall id, 1 <= id < nt_count a64_names ->
  (forall j, 1 <= j < nt_count a64_names -> name_of a64_names j = name_of a64_names id -> j = id) ->
  a64_string_to_inst_id a64_names (name_of a64_names id) = id.
Proof. exact (a64_lookup_unique a64_names a64_spans_wf a64_ids_indexed). Qed.
Print Assumptions C13_name_roundtrip_a64_unique.

(* AArch64, ALL strings *)
Theorem C13_string_to_inst_id_correct_a64 : forall s id, id <> 0 ->
  (a64_string_to_inst_id a64_names s = id <->
   1 <= id < nt_count a64_names /\ name_of a64_names id = s /\ forall j, 1 <= j < id -> name_of a64_names j <> s).
Proof. exact (a64_lookup_iff a64_names a64_spans_wf a64_ids_indexed). Qed.
Print Assumptions C13_string_to_inst_id_correct_a64.

Theorem C13_string_to_inst_id_none_a64 : forall s,
  a64_string_to_inst_id a64_names s = 0 <-> forall id, 1 <= id < nt_count a64_names -> name_of a64_names id <> s.
Proof. exact (a64_lookup_none_iff a64_names a64_spans_wf a64_ids_indexed). Qed.
Print Assumptions C13_string_to_inst_id_none_a64.

(* ---- AArch64, lookup of the PINNED tree (bisection of ONE range per initial letter, DESIGN 7.24): the ids whose name does
   not map back are exactly the generated list; the letters whose range is not sorted are named *)
Theorem C13_a64_single_range_failures : forall id, 1 <= id < nt_count a64_names ->
  (a64_string_to_inst_id_single_range a64_names (name_of a64_names id) = 0 <-> In id a64_single_range_unreachable_ids).
Proof.
  exact (fun id R => conj
    (fun H => proj1 (filter_char _ _ _ a64_single_range_unreachable id (proj2 (in_ids_of a64_names id) R)) (proj2 (N.eqb_eq _ _) H))
    (fun H => proj1 (N.eqb_eq _ _) (proj2 (filter_char _ _ _ a64_single_range_unreachable id (proj2 (in_ids_of a64_names id) R)) H))).
Qed.
Print Assumptions C13_a64_single_range_failures.

Theorem C13_a64_single_range_unsorted_letters :
  unsorted_letters a64_names (table_span a64_names) = a64_single_range_unsorted_letters.
Proof. exact a64_single_range_unsorted. Qed.
Print Assumptions C13_a64_single_range_unsorted_letters.

(* the round trip is FALSE for the pinned lookup *)
Theorem C13_name_roundtrip_a64_single_range_refuted :
  exists id, 1 <= id < nt_count a64_names /\ a64_string_to_inst_id_single_range a64_names (name_of a64_names id) = 0.
Proof. exact a64_single_range_refuted_witness. Qed.
Print Assumptions C13_name_roundtrip_a64_single_range_refuted.

(* ================================================================== x86 validator (model: X86Validate/ValidateModel.v over coq/gen/X86Sigs.v) *)
From Verif Require Import X86Validate.ValidateModel X86Validate.ValidateProofs.
From VerifGen Require Import X86Sigs X86Forms.

(* ---- the validation hook ("validate, then encode", x86::Assembler::_emit under kValidateAssembler), for ANY encoder, ANY emitter
   state s, any tables: if validation passes the result (error, bytes, new state) is the one obtained without validation;
   if it fails the validator's error is returned and the state is untouched. validate has no state argument at all. *)
Theorem C13_validate_pure : forall (S B : Type) T zq x64 (encode : S -> vinst -> list operand -> S * (N * B)) fail s inst ops,
  emit_validated T zq x64 encode fail true s inst ops =
    (if validate T zq x64 false inst ops =? E_Ok then emit_validated T zq x64 encode fail false s inst ops
     else (s, (validate T zq x64 false inst ops, fail (validate T zq x64 false inst ops)))).
Proof. exact emit_validated_result. Qed.
Print Assumptions C13_validate_pure.

(* ---- every vendored implemented database form (corpus/C13/implemented_x86.txt, 32- and 64-bit instantiations incl. {k}{z}{er}{sae},
   broadcast, lock/rep decorations) is accepted by the (repaired) validator model over the CURRENT signature tables *)
Theorem C13_db_forms_validate : forall x64 i ops, In (x64, i, ops) x86_implemented_forms ->
  validate x86_vtables false x64 false i ops = E_Ok.
Proof. exact (forms_accepted x86_vtables x86_implemented_forms x86_implemented_forms_validate). Qed.
Print Assumptions C13_db_forms_validate.

(* ---- every database form instantiated in a mode the database excludes (no sibling form allows it) is refused *)
Theorem C13_db_excluded_forms_refused : forall x64 i ops, In (x64, i, ops) x86_excluded_forms ->
  validate x86_vtables false x64 false i ops <> E_Ok.
Proof. exact (forms_refused x86_vtables x86_excluded_forms x86_excluded_forms_refused). Qed.
Print Assumptions C13_db_excluded_forms_refused.

(* the two lists are the vendored ones (not empty) and the table indexes are in range *)
Theorem C13_validator_tables_wf : vtables_wf x86_vtables = true.
Proof. exact x86_vtables_wf. Qed.
Print Assumptions C13_validator_tables_wf.

(* ---- FALSE for the pinned validator (operand-count quirk, fixes/C13-validate-operand-count.patch): an instruction without any
   operand-less signature validates without operands; the repaired validator refuses it *)
Theorem C13_validate_operand_count_refuted :
  exists id, validate x86_vtables true true false {| vi_id := id; vi_options := 0; vi_extra_type := 0; vi_extra_id := 0 |} [] = E_Ok /\
             validate x86_vtables false true false {| vi_id := id; vi_options := 0; vi_extra_type := 0; vi_extra_id := 0 |} [] = E_InvalidInstruction.
Proof. exact x86_zero_quirk_witness. Qed.
Print Assumptions C13_validate_operand_count_refuted.

(* ---- for ALL instructions, options and operand lists: a 64-bit general-purpose register among the operands (before the first
   empty slot) makes validation fail in 32-bit mode - the general form of "refused in a mode the database excludes" for r64 forms *)
Theorem C13_validate_refuses_gpq_in_32bit : forall zq virt inst pre id post,
  (forall o, In o pre -> o <> ONone) ->
  validate x86_vtables zq false virt inst (pre ++ OReg RT_Gp64 id :: post) <> E_Ok.
Proof. exact (fun zq virt inst pre id post NN => validate_refuses_gpq_in_32bit x86_vtables zq virt inst pre RT_Gp64 id post NN x86_gp64_flag). Qed.
Print Assumptions C13_validate_refuses_gpq_in_32bit.

(* ---- for ALL tables, instructions and operand lists: an accepted instruction is a defined id, its operands translate without
   error, nothing follows the first empty slot, and (unless the instruction has no signature records) some signature record of
   the requested mode matches the translated operands one by one (explicit, or skipping implicit ones) *)
Theorem C13_validate_accept_has_signature : forall T zq x64 virt inst ops,
  validate T zq x64 virt inst ops = E_Ok ->
  exists iflags avx sidx scnt st rest,
    nth (N.to_nat (vi_id inst)) (vt_inst T) (0, 0, 0, 0) = (iflags, avx, sidx, scnt) /\
    xlat_all T x64 virt iflags avx ops init_xstate = inr (st, rest) /\
    forallb is_none rest = true /\
    (scnt = 0 \/ exists s, In s (inst_sigs T sidx scnt) /\ test (is_mode s) (mode_bit x64) = true /\
                            match_sig T zq (mode_bit x64) (xs_sigs st) s = Some false).
Proof. exact validate_accept_has_signature. Qed.
Print Assumptions C13_validate_accept_has_signature.

(* ---- the ISA database side, row by row (not only through instantiations): every database row of an instruction AsmJit has (expanded to one
   operand kind per operand; vendored list corpus/C13/db_rows_x86.txt, the known-absent rows are listed separately) is CONTAINED in a signature
   record of its instruction in the current tables: same operand count, all modes of the row, each operand's kind flags (and implicitness),
   a fixed register only where the database fixes one *)
From VerifGen Require Import X86DbRows.
Theorem C13_signature_rows_present : forall row, In row x86_db_rows -> row_present x86_vtables row = true.
Proof. exact (forallb_In _ (row_present x86_vtables) x86_db_rows x86_db_rows_present). Qed.
Print Assumptions C13_signature_rows_present.

(* ---- alias formatting (inst_id_to_string with InstStringifyOptions::kAliases, e.g. "cmov.b|nae|c"): every spelling of the formatted
   text of an x86 instruction maps back to that instruction's id (instruction name or alias), for every id that carries a format *)
Theorem C13_alias_formats_roundtrip_x86 : forall id, 1 <= id < nt_count x86_names ->
  has_alias_format (nth (N.to_nat id) (nt_names x86_names) 0) = true ->
  forall e, In e (expand_alias_format (formatted_name_of x86_names id)) -> x86_string_to_inst_id x86_names x86_aliases e = id.
Proof. exact (alias_formats_roundtrip_all x86_names x86_aliases x86_alias_formats_roundtrip). Qed.
Print Assumptions C13_alias_formats_roundtrip_x86.

(* ... and conversely every alias table entry is a spelling of its target's format, except the listed ones (aliases that exist only in
   the alias table: 'sal', 'wait' in the reference tree) *)
Theorem C13_alias_table_from_formats_x86 : forall i, i < at_count x86_aliases ->
  In i x86_aliases_without_format \/ alias_from_format x86_names x86_aliases i = true.
Proof. exact (alias_table_from_formats x86_names x86_aliases x86_aliases_without_format x86_aliases_without_format_ok). Qed.
Print Assumptions C13_alias_table_from_formats_x86.

(* ---- bridge from the database rows to the validator, for ALL operand values: for a database row contained in the tables, the signature stage
   of validate (match_sigs over the instruction's records, either variant of the operand-count rule) accepts EVERY list of translated operands
   that fits the row's explicit operands kind by kind (op_fits: shares an operand-kind bit, register only where the row has one, base-only
   address where the row demands it, the fixed register where the row fixes one) in every mode the row lists *)
Theorem C13_db_row_signature_stage : forall row, In row x86_db_rows ->
  forall zq mb ops iflags avx sidx scnt,
  nth (N.to_nat (dr_inst row)) (vt_inst x86_vtables) (0, 0, 0, 0) = (iflags, avx, sidx, scnt) ->
  test (dr_mode row) mb = true ->
  fits_all (explicit_ops (dr_ops row)) ops = true ->
  match_sigs x86_vtables zq mb ops (inst_sigs x86_vtables sidx scnt) false = E_Ok.
Proof.
  exact (fun row Hin zq mb ops iflags avx sidx scnt ROW M F =>
    row_present_signature_stage x86_vtables zq mb row ops iflags avx sidx scnt x86_sigs_wf
      (forallb_In _ (row_present x86_vtables) x86_db_rows x86_db_rows_present row Hin) ROW M F).
Qed.
Print Assumptions C13_db_row_signature_stage.

(* its operand-fit premise is satisfiable for every row *)
Example C13_db_row_signature_stage_premise : forall row, In row x86_db_rows ->
  fits_all (explicit_ops (dr_ops row)) (map (fun d => (fst (fst d), snd (fst d))) (explicit_ops (dr_ops row))) = true.
Proof. exact (forallb_In _ _ x86_db_rows x86_db_rows_fit_example). Qed.

(* ---- converse direction (weak form): no signature record without a database origin. For every instruction and every signature record it
   uses (position j), either (id, j) is on the generated exception list (14 records of cmps/movs/enqcmd/enqcmds/movdir64b in the reference
   tree) or the record admits, operand by operand, some database row of that instruction that shares a mode with it *)
Theorem C13_signature_records_have_db_origin : forall iid iflags avx sidx scnt, 1 <= iid < vt_count x86_vtables ->
  nth (N.to_nat iid) (vt_inst x86_vtables) (0, 0, 0, 0) = (iflags, avx, sidx, scnt) ->
  forall j s, nth_error (inst_sigs x86_vtables sidx scnt) j = Some s ->
  pair_in (iid, N.of_nat j) x86_records_without_origin = true \/ sig_origin x86_vtables x86_db_rows iid s = true.
Proof. exact (records_origin x86_vtables x86_db_rows x86_records_without_origin x86_records_have_origin). Qed.
Print Assumptions C13_signature_records_have_db_origin.

(* ---- the emitter-level validation hook across CodeHolder switches: whatever sequence of attach / detach events an emitter went through,
   what it does with validation on (or off) is what a fresh emitter attached to the CURRENT holder does - in particular the validator is the
   one of the current mode (the implementation is tied by H commands: one Assembler / Builder object taken through 32-/64-bit holders) *)
Theorem C13_emitter_history_irrelevant : forall (S B : Type) T (encode : bool -> S -> vinst -> list operand -> S * (N * B)) fail von h m s inst ops,
  emit_with_history T encode fail von (h ++ [EvAttach m]) s inst ops = emit_with_history T encode fail von [EvAttach m] s inst ops.
Proof. exact emit_history_irrelevant. Qed.
Print Assumptions C13_emitter_history_irrelevant.

(* ---- converse direction at the level of single operand kinds: for every instruction, every signature record it uses, every operand of the record and every
   operand-kind bit that operand accepts: the bit is a systematic AsmJit addition (kMemUnspecified; kRegGpbHi beside kRegGpbLo), or it is on the vendored exception
   list, or some database row of the instruction - admitted by this very record and sharing a mode with it - names this kind at this position.
   A record operand widened by one kind (e.g. ymm added to an xmm operand) fails here. *)
Theorem C13_signature_kinds_have_db_origin : forall iid iflags avx sidx scnt, 1 <= iid < vt_count x86_vtables ->
  nth (N.to_nat iid) (vt_inst x86_vtables) (0, 0, 0, 0) = (iflags, avx, sidx, scnt) ->
  forall j s, nth_error (inst_sigs x86_vtables sidx scnt) j = Some s ->
  forall q ref, nth_error (sig_refs x86_vtables s) q = Some ref ->
  forall p, p < 48 -> N.testbit (fst ref) p = true -> N.testbit OF_OpMask p = true ->
  N.testbit (named_kinds (admitted_rows (filter (fun row => dr_inst row =? iid) x86_db_rows) (is_mode s) (sig_refs x86_vtables s)) q) p = true \/
  systematic_kind (fst ref) (N.shiftl 1 p) = true \/ quad_in (iid, N.of_nat j, N.of_nat q, N.shiftl 1 p) x86_kinds_without_origin = true.
Proof. exact (kinds_origin x86_vtables x86_db_rows x86_kinds_without_origin x86_kinds_have_origin). Qed.
Print Assumptions C13_signature_kinds_have_db_origin.

(* ---- decorations: every (instruction, decoration) pair the database grants (lock, xacquire/xrelease, rep/repne, {k} {z} {er} {sae}, broadcast element size;
   1 888 pairs, the 38 known-absent AVX10.2 ones are vendored separately) has, in the current tables, the InstFlags / Avx512Flags bits validate() demands *)
Theorem C13_db_decorations_present : forall dc, In dc x86_db_decorations -> decor_present x86_vtables dc = true.
Proof. exact (forallb_In _ (decor_present x86_vtables) x86_db_decorations x86_db_decorations_present). Qed.
Print Assumptions C13_db_decorations_present.

(* ---- row-level acceptance beyond the signature stage (ALL operand values, ALL option words): for a database row contained in the tables, an instruction
   word with that id whose operands translate without error, leave no gap and fit the row kind by kind is ACCEPTED by validate as soon as the remaining
   stages pass - lock/rep prefixes, the mode rules (r64 in 32-bit mode, AH..DH with REX), {evex}, {z}{er}{sae} and the {k}/rep extra register *)
Theorem C13_db_row_validates : forall row, In row x86_db_rows ->
  forall zq x64 virt inst ops iflags avx sidx scnt st rest,
  vi_id inst = dr_inst row ->
  nth (N.to_nat (dr_inst row)) (vt_inst x86_vtables) (0, 0, 0, 0) = (iflags, avx, sidx, scnt) ->
  test (dr_mode row) (mode_bit x64) = true ->
  xlat_all x86_vtables x64 virt iflags avx ops init_xstate = inr (st, rest) ->
  forallb is_none rest = true ->
  fits_all (explicit_ops (dr_ops row)) (xs_sigs st) = true ->
  lock_stage (vi_options inst) iflags (first_is_mem ops) = E_Ok ->
  rep_stage (vi_options inst) iflags = E_Ok ->
  mode_stage x64 (vi_options inst) st = E_Ok ->
  evex_stage (vi_options inst) iflags = E_Ok ->
  avx_stage (vi_options inst) iflags avx (match xs_mem st with Some _ => true | None => false end) (first_is_mem ops) ops = E_Ok ->
  extra_stage inst iflags avx st = E_Ok ->
  validate x86_vtables zq x64 virt inst ops = E_Ok.
Proof.
  exact (fun row Hin zq x64 virt inst ops iflags avx sidx scnt st rest =>
    db_row_validates x86_vtables zq x64 virt row inst ops iflags avx sidx scnt st rest x86_sigs_wf
      (forallb_In _ (row_present x86_vtables) x86_db_rows x86_db_rows_present row Hin)).
Qed.
Print Assumptions C13_db_row_validates.

(* the undecorated case: no option bits, no extra register - only the mode rule remains as a premise *)
Theorem C13_db_row_validates_plain : forall row, In row x86_db_rows ->
  forall zq x64 virt inst ops iflags avx sidx scnt st rest,
  vi_id inst = dr_inst row -> vi_options inst = 0 -> vi_extra_type inst = 0 ->
  nth (N.to_nat (dr_inst row)) (vt_inst x86_vtables) (0, 0, 0, 0) = (iflags, avx, sidx, scnt) ->
  test (dr_mode row) (mode_bit x64) = true ->
  xlat_all x86_vtables x64 virt iflags avx ops init_xstate = inr (st, rest) ->
  forallb is_none rest = true ->
  fits_all (explicit_ops (dr_ops row)) (xs_sigs st) = true ->
  mode_stage x64 0 st = E_Ok ->
  validate x86_vtables zq x64 virt inst ops = E_Ok.
Proof. exact db_row_validates_plain_x86. Qed.
Print Assumptions C13_db_row_validates_plain.

(* the stages of the decorations follow from the flags C13_db_decorations_present guarantees *)
Theorem C13_decoration_stages : 
  (forall iflags, test iflags IF_Lock = true -> lock_stage OPT_Lock iflags true = E_Ok) /\
  (forall iflags o, (o = OPT_Rep \/ o = OPT_Repne) -> test iflags IF_Rep = true -> rep_stage o iflags = E_Ok) /\
  (forall inst iflags avx st, test (vi_options inst) kRepAny = false -> test iflags IF_Evex = true -> test avx AF_K = true ->
     vi_extra_type inst = RT_Mask -> 1 <= vi_extra_id inst <= 7 -> extra_stage inst iflags avx st = E_Ok) /\
  (forall options iflags avx has_mem op0m ops, test iflags IF_Evex = true ->
     (test options OPT_ZMask = true -> test avx AF_Z = true /\ op0m = false) ->
     (test options (N.lor OPT_SAE OPT_ER) = true ->
        has_mem = false /\ (test options OPT_ER = true -> test avx AF_ER = true) /\ (test options OPT_ER = false -> test avx AF_SAE = true /\ test avx AF_ER = false) /\
        (test avx (N.lor AF_B16 (N.lor AF_B32 AF_B64)) = true -> is_zmm_or_m512 (nth 0 ops ONone) || is_zmm_or_m512 (nth 1 ops ONone) = true)) ->
     avx_stage options iflags avx has_mem op0m ops = E_Ok).
Proof. exact (conj lock_stage_lock (conj rep_stage_rep (conj extra_stage_k avx_stage_ok))). Qed.
Print Assumptions C13_decoration_stages.

(* ---- the premises of C13_db_row_validates_plain are DERIVED for operands generated from the row itself: for every database row contained in the tables and every
   mode it lists, the operand list rep_ops (one representative per explicit operand kind: register class / the fixed register, memory of the named size with a mode-sized
   base, the immediate width's value, a label) validates - through the row-level theorem, not by evaluating validate *)
Theorem C13_db_rows_representatives_validate : forall row, In row x86_db_rows ->
  forall zq x64, test (dr_mode row) (mode_bit x64) = true ->
  validate x86_vtables zq x64 false {| vi_id := dr_inst row; vi_options := 0; vi_extra_type := 0; vi_extra_id := 0 |} (rep_ops x64 row) = E_Ok.
Proof.
  exact (fun row Hin zq => rep_validates_both x86_vtables zq row x86_sigs_wf
           (forallb_In _ (row_present x86_vtables) x86_db_rows x86_db_rows_present row Hin)
           (forallb_In _ (rep_premises_both x86_vtables) x86_db_rows x86_rep_premises row Hin)).
Qed.
Print Assumptions C13_db_rows_representatives_validate.

(* ---- the emitter API: every instruction method of a64::Emitter / x86::Emitter (ASMJIT_INST_* lines of a64emitter.h / x86emitter.h, re-read on every run) is bound to an
   instruction id that carries the method's name (x86: the method's name looks up to that id, which also covers aliases such as sal -> shl), except the vendored
   exceptions (a64 stlr/stlrb/stlrh, bound to the STLLR* ids in the reference tree: known finding) *)
Theorem C13_api_methods_name_their_ids_a64 : forall m id, In (m, id) a64_api_methods ->
  existsb (str_eqb m) a64_api_exceptions = true \/ name_of a64_names id = m.
Proof. exact (api_methods_a64 a64_names a64_api_methods a64_api_exceptions a64_api_methods_ok). Qed.
Print Assumptions C13_api_methods_name_their_ids_a64.

Theorem C13_api_methods_name_their_ids_x86 : forall m id, In (m, id) x86_api_methods ->
  existsb (str_eqb m) x86_api_exceptions = true \/ x86_string_to_inst_id x86_names x86_aliases m = id.
Proof. exact (api_methods_x86 x86_names x86_aliases x86_api_methods x86_api_exceptions x86_api_methods_ok). Qed.
Print Assumptions C13_api_methods_name_their_ids_x86.

(* ---- decorated database rows: for every row with ONE decoration its database form grants (lock, rep, repne, {k}, {k}{z}, {er}, {sae}, each also with {k}, {evex};
   9 494 (row, decoration) pairs; packed {er}/{sae} below 512 bits and the known-absent AVX10.2 decorations are not generated) and every mode the row lists, the
   instruction word carrying the decoration validates on the representative operands - through the row-level theorem C13_db_row_validates: all its stage
   premises are derived by evaluation of the stage functions *)
From VerifGen Require Import X86DbDecor.
Theorem C13_db_rows_decorated_representatives_validate : forall dr, In dr x86_db_rows_decorated ->
  forall zq x64, test (dr_mode (fst (fst (fst dr)))) (mode_bit x64) = true ->
  validate x86_vtables zq x64 false
    {| vi_id := dr_inst (fst (fst (fst dr))); vi_options := snd (fst (fst dr)); vi_extra_type := snd (fst dr); vi_extra_id := snd dr |}
    (rep_ops x64 (fst (fst (fst dr)))) = E_Ok.
Proof.
  exact (fun dr Hin zq => rep_decor_validates_both x86_vtables zq dr x86_sigs_wf
           (forallb_In _ (rep_decor_premises_both x86_vtables) x86_db_rows_decorated x86_rep_decor_premises dr Hin)).
Qed.
Print Assumptions C13_db_rows_decorated_representatives_validate.

(* ---- for ALL instructions, option words and operand lists: a vector register xmm/ymm/zmm16..31 among the operands (before the first empty slot) of an instruction
   that has no EVEX encoding makes validation fail (rule 4824306; the assembler refuses the same since bcef3b8) *)
Theorem C13_validate_refuses_vec16_without_evex : forall T zq x64 virt inst pre rt id post iflags avx sidx scnt,
  nth (N.to_nat (vi_id inst)) (vt_inst T) (0, 0, 0, 0) = (iflags, avx, sidx, scnt) ->
  test iflags IF_Evex = false ->
  (forall o, In o pre -> o <> ONone) -> 16 <= id < 32 -> RT_Vec128 <= rt <= RT_Vec512 ->
  validate T zq x64 virt inst (pre ++ OReg rt id :: post) <> E_Ok.
Proof. exact validate_refuses_vec16_without_evex. Qed.
Print Assumptions C13_validate_refuses_vec16_without_evex.

Example C13_validate_refuses_vec16_example : exists id,
  test (fst (fst (fst (nth id (vt_inst x86_vtables) (0, 0, 0, 0))))) IF_Evex = false /\
  validate x86_vtables false true false {| vi_id := N.of_nat id; vi_options := 0; vi_extra_type := 0; vi_extra_id := 0 |} [OReg 11 16; OReg 11 1; OReg 11 2] = E_InvalidPhysId /\
  validate x86_vtables false true false {| vi_id := N.of_nat id; vi_options := 0; vi_extra_type := 0; vi_extra_id := 0 |} [OReg 11 15; OReg 11 1; OReg 11 2] = E_Ok.
Proof. exact x86_vec16_example_ex. Qed.

(* ---- what must NOT matter: empty operand slots appended to the operand list. The emitters hand validate() all six slots, InstAPI callers the exact count;
   for ALL tables, instructions and operand lists the verdict (error code included) is the same *)
Theorem C13_validate_padding_invariant : forall T zq x64 virt inst ops k,
  validate T zq x64 virt inst (ops ++ repeat ONone k) = validate T zq x64 virt inst ops.
Proof. exact validate_padding_invariant. Qed.
Print Assumptions C13_validate_padding_invariant.

(* non-vacuity of the list-quantified theorems: none of the generated lists is empty *)
Example C13_generated_lists_nonempty :
  (x86_db_rows <> [] /\ x86_db_decorations <> []) /\ x86_db_rows_decorated <> [] /\
  negb (N.of_nat (length x86_implemented_forms) =? 0) && negb (N.of_nat (length x86_excluded_forms) =? 0) = true.
Proof. exact (conj x86_db_rows_nonempty (conj x86_db_rows_decorated_nonempty x86_form_lists_nonempty)). Qed.

(* ---- what validate never accepts, for ALL tables and inputs: an undefined instruction id (error code kInvalidInstruction), and an operand list with a gap
   (an empty slot followed by a non-empty operand: [reg, none, reg]) *)
Theorem C13_validate_refuses_undefined_id : forall T zq x64 virt inst ops,
  vt_count T <= vi_id inst -> validate T zq x64 virt inst ops = E_InvalidInstruction.
Proof. exact validate_undefined_id. Qed.
Print Assumptions C13_validate_refuses_undefined_id.

Theorem C13_validate_refuses_gap : forall T zq x64 virt inst pre post op,
  (forall o, In o pre -> o <> ONone) -> In op post -> op <> ONone ->
  validate T zq x64 virt inst (pre ++ ONone :: post) <> E_Ok.
Proof. exact validate_refuses_gap. Qed.
Print Assumptions C13_validate_refuses_gap.

(* ---- code of validate() re-read from the SOURCE TEXT on every run (translator for code, not only for tables): the cases of `switch (mem_size)` (size -> OpFlags bit) are
   exactly the model's mem_size_flag (both directions, sizes 0..199), and the immediate classification ladder of the kImm case (value on both sides of every threshold of the
   non-negative and the negative branch -> OpFlags set) is the model's imm_flags *)
Theorem C13_validator_code_cases_match_source :
  (forallb (fun c => match mem_size_flag (fst c) with Some f => f =? snd c | None => false end) x86_mem_size_cases &&
   forallb (fun sz => match mem_size_flag sz with Some _ => existsb (fun c => fst c =? sz) x86_mem_size_cases | None => true end) (nseq_v 0 200) = true) /\
  forallb (fun q => imm_flags (fst q) =? snd q) x86_imm_ladder_points = true.
Proof. exact (conj x86_mem_size_cases_ok x86_imm_ladder_ok). Qed.
Print Assumptions C13_validator_code_cases_match_source.

From Coq Require Import ZArith.
Local Open Scope N_scope.
(* ================================================================== round 6: the translation hypotheses of the row-level theorem discharged operand by operand *)

(* ---- the row-level acceptance WITHOUT hypotheses about the translation state: for a database row contained in the tables and a mode it lists, if every operand is
   an acceptable instance of the corresponding explicit row operand (operand_ok: decidable, one operand at a time - it translates, fits the kind, names no register
   above 7 and is an r64 only in 64-bit mode), the undecorated instruction validates. Completeness direction of C13_validate_accept_has_signature. *)
Theorem C13_db_row_validates_operandwise : forall row, In row x86_db_rows ->
  forall zq x64 ops iflags avx sidx scnt,
  nth (N.to_nat (dr_inst row)) (vt_inst x86_vtables) (0, 0, 0, 0) = (iflags, avx, sidx, scnt) ->
  test (dr_mode row) (mode_bit x64) = true ->
  operands_ok x86_vtables x64 iflags avx (explicit_ops (dr_ops row)) ops = true ->
  validate x86_vtables zq x64 false {| vi_id := dr_inst row; vi_options := 0; vi_extra_type := 0; vi_extra_id := 0 |} ops = E_Ok.
Proof.
  exact (fun row Hin zq x64 ops iflags avx sidx scnt =>
    db_row_validates_operandwise x86_vtables zq x64 row ops iflags avx sidx scnt x86_sigs_wf
      (forallb_In _ (row_present x86_vtables) x86_db_rows x86_db_rows_present row Hin)).
Qed.
Print Assumptions C13_db_row_validates_operandwise.

(* non-vacuity: the generated representatives of every row meet the operand-wise premise *)
Example C13_db_row_validates_operandwise_premise : forall row, In row x86_db_rows -> rep_operands_ok_both x86_vtables row = true.
Proof. exact (forallb_In _ (rep_operands_ok_both x86_vtables) x86_db_rows x86_rep_operands_ok). Qed.

(* ---- families of acceptable operands (not single representatives): every register 0..7 of each of the 16 register classes (as class operand and as fixed register),
   and - for ALL displacements - every memory operand with a mode-sized GP base 0..7, no index, default segment, of a size validate() knows, also where the row
   demands a base-only address (then the displacement must be 0 mod 2^32); every immediate of an immediate kind it belongs to; a label for a rel8/rel32 kind *)
Theorem C13_standard_registers_are_acceptable : standard_registers_ok x86_vtables = true.
Proof. exact x86_standard_registers_ok. Qed.
Print Assumptions C13_standard_registers_are_acceptable.

Theorem C13_plain_memory_operands_are_acceptable : forall (x64 : bool) iflags avx sz sf bid (off : Z) (need_mb : bool),
  mem_size_flag sz = Some sf -> bid < 8 -> (need_mb = true -> (off mod 4294967296 = 0)%Z) ->
  operand_ok x86_vtables x64 iflags avx (N.lor sf (if need_mb then OF_FlagMemBase else 0), 0, false)
             (OMem sz (if x64 then RT_Gp64 else RT_Gp32) bid 0 0 off 0 0 false) = true.
Proof.
  exact (fun x64 iflags avx sz sf bid off need_mb SZ B M =>
    operand_ok_plain_mem x86_vtables x64 iflags avx sz sf bid off need_mb SZ B
      (match x64 as b return N.testbit (vd_base_regs (if b then vt_vd64 x86_vtables else vt_vd86 x86_vtables)) (if b then RT_Gp64 else RT_Gp32) = true with
       | true => proj1 (andb_prop _ _ x86_mem_base_types_ok) | false => proj2 (andb_prop _ _ x86_mem_base_types_ok) end) M).
Qed.
Print Assumptions C13_plain_memory_operands_are_acceptable.

Theorem C13_immediates_and_labels_are_acceptable : forall T x64 iflags avx need,
  test need OF_RegMask = false -> test need OF_FlagMemBase = false ->
  (forall v, test (N.land (N.land (imm_flags v) MASK56) need) OF_OpMask = true -> operand_ok T x64 iflags avx (need, 0, false) (OImm v) = true) /\
  (test (N.land (N.land (N.lor OF_Rel8 OF_Rel32) MASK56) need) OF_OpMask = true -> operand_ok T x64 iflags avx (need, 0, false) OLabel = true).
Proof.
  exact (fun T x64 iflags avx need NR NM =>
    conj (fun v F => operand_ok_imm T x64 iflags avx v need NR NM F) (fun F => operand_ok_label T x64 iflags avx need NR NM F)).
Qed.
Print Assumptions C13_immediates_and_labels_are_acceptable.

(* ---- COMPLETENESS for standard operands, no hypothesis about the validator left: for every database row contained in the tables, every mode it lists and EVERY operand
   list whose operands are standard instances of the row's explicit operands (std_instance: a purely syntactic condition - register 0..7 of the named class or the fixed
   register; [mode-sized GP base 0..7 + any displacement] of the named size; an immediate belonging to a named immediate kind; a label), the undecorated instruction validates *)
Theorem C13_db_row_validates_standard : forall row, In row x86_db_rows ->
  forall zq x64 ops, test (dr_mode row) (mode_bit x64) = true ->
  std_instances x64 (explicit_ops (dr_ops row)) ops = true ->
  validate x86_vtables zq x64 false {| vi_id := dr_inst row; vi_options := 0; vi_extra_type := 0; vi_extra_id := 0 |} ops = E_Ok.
Proof.
  exact (fun row Hin zq x64 ops =>
    db_row_validates_standard x86_vtables zq x64 row ops x86_sigs_wf
      (forallb_In _ (row_present x86_vtables) x86_db_rows x86_db_rows_present row Hin) x86_standard_registers_ok x86_mem_base_types_ok).
Qed.
Print Assumptions C13_db_row_validates_standard.

(* non-vacuity: for every row without a vector-index (vsib) memory operand the generated representatives are standard instances in every mode of the row *)
Example C13_db_row_validates_standard_premise : forall row, In row x86_db_rows ->
  rep_is_standard_both row || existsb (fun o => test (fst (fst o)) OF_VmMask) (dr_ops row) = true.
Proof. exact (forallb_In _ _ x86_db_rows x86_rep_is_standard). Qed.

(* ---- ... and under a {k} mask: for every row of an instruction to which the database grants {k} (its entry of x86_db_decorations names kEvex and the K flag), every
   standard operand list and every mask register k1..k7, the masked instruction validates *)
Theorem C13_db_row_validates_standard_masked : forall row, In row x86_db_rows ->
  forall nif naf, In (dr_inst row, nif, naf) x86_db_decorations -> test nif IF_Evex = true -> test naf AF_K = true ->
  forall zq x64 ops kid, 1 <= kid <= 7 -> test (dr_mode row) (mode_bit x64) = true ->
  std_instances x64 (explicit_ops (dr_ops row)) ops = true ->
  validate x86_vtables zq x64 false {| vi_id := dr_inst row; vi_options := 0; vi_extra_type := RT_Mask; vi_extra_id := kid |} ops = E_Ok.
Proof.
  exact (fun row Hin nif naf Hd EV K zq x64 ops kid KID M ST =>
    db_row_validates_standard_masked x86_vtables zq x64 row ops kid nif naf x86_sigs_wf
      (forallb_In _ (row_present x86_vtables) x86_db_rows x86_db_rows_present row Hin) x86_standard_registers_ok x86_mem_base_types_ok
      (forallb_In _ (decor_present x86_vtables) x86_db_decorations x86_db_decorations_present _ Hd) EV K KID M ST).
Qed.
Print Assumptions C13_db_row_validates_standard_masked.

Example C13_db_row_validates_standard_masked_nonvacuous :
  existsb (fun row => existsb (fun dc => (fst (fst dc) =? dr_inst row) && test (snd (fst dc)) IF_Evex && test (snd dc) AF_K) x86_db_decorations) x86_db_rows = true.
Proof. exact x86_masked_rows_exist. Qed.

(* ---- soundness direction, composed (for ALL calls): whenever validate accepts an instruction word with operands, the operands translated without error and were matched by a
   signature record of the instruction that - unless it is one of the 14 vendored exceptions - admits a database row of this instruction sharing a mode with the record:
   nothing is accepted on the strength of a record the database does not know *)
Theorem C13_accepted_call_has_database_origin : forall zq x64 virt inst ops, 1 <= vi_id inst ->
  validate x86_vtables zq x64 virt inst ops = E_Ok ->
  exists iflags avx sidx scnt, nth (N.to_nat (vi_id inst)) (vt_inst x86_vtables) (0, 0, 0, 0) = (iflags, avx, sidx, scnt) /\
    (scnt = 0 \/ exists j s st rest,
       nth_error (inst_sigs x86_vtables sidx scnt) j = Some s /\
       xlat_all x86_vtables x64 virt iflags avx ops init_xstate = inr (st, rest) /\
       match_sig x86_vtables zq (mode_bit x64) (xs_sigs st) s = Some false /\
       (pair_in (vi_id inst, N.of_nat j) x86_records_without_origin = true \/ sig_origin x86_vtables x86_db_rows (vi_id inst) s = true)).
Proof. exact (fun zq x64 virt inst ops => accepted_call_has_origin x86_vtables x86_db_rows x86_records_without_origin zq x64 virt inst ops x86_records_have_origin). Qed.
Print Assumptions C13_accepted_call_has_database_origin.

(* ---- ... and under a LOCK prefix: for every row of an instruction to which the database grants lock (its decoration entry names kLock), every standard operand list whose
   first operand is memory validates with the lock option *)
Theorem C13_db_row_validates_standard_lock : forall row, In row x86_db_rows ->
  forall nif naf, In (dr_inst row, nif, naf) x86_db_decorations -> test nif IF_Lock = true ->
  forall zq x64 ops, first_is_mem ops = true -> test (dr_mode row) (mode_bit x64) = true ->
  std_instances x64 (explicit_ops (dr_ops row)) ops = true ->
  validate x86_vtables zq x64 false {| vi_id := dr_inst row; vi_options := OPT_Lock; vi_extra_type := 0; vi_extra_id := 0 |} ops = E_Ok.
Proof.
  exact (fun row Hin nif naf Hd LK zq x64 ops FM M ST =>
    db_row_validates_standard_lock x86_vtables zq x64 row ops nif naf x86_sigs_wf
      (forallb_In _ (row_present x86_vtables) x86_db_rows x86_db_rows_present row Hin) x86_standard_registers_ok x86_mem_base_types_ok
      (forallb_In _ (decor_present x86_vtables) x86_db_decorations x86_db_decorations_present _ Hd) LK FM M ST).
Qed.
Print Assumptions C13_db_row_validates_standard_lock.

(* ================================================================== round 7 *)
(* ---- standard operands under {k}{z} (zeroing-masking): for every row of an instruction whose decoration entry names kEvex, K and Z, every standard operand list with a
   register destination and every mask register k1..k7, the instruction word with the {z} option and the mask validates *)
Theorem C13_db_row_validates_standard_masked_zeroing : forall row, In row x86_db_rows ->
  forall nif naf, In (dr_inst row, nif, naf) x86_db_decorations -> test nif IF_Evex = true -> test naf AF_K = true -> test naf AF_Z = true ->
  forall zq x64 ops kid, 1 <= kid <= 7 -> first_is_mem ops = false -> test (dr_mode row) (mode_bit x64) = true ->
  std_instances x64 (explicit_ops (dr_ops row)) ops = true ->
  validate x86_vtables zq x64 false {| vi_id := dr_inst row; vi_options := OPT_ZMask; vi_extra_type := RT_Mask; vi_extra_id := kid |} ops = E_Ok.
Proof.
  exact (fun row Hin nif naf Hd EV K Z zq x64 ops kid KID FM M ST =>
    db_row_validates_standard_kz x86_vtables zq x64 row ops kid nif naf x86_sigs_wf
      (forallb_In _ (row_present x86_vtables) x86_db_rows x86_db_rows_present row Hin) x86_standard_registers_ok x86_mem_base_types_ok
      (forallb_In _ (decor_present x86_vtables) x86_db_decorations x86_db_decorations_present _ Hd) EV K Z KID FM M ST).
Qed.
Print Assumptions C13_db_row_validates_standard_masked_zeroing.

(* non-vacuity: rows whose instruction has a decoration entry naming kEvex, K and Z exist *)
Example C13_db_row_validates_standard_masked_zeroing_nonvacuous :
  existsb (fun row => existsb (fun dc => (fst (fst dc) =? dr_inst row) && test (snd (fst dc)) IF_Evex && test (snd dc) AF_K && test (snd dc) AF_Z) x86_db_decorations) x86_db_rows = true.
Proof. vm_compute. reflexivity. Qed.

(* ---- standard operands with the {evex} option: for every row of an instruction whose decoration entry names kEvex, every standard operand list validates with the option *)
Theorem C13_db_row_validates_standard_evex : forall row, In row x86_db_rows ->
  forall nif naf, In (dr_inst row, nif, naf) x86_db_decorations -> test nif IF_Evex = true ->
  forall zq x64 ops, test (dr_mode row) (mode_bit x64) = true ->
  std_instances x64 (explicit_ops (dr_ops row)) ops = true ->
  validate x86_vtables zq x64 false {| vi_id := dr_inst row; vi_options := OPT_Evex; vi_extra_type := 0; vi_extra_id := 0 |} ops = E_Ok.
Proof.
  exact (fun row Hin nif naf Hd EV zq x64 ops M ST =>
    db_row_validates_standard_evex x86_vtables zq x64 row ops nif naf x86_sigs_wf
      (forallb_In _ (row_present x86_vtables) x86_db_rows x86_db_rows_present row Hin) x86_standard_registers_ok x86_mem_base_types_ok
      (forallb_In _ (decor_present x86_vtables) x86_db_decorations x86_db_decorations_present _ Hd) EV M ST).
Qed.
Print Assumptions C13_db_row_validates_standard_evex.

(* non-vacuity: C13_db_row_validates_standard_masked_nonvacuous exhibits rows whose decoration entry names kEvex (and K) *)
Example C13_db_row_validates_standard_evex_nonvacuous :
  existsb (fun row => existsb (fun dc => (fst (fst dc) =? dr_inst row) && test (snd (fst dc)) IF_Evex) x86_db_decorations) x86_db_rows = true.
Proof. vm_compute. reflexivity. Qed.

(* C17 — Displacement and immediate field codecs are exact for every value.
   This file holds ONLY the property theorems (each closed by `exact <lemma>`) and their Print Assumptions. *)
From Coq Require Import ZArith List Bool.
From Verif Require Import Base.ZBits Codec.OffsetModel Codec.OffsetProofs Codec.ImmModel Codec.ImmProofs Codec.MovSeqProofs.
Local Open Scope Z_scope.

(* contiguous signed field (x86 rel8/rel32, AArch64 imm19/imm26/imm14, ...): any value size 1/2/4/8, any bit count,
   shift and number of discarded low bits; every 64-bit offset *)
Theorem C17_signed_roundtrip : forall f off m,
  ty f = SignedOffset -> wf_contig f -> int64 off -> encode_offset f off = Some m ->
  decode_signed f m = off /\ 0 <= m < 2 ^ (bits f + shift f) /\ m mod 2 ^ shift f = 0.
Proof. exact signed_roundtrip. Qed.
Print Assumptions C17_signed_roundtrip.

Theorem C17_signed_refused_iff : forall f off,
  ty f = SignedOffset -> wf_contig f -> int64 off ->
  (encode_offset f off = None <->
   ~ (off mod 2 ^ discard f = 0 /\ - 2 ^ (bits f - 1) <= off / 2 ^ discard f < 2 ^ (bits f - 1))).
Proof. exact signed_refused_iff. Qed.
Print Assumptions C17_signed_refused_iff.

Theorem C17_unsigned_roundtrip : forall f off m,
  ty f = UnsignedOffset -> wf_contig32 f -> int64 off -> encode_offset f off = Some m ->
  decode_unsigned f m = off /\ 0 <= m < 2 ^ (bits f + shift f) /\ m mod 2 ^ shift f = 0.
Proof. exact unsigned32_roundtrip. Qed.
Print Assumptions C17_unsigned_roundtrip.

Theorem C17_unsigned_refused_iff : forall f off,
  ty f = UnsignedOffset -> wf_contig32 f -> int64 off ->
  (encode_offset f off = None <->
   ~ (off mod 2 ^ discard f = 0 /\ 0 <= off / 2 ^ discard f < 2 ^ bits f)).
Proof. exact unsigned32_refused_iff. Qed.
Print Assumptions C17_unsigned_refused_iff.

(* AArch64 ADR / ADRP split field immlo:immhi *)
Theorem C17_a64_adr_roundtrip : forall f off m,
  is_adr_fmt f -> int64 off -> encode_offset f off = Some m ->
  decode_a64_adr m * 2 ^ discard f = off /\ 0 <= m < 2 ^ 32 /\ Z.land m (Z.lnot a64_adr_mask) = 0.
Proof. exact a64_adr_roundtrip. Qed.
Print Assumptions C17_a64_adr_roundtrip.

(* patching ORs the field into the word: all bits outside the field keep their value *)
Theorem C17_write_offset_exact : forall f old off w,
  (ty f = SignedOffset \/ (ty f = UnsignedOffset /\ vsize f <> 8)) -> wf_contig f -> int64 off -> 0 <= old ->
  write_offset f old off = Some w ->
  Z.land w (Z.lnot (field_mask f)) = Z.land old (Z.lnot (field_mask f)).
Proof. exact write_offset_contig_exact. Qed.
Print Assumptions C17_write_offset_exact.

Theorem C17_write_offset_field : forall f old off w mask,
  0 <= old -> 0 <= mask ->
  (forall m, encode_offset f off = Some m -> 0 <= m /\ Z.land m (Z.lnot mask) = 0) ->
  write_offset f old off = Some w ->
  Z.land w (Z.lnot mask) = Z.land old (Z.lnot mask) /\
  (Z.land old mask = 0 -> exists m, encode_offset f off = Some m /\ Z.land w mask = m).
Proof. exact write_offset_exact. Qed.
Print Assumptions C17_write_offset_field.

(* KNOWN FINDINGS of the pinned tree, as theorems about the faithful model: the Thumb-2 branch formats are not
   the architectural encodings (no AArch32 assembler in the tree emits them) *)
Theorem C17_t32_b_refuted :
  exists off m, encode_offset t32_b_fmt off = Some m /\ decode_t32_b m * 2 <> off.
Proof. exact t32_b_refuted. Qed.
Print Assumptions C17_t32_b_refuted.

Theorem C17_t32_bcond_refuted :
  exists off1 off2 m, off1 <> off2 /\ encode_offset t32_bcond_fmt off1 = Some m /\ encode_offset t32_bcond_fmt off2 = Some m.
Proof. exact t32_bcond_refuted. Qed.
Print Assumptions C17_t32_bcond_refuted.

(* AArch64 logical (bitmask) immediates: every architectural encoding denotes a value the encoder accepts and
   re-encodes to the same value -- all 2*64*64 field combinations for both register widths *)
Theorem C17_logical_imm_complete : forall m n imms immr v,
  (m = 32 \/ m = 64) -> 0 <= n < 2 -> 0 <= imms < 64 -> 0 <= immr < 64 ->
  decode_bit_masks m n imms immr = Some v ->
  exists e, encode_logical_imm v m = Some e /\ decode_bit_masks m (li_n e) (li_s e) (li_r e) = Some v.
Proof. exact logical_imm_complete. Qed.
Print Assumptions C17_logical_imm_complete.

(* 8-bit floating-point immediates, half/single/double: exact in both directions, for every value *)
Theorem C17_fp_imm8_complete : forall n i, fp_n_ok n -> 0 <= i < 256 ->
  fp_is n (vfp_expand_imm n i) = true /\ fp_enc n (vfp_expand_imm n i) = i.
Proof. exact fp_imm8_complete. Qed.
Print Assumptions C17_fp_imm8_complete.

Theorem C17_fp_imm8_sound : forall n v, fp_n_ok n -> 0 <= v < 2 ^ n ->
  fp_is n v = true -> vfp_expand_imm n (fp_enc n v) = v.
Proof. exact fp_imm8_sound. Qed.
Print Assumptions C17_fp_imm8_sound.

(* add/sub immediates: accepted exactly when imm12 or imm12 << 12 *)
Theorem C17_add_sub_imm_exact : forall imm, 0 <= imm < 2 ^ 64 -> is_add_sub_imm imm = add_sub_encodable imm.
Proof. exact add_sub_imm_exact. Qed.
Print Assumptions C17_add_sub_imm_exact.

Theorem C17_byte_mask_complete : forall i, 0 <= i < 256 ->
  is_byte_mask_imm (expand_byte_mask 8 i) = true /\ encode_byte_mask_imm8 (expand_byte_mask 8 i) = i.
Proof. exact byte_mask_complete. Qed.
Print Assumptions C17_byte_mask_complete.

Theorem C17_lmh_exact : forall size idx, 0 <= idx ->
  match encode_lmh size idx with
  | Some (lm, h, maxrm) =>
      (size = 1 /\ h * 4 + lm = idx /\ idx < 8 /\ maxrm = 15) \/
      (size = 2 /\ h * 2 + lm / 2 = idx /\ lm mod 2 = 0 /\ idx < 4 /\ maxrm = 31)
  | None => (size <> 1 /\ size <> 2) \/ (size = 1 /\ 8 <= idx) \/ (size = 2 /\ 4 <= idx)
  end.
Proof. exact lmh_exact. Qed.
Print Assumptions C17_lmh_exact.

(* move-wide sequences (mov xN, #imm64): for EVERY immediate, destination and initial register content, the 1..4 words
   decode (ARM ARM move-wide class) to MOVZ/MOVN/MOVK operations on Rd whose execution leaves exactly the immediate *)
Theorem C17_mov_sequence_correct : forall (is64 : bool) imm rd x init,
  0 <= imm < (if is64 then 2 ^ 64 else 2 ^ 32) -> 0 <= rd < 32 -> (x = 0 \/ x = 1) -> 0 <= init < 2 ^ 64 ->
  let ws := encode_mov_sequence is64 imm rd x in
  exists ops, map mw_decode ws = map (fun m => Some (rd, m)) ops /\ mw_run init ops = Some imm /\
              (1 <= length ws <= (if is64 then 4 else 2))%nat.
Proof. exact mov_sequence_words_correct. Qed.
Print Assumptions C17_mov_sequence_correct.

(* ---------------------------------------------------------------------------------------------------------------- *)
(* AArch64 logical (bitmask) immediates, SOUNDNESS for EVERY value of the register width: whatever the encoder accepts
   decodes (DecodeBitMasks) to exactly the value given; with C17_logical_imm_complete the encoder is exact *)
From Verif Require Import Codec.LogImmSound.

Theorem C17_logical_imm_sound : forall m imm e,
  (m = 32 \/ m = 64) -> 0 <= imm < 2 ^ m -> encode_logical_imm imm m = Some e ->
  decode_bit_masks m (li_n e) (li_s e) (li_r e) = Some imm.
Proof. exact logical_imm_sound. Qed.
Print Assumptions C17_logical_imm_sound.

(* ... and the produced fields fit their instruction fields N (1 bit), imms, immr (6 bits each) *)
Theorem C17_logical_imm_sound_fields : forall m imm e,
  (m = 32 \/ m = 64) -> 0 <= imm < 2 ^ m -> encode_logical_imm imm m = Some e ->
  decode_bit_masks m (li_n e) (li_s e) (li_r e) = Some imm /\
  0 <= li_n e < 2 /\ 0 <= li_s e < 64 /\ 0 <= li_r e < 64.
Proof. exact logical_imm_sound_fields. Qed.
Print Assumptions C17_logical_imm_sound_fields.

(* the encoder refuses exactly the values that no field triple (N, imms, immr) denotes *)
Theorem C17_logical_imm_refused_iff : forall m imm,
  (m = 32 \/ m = 64) -> 0 <= imm < 2 ^ m ->
  (encode_logical_imm imm m = None <->
   ~ exists n s r, 0 <= n < 2 /\ 0 <= s < 64 /\ 0 <= r < 64 /\ decode_bit_masks m n s r = Some imm).
Proof. exact logical_imm_refused_iff. Qed.
Print Assumptions C17_logical_imm_refused_iff.

(* ---------------------------------------------------------------------------------------------------------------- *)
(* the remaining OffsetTypes whose pinned implementation is right: round trip against the architectural decoders for
   EVERY int64 offset the encoder accepts (the offset is the decoded field scaled by 2^discard) *)
From Verif Require Import Codec.OffsetFormatsProofs Codec.ByteMaskProofs.

(* Thumb-2 ADR (T2 SUB form / T3 ADD form): i:imm3:imm8 *)
Theorem C17_t32_adr_roundtrip : forall f off m,
  is_t32_adr_fmt f -> int64 off -> encode_offset f off = Some m ->
  decode_t32_adr m * 2 ^ discard f = off /\ 0 <= m < 2 ^ 32.
Proof. exact t32_adr_roundtrip. Qed.
Print Assumptions C17_t32_adr_roundtrip.

(* A32 magnitude + U bit (LDR/STR imm12, VLDR imm8*4, ...): any field position below bit 23 *)
Theorem C17_a32_u23_roundtrip : forall f off m,
  is_a32_u23_fmt f -> int64 off -> encode_offset f off = Some m ->
  decode_a32_u23 f m * 2 ^ discard f = off /\ 0 <= m < 2 ^ 32.
Proof. exact a32_u23_roundtrip. Qed.
Print Assumptions C17_a32_u23_roundtrip.

(* A32 imm4H:imm4L + U bit (LDRH/LDRD/...) *)
Theorem C17_a32_u23_split_roundtrip : forall f off m,
  is_a32_u23_split_fmt f -> int64 off -> encode_offset f off = Some m ->
  decode_a32_u23_split m * 2 ^ discard f = off /\ 0 <= m < 2 ^ 32.
Proof. exact a32_u23_split_roundtrip. Qed.
Print Assumptions C17_a32_u23_split_roundtrip.

(* A32 BLX (A2): imm24:H *)
Theorem C17_a32_blx_roundtrip : forall f off m,
  is_a32_blx_fmt f -> int64 off -> encode_offset f off = Some m ->
  decode_a32_blx m * 2 ^ discard f = off /\ 0 <= m < 2 ^ 32.
Proof. exact a32_blx_roundtrip. Qed.
Print Assumptions C17_a32_blx_roundtrip.

(* what the sign-bit formats accept, for every int64 offset (including INT64_MIN, whose negation wraps) *)
Theorem C17_signbit_accept_spec : forall f off,
  has_sign_bit (ty f) = true -> 0 < bits f -> bits f <= 32 -> bits f <= vsize f * 8 -> 0 <= discard f <= 31 -> int64 off ->
  encode_offset32 f off =
  if (Z.abs off mod 2 ^ discard f =? 0) && (Z.abs off / 2 ^ discard f <? 2 ^ bits f)
  then post32 (ty f) (vsize f) (bits f) (shift f) (Z.abs off / 2 ^ discard f) (if 0 <=? off then 1 else 0)
  else None.
Proof. exact signbit_spec. Qed.
Print Assumptions C17_signbit_accept_spec.

(* 64-bit byte-mask immediates (MOVI): soundness for EVERY 64-bit value; with C17_byte_mask_complete the test is exact *)
Theorem C17_byte_mask_sound : forall imm,
  0 <= imm < 2 ^ 64 -> is_byte_mask_imm imm = true ->
  expand_byte_mask 8 (encode_byte_mask_imm8 imm) = imm /\ 0 <= encode_byte_mask_imm8 imm < 256.
Proof. exact byte_mask_sound. Qed.
Print Assumptions C17_byte_mask_sound.

Theorem C17_byte_mask_accepted_iff : forall imm,
  is_byte_mask_imm imm = true <-> exists j, 0 <= j < 256 /\ imm = expand_byte_mask 8 j.
Proof. exact byte_mask_accepted_iff. Qed.
Print Assumptions C17_byte_mask_accepted_iff.

(* C17 — Displacement and immediate field codecs are exact for every value.
   This file holds ONLY the property theorems (each closed by `exact <lemma>`) and their Print Assumptions. *)
From Coq Require Import ZArith List Bool.
From Verif Require Import Base.ZBits Codec.OffsetModel Codec.OffsetProofs Codec.ImmModel Codec.ImmProofs Codec.MovSeqProofs.
Local Open Scope Z_scope.

(* contiguous signed field (x86 rel8/rel32, AArch64 imm19/imm26/imm14, ...): any value size 1/2/4/8, any bit count,
   shift and number of discarded low bits; every 64-bit offset *)
Theorem C17_signed_roundtrip : forall f off m,
  ty f = SignedOffset -> wf_contig f -> int64 off -> encode_offset f off = Some m ->
  decode_signed f m = off /\ 0 <= m < 2 ^ (bits f + shift f) /\ m mod 2 ^ shift f = 0.
Proof. exact signed_roundtrip. Qed.
Print Assumptions C17_signed_roundtrip.

Theorem C17_signed_refused_iff : forall f off,
  ty f = SignedOffset -> wf_contig f -> int64 off ->
  (encode_offset f off = None <->
   ~ (off mod 2 ^ discard f = 0 /\ - 2 ^ (bits f - 1) <= off / 2 ^ discard f < 2 ^ (bits f - 1))).
Proof. exact signed_refused_iff. Qed.
Print Assumptions C17_signed_refused_iff.

Theorem C17_unsigned_roundtrip : forall f off m,
  ty f = UnsignedOffset -> wf_contig32 f -> int64 off -> encode_offset f off = Some m ->
  decode_unsigned f m = off /\ 0 <= m < 2 ^ (bits f + shift f) /\ m mod 2 ^ shift f = 0.
Proof. exact unsigned32_roundtrip. Qed.
Print Assumptions C17_unsigned_roundtrip.

Theorem C17_unsigned_refused_iff : forall f off,
  ty f = UnsignedOffset -> wf_contig32 f -> int64 off ->
  (encode_offset f off = None <->
   ~ (off mod 2 ^ discard f = 0 /\ 0 <= off / 2 ^ discard f < 2 ^ bits f)).
Proof. exact unsigned32_refused_iff. Qed.
Print Assumptions C17_unsigned_refused_iff.

(* AArch64 ADR / ADRP split field immlo:immhi *)
Theorem C17_a64_adr_roundtrip : forall f off m,
  is_adr_fmt f -> int64 off -> encode_offset f off = Some m ->
  decode_a64_adr m * 2 ^ discard f = off /\ 0 <= m < 2 ^ 32 /\ Z.land m (Z.lnot a64_adr_mask) = 0.
Proof. exact a64_adr_roundtrip. Qed.
Print Assumptions C17_a64_adr_roundtrip.

(* patching ORs the field into the word: all bits outside the field keep their value *)
Theorem C17_write_offset_exact : forall f old off w,
  (ty f = SignedOffset \/ (ty f = UnsignedOffset /\ vsize f <> 8)) -> wf_contig f -> int64 off -> 0 <= old ->
  write_offset f old off = Some w ->
  Z.land w (Z.lnot (field_mask f)) = Z.land old (Z.lnot (field_mask f)).
Proof. exact write_offset_contig_exact. Qed.
Print Assumptions C17_write_offset_exact.

Theorem C17_write_offset_field : forall f old off w mask,
  0 <= old -> 0 <= mask ->
  (forall m, encode_offset f off = Some m -> 0 <= m /\ Z.land m (Z.lnot mask) = 0) ->
  write_offset f old off = Some w ->
  Z.land w (Z.lnot mask) = Z.land old (Z.lnot mask) /\
  (Z.land old mask = 0 -> exists m, encode_offset f off = Some m /\ Z.land w mask = m).
Proof. exact write_offset_exact. Qed.
Print Assumptions C17_write_offset_field.

(* KNOWN FINDINGS of the pinned tree, as theorems about the faithful model: the Thumb-2 branch formats are not
   the architectural encodings (no AArch32 assembler in the tree emits them) *)
Theorem C17_t32_b_refuted :
  exists off m, encode_offset t32_b_fmt off = Some m /\ decode_t32_b m * 2 <> off.
Proof. exact t32_b_refuted. Qed.
Print Assumptions C17_t32_b_refuted.

Theorem C17_t32_bcond_refuted :
  exists off1 off2 m, off1 <> off2 /\ encode_offset t32_bcond_fmt off1 = Some m /\ encode_offset t32_bcond_fmt off2 = Some m.
Proof. exact t32_bcond_refuted. Qed.
Print Assumptions C17_t32_bcond_refuted.

(* AArch64 logical (bitmask) immediates: every architectural encoding denotes a value the encoder accepts and
   re-encodes to the same value -- all 2*64*64 field combinations for both register widths *)
Theorem C17_logical_imm_complete : forall m n imms immr v,
  (m = 32 \/ m = 64) -> 0 <= n < 2 -> 0 <= imms < 64 -> 0 <= immr < 64 ->
  decode_bit_masks m n imms immr = Some v ->
  exists e, encode_logical_imm v m = Some e /\ decode_bit_masks m (li_n e) (li_s e) (li_r e) = Some v.
Proof. exact logical_imm_complete. Qed.
Print Assumptions C17_logical_imm_complete.

(* 8-bit floating-point immediates, half/single/double: exact in both directions, for every value *)
Theorem C17_fp_imm8_complete : forall n i, fp_n_ok n -> 0 <= i < 256 ->
  fp_is n (vfp_expand_imm n i) = true /\ fp_enc n (vfp_expand_imm n i) = i.
Proof. exact fp_imm8_complete. Qed.
Print Assumptions C17_fp_imm8_complete.

Theorem C17_fp_imm8_sound : forall n v, fp_n_ok n -> 0 <= v < 2 ^ n ->
  fp_is n v = true -> vfp_expand_imm n (fp_enc n v) = v.
Proof. exact fp_imm8_sound. Qed.
Print Assumptions C17_fp_imm8_sound.

(* add/sub immediates: accepted exactly when imm12 or imm12 << 12 *)
Theorem C17_add_sub_imm_exact : forall imm, 0 <= imm < 2 ^ 64 -> is_add_sub_imm imm = add_sub_encodable imm.
Proof. exact add_sub_imm_exact. Qed.
Print Assumptions C17_add_sub_imm_exact.

Theorem C17_byte_mask_complete : forall i, 0 <= i < 256 ->
  is_byte_mask_imm (expand_byte_mask 8 i) = true /\ encode_byte_mask_imm8 (expand_byte_mask 8 i) = i.
Proof. exact byte_mask_complete. Qed.
Print Assumptions C17_byte_mask_complete.

Theorem C17_lmh_exact : forall size idx, 0 <= idx ->
  match encode_lmh size idx with
  | Some (lm, h, maxrm) =>
      (size = 1 /\ h * 4 + lm = idx /\ idx < 8 /\ maxrm = 15) \/
      (size = 2 /\ h * 2 + lm / 2 = idx /\ lm mod 2 = 0 /\ idx < 4 /\ maxrm = 31)
  | None => (size <> 1 /\ size <> 2) \/ (size = 1 /\ 8 <= idx) \/ (size = 2 /\ 4 <= idx)
  end.
Proof. exact lmh_exact. Qed.
Print Assumptions C17_lmh_exact.

(* move-wide sequences (mov xN, #imm64): for EVERY immediate, destination and initial register content, the 1..4 words
   decode (ARM ARM move-wide class) to MOVZ/MOVN/MOVK operations on Rd whose execution leaves exactly the immediate *)
Theorem C17_mov_sequence_correct : forall (is64 : bool) imm rd x init,
  0 <= imm < (if is64 then 2 ^ 64 else 2 ^ 32) -> 0 <= rd < 32 -> (x = 0 \/ x = 1) -> 0 <= init < 2 ^ 64 ->
  let ws := encode_mov_sequence is64 imm rd x in
  exists ops, map mw_decode ws = map (fun m => Some (rd, m)) ops /\ mw_run init ops = Some imm /\
              (1 <= length ws <= (if is64 then 4 else 2))%nat.
Proof. exact mov_sequence_words_correct. Qed.
Print Assumptions C17_mov_sequence_correct.

(* ---------------------------------------------------------------------------------------------------------------- *)
(* AArch64 logical (bitmask) immediates, SOUNDNESS for EVERY value of the register width: whatever the encoder accepts
   decodes (DecodeBitMasks) to exactly the value given; with C17_logical_imm_complete the encoder is exact *)
From Verif Require Import Codec.LogImmSound.

Theorem C17_logical_imm_sound : forall m imm e,
  (m = 32 \/ m = 64) -> 0 <= imm < 2 ^ m -> encode_logical_imm imm m = Some e ->
  decode_bit_masks m (li_n e) (li_s e) (li_r e) = Some imm.
Proof. exact logical_imm_sound. Qed.
Print Assumptions C17_logical_imm_sound.

(* ... and the produced fields fit their instruction fields N (1 bit), imms, immr (6 bits each) *)
Theorem C17_logical_imm_sound_fields : forall m imm e,
  (m = 32 \/ m = 64) -> 0 <= imm < 2 ^ m -> encode_logical_imm imm m = Some e ->
  decode_bit_masks m (li_n e) (li_s e) (li_r e) = Some imm /\
  0 <= li_n e < 2 /\ 0 <= li_s e < 64 /\ 0 <= li_r e < 64.
Proof. exact logical_imm_sound_fields. Qed.
Print Assumptions C17_logical_imm_sound_fields.

(* the encoder refuses exactly the values that no field triple (N, imms, immr) denotes *)
Theorem C17_logical_imm_refused_iff : forall m imm,
  (m = 32 \/ m = 64) -> 0 <= imm < 2 ^ m ->
  (encode_logical_imm imm m = None <->
   ~ exists n s r, 0 <= n < 2 /\ 0 <= s < 64 /\ 0 <= r < 64 /\ decode_bit_masks m n s r = Some imm).
Proof. exact logical_imm_refused_iff. Qed.
Print Assumptions C17_logical_imm_refused_iff.

(* ---------------------------------------------------------------------------------------------------------------- *)
(* the remaining OffsetTypes whose pinned implementation is right: round trip against the architectural decoders for
   EVERY int64 offset the encoder accepts (the offset is the decoded field scaled by 2^discard) *)
From Verif Require Import Codec.OffsetFormatsProofs Codec.ByteMaskProofs.

(* Thumb-2 ADR (T2 SUB form / T3 ADD form): i:imm3:imm8 *)
Theorem C17_t32_adr_roundtrip : forall f off m,
  is_t32_adr_fmt f -> int64 off -> encode_offset f off = Some m ->
  decode_t32_adr m * 2 ^ discard f = off /\ 0 <= m < 2 ^ 32.
Proof. exact t32_adr_roundtrip. Qed.
Print Assumptions C17_t32_adr_roundtrip.

(* A32 magnitude + U bit (LDR/STR imm12, VLDR imm8*4, ...): any field position below bit 23 *)
Theorem C17_a32_u23_roundtrip : forall f off m,
  is_a32_u23_fmt f -> int64 off -> encode_offset f off = Some m ->
  decode_a32_u23 f m * 2 ^ discard f = off /\ 0 <= m < 2 ^ 32.
Proof. exact a32_u23_roundtrip. Qed.
Print Assumptions C17_a32_u23_roundtrip.

(* A32 imm4H:imm4L + U bit (LDRH/LDRD/...) *)
Theorem C17_a32_u23_split_roundtrip : forall f off m,
  is_a32_u23_split_fmt f -> int64 off -> encode_offset f off = Some m ->
  decode_a32_u23_split m * 2 ^ discard f = off /\ 0 <= m < 2 ^ 32.
Proof. exact a32_u23_split_roundtrip. Qed.
Print Assumptions C17_a32_u23_split_roundtrip.

(* A32 BLX (A2): imm24:H *)
Theorem C17_a32_blx_roundtrip : forall f off m,
  is_a32_blx_fmt f -> int64 off -> encode_offset f off = Some m ->
  decode_a32_blx m * 2 ^ discard f = off /\ 0 <= m < 2 ^ 32.
Proof. exact a32_blx_roundtrip. Qed.
Print Assumptions C17_a32_blx_roundtrip.

(* what the sign-bit formats accept, for every int64 offset (including INT64_MIN, whose negation wraps) *)
Theorem C17_signbit_accept_spec : forall f off,
  has_sign_bit (ty f) = true -> 0 < bits f -> bits f <= 32 -> bits f <= vsize f * 8 -> 0 <= discard f <= 31 -> int64 off ->
  encode_offset32 f off =
  if (Z.abs off mod 2 ^ discard f =? 0) && (Z.abs off / 2 ^ discard f <? 2 ^ bits f)
  then post32 (ty f) (vsize f) (bits f) (shift f) (Z.abs off / 2 ^ discard f) (if 0 <=? off then 1 else 0)
  else None.
Proof. exact signbit_spec. Qed.
Print Assumptions C17_signbit_accept_spec.

(* 64-bit byte-mask immediates (MOVI): soundness for EVERY 64-bit value; with C17_byte_mask_complete the test is exact *)
Theorem C17_byte_mask_sound : forall imm,
  0 <= imm < 2 ^ 64 -> is_byte_mask_imm imm = true ->
  expand_byte_mask 8 (encode_byte_mask_imm8 imm) = imm /\ 0 <= encode_byte_mask_imm8 imm < 256.
Proof. exact byte_mask_sound. Qed.
Print Assumptions C17_byte_mask_sound.

Theorem C17_byte_mask_accepted_iff : forall imm,
  is_byte_mask_imm imm = true <-> exists j, 0 <= j < 256 /\ imm = expand_byte_mask 8 j.
Proof. exact byte_mask_accepted_iff. Qed.
Print Assumptions C17_byte_mask_accepted_iff.

(* ---------------------------------------------------------------------------------------------------------------- *)
(* round 2 *)
From Verif Require Import Codec.A32ImmProofs Codec.RangeModel Codec.RangeProofs Codec.T32FixModel Codec.T32FixProofs.

(* A32 modified immediates (arm::Utils::encode_aarch32_imm): exact in both directions, for EVERY value *)
Theorem C17_a32_imm_sound : forall v e, 0 <= v -> encode_aarch32_imm v = Some e -> arm_expand_imm e = v /\ 0 <= e < 2 ^ 12.
Proof. exact a32_imm_sound. Qed.
Print Assumptions C17_a32_imm_sound.

Theorem C17_a32_imm_complete : forall imm12, 0 <= imm12 < 4096 ->
  exists e, encode_aarch32_imm (arm_expand_imm imm12) = Some e /\ arm_expand_imm e = arm_expand_imm imm12.
Proof. exact a32_imm_complete. Qed.
Print Assumptions C17_a32_imm_complete.

Theorem C17_a32_imm_refused_iff : forall v, 0 <= v ->
  (encode_aarch32_imm v = None <-> ~ exists imm12, 0 <= imm12 < 4096 /\ arm_expand_imm imm12 = v).
Proof. exact a32_imm_refused_iff. Qed.
Print Assumptions C17_a32_imm_refused_iff.

(* A32 ADR (A1 ADD / A2 SUB form, magnitude as modified immediate): round trip and exact refusal *)
Theorem C17_a32_adr_roundtrip : forall f off m,
  is_a32_adr_fmt f -> int64 off -> encode_offset f off = Some m ->
  decode_a32_adr f m * 2 ^ discard f = off /\ 0 <= m < 2 ^ 32.
Proof. exact a32_adr_roundtrip. Qed.
Print Assumptions C17_a32_adr_roundtrip.

Theorem C17_a32_adr_refused_iff : forall f off,
  is_a32_adr_fmt f -> int64 off ->
  (encode_offset f off = None <->
   ~ (Z.abs off mod 2 ^ discard f = 0 /\ Z.abs off / 2 ^ discard f < 2 ^ bits f /\
      exists imm12, 0 <= imm12 < 4096 /\ arm_expand_imm imm12 = Z.abs off / 2 ^ discard f)).
Proof. exact a32_adr_refused_iff. Qed.
Print Assumptions C17_a32_adr_refused_iff.

(* the range tests the codecs are built from, modelled operation by operation (RangeModel.v), are exact *)
Theorem C17_is_encodable_offset_32 : forall off nb, 0 < nb <= 32 -> - 2 ^ 31 <= off < 2 ^ 31 ->
  is_encodable_offset_32 off nb = (- 2 ^ (nb - 1) <=? off) && (off <? 2 ^ (nb - 1)).
Proof. exact is_encodable_offset_32_spec. Qed.
Print Assumptions C17_is_encodable_offset_32.

Theorem C17_is_encodable_offset_64 : forall off nb, 0 < nb <= 64 -> - 2 ^ 63 <= off < 2 ^ 63 ->
  is_encodable_offset_64 off nb = (- 2 ^ (nb - 1) <=? off) && (off <? 2 ^ (nb - 1)).
Proof. exact is_encodable_offset_64_spec. Qed.
Print Assumptions C17_is_encodable_offset_64.

Theorem C17_is_int_n_signed : forall w n x, 0 < n -> n <= w -> - 2 ^ (w - 1) <= x < 2 ^ (w - 1) ->
  is_int_n_signed w n x = (- 2 ^ (n - 1) <=? x) && (x <? 2 ^ (n - 1)).
Proof. exact is_int_n_signed_spec. Qed.
Print Assumptions C17_is_int_n_signed.

Theorem C17_is_int_n_unsigned : forall w n x, 0 < n -> n <= w -> 0 <= x < 2 ^ w ->
  is_int_n_unsigned w n x = (x <? 2 ^ (n - 1)).
Proof. exact is_int_n_unsigned_spec. Qed.
Print Assumptions C17_is_int_n_unsigned.

Theorem C17_is_uint_n_signed : forall w n x, 0 < n -> 0 < w -> - 2 ^ (w - 1) <= x < 2 ^ (w - 1) ->
  is_uint_n_signed w n x = (0 <=? x) && (x <? 2 ^ n).
Proof. exact is_uint_n_signed_spec. Qed.
Print Assumptions C17_is_uint_n_signed.

Theorem C17_is_uint_n_unsigned : forall w n x, 0 < n -> 0 < w -> 0 <= x < 2 ^ w ->
  is_uint_n_unsigned w n x = (x <? 2 ^ n).
Proof. exact is_uint_n_unsigned_spec. Qed.
Print Assumptions C17_is_uint_n_unsigned.

(* ... and the interval tests written in OffsetModel.encode_offset32/64 ARE these functions on the values they get *)
Theorem C17_signed_check32_faithful : forall o bc, 0 < bc <= 32 -> int64 o ->
  ((- 2 ^ 31 <=? o) && (o <? 2 ^ 31)) = is_int_n_signed 64 32 o /\
  (is_int_n_signed 64 32 o = true ->
   ((- 2 ^ (bc - 1) <=? o) && (o <? 2 ^ (bc - 1))) = is_encodable_offset_32 (sx 32 (wrap 32 o)) bc).
Proof. exact signed_check32_faithful. Qed.
Print Assumptions C17_signed_check32_faithful.

Theorem C17_signed_check64_faithful : forall o bc, 0 < bc <= 64 -> int64 o ->
  ((- 2 ^ (bc - 1) <=? o) && (o <? 2 ^ (bc - 1))) = is_encodable_offset_64 o bc.
Proof. exact signed_check64_faithful. Qed.
Print Assumptions C17_signed_check64_faithful.

(* Thumb-2 branch formats AFTER fixes/C17-thumb32-branch-formats.patch (T32FixModel.encode_offset_fixed; the pinned
   packers stay refuted above): round trip against the architectural decoders, exact refusal; the fixed model is the
   pinned one except for the two packers *)
Theorem C17_t32_b_roundtrip : forall f off m,
  is_t32_b_fmt f -> int64 off -> encode_offset_fixed f off = Some m ->
  decode_t32_b m * 2 ^ discard f = off /\ 0 <= m < 2 ^ 32.
Proof. exact t32_b_roundtrip. Qed.
Print Assumptions C17_t32_b_roundtrip.

Theorem C17_t32_blx_roundtrip : forall f off m,
  is_t32_blx_fmt f -> int64 off -> encode_offset_fixed f off = Some m ->
  decode_t32_b m mod 2 = 0 /\ (decode_t32_b m / 2) * 2 ^ discard f = off /\ 0 <= m < 2 ^ 32.
Proof. exact t32_blx_roundtrip. Qed.
Print Assumptions C17_t32_blx_roundtrip.

Theorem C17_t32_bcond_roundtrip : forall f off m,
  is_t32_bcond_fmt f -> int64 off -> encode_offset_fixed f off = Some m ->
  decode_t32_bcond m * 2 ^ discard f = off /\ 0 <= m < 2 ^ 32.
Proof. exact t32_bcond_roundtrip. Qed.
Print Assumptions C17_t32_bcond_roundtrip.

Theorem C17_t32_fixed_refused_iff : forall f off,
  is_t32_b_fmt f \/ is_t32_blx_fmt f \/ is_t32_bcond_fmt f -> int64 off ->
  (encode_offset_fixed f off = None <->
   ~ (off mod 2 ^ discard f = 0 /\ - 2 ^ (bits f - 1) <= off / 2 ^ discard f < 2 ^ (bits f - 1))).
Proof. exact t32_fixed_refused_iff. Qed.
Print Assumptions C17_t32_fixed_refused_iff.

Theorem C17_t32_fixed_differs_only_in_packers : forall f off,
  (is_t32_branch (ty f) = true -> encode_offset32 f off = encode_offset32_t32 false f off) /\
  (is_t32_branch (ty f) = false -> encode_offset_fixed f off = encode_offset f off).
Proof. exact (fun f off => conj (encode_offset32_t32_pinned f off) (encode_offset_fixed_other f off)). Qed.
Print Assumptions C17_t32_fixed_differs_only_in_packers.

(* the model variant the check runs against a tree (probed per packer) is the pinned model / the fixed model at the two ends *)
Theorem C17_t32_variants : forall f old off,
  write_offset_var true true f old off = write_offset_fixed f old off /\ write_offset_var false false f old off = write_offset f old off.
Proof. exact (fun f old off => conj (write_offset_var_fixed f old off) (write_offset_var_pinned f old off)). Qed.
Print Assumptions C17_t32_variants.

(* bit-field aliases of the a64 assembler (BaseBfx/BaseBfi/BaseBfc/BaseBfm, LSL/LSR/ASR #imm): the (immr, imms) pair
   the assembler computes makes UBFM perform what the mnemonic says, for every source value; operand checks exact for the
   extract, insert, raw and shift forms *)
From Verif Require Import Codec.BitfieldModel Codec.BitfieldProofs.

Theorem C17_bitfield_bfx_spec : forall size lsb width, size_ok size -> 0 <= lsb -> 0 <= width ->
  match encode_bitfield Bfx size lsb width with
  | Some (r, s) => 1 <= width <= size - lsb /\ r = lsb /\ s = lsb + width - 1 /\ 0 <= r <= s /\ s < size
  | None => ~ (lsb < size /\ 1 <= width <= size - lsb)
  end.
Proof. exact bfx_spec. Qed.
Print Assumptions C17_bitfield_bfx_spec.

Theorem C17_bitfield_ubfx : forall size lsb width r s src, size_ok size -> 0 <= lsb -> 0 <= width -> 0 <= src < 2 ^ size ->
  encode_bitfield Bfx size lsb width = Some (r, s) ->
  ubfm_sem size r s src = (src / 2 ^ lsb) mod 2 ^ width /\ 0 <= r < size /\ 0 <= s < size.
Proof. exact ubfx_correct. Qed.
Print Assumptions C17_bitfield_ubfx.

Theorem C17_bitfield_ubfiz : forall size lsb width r s src, size_ok size -> 0 <= lsb -> 0 <= width -> 0 <= src < 2 ^ size ->
  encode_bitfield Bfi size lsb width = Some (r, s) ->
  ubfm_sem size r s src = (src mod 2 ^ width) * 2 ^ lsb /\ 0 <= r < size /\ 0 <= s < size.
Proof. exact ubfiz_correct. Qed.
Print Assumptions C17_bitfield_ubfiz.

(* insert forms (BFI/BFC/SBFIZ/UBFIZ) as of /repo 638bd9f: accepted exactly when the field fits the register; the fields are
   the BFI-alias ones (imms < immr, or lsb = 0 where the architecture prefers the extract alias of the same operation) *)
Theorem C17_bitfield_bfi_spec : forall size lsb width, size_ok size -> 0 <= lsb -> 0 <= width ->
  match encode_bitfield Bfi size lsb width with
  | Some (r, s) => 1 <= width <= size - lsb /\ r = (size - lsb) mod size /\ s = width - 1 /\ 0 <= r < size /\ 0 <= s < size /\
                   (lsb = 0 \/ s < r)
  | None => ~ (lsb < size /\ 1 <= width <= size - lsb)
  end.
Proof. exact bfi_spec. Qed.
Print Assumptions C17_bitfield_bfi_spec.

Theorem C17_bitfield_bfi_refused_iff : forall size lsb width, size_ok size -> 0 <= lsb -> 0 <= width ->
  (encode_bitfield Bfi size lsb width = None <-> ~ (lsb < size /\ 1 <= width <= size - lsb)).
Proof. exact bfi_refused_iff. Qed.
Print Assumptions C17_bitfield_bfi_refused_iff.

Theorem C17_bitfield_lsl : forall size sh r s src, size_ok size -> 0 <= sh -> 0 <= src < 2 ^ size ->
  encode_bitfield ShLsl size sh 0 = Some (r, s) ->
  ubfm_sem size r s src = (src * 2 ^ sh) mod 2 ^ size /\ 0 <= r < size /\ 0 <= s < size.
Proof. exact lsl_correct. Qed.
Print Assumptions C17_bitfield_lsl.

Theorem C17_bitfield_lsr : forall size sh r s src, size_ok size -> 0 <= sh -> 0 <= src < 2 ^ size ->
  encode_bitfield ShLsr size sh 0 = Some (r, s) ->
  ubfm_sem size r s src = src / 2 ^ sh /\ 0 <= r < size /\ 0 <= s < size.
Proof. exact lsr_correct. Qed.
Print Assumptions C17_bitfield_lsr.

Theorem C17_bitfield_shift_refused_iff : forall size k sh, size_ok size -> 0 <= sh -> (k = ShLsl \/ k = ShLsr) ->
  (encode_bitfield k size sh 0 = None <-> size <= sh).
Proof. exact shift_refused_iff. Qed.
Print Assumptions C17_bitfield_shift_refused_iff.

Theorem C17_bitfield_bfm_raw : forall size immr imms, size_ok size -> 0 <= immr -> 0 <= imms ->
  match encode_bitfield Bfm size immr imms with
  | Some (r, s) => r = immr /\ s = imms /\ immr < size /\ imms < size
  | None => ~ (immr < size /\ imms < size)
  end.
Proof. exact bfm_raw_spec. Qed.
Print Assumptions C17_bitfield_bfm_raw.

(* ---------------------------------------------------------------------------------------------------------------- *)
(* round 4 *)
From Verif Require Import Codec.BfmSemModel Codec.BfmSemProofs Codec.X86ImmModel Codec.X86ImmProofs.

(* the prose form of UBFM used above IS the ARM ARM pseudo-code (DecodeBitMasks(N, imms, immr, FALSE), ROR, wmask, tmask) *)
Theorem C17_ubfm_pseudocode : forall size r s src, size_ok size -> 0 <= r < size -> 0 <= s < size -> 0 <= src < 2 ^ size ->
  ubfm_pc size r s src = Some (ubfm_sem size r s src).
Proof. exact ubfm_pc_is_sem. Qed.
Print Assumptions C17_ubfm_pseudocode.

Theorem C17_bfm_masks : forall size immr imms, size_ok size -> 0 <= immr < size -> 0 <= imms < size ->
  decode_bit_masks_f size (immN_of size) imms immr =
  Some (ror_n size (ones (imms + 1)) immr, ones ((imms - immr) mod size + 1)).
Proof. exact masks_spec. Qed.
Print Assumptions C17_bfm_masks.

(* SBFM / BFM pseudo-code, bit by bit, for every field pair and every register content *)
Theorem C17_sbfm_bits : forall size r s src, size_ok size -> 0 <= r < size -> 0 <= s < size -> 0 <= src < 2 ^ size ->
  exists v, sbfm_pc size r s src = Some v /\ 0 <= v < 2 ^ size /\
    forall i, 0 <= i < size ->
      Z.testbit v i = if i <? (s - r) mod size + 1
                      then Z.testbit src ((i + r) mod size) && ((i + r) mod size <? s + 1)
                      else Z.testbit src s.
Proof. exact sbfm_pc_bits. Qed.
Print Assumptions C17_sbfm_bits.

Theorem C17_bfm_bits : forall size r s dst src, size_ok size -> 0 <= r < size -> 0 <= s < size ->
  0 <= dst < 2 ^ size -> 0 <= src < 2 ^ size ->
  exists v, bfm_pc size r s dst src = Some v /\ 0 <= v < 2 ^ size /\
    forall i, 0 <= i < size ->
      Z.testbit v i = if (i <? (s - r) mod size + 1) && ((i + r) mod size <? s + 1)
                      then Z.testbit src ((i + r) mod size) else Z.testbit dst i.
Proof. exact bfm_pc_bits. Qed.
Print Assumptions C17_bfm_bits.

(* the signed and merging aliases with the fields the assembler computes: what the mnemonic says, bit by bit *)
Theorem C17_bitfield_sbfx : forall size lsb width r s src, size_ok size -> 0 <= lsb -> 0 <= width -> 0 <= src < 2 ^ size ->
  encode_bitfield Bfx size lsb width = Some (r, s) ->
  exists v, sbfm_pc size r s src = Some v /\ 0 <= v < 2 ^ size /\
    forall i, 0 <= i < size -> Z.testbit v i = Z.testbit src (if i <? width then i + lsb else lsb + width - 1).
Proof. exact sbfx_correct. Qed.
Print Assumptions C17_bitfield_sbfx.

Theorem C17_bitfield_asr : forall size sh r s src, size_ok size -> 0 <= sh -> 0 <= src < 2 ^ size ->
  encode_bitfield ShLsr size sh 0 = Some (r, s) ->
  exists v, sbfm_pc size r s src = Some v /\ 0 <= v < 2 ^ size /\
    forall i, 0 <= i < size -> Z.testbit v i = Z.testbit src (if i <? size - sh then i + sh else size - 1).
Proof. exact asr_correct. Qed.
Print Assumptions C17_bitfield_asr.

Theorem C17_bitfield_sbfiz : forall size lsb width r s src, size_ok size -> 0 <= lsb -> 0 <= width -> 0 <= src < 2 ^ size ->
  encode_bitfield Bfi size lsb width = Some (r, s) ->
  exists v, sbfm_pc size r s src = Some v /\ 0 <= v < 2 ^ size /\
    forall i, 0 <= i < size ->
      Z.testbit v i = if i <? lsb then false else Z.testbit src (if i <? lsb + width then i - lsb else width - 1).
Proof. exact sbfiz_correct. Qed.
Print Assumptions C17_bitfield_sbfiz.

Theorem C17_bitfield_bfxil : forall size lsb width r s dst src, size_ok size -> 0 <= lsb -> 0 <= width ->
  0 <= dst < 2 ^ size -> 0 <= src < 2 ^ size ->
  encode_bitfield Bfx size lsb width = Some (r, s) ->
  exists v, bfm_pc size r s dst src = Some v /\ 0 <= v < 2 ^ size /\
    forall i, 0 <= i < size -> Z.testbit v i = if i <? width then Z.testbit src (i + lsb) else Z.testbit dst i.
Proof. exact bfxil_correct. Qed.
Print Assumptions C17_bitfield_bfxil.

Theorem C17_bitfield_bfi : forall size lsb width r s dst src, size_ok size -> 0 <= lsb -> 0 <= width ->
  0 <= dst < 2 ^ size -> 0 <= src < 2 ^ size ->
  encode_bitfield Bfi size lsb width = Some (r, s) ->
  exists v, bfm_pc size r s dst src = Some v /\ 0 <= v < 2 ^ size /\
    forall i, 0 <= i < size ->
      Z.testbit v i = if (lsb <=? i) && (i <? lsb + width) then Z.testbit src (i - lsb) else Z.testbit dst i.
Proof. exact bfi_correct. Qed.
Print Assumptions C17_bitfield_bfi.

(* x86 ALU group (add/or/adc/sbb/and/sub/xor/cmp r/m, imm): whatever immediate form is chosen, the CPU reconstructs the
   requested immediate modulo the operand size; 64-bit destinations accepted exactly for int32 (AND: also uint32 as a
   32-bit operation) *)
Theorem C17_x86_arith_reg_imm_exact : forall op size rb0 optsize longform imm e,
  size_ok4 size -> i64 imm -> arith_reg_imm op size rb0 optsize longform imm = Some e ->
  effective_imm e = imm mod 2 ^ (8 * ae_opsize e) /\
  (size <> 8 -> ae_opsize e = size) /\
  (size = 8 -> (ae_opsize e = 8 /\ - 2 ^ 31 <= imm < 2 ^ 31) \/ (ae_opsize e = 4 /\ op = 4 /\ 0 <= imm < 2 ^ 32)) /\
  (ae_immsize e = 1 \/ ae_immsize e = Z.min (ae_opsize e) 4) /\
  (longform = true -> ae_short e = false /\ ae_immsize e = Z.min (ae_opsize e) 4).
Proof. exact arith_reg_imm_exact. Qed.
Print Assumptions C17_x86_arith_reg_imm_exact.

Theorem C17_x86_arith_reg_imm_refused_iff : forall op size rb0 optsize longform imm,
  size_ok4 size -> i64 imm ->
  (arith_reg_imm op size rb0 optsize longform imm = None <->
   size = 8 /\ ~ (- 2 ^ 31 <= imm < 2 ^ 31) /\ ~ (op = 4 /\ 0 <= imm < 2 ^ 32)).
Proof. exact arith_reg_imm_refused_iff. Qed.
Print Assumptions C17_x86_arith_reg_imm_refused_iff.

Theorem C17_x86_arith_mem_imm_exact : forall op mem_size longform imm e,
  size_ok4 mem_size -> i64 imm -> arith_mem_imm true op mem_size longform imm = Some e ->
  effective_imm e = imm mod 2 ^ (8 * mem_size) /\ ae_opsize e = mem_size /\
  (mem_size = 8 -> - 2 ^ 31 <= imm < 2 ^ 31) /\ (ae_immsize e = 1 \/ ae_immsize e = Z.min mem_size 4).
Proof. exact arith_mem_imm_exact. Qed.
Print Assumptions C17_x86_arith_mem_imm_exact.

Theorem C17_x86_arith_mem_imm_refused_iff : forall op mem_size longform imm,
  size_ok4 mem_size -> i64 imm ->
  (arith_mem_imm true op mem_size longform imm = None <-> mem_size = 8 /\ ~ (- 2 ^ 31 <= imm < 2 ^ 31)).
Proof. exact arith_mem_imm_refused_iff. Qed.
Print Assumptions C17_x86_arith_mem_imm_refused_iff.

(* KNOWN FINDING: without the int32 test the (Mem, Imm) form truncates a 64-bit immediate *)
Theorem C17_x86_arith_mem_imm_unchecked_refuted :
  exists op imm e, i64 imm /\ arith_mem_imm false op 8 false imm = Some e /\ effective_imm e <> imm mod 2 ^ (8 * 8).
Proof. exact arith_mem_imm_unchecked_refuted. Qed.
Print Assumptions C17_x86_arith_mem_imm_unchecked_refuted.

(* ---------------------------------------------------------------------------------------------------------------- *)
(* round 5: translator tie of the field layouts of encode_offset32 to the SOURCE TEXT of codewriter.cpp *)
From Verif Require Import Codec.LayoutModel Codec.LayoutProofs.
From VerifGen Require C17Layouts.
Import ListNotations.

(* the table re-extracted from the current source (masks, shifts, J bits, sign bits, sanity tests of every non-contiguous
   case of the switch) is the one the two theorems below are about *)
Theorem C17_layouts_current : C17Layouts.gen_layouts = expected_layouts.
Proof. exact C17Layouts.gen_layouts_ok. Qed.
Print Assumptions C17_layouts_current.

(* the table (bitwise ORs of masked/shifted pieces, as in the C++) denotes the packers of the model of HEAD (sums of
   div/mod fields), for every listed type, EVERY uint32 value and both signs *)
Theorem C17_layout_pack_eq : forall t l vs bc bs value u,
  layout_of t expected_layouts = Some l -> 0 <= value < 2 ^ 32 -> (u = 0 \/ u = 1) ->
  eval_layout l vs bc bs value u = packer_head t vs bc bs value u.
Proof. exact layout_pack_eq. Qed.
Print Assumptions C17_layout_pack_eq.

(* what must NOT change, generic in the table (so it also holds for a re-extracted one): a layout only sets bits of its mask *)
Theorem C17_layout_inside_mask : forall l vs bc bs value u m, (u = 0 \/ u = 1) ->
  eval_layout l vs bc bs value u = Some m -> Z.land m (Z.lnot (layout_mask l)) = 0.
Proof. exact eval_inside_mask. Qed.
Print Assumptions C17_layout_inside_mask.

(* end to end on the model of HEAD, all eight non-contiguous 4-byte formats, every int64 offset: patching keeps every bit
   of the old word outside the format's mask; the masks are the architectural field masks (layout_masks_values) *)
Theorem C17_write_offset_outside_mask : forall f old off w l,
  vsize f = 4 -> 0 < bits f <= 32 -> 0 <= discard f <= 31 -> int64 off ->
  layout_of (ty f) expected_layouts = Some l -> write_offset_var true true f old off = Some w ->
  Z.land w (Z.lnot (layout_mask l)) = Z.land old (Z.lnot (layout_mask l)) /\
  exists m, encode_offset_var true true f off = Some m /\ w = Z.lor old m /\ Z.land m (Z.lnot (layout_mask l)) = 0.
Proof. exact head_write_offset_outside. Qed.
Print Assumptions C17_write_offset_outside_mask.

Theorem C17_layout_masks : 
  map (fun p => layout_mask (snd p)) expected_layouts =
  [ 0x04A070FF; 0x07FF2FFF; 0x07FF2FFF; 0x043F2FFF; 0x00800F0F; 0x01FFFFFF; 0x60FFFFE0; 0x60FFFFE0 ].
Proof. exact layout_masks_values. Qed.
Print Assumptions C17_layout_masks.

(* x86 TEST r/m, imm and MOV r/m, imm: the operand the CPU reconstructs is the immediate modulo the operand size; 64-bit
   TEST and MOV m64 exist only with a sign-extended imm32 (accepted exactly for int32 in the fixed tree); MOV r64 always
   loads exactly the immediate (B8+r id zero-extended when optimising for size, REX.W C7 /0 id, or movabs) *)
Theorem C17_x86_test_reg_imm_exact : forall size acc longform imm e,
  size_ok4 size -> i64 imm -> test_reg_imm true size acc longform imm = Some e ->
  effective_imm e = imm mod 2 ^ (8 * size) /\ ae_opsize e = size /\ ae_immsize e = Z.min size 4 /\
  (size = 8 -> - 2 ^ 31 <= imm < 2 ^ 31).
Proof. exact test_reg_imm_exact. Qed.
Print Assumptions C17_x86_test_reg_imm_exact.

Theorem C17_x86_test_reg_imm_refused_iff : forall size acc longform imm, size_ok4 size -> i64 imm ->
  (test_reg_imm true size acc longform imm = None <-> size = 8 /\ ~ (- 2 ^ 31 <= imm < 2 ^ 31)).
Proof. exact test_reg_imm_refused_iff. Qed.
Print Assumptions C17_x86_test_reg_imm_refused_iff.

Theorem C17_x86_test_mem_imm_exact : forall mem_size imm e,
  size_ok4 mem_size -> i64 imm -> test_mem_imm true mem_size imm = Some e ->
  effective_imm e = imm mod 2 ^ (8 * mem_size) /\ ae_opsize e = mem_size /\ (mem_size = 8 -> - 2 ^ 31 <= imm < 2 ^ 31).
Proof. exact test_mem_imm_exact. Qed.
Print Assumptions C17_x86_test_mem_imm_exact.

Theorem C17_x86_mov_reg_imm_exact : forall size acc optsize longform imm,
  size_ok4 size -> i64 imm ->
  let e := mov_reg_imm size acc optsize longform imm in
  effective_imm e = imm mod 2 ^ (8 * ae_opsize e) /\
  (size <> 8 -> ae_opsize e = size) /\
  (size = 8 -> ae_opsize e = 8 \/ (ae_opsize e = 4 /\ 0 <= imm < 2 ^ 32)) /\
  (longform = true -> ae_opsize e = size /\ ae_immsize e = size).
Proof. exact mov_reg_imm_exact. Qed.
Print Assumptions C17_x86_mov_reg_imm_exact.

Theorem C17_x86_mov_mem_imm_exact : forall mem_size imm e,
  size_ok4 mem_size -> i64 imm -> mov_mem_imm true mem_size imm = Some e ->
  effective_imm e = imm mod 2 ^ (8 * mem_size) /\ ae_opsize e = mem_size /\ (mem_size = 8 -> - 2 ^ 31 <= imm < 2 ^ 31).
Proof. exact mov_mem_imm_exact. Qed.
Print Assumptions C17_x86_mov_mem_imm_exact.

Theorem C17_x86_test_mov_mem_refused_iff : forall mem_size imm, size_ok4 mem_size -> i64 imm ->
  (test_mem_imm true mem_size imm = None <-> mem_size = 8 /\ ~ (- 2 ^ 31 <= imm < 2 ^ 31)) /\
  (mov_mem_imm true mem_size imm = None <-> mem_size = 8 /\ ~ (- 2 ^ 31 <= imm < 2 ^ 31)).
Proof. exact test_mov_mem_refused_iff. Qed.
Print Assumptions C17_x86_test_mov_mem_refused_iff.

(* KNOWN FINDING: without the int32 test TEST r/m64 and MOV m64 truncate *)
Theorem C17_x86_test_mov_imm64_unchecked_refuted :
  (exists imm e, i64 imm /\ test_reg_imm false 8 true false imm = Some e /\ effective_imm e <> imm mod 2 ^ 64) /\
  (exists imm e, i64 imm /\ test_mem_imm false 8 imm = Some e /\ effective_imm e <> imm mod 2 ^ 64) /\
  (exists imm e, i64 imm /\ mov_mem_imm false 8 imm = Some e /\ effective_imm e <> imm mod 2 ^ 64).
Proof. exact test_mov_imm64_unchecked_refuted. Qed.
Print Assumptions C17_x86_test_mov_imm64_unchecked_refuted.

(* IMUL r, r/m, imm and PUSH imm (64-bit mode): same statements *)
Theorem C17_x86_imul_imm_exact : forall mem size longform imm e,
  (size = 2 \/ size = 4 \/ size = 8) -> i64 imm -> imul_imm true mem size longform imm = Some e ->
  effective_imm e = imm mod 2 ^ (8 * size) /\ ae_opsize e = size /\ (size = 8 -> - 2 ^ 31 <= imm < 2 ^ 31) /\
  (ae_immsize e = 1 \/ ae_immsize e = Z.min size 4).
Proof. exact imul_imm_exact. Qed.
Print Assumptions C17_x86_imul_imm_exact.

Theorem C17_x86_push_imm_exact : forall longform imm e,
  i64 imm -> push_imm true longform imm = Some e ->
  effective_imm e = imm mod 2 ^ 64 /\ - 2 ^ 31 <= imm < 2 ^ 31 /\ (ae_immsize e = 1 \/ ae_immsize e = 4).
Proof. exact push_imm_exact. Qed.
Print Assumptions C17_x86_push_imm_exact.

Theorem C17_x86_imul_push_refused_iff : forall mem size longform imm, (size = 2 \/ size = 4 \/ size = 8) -> i64 imm ->
  (imul_imm true mem size longform imm = None <-> size = 8 /\ ~ (- 2 ^ 31 <= imm < 2 ^ 31)) /\
  (push_imm true longform imm = None <-> ~ (- 2 ^ 31 <= imm < 2 ^ 31)).
Proof. exact imul_push_refused_iff. Qed.
Print Assumptions C17_x86_imul_push_refused_iff.

Theorem C17_x86_imul_push_imm64_unchecked_refuted :
  (exists imm e, i64 imm /\ imul_imm false false 8 false imm = Some e /\ effective_imm e <> imm mod 2 ^ 64) /\
  (exists imm e, i64 imm /\ push_imm false false imm = Some e /\ effective_imm e <> imm mod 2 ^ 64).
Proof. exact imul_push_imm64_unchecked_refuted. Qed.
Print Assumptions C17_x86_imul_push_imm64_unchecked_refuted.

(* what must NOT change for the two sign-bit formats whose field position is a parameter (not in the layout table) *)
From Verif Require Import Codec.A32OutsideProofs.

Theorem C17_a32_u23_inside_mask : forall f off m,
  is_a32_u23_fmt f -> int64 off -> encode_offset f off = Some m -> Z.land m (Z.lnot (a32_u23_mask f)) = 0.
Proof. exact a32_u23_inside. Qed.
Print Assumptions C17_a32_u23_inside_mask.

Theorem C17_a32_adr_inside_mask : forall f off m,
  is_a32_adr_fmt f -> int64 off -> encode_offset f off = Some m -> Z.land m (Z.lnot (a32_adr_mask f)) = 0.
Proof. exact a32_adr_inside. Qed.
Print Assumptions C17_a32_adr_inside_mask.

Theorem C17_a32_write_offset_outside_mask : forall f old off w mask,
  (is_a32_u23_fmt f /\ mask = a32_u23_mask f) \/ (is_a32_adr_fmt f /\ mask = a32_adr_mask f) -> int64 off ->
  write_offset f old off = Some w -> Z.land w (Z.lnot mask) = Z.land old (Z.lnot mask).
Proof. exact a32_write_offset_outside. Qed.
Print Assumptions C17_a32_write_offset_outside_mask.

(* 8-byte unsigned fields (encode_offset64): the int64 argument is the two's-complement image of a uint64 displacement
   (absolute addresses >= 2^63 are stored through the 64-bit format), so round trip and refusal are stated over
   off mod 2^64, for EVERY well-formed 8-byte format and every int64 argument; with bits + discard <= 63 this is the int64
   offset itself *)
From Verif Require Import Codec.Unsigned64Proofs.

Theorem C17_unsigned64_roundtrip : forall f off m,
  ty f = UnsignedOffset -> wf_contig64 f -> int64 off ->
  encode_offset f off = Some m ->
  decode_unsigned f m = off mod 2 ^ 64 /\ 0 <= m < 2 ^ (bits f + shift f) /\ m mod 2 ^ shift f = 0.
Proof. exact unsigned64_roundtrip. Qed.
Print Assumptions C17_unsigned64_roundtrip.

Theorem C17_unsigned64_refused_iff : forall f off,
  ty f = UnsignedOffset -> wf_contig64 f -> int64 off ->
  (encode_offset f off = None <->
   ~ ((off mod 2 ^ 64) mod 2 ^ discard f = 0 /\ 0 <= (off mod 2 ^ 64) / 2 ^ discard f < 2 ^ bits f)).
Proof. exact unsigned64_refused_iff. Qed.
Print Assumptions C17_unsigned64_refused_iff.

Theorem C17_unsigned64_int64_reading : forall off, int64 off ->
  off mod 2 ^ 64 = if off <? 0 then off + 2 ^ 64 else off.
Proof. exact u64_of_int64. Qed.
Print Assumptions C17_unsigned64_int64_reading.

Theorem C17_unsigned64_int64_exact : forall f off m,
  ty f = UnsignedOffset -> wf_contig64 f -> int64 off -> bits f + discard f <= 63 ->
  encode_offset f off = Some m -> 0 <= off /\ decode_unsigned f m = off.
Proof. exact unsigned64_int64_exact. Qed.
Print Assumptions C17_unsigned64_int64_exact.

(* byte level (write_offset on a region: value_offset, little-endian word of vsize bytes): length and every byte outside
   [value_offset, value_offset + vsize) unchanged; the bytes inside are the little-endian split of write_offset's word *)
From Verif Require Import Codec.BytesProofs.

Theorem C17_write_offset_bytes_exact : forall f region vo off region',
  (0 < Z.to_nat (vsize f))%nat ->
  write_offset_bytes f region vo off = Some region' ->
  let n := Z.to_nat (vsize f) in
  length region' = length region /\
  firstn vo region' = firstn vo region /\
  skipn (vo + n) region' = skipn (vo + n) region /\
  (forall i d, (i < vo \/ vo + n <= i)%nat -> nth i region' d = nth i region d) /\
  exists w, write_offset f (le_join (firstn n (skipn vo region))) off = Some w /\
            firstn n (skipn vo region') = le_split n w /\
            le_join (firstn n (skipn vo region')) = w mod 256 ^ Z.of_nat n.
Proof. exact write_offset_bytes_exact. Qed.
Print Assumptions C17_write_offset_bytes_exact.

(* ---------------------------------------------------------------------------------------------------------------- *)
(* round 6 *)
From Verif Require Import Codec.RefusalProofs.

(* completeness direction for the formats that only had a round trip: refusal is exact *)
Theorem C17_signbit_refused_iff : forall f off,
  is_t32_adr_fmt f \/ is_a32_u23_fmt f \/ is_a32_u23_split_fmt f -> int64 off ->
  (encode_offset f off = None <-> ~ (Z.abs off mod 2 ^ discard f = 0 /\ Z.abs off / 2 ^ discard f < 2 ^ bits f)).
Proof. exact signbit_refused_iff. Qed.
Print Assumptions C17_signbit_refused_iff.

Theorem C17_adr_blx_refused_iff : forall f off,
  is_adr_fmt f \/ is_a32_blx_fmt f -> int64 off ->
  (encode_offset f off = None <->
   ~ (off mod 2 ^ discard f = 0 /\ - 2 ^ (bits f - 1) <= off / 2 ^ discard f < 2 ^ (bits f - 1))).
Proof. exact signed_layout_refused_iff. Qed.
Print Assumptions C17_adr_blx_refused_iff.

(* x86 shifts / rotates / double shifts by an immediate: for EVERY int64 immediate the CPU shifts by imm mod 32 (mod 64 with
   REX.W) -- truncating the count to a byte loses nothing the architecture does not mask; by-1 form exactly for count byte 1 *)
Theorem C17_x86_rot_imm_exact : forall size longform imm, size_ok4 size ->
  let e := rot_imm size longform imm in
  cpu_count size e = imm mod (count_mask size + 1) /\
  (0 <= imm <= count_mask size -> cpu_count size e = imm) /\
  (ae_immsize e = 0 <-> imm mod 256 = 1 /\ longform = false) /\
  ae_opsize e = size /\ (ae_immsize e = 1 -> ae_field e = imm mod 256).
Proof. exact rot_imm_exact. Qed.
Print Assumptions C17_x86_rot_imm_exact.

Theorem C17_x86_shld_imm_exact : forall right size imm, (size = 2 \/ size = 4 \/ size = 8) ->
  let e := shld_imm right size imm in
  cpu_count size e = imm mod (count_mask size + 1) /\ (0 <= imm <= count_mask size -> cpu_count size e = imm) /\
  ae_immsize e = 1 /\ ae_field e = imm mod 256.
Proof. exact shld_imm_exact. Qed.
Print Assumptions C17_x86_shld_imm_exact.

(* asmjit/core/fixup.h re-extracted from the source text: the enumerators of OffsetType in declaration order are the
   constructors of the model's otype (each once: the driver numbers them 0..11) and has_sign_bit() lists exactly the types the
   model's has_sign_bit accepts *)
Theorem C17_fixup_current :
  C17Layouts.gen_otype_order = expected_otype_order /\ C17Layouts.gen_sign_types = expected_sign_types.
Proof. exact C17Layouts.gen_fixup_ok. Qed.
Print Assumptions C17_fixup_current.

Theorem C17_has_sign_bit_spec : forall t, has_sign_bit t = true <-> In t expected_sign_types.
Proof. exact has_sign_bit_spec. Qed.
Print Assumptions C17_has_sign_bit_spec.

Theorem C17_otype_order_complete : forall t, In t expected_otype_order /\ NoDup expected_otype_order.
Proof. exact otype_order_complete. Qed.
Print Assumptions C17_otype_order_complete.

From Verif Require Import Codec.CompletenessProofs.

(* a malformed format is refused, for every type and every offset (was only compared on three formats) *)
Theorem C17_encode_offset_malformed : forall f off,
  (vsize f <> 1 /\ vsize f <> 2 /\ vsize f <> 4 /\ vsize f <> 8) \/ bits f = 0 \/ 8 * vsize f < bits f ->
  encode_offset f off = None.
Proof. exact encode_offset_malformed. Qed.
Print Assumptions C17_encode_offset_malformed.

(* completeness: every value of a contiguous field is reached -- the encoder and the architectural decoder are inverse
   bijections between the accepted offsets and the field values *)
Theorem C17_signed_surjective : forall f r,
  ty f = SignedOffset -> wf_contig f -> bits f + discard f <= 64 -> 0 <= r < 2 ^ bits f ->
  let off := decode_signed f (r * 2 ^ shift f) in
  int64 off /\ encode_offset f off = Some (r * 2 ^ shift f).
Proof. exact signed_surjective. Qed.
Print Assumptions C17_signed_surjective.

Theorem C17_unsigned_surjective : forall f r,
  ty f = UnsignedOffset -> wf_contig32 f -> 0 <= r < 2 ^ bits f ->
  let off := decode_unsigned f (r * 2 ^ shift f) in
  int64 off /\ encode_offset f off = Some (r * 2 ^ shift f).
Proof. exact unsigned_surjective. Qed.
Print Assumptions C17_unsigned_surjective.

(* x86: the sign-extended imm8 form is chosen exactly when the (size-adjusted) immediate fits and the long form is not asked *)
Theorem C17_x86_arith_mem_imm8_iff : forall op mem_size longform imm e,
  (mem_size = 2 \/ mem_size = 4 \/ mem_size = 8) -> i64 imm -> arith_mem_imm true op mem_size longform imm = Some e ->
  let v := if mem_size =? 4 then sign_extend_int32 imm else imm in
  (ae_immsize e = 1 <-> (- 128 <= v < 128 /\ longform = false)) /\ (ae_opc e = 131 <-> ae_immsize e = 1).
Proof. exact arith_mem_imm8_iff. Qed.
Print Assumptions C17_x86_arith_mem_imm8_iff.

Theorem C17_x86_push_imm8_iff : forall longform imm e,
  i64 imm -> push_imm true longform imm = Some e ->
  (ae_immsize e = 1 <-> (- 128 <= imm < 128 /\ longform = false)) /\ (ae_opc e = 106 <-> ae_immsize e = 1).
Proof. exact push_imm8_iff. Qed.
Print Assumptions C17_x86_push_imm8_iff.

(* asmjit/arm/armutils.h re-extracted: fp imm8 template arguments and the constants of is_add_sub_imm / is_byte_mask_imm are
   the ones the model computes with *)
Theorem C17_armutils_current :
  C17Layouts.gen_fp_params = expected_fp_params /\ C17Layouts.gen_arm_consts = expected_arm_consts.
Proof. exact C17Layouts.gen_armutils_ok. Qed.
Print Assumptions C17_armutils_current.

Theorem C17_arm_consts_used :
  (forall n p, In (n, p) expected_fp_params -> fp_params n = p) /\
  (forall imm, is_add_sub_imm imm = ((imm <=? nth 0 expected_arm_consts 0) ||
                                     (Z.land imm (not64 (nth 0 expected_arm_consts 0 * 2 ^ nth 1 expected_arm_consts 0)) =? 0))) /\
  (forall imm, is_byte_mask_imm imm = (imm =? (Z.land imm (nth 2 expected_arm_consts 0) * 255) mod 2 ^ 64)).
Proof. exact arm_consts_used. Qed.
Print Assumptions C17_arm_consts_used.

(* 8-byte unsigned fields: bits outside the field untouched; every field value reached (uint64 reading) *)
Theorem C17_unsigned64_write_offset_exact : forall f old off w,
  ty f = UnsignedOffset -> wf_contig64 f -> int64 off -> 0 <= old ->
  write_offset f old off = Some w ->
  Z.land w (Z.lnot (field_mask f)) = Z.land old (Z.lnot (field_mask f)).
Proof. exact unsigned64_write_offset_exact. Qed.
Print Assumptions C17_unsigned64_write_offset_exact.

Theorem C17_unsigned64_surjective : forall f r,
  ty f = UnsignedOffset -> wf_contig64 f -> bits f + discard f <= 64 -> 0 <= r < 2 ^ bits f ->
  let off := sextz 64 (r * 2 ^ discard f) in
  int64 off /\ off mod 2 ^ 64 = r * 2 ^ discard f /\ encode_offset f off = Some (r * 2 ^ shift f).
Proof. exact unsigned64_surjective. Qed.
Print Assumptions C17_unsigned64_surjective.

(* every OffsetFormat the x86 / a64 backends and the core assembler build (all call sites of reset_to_simple_value /
   reset_to_imm_value, re-extracted from the source text) satisfies the hypotheses of the round-trip and refusal theorems above:
   signed contiguous (the C17_signed theorems), unsigned contiguous 1/2/4 bytes (C17_unsigned) or 8 bytes (C17_unsigned64), ADR/ADRP *)
Theorem C17_used_formats_current : C17Layouts.gen_used_formats = expected_used_formats.
Proof. exact C17Layouts.gen_used_formats_ok. Qed.
Print Assumptions C17_used_formats_current.

Theorem C17_used_formats_covered : forall f, In f expected_used_formats ->
  (ty f = SignedOffset /\ wf_contig f) \/ (ty f = UnsignedOffset /\ (wf_contig32 f \/ wf_contig64 f)) \/ is_adr_fmt f.
Proof. exact used_formats_covered. Qed.
Print Assumptions C17_used_formats_covered.

(* end to end, no hypothesis on the format left: every format the backends build round-trips for every int64 offset it accepts
   (8-byte unsigned fields over the uint64 reading) and refuses exactly the offsets without a field value *)
From Verif Require Import Codec.UsedFormatsProofs.

Theorem C17_used_formats_roundtrip : forall f off m,
  In f expected_used_formats -> int64 off -> encode_offset f off = Some m -> decoded f m = meant f off.
Proof. exact used_formats_roundtrip. Qed.
Print Assumptions C17_used_formats_roundtrip.

Theorem C17_used_formats_refused_iff : forall f off,
  In f expected_used_formats -> int64 off ->
  (encode_offset f off = None <->
   ~ match ty f with
     | UnsignedOffset => unsigned_ok f (meant f off)
     | _ => signed_ok f off
     end).
Proof. exact used_formats_refused_iff. Qed.
Print Assumptions C17_used_formats_refused_iff.

(* removal of a hypothesis: with width 32 the encoder never looks above bit 31, so soundness and exact refusal hold for EVERY
   (uint64) argument with the value read modulo 2^32 *)
From Verif Require Import Codec.LogImmUpperProofs.

Theorem C17_logical_imm32_upper_bits_ignored : forall imm,
  encode_logical_imm imm 32 = encode_logical_imm (imm mod 2 ^ 32) 32.
Proof. exact logical_imm32_upper_bits_ignored. Qed.
Print Assumptions C17_logical_imm32_upper_bits_ignored.

Theorem C17_logical_imm32_sound_any : forall imm e,
  encode_logical_imm imm 32 = Some e ->
  decode_bit_masks 32 (li_n e) (li_s e) (li_r e) = Some (imm mod 2 ^ 32) /\
  0 <= li_n e < 2 /\ 0 <= li_s e < 64 /\ 0 <= li_r e < 64.
Proof. exact logical_imm32_sound_any. Qed.
Print Assumptions C17_logical_imm32_sound_any.

Theorem C17_logical_imm32_refused_iff_any : forall imm,
  (encode_logical_imm imm 32 = None <->
   ~ exists n s r, 0 <= n < 2 /\ 0 <= s < 64 /\ 0 <= r < 64 /\ decode_bit_masks 32 n s r = Some (imm mod 2 ^ 32)).
Proof. exact logical_imm32_refused_iff_any. Qed.
Print Assumptions C17_logical_imm32_refused_iff_any.

(* BFC (BFI from the zero register) and ROR #imm (EXTR Rd, Rn, Rn) *)
Theorem C17_bitfield_bfc : forall size lsb width r s dst, size_ok size -> 0 <= lsb -> 0 <= width -> 0 <= dst < 2 ^ size ->
  encode_bitfield Bfi size lsb width = Some (r, s) ->
  exists v, bfm_pc size r s dst 0 = Some v /\ 0 <= v < 2 ^ size /\
    forall i, 0 <= i < size -> Z.testbit v i = if (lsb <=? i) && (i <? lsb + width) then false else Z.testbit dst i.
Proof. exact bfc_correct. Qed.
Print Assumptions C17_bitfield_bfc.

Theorem C17_bitfield_ror : forall size sh imms src, size_ok size -> 0 <= sh -> 0 <= src < 2 ^ size ->
  encode_ror_imm size sh = Some imms ->
  imms = sh /\ 0 <= imms < size /\ extr_pc size src src imms = ror_n size src sh.
Proof. exact ror_extr_correct. Qed.
Print Assumptions C17_bitfield_ror.

(* completeness for the non-contiguous formats: every representable displacement is accepted *)
Theorem C17_adr_complete : forall f o,
  is_adr_fmt f -> - 2 ^ 20 <= o < 2 ^ 20 ->
  exists m, encode_offset f (o * 2 ^ discard f) = Some m /\ decode_a64_adr m = o.
Proof. exact adr_complete. Qed.
Print Assumptions C17_adr_complete.

Theorem C17_signbit_complete : forall f v (neg : bool),
  is_t32_adr_fmt f \/ is_a32_u23_fmt f \/ is_a32_u23_split_fmt f -> 0 <= v < 2 ^ bits f ->
  exists m, encode_offset f ((if neg then - v else v) * 2 ^ discard f) = Some m.
Proof. exact signbit_complete. Qed.
Print Assumptions C17_signbit_complete.

(* MOV r64, imm form selection is exact: movabs only when no shorter form loads the value (or the long form is requested),
   REX.W C7 /0 id exactly for int32 values not taken by the zero-extending 32-bit form *)
Theorem C17_x86_mov_reg_imm_forms : forall size acc optsize longform imm, size_ok4 size -> i64 imm ->
  let e := mov_reg_imm size acc optsize longform imm in
  (ae_immsize e = 8 <-> size = 8 /\ (longform = true \/ (~ (- 2 ^ 31 <= imm < 2 ^ 31) /\ ~ (optsize = true /\ 0 <= imm < 2 ^ 32)))) /\
  (ae_opc e = 199 <-> size = 8 /\ longform = false /\ - 2 ^ 31 <= imm < 2 ^ 31 /\ ~ (optsize = true /\ 0 <= imm)) /\
  (size <> 8 -> ae_immsize e = size).
Proof. exact mov_reg_imm_forms. Qed.
Print Assumptions C17_x86_mov_reg_imm_forms.

Theorem C17_x86_imul_imm8_iff : forall mem size longform imm e,
  (size = 2 \/ size = 4 \/ size = 8) -> i64 imm -> imul_imm true mem size longform imm = Some e ->
  let v := if mem && (size =? 4) then sign_extend_int32 imm else imm in
  (ae_immsize e = 1 <-> (- 128 <= v < 128 /\ longform = false)) /\ (ae_opc e = 107 <-> ae_immsize e = 1).
Proof. exact imul_imm8_iff. Qed.
Print Assumptions C17_x86_imul_imm8_iff.

Theorem C17_x86_arith_reg_imm8_iff : forall op size optsize longform imm e,
  (size = 2 \/ size = 4 \/ size = 8) -> i64 imm -> arith_reg_imm op size false optsize longform imm = Some e ->
  let v := if size =? 4 then sign_extend_int32 imm else imm in
  (ae_immsize e = 1 <-> (- 128 <= v < 128 /\ longform = false)) /\ ae_short e = false /\ (ae_opc e = 131 <-> ae_immsize e = 1).
Proof. exact arith_reg_imm8_iff. Qed.
Print Assumptions C17_x86_arith_reg_imm8_iff.

(* removal of a hypothesis: the half-precision predicate/encoder take a uint32 and never look above bit 15 *)
From Verif Require Import Codec.Fp16UpperProofs.

Theorem C17_fp16_upper_bits_ignored : forall v, 0 <= v ->
  fp_is 16 v = fp_is 16 (v mod 2 ^ 16) /\ fp_enc 16 v = fp_enc 16 (v mod 2 ^ 16).
Proof. exact fp16_upper_bits_ignored. Qed.
Print Assumptions C17_fp16_upper_bits_ignored.

Theorem C17_fp16_sound_any : forall v, 0 <= v -> fp_is 16 v = true -> vfp_expand_imm 16 (fp_enc 16 v) = v mod 2 ^ 16.
Proof. exact fp16_sound_any. Qed.
Print Assumptions C17_fp16_sound_any.

(* the numbering of OffsetType values used by the model driver is the position in the re-extracted enumerator order: a bijection *)
Theorem C17_otype_of_index_spec : forall t,
  exists i, 0 <= i < 12 /\ otype_of_index i = Some t /\ forall j, otype_of_index j = Some t -> j = i.
Proof. exact otype_of_index_spec. Qed.
Print Assumptions C17_otype_of_index_spec.

(* byte-level frame condition for any word-level patch function, hence for the model of HEAD (write_offset_var true true) *)
Theorem C17_write_bytes_with_exact : forall wo f region vo off region',
  (0 < Z.to_nat (vsize f))%nat ->
  write_bytes_with wo f region vo off = Some region' ->
  let n := Z.to_nat (vsize f) in
  length region' = length region /\
  (forall i d, (i < vo \/ vo + n <= i)%nat -> nth i region' d = nth i region d) /\
  exists w, wo f (le_join (firstn n (skipn vo region))) off = Some w /\ firstn n (skipn vo region') = le_split n w.
Proof. exact write_bytes_with_exact. Qed.
Print Assumptions C17_write_bytes_with_exact.

(* the bit-field alias cases of a64assembler.cpp (BaseBfc, BaseBfi, BaseBfm, BaseBfx, LSL #imm) re-extracted from the source text
   as rules (operand guards, field expressions, which goes to immr / imms) denote exactly the alias model, for every operand pair *)
From Verif Require Import Codec.BfRulesProofs.

Theorem C17_bf_rules_current : C17Layouts.gen_bf_rules = expected_bf_rules.
Proof. exact C17Layouts.gen_bf_rules_ok. Qed.
Print Assumptions C17_bf_rules_current.

Theorem C17_bf_rules_denote : forall size a b,
  map (fun r => eval_bf_rule r size a b) expected_bf_rules =
  [ encode_bitfield Bfi size a b; encode_bitfield Bfi size a b; encode_bitfield Bfm size a b; encode_bitfield Bfx size a b;
    encode_bitfield ShLsl size a b ].
Proof. exact bf_rules_denote. Qed.
Print Assumptions C17_bf_rules_denote.

(* ---------------------------------------------------------------------------------------------------------------- *)
(* round 7: completeness directions for the fixed Thumb-2 branch formats and A32 BLX -- every representable displacement is
   accepted and the word produced decodes to it *)
From Verif Require Import Codec.CompleteMoreProofs.

Theorem C17_t32_b_complete : forall f o, is_t32_b_fmt f -> - 2 ^ (bits f - 1) <= o < 2 ^ (bits f - 1) ->
  exists m, encode_offset_fixed f (o * 2 ^ discard f) = Some m /\ decode_t32_b m = o.
Proof. exact t32_b_complete. Qed.
Print Assumptions C17_t32_b_complete.

Theorem C17_t32_blx_complete : forall f o, is_t32_blx_fmt f -> - 2 ^ (bits f - 1) <= o < 2 ^ (bits f - 1) ->
  exists m, encode_offset_fixed f (o * 2 ^ discard f) = Some m /\ decode_t32_b m = 2 * o.
Proof. exact t32_blx_complete. Qed.
Print Assumptions C17_t32_blx_complete.

Theorem C17_t32_bcond_complete : forall f o, is_t32_bcond_fmt f -> - 2 ^ 19 <= o < 2 ^ 19 ->
  exists m, encode_offset_fixed f (o * 2 ^ discard f) = Some m /\ decode_t32_bcond m = o.
Proof. exact t32_bcond_complete. Qed.
Print Assumptions C17_t32_bcond_complete.

Theorem C17_a32_blx_complete : forall f o, is_a32_blx_fmt f -> - 2 ^ 24 <= o < 2 ^ 24 ->
  exists m, encode_offset f (o * 2 ^ discard f) = Some m /\ decode_a32_blx m = o.
Proof. exact a32_blx_complete. Qed.
Print Assumptions C17_a32_blx_complete.

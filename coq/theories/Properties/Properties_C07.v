(* C07 — Prolog/epilog preserve callee-saved state and keep frame areas disjoint.
   This file holds ONLY the property theorems (each closed by `exact <lemma>`) and their Print Assumptions.
   Model: Frame/FrameModel.v (cc_init, finalize, prolog/epilog instruction lists), Frame/FrameMachine.v (abstract machine). *)
From Coq Require Import ZArith List Bool.
From Verif Require Import Frame.FrameModel Frame.FrameMachine Frame.FrameArith Frame.FrameLayout Frame.FrameMachineLemmas
  Frame.FrameX86Proofs Frame.FrameA64Proofs Frame.FrameExamples Frame.SlotModel Frame.SlotProofs Frame.SlotFull Frame.FrameRange Frame.FrameExec Frame.FrameExecProofs Frame.FrameContract.
Import ListNotations.
Local Open Scope Z_scope.

(* every calling convention of every architecture/platform/id is well formed (sizes, alignments, FP/LR preserved, SP not) *)
Theorem C07_conventions_wf : forall a plat ccid cc, cc_init a plat ccid = Some cc -> wf_cc a cc.
Proof. exact cc_init_wf. Qed.
Print Assumptions C07_conventions_wf.

(* layout chain of FuncFrame::finalize, all architectures: call area, locals, extra-register saves, DA slot, push/pop saves
   are ordered and pairwise disjoint, inside the frame; local area and vector save area aligned; the frame size keeps the
   stack aligned whenever the frame uses stack or calls functions *)
Theorem C07_layout_chain : forall f, wf_in f ->
  let o := finalize f in
  0 <= fi_call_size f <= fo_local_off o /\
  fo_local_off o + fi_local_size f <= fo_extra_off o /\
  0 <= fo_extra_size o /\ 0 <= fo_push_pop_size o /\
  (fo_da_off o = -1 -> fo_extra_off o + fo_extra_size o <= fo_push_pop_off o) /\
  (fo_da_off o <> -1 -> fo_da_off o = fo_extra_off o + fo_extra_size o /\ fo_da_off o + reg_size (fi_arch f) <= fo_push_pop_off o /\
                        fo_has_da o = true /\ fi_has_fp f = false) /\
  fo_push_pop_off o + fo_push_pop_size o = fo_final_size o /\
  fo_push_pop_off o <= fo_stack_adj o /\
  (fo_has_da o = false -> fo_stack_adj o = fo_push_pop_off o) /\
  (fo_has_da o = true -> fo_stack_adj o mod fo_final_align o = 0) /\
  fo_local_off o mod fo_final_align o = 0 /\
  (fo_aligned_vec_sr o = true -> fo_extra_off o mod qget (cc_srsize (fi_cc f)) 1 = 0 /\ (qget (cc_srsize (fi_cc f)) 1 | fo_final_align o)) /\
  (uses_stack_or_calls f o -> (fo_push_pop_off o + fo_push_pop_size o + ret_addr_size (fi_arch f)) mod fo_final_align o = 0).
Proof. exact layout_chain. Qed.
Print Assumptions C07_layout_chain.

(* x86/x64: sp inside the body has the promised alignment (dynamic alignment, or the natural alignment of the convention) *)
Theorem C07_alignment_x86 : forall f, wf_in f -> is_x86_family (fi_arch f) = true -> forall sp0,
  (fo_has_da (finalize f) = true \/ final_alignment f = cc_natural (fi_cc f)) ->
  (sp0 + reg_size (fi_arch f)) mod cc_natural (fi_cc f) = 0 -> uses_stack f (finalize f) ->
  x86_sp_body f sp0 mod final_alignment f = 0.
Proof. exact x86_sp_body_aligned. Qed.
Print Assumptions C07_alignment_x86.

(* why /repo a1b136b (truthful final alignment) is needed - the variant WITHOUT it (witness has fi_align_fix = false; HEAD always has
   true, see C07_alignment_x86_fixed): x86-32 conventions with natural alignment 4 and a requested alignment of 8 get neither the
   natural nor a dynamic alignment (minimum dynamic alignment is 16).  The check reports a tree in this state as VIOLATION. *)
Theorem C07_alignment_x86_refuted :
  exists f sp0, wf_in f /\ is_x86_family (fi_arch f) = true /\
    (sp0 + reg_size (fi_arch f)) mod cc_natural (fi_cc f) = 0 /\ uses_stack f (finalize f) /\
    x86_sp_body f sp0 mod fo_final_align (finalize f) <> 0.
Proof. exact x86_align8_refuted. Qed.
Print Assumptions C07_alignment_x86_refuted.

(* x86/x64 round trip: for EVERY frame, entry state and body confined to the declared areas and dirty registers:
   prolog runs, sp in the body is x86_sp_body, stack arguments are where the frame reports them; the epilog then runs,
   returns to the caller's return address, sp = entry + return address + callee-pops bytes, every preserved register of
   every group has its entry value on its save width.  Aligned vector moves only hit 16-byte aligned addresses and legacy
   SSE moves only registers they can encode (the machine is stuck otherwise). *)
Theorem C07_roundtrip_x86 : forall f, wf_in f -> is_x86_family (fi_arch f) = true -> x86_regs_exist f ->
  forall s0 ra,
  let a := fi_arch f in let o := finalize f in let ws := reg_size a in let sp0 := st_reg s0 0 4 in
  st_ret s0 = None -> holds (st_mem s0) sp0 ws ra ->
  (sp0 + ws) mod cc_natural (fi_cc f) = 0 -> fin_pp f <= sp0 < 2 ^ (8 * ws) ->
  exists s1, run a (x86_prolog f o) s0 = Some s1 /\
    st_reg s1 0 4 = x86_sp_body f sp0 /\ st_ret s1 = None /\
    (fin_sa f <> 4 -> st_reg s1 0 (fin_sa f) + fo_sa_from_sa o = sp0 + ws) /\
    (fi_has_fp f = true -> st_reg s1 0 5 + fo_sa_from_sa o = sp0 + ws) /\
    (fo_sa_from_sp o <> -1 -> st_reg s1 0 4 + fo_sa_from_sp o = sp0 + ws) /\
    forall s2, body_ok f s0 s1 s2 ->
      exists s3, run a (x86_epilog f o) s2 = Some s3 /\
        st_ret s3 = Some ra /\ st_reg s3 0 4 = sp0 + ws + fo_callee_cleanup o /\
        (forall g r, Z.testbit (qget (cc_preserved (fi_cc f)) g) r = true ->
                     trunc (qget (cc_srsize (fi_cc f)) g) (st_reg s3 g r) = trunc (qget (cc_srsize (fi_cc f)) g) (st_reg s0 g r)).
Proof. exact x86_roundtrip_sec. Qed.
Print Assumptions C07_roundtrip_x86.

(* the hypotheses of the theorems above are satisfiable (a Win64 frame with dynamic alignment, vector saves, calls) *)
Theorem C07_hypotheses_satisfiable :
  exists f, wf_in f /\ is_x86_family (fi_arch f) = true /\ x86_regs_exist f /\ fo_has_da (finalize f) = true /\
            fo_aligned_vec_sr (finalize f) = true /\ uses_stack f (finalize f).
Proof. exact ex_win64_sat. Qed.
Print Assumptions C07_hypotheses_satisfiable.

(* why /repo fef32d9 (AArch64 refusal) and 872941b (SA register) are needed: three witnesses about frames that finalize_error now
   REFUSES (kInvalidState) resp. about the variant fi_sa_fix = false; HEAD never emits code for them (C07_accepted_frames) *)
(* DESIGN 7.31: frames with alignment > 16 report dynamic alignment, the prolog never realigns sp *)
Theorem C07_alignment_a64_refuted :
  exists f s0, wf_in f /\ fi_arch f = A64 /\ st_reg s0 0 31 mod 16 = 0 /\ fo_has_da (finalize f) = true /\
    match run A64 (fst (prolog f (finalize f))) s0 with
    | Some s1 => st_reg s1 0 31 mod fo_final_align (finalize f) <> 0
    | None => False
    end.
Proof. exact a64_dynamic_alignment_refuted. Qed.
Print Assumptions C07_alignment_a64_refuted.

(* with preserved FP the frame reports stack arguments at [x29 + 8]; they are at [x29 + push_pop_save_size] (sp-relative is right) *)
Theorem C07_stack_args_a64_fp_refuted :
  exists f s0, wf_in f /\ fi_arch f = A64 /\ fi_has_fp f = true /\ st_reg s0 0 31 mod 16 = 0 /\
    match run A64 (fst (prolog f (finalize f))) s0 with
    | Some s1 => st_reg s1 0 29 + fo_sa_from_sa (finalize f) <> st_reg s0 0 31 /\
                 st_reg s1 0 31 + fo_sa_from_sp (finalize f) = st_reg s0 0 31
    | None => False
    end.
Proof. exact a64_fp_relative_args_refuted. Qed.
Print Assumptions C07_stack_args_a64_fp_refuted.

(* conventions that are not cdecl-like declare 16-byte vector saves, the emitters save 8 bytes *)
Theorem C07_roundtrip_a64_noncdecl_refuted :
  exists f s0, wf_in f /\ fi_arch f = A64 /\ st_reg s0 0 31 mod 16 = 0 /\
    Z.testbit (qget (cc_preserved (fi_cc f)) 1) 4 = true /\
    match run A64 (fst (prolog f (finalize f)) ++ fst (epilog f (finalize f))) s0 with
    | Some s3 => trunc (qget (cc_srsize (fi_cc f)) 1) (st_reg s3 1 4) <> trunc (qget (cc_srsize (fi_cc f)) 1) (st_reg s0 1 4)
    | None => False
    end.
Proof. exact a64_noncdecl_vec_refuted. Qed.
Print Assumptions C07_roundtrip_a64_noncdecl_refuted.

(* AArch64 round trip - for every frame of a cdecl-like convention (AAPCS64 / Apple / Windows ARM64: D registers preserved)
   without dynamic alignment (exactly the frames finalize accepts at HEAD, see C07_roundtrip_a64_accepted / C07_accepted_frames) and
   with sp as the stack-argument base or the SA-register repair (`fi_sa_fix = true`: HEAD, 872941b - any SA register and FP-relative
   arguments are covered), every dirty mask, size, FP setting, entry state and confined body: stp/str pre-index, mov x29, sp,
   sub sp / add sp, ldp/ldr post-index restore sp, x29, x30 and every callee-saved X/D register and return to the caller's x30; sp is
   16-byte aligned at every sp-based access (the machine is stuck otherwise); sp-relative stack arguments are exact; the emitters
   report no error *)
Theorem C07_roundtrip_a64 : forall f, wf_in f -> fi_arch f = A64 ->
  (qget (cc_srsize (fi_cc f)) 1 = 8 \/ fin_saved f 1 = 0) -> fin_has_da f = false -> (fi_sa_reg f = id_bad \/ fi_sa_fix f = true) -> fo_stack_adj (finalize f) <= 16777215 ->
  forall s0,
  let o := finalize f in let sp0 := st_reg s0 0 31 in
  st_ret s0 = None -> sp0 mod 16 = 0 -> 0 <= st_reg s0 0 30 < 2 ^ 64 ->
  exists s1, run A64 (fst (prolog f o)) s0 = Some s1 /\ snd (prolog f o) = true /\
    st_reg s1 0 31 = a64_sp_body f sp0 /\ st_ret s1 = None /\
    a64_sp_body f sp0 mod fo_final_align o = 0 /\ a64_sp_body f sp0 + fo_sa_from_sp o = sp0 /\
    (fi_sa_fix f = true -> fi_has_fp f = true -> st_reg s1 0 29 + fo_sa_from_sa o = sp0) /\
    (fin_sa f <> 31 -> st_reg s1 0 (fin_sa f) + fo_sa_from_sa o = sp0) /\
    forall s2, a64_body_ok f s0 s1 s2 ->
      exists s3, run A64 (fst (epilog f o)) s2 = Some s3 /\ snd (epilog f o) = true /\
        st_ret s3 = Some (st_reg s0 0 30) /\ st_reg s3 0 31 = sp0 /\
        (forall g r, Z.testbit (qget (cc_preserved (fi_cc f)) g) r = true ->
                     trunc (qget (cc_srsize (fi_cc f)) g) (st_reg s3 g r) = trunc (qget (cc_srsize (fi_cc f)) g) (st_reg s0 g r)).
Proof. exact a64_roundtrip_sec. Qed.
Print Assumptions C07_roundtrip_a64.

Theorem C07_a64_hypotheses_satisfiable :
  exists f, wf_in f /\ fi_arch f = A64 /\ qget (cc_srsize (fi_cc f)) 1 = 8 /\ fin_has_da f = false /\ fi_sa_reg f = id_bad /\
            fo_stack_adj (finalize f) <= 16777215 /\ fi_has_fp f = true /\ 0 < fo_push_pop_size (finalize f).
Proof. exact ex_a64_ok_sat. Qed.
Print Assumptions C07_a64_hypotheses_satisfiable.

(* rastack.cpp calculate_stack_frame (allocator -> frame hand-over), for the model as it executes today: *)
(* DESIGN 7.9: the gap-reuse branch is dead — no gap is ever registered (the registration loop bails out in its first
   iteration because 2^ctz(aligned offset) exceeds the alignment padding) and hence none is ever reused *)
Theorem C07_gap_branch_dead : forall slots, Forall slot_ok slots ->
  as_gaps (alloc_all slots) = [] /\ as_gap_used (alloc_all slots) = false.
Proof. exact gap_branch_dead. Qed.
Print Assumptions C07_gap_branch_dead.

(* FULL (round 2): for EVERY processing order the sort of STEP 2 may produce (any list of slot indices), the slots get a good
   placement: every non-argument slot non-negative, aligned and below stack_size, pairwise disjoint; stack_size is a multiple of
   the allocator alignment; the gap machinery is never used *)
Theorem C07_slots_disjoint : forall (slots : list rslot) (order : list nat) (align : Z),
  Forall (fun s => 0 <= rs_size s /\ pow2 (rs_align s)) slots -> 0 < align ->
  let processed := map (fun i => to_sslot (nth i slots (mk_rslot 0 1 false false 0))) order in
  placed_spec (fst (alloc_frame processed align)) (snd (alloc_frame processed align)) /\
  snd (alloc_frame processed align) mod align = 0 /\
  as_gap_used (alloc_all processed) = false.
Proof. exact slots_full. Qed.
Print Assumptions C07_slots_disjoint.

(* the checker that judges the IMPLEMENTATION's placement at run time is sound *)
Theorem C07_placed_ok_sound : forall pl stack_size, placed_ok pl stack_size = true -> placed_spec pl stack_size.
Proof. exact placed_ok_sound. Qed.
Print Assumptions C07_placed_ok_sound.

(* the conventions the Compiler hands to finalize (natural alignment raised to the target's stack alignment) are well formed too,
   so every theorem above covers the frames of compiled functions *)
Theorem C07_compiler_conventions_wf : forall a plat ccid cc, cc_init a plat ccid = Some cc -> wf_cc a (compiler_cc a plat cc).
Proof. exact compiler_cc_init_wf. Qed.
Print Assumptions C07_compiler_conventions_wf.

(* round 2: the code computes with uint32_t, the model with integers: for call+local sizes up to 2^31 - 2^16, alignments up to 128
   and an argument area below 64 KiB nothing wraps (every quantity stays below 2^31), and the immediates of the x86 prolog/epilog
   (sub/add sp, and sp, save offsets <= stack adjustment, lea displacement <= push/pop size, ret imm16) fit their fields *)
Theorem C07_no_wrap : forall f, wf_in f -> in_range f ->
  let o := finalize f in
  0 <= fo_local_off o /\ fo_local_off o <= fo_extra_off o /\ fo_extra_off o + fo_extra_size o <= fo_stack_adj o /\
  fo_stack_adj o < 2 ^ 31 - 2 ^ 15 /\ 0 <= fo_final_size o < 2 ^ 31 - 2 ^ 15 /\
  fo_sa_from_sp o < 2 ^ 31 /\ 0 <= fo_sa_from_sa o < 2 ^ 31 /\ fo_da_off o < 2 ^ 31 /\
  0 <= fo_push_pop_size o <= 2112 /\ 0 <= fo_callee_cleanup o < 2 ^ 16 /\ - 2 ^ 31 <= - fo_final_align o.
Proof. exact no_wrap. Qed.
Print Assumptions C07_no_wrap.

Theorem C07_a64_fixed_variant_satisfiable :
  exists f, wf_in f /\ fi_arch f = A64 /\ qget (cc_srsize (fi_cc f)) 1 = 8 /\ fin_has_da f = false /\
            (fi_sa_reg f = id_bad \/ fi_sa_fix f = true) /\ fo_stack_adj (finalize f) <= 16777215 /\ fin_sa f <> 31 /\ fi_has_fp f = true.
Proof. exact ex_a64_sa_fixed_sat. Qed.
Print Assumptions C07_a64_fixed_variant_satisfiable.

(* round 2: the scenario the check executes on the extracted machine for every frame (FrameExec.exec_frame: entry state, prolog,
   most hostile confined body, epilog, judgement) is an instance of C07_roundtrip_x86: on the MODEL's own lists its verdict is 0,
   so a non-zero verdict on the implementation's list (which must equal the model's) can only come from the implementation *)
Theorem C07_exec_scenario_ok_x86 : forall f, wf_in f -> is_x86_family (fi_arch f) = true -> x86_regs_exist f ->
  forall sp0 ra,
  (sp0 + reg_size (fi_arch f)) mod cc_natural (fi_cc f) = 0 -> fin_pp f <= sp0 < 2 ^ (8 * reg_size (fi_arch f)) ->
  fst (exec_frame (fi_arch f) (x86_prolog f (finalize f)) (x86_epilog f (finalize f)) sp0 ra (fo_dirty (finalize f))
                  (cc_preserved (fi_cc f)) (cc_srsize (fi_cc f)) (fi_has_fp f) (fi_call_size f) (fo_local_off (finalize f))
                  (fi_local_size f) (fo_callee_cleanup (finalize f))) = 0.
Proof. exact exec_frame_ok_x86. Qed.
Print Assumptions C07_exec_scenario_ok_x86.

(* round 3: AArch64 analogue — the scenario executed on the extracted machine returns verdict 0 on the model's own prolog/epilog
   for every AArch64 frame in the scope of C07_roundtrip_a64 *)
Theorem C07_exec_scenario_ok_a64 : forall f, wf_in f -> fi_arch f = A64 ->
  (qget (cc_srsize (fi_cc f)) 1 = 8 \/ fin_saved f 1 = 0) -> fin_has_da f = false -> (fi_sa_reg f = id_bad \/ fi_sa_fix f = true) -> fo_stack_adj (finalize f) <= 16777215 ->
  forall sp0 ra, sp0 mod 16 = 0 -> 0 <= ra < 2 ^ 64 ->
  fst (exec_frame A64 (fst (prolog f (finalize f))) (fst (epilog f (finalize f))) sp0 ra (fo_dirty (finalize f))
                  (cc_preserved (fi_cc f)) (cc_srsize (fi_cc f)) (fi_has_fp f) (fi_call_size f) (fo_local_off (finalize f))
                  (fi_local_size f) 0) = 0.
Proof. exact exec_frame_ok_a64. Qed.
Print Assumptions C07_exec_scenario_ok_a64.

(* round 3: with the proposed refusal (fixes/C07-a64-refuse-unrealisable-frames.patch: finalize returns an error unless
   `a64_realisable f`) the AArch64 round trip holds for EVERY frame finalize accepts and the emitters can encode *)
Theorem C07_roundtrip_a64_accepted : forall f, wf_in f -> fi_arch f = A64 -> a64_realisable f = true ->
  (fi_sa_reg f = id_bad \/ fi_sa_fix f = true) -> fo_stack_adj (finalize f) <= 16777215 ->
  forall s0,
  let o := finalize f in let sp0 := st_reg s0 0 31 in
  st_ret s0 = None -> sp0 mod 16 = 0 -> 0 <= st_reg s0 0 30 < 2 ^ 64 ->
  exists s1, run A64 (fst (prolog f o)) s0 = Some s1 /\ snd (prolog f o) = true /\
    st_reg s1 0 31 = a64_sp_body f sp0 /\ st_ret s1 = None /\
    a64_sp_body f sp0 mod fo_final_align o = 0 /\ a64_sp_body f sp0 + fo_sa_from_sp o = sp0 /\
    (fi_sa_fix f = true -> fi_has_fp f = true -> st_reg s1 0 29 + fo_sa_from_sa o = sp0) /\
    (fin_sa f <> 31 -> st_reg s1 0 (fin_sa f) + fo_sa_from_sa o = sp0) /\
    forall s2, a64_body_ok f s0 s1 s2 ->
      exists s3, run A64 (fst (epilog f o)) s2 = Some s3 /\ snd (epilog f o) = true /\
        st_ret s3 = Some (st_reg s0 0 30) /\ st_reg s3 0 31 = sp0 /\
        (forall g r, Z.testbit (qget (cc_preserved (fi_cc f)) g) r = true ->
                     trunc (qget (cc_srsize (fi_cc f)) g) (st_reg s3 g r) = trunc (qget (cc_srsize (fi_cc f)) g) (st_reg s0 g r)).
Proof. exact a64_roundtrip_accepted. Qed.
Print Assumptions C07_roundtrip_a64_accepted.

(* round 4: frames with argument copies (emit_args_assignment: register/stack arguments moved to registers or local slots, the
   API-level form of the allocator's kStackArgToStack copies) are executed on the proven machine by FrameExec.exec_args_frame;
   this theorem says what its verdict 0 means: prolog and copies run, sp is unchanged by the copies, EVERY argument is at its
   destination (register value / intact 4|8-byte fragment in memory), and after the most hostile confined body the epilog returns
   to the return address with the required sp and every preserved register restored on its save width *)
Theorem C07_exec_args_frame_sound : forall a pro asg epi sp0 ra args dirty preserved srsize has_fp csize local_off lsize cleanup,
  fst (exec_args_frame a pro asg epi sp0 ra args dirty preserved srsize has_fp csize local_off lsize cleanup) = 0 ->
  let s0 := init_state_args a sp0 ra args in
  exists s1 s1' s3,
    run a pro s0 = Some s1 /\ run a asg s1 = Some s1' /\ st_reg s1' 0 (sp_id a) = st_reg s1 0 (sp_id a) /\
    (forall k spec, nth_error args k = Some spec -> arg_at_destination a s1' (Z.of_nat k) spec) /\
    run a epi (poison_body a s1' dirty has_fp csize local_off lsize) = Some s3 /\
    st_ret s3 = Some ra /\ st_reg s3 0 (sp_id a) = sp0 + ret_addr_size a + cleanup /\
    (forall g r, 0 <= g <= 3 -> In r (bits_of 32 (qget preserved g)) -> ~ (g = 0 /\ r = sp_id a) ->
       trunc (if g =? 0 then reg_size a else qget srsize g) (st_reg s3 g r) = trunc (if g =? 0 then reg_size a else qget srsize g) (st_reg s0 g r)).
Proof. exact exec_args_frame_sound. Qed.
Print Assumptions C07_exec_args_frame_sound.

(* round 4: on a tree with fixes/C07-final-alignment-truthful.patch (finalize lowers an alignment that is neither natural nor reaches
   the minimum dynamic alignment to the natural one) the body sp has the REPORTED final alignment for every x86/x64 frame: the
   guard of C07_alignment_x86 disappears (and C07_alignment_x86_refuted no longer describes the tree: its witness has fi_align_fix = false) *)
Theorem C07_alignment_x86_fixed : forall f, wf_in f -> is_x86_family (fi_arch f) = true -> forall sp0,
  fi_align_fix f = true ->
  (sp0 + reg_size (fi_arch f)) mod cc_natural (fi_cc f) = 0 -> uses_stack f (finalize f) ->
  x86_sp_body f sp0 mod final_alignment f = 0.
Proof. exact x86_sp_body_aligned_fixed. Qed.
Print Assumptions C07_alignment_x86_fixed.

(* round 5 - what must NOT change, x86/x64, EVERY frame / entry state / confined body (hypotheses of C07_roundtrip_x86):
   the prolog leaves the caller's memory - everything at or above the entry sp: return address, stack arguments, caller frame -
   untouched, stores nothing below the extra-register save area (call area, local area, below the body sp: all its stores are inside
   [body sp + extra_off, entry sp)) and changes no register except sp, bp (when frame pointer) and the SA register, so register and
   stack arguments reach the body; the epilog writes NO memory and changes only sp, bp (frame pointer) and the registers the frame saved, so return values and
   every register the frame did not save leave the function exactly as the body left them *)
Theorem C07_frame_conditions_x86 : forall f, wf_in f -> is_x86_family (fi_arch f) = true -> x86_regs_exist f ->
  forall s0 ra,
  let a := fi_arch f in let o := finalize f in let ws := reg_size a in let sp0 := st_reg s0 0 4 in
  st_ret s0 = None -> holds (st_mem s0) sp0 ws ra ->
  (sp0 + ws) mod cc_natural (fi_cc f) = 0 -> fin_pp f <= sp0 < 2 ^ (8 * ws) ->
  exists s1, run a (x86_prolog f o) s0 = Some s1 /\
    (forall x, sp0 <= x -> st_mem s1 x = st_mem s0 x) /\
    (forall x, x < x86_sp_body f sp0 + fo_extra_off o -> st_mem s1 x = st_mem s0 x) /\
    (forall g r, (g, r) <> (0, 4) -> (fi_has_fp f = true -> (g, r) <> (0, 5)) -> (fin_sa f <> 4 -> (g, r) <> (0, fin_sa f)) ->
                 st_reg s1 g r = st_reg s0 g r) /\
    forall s2, body_ok f s0 s1 s2 ->
      exists s3, run a (x86_epilog f o) s2 = Some s3 /\
        st_mem s3 = st_mem s2 /\
        (forall g r, (g, r) <> (0, 4) -> (fi_has_fp f = true -> (g, r) <> (0, 5)) -> Z.testbit (saved_regs f o g) r = false ->
                     st_reg s3 g r = st_reg s2 g r).
Proof. exact x86_frame_conditions. Qed.
Print Assumptions C07_frame_conditions_x86.

(* AArch64 (hypotheses of C07_roundtrip_a64): the prolog writes memory ONLY inside the push/pop save area [sp0 - size, sp0) - the
   caller's memory and everything below the save area (call area, locals) are untouched - and changes no register except sp, x29
   (frame pointer) and the SA register; the epilog writes no memory and changes only sp and the saved registers *)
Theorem C07_frame_conditions_a64 : forall f, wf_in f -> fi_arch f = A64 ->
  (qget (cc_srsize (fi_cc f)) 1 = 8 \/ fin_saved f 1 = 0) -> fin_has_da f = false -> (fi_sa_reg f = id_bad \/ fi_sa_fix f = true) -> fo_stack_adj (finalize f) <= 16777215 ->
  forall s0,
  let o := finalize f in let sp0 := st_reg s0 0 31 in
  st_ret s0 = None -> sp0 mod 16 = 0 -> 0 <= st_reg s0 0 30 < 2 ^ 64 ->
  exists s1, run A64 (fst (prolog f o)) s0 = Some s1 /\
    (forall z, z < sp0 - fin_pp f \/ sp0 <= z -> st_mem s1 z = st_mem s0 z) /\
    (forall g r, (g, r) <> (0, 31) -> (fi_has_fp f = true -> (g, r) <> (0, 29)) -> (fin_sa f <> 31 -> (g, r) <> (0, fin_sa f)) ->
                 st_reg s1 g r = st_reg s0 g r) /\
    forall s2, a64_body_ok f s0 s1 s2 ->
      exists s3, run A64 (fst (epilog f o)) s2 = Some s3 /\
        st_mem s3 = st_mem s2 /\
        (forall g r, (g, r) <> (0, 31) -> Z.testbit (saved_regs f o g) r = false -> st_reg s3 g r = st_reg s2 g r).
Proof. exact a64_frame_conditions. Qed.
Print Assumptions C07_frame_conditions_a64.

(* non-vacuity: frames in the scope of both theorems with registers on either side of the "saved" premise *)
Theorem C07_frame_conditions_satisfiable :
  (exists f, wf_in f /\ is_x86_family (fi_arch f) = true /\ x86_regs_exist f /\
    Z.testbit (saved_regs f (finalize f) 0) 0 = false /\ Z.testbit (saved_regs f (finalize f) 0) 1 = false /\
    Z.testbit (saved_regs f (finalize f) 0) 3 = true /\ Z.testbit (saved_regs f (finalize f) 1) 6 = true /\
    Z.testbit (saved_regs f (finalize f) 1) 0 = false /\ fin_sa f <> 0 /\ fin_sa f <> 1) /\
  (exists f, wf_in f /\ fi_arch f = A64 /\ qget (cc_srsize (fi_cc f)) 1 = 8 /\ fin_has_da f = false /\ fi_sa_reg f = id_bad /\
    fo_stack_adj (finalize f) <= 16777215 /\
    Z.testbit (saved_regs f (finalize f) 0) 0 = false /\ Z.testbit (saved_regs f (finalize f) 1) 0 = false /\
    Z.testbit (saved_regs f (finalize f) 0) 19 = true /\ Z.testbit (saved_regs f (finalize f) 0) 29 = true /\
    Z.testbit (saved_regs f (finalize f) 1) 8 = true /\ 0 < fin_pp f).
Proof. exact (conj ex_frame_conditions_x86_sat ex_frame_conditions_a64_sat). Qed.
Print Assumptions C07_frame_conditions_satisfiable.

(* round 5: what verdict 0 of the plain-frame scenario (FrameExec.exec_frame, run by the check on the IMPLEMENTATION's prolog and
   epilog of every frame) means, for ANY instruction lists: the prolog runs on the proven machine, the second component is the
   body sp, the epilog runs after the most hostile confined body, returns to the return address with the required sp, and every
   preserved register of every group has its entry value on its save width.  With C07_exec_scenario_ok_x86 / _a64 (the model's own
   lists get verdict 0) both directions of the verdict are proved. *)
Theorem C07_exec_frame_sound : forall a pro epi sp0 ra dirty preserved srsize has_fp csize local_off lsize cleanup,
  fst (exec_frame a pro epi sp0 ra dirty preserved srsize has_fp csize local_off lsize cleanup) = 0 ->
  let s0 := init_state a sp0 ra in
  exists s1 s3,
    run a pro s0 = Some s1 /\
    snd (exec_frame a pro epi sp0 ra dirty preserved srsize has_fp csize local_off lsize cleanup) = st_reg s1 0 (sp_id a) /\
    run a epi (poison_body a s1 dirty has_fp csize local_off lsize) = Some s3 /\
    st_ret s3 = Some ra /\ st_reg s3 0 (sp_id a) = sp0 + ret_addr_size a + cleanup /\
    (forall g r, 0 <= g <= 3 -> In r (bits_of 32 (qget preserved g)) -> ~ (g = 0 /\ r = sp_id a) ->
       trunc (if g =? 0 then reg_size a else qget srsize g) (st_reg s3 g r) = trunc (if g =? 0 then reg_size a else qget srsize g) (st_reg s0 g r)).
Proof. exact exec_frame_sound. Qed.
Print Assumptions C07_exec_frame_sound.

(* non-vacuity: verdict 0 is reached (Win64 example frame, its own lists) and the verdict discriminates (the same frame with the
   reload of xmm6 dropped from the epilog: verdict 132 + 6) *)
Theorem C07_exec_frame_verdicts :
  ex_exec (x86_epilog ex_win64 (finalize ex_win64)) = 0 /\ ex_exec (tl (x86_epilog ex_win64 (finalize ex_win64))) = 138.
Proof. exact ex_exec_frame_verdicts. Qed.
Print Assumptions C07_exec_frame_verdicts.

(* round 5: the accept/refuse decision of FuncFrame::finalize() is inside the model (finalize_error: kTooLarge above 0x7FFF0000,
   kInvalidState for unrealisable AArch64 frames; compared with the implementation on every frame, refusals included).
   EVERY frame finalize accepts is inside the range where the uint32_t arithmetic does not wrap and the x86 immediates fit, and an
   accepted AArch64 frame is realisable (scope of C07_roundtrip_a64_accepted): the refusals are strong enough for the theorems *)
Theorem C07_accepted_frames : forall f, wf_in f -> fi_local_align f <= 128 -> fi_call_align f <= 128 -> fi_arg_stack_size f < 2 ^ 16 ->
  finalize_error f = 0 ->
  fi_call_size f + fi_local_size f <= 2 ^ 31 - 2 ^ 16 /\
  (fi_arch f = A64 -> a64_realisable f = true) /\
  let o := finalize f in
  0 <= fo_local_off o /\ fo_local_off o <= fo_extra_off o /\ fo_extra_off o + fo_extra_size o <= fo_stack_adj o /\
  fo_stack_adj o < 2 ^ 31 - 2 ^ 15 /\ 0 <= fo_final_size o < 2 ^ 31 - 2 ^ 15 /\
  fo_sa_from_sp o < 2 ^ 31 /\ 0 <= fo_sa_from_sa o < 2 ^ 31 /\ fo_da_off o < 2 ^ 31 /\
  0 <= fo_push_pop_size o <= 2112 /\ 0 <= fo_callee_cleanup o < 2 ^ 16 /\ - 2 ^ 31 <= - fo_final_align o.
Proof. exact accepted_frames. Qed.
Print Assumptions C07_accepted_frames.

(* ... and not stronger than stated: finalize refuses ONLY frames above the size limit and unrealisable AArch64 frames *)
Theorem C07_refused_frames : forall f, finalize_error f <> 0 ->
  2 ^ 31 - 2 ^ 16 < fi_call_size f + fi_local_size f \/ (fi_arch f = A64 /\ a64_realisable f = false).
Proof. exact refused_frames. Qed.
Print Assumptions C07_refused_frames.

(* non-vacuity: accepted frames exist on x64 and AArch64 (with the hypotheses of C07_accepted_frames), both refusals occur *)
Theorem C07_finalize_error_examples :
  finalize_error ex_win64 = 0 /\ finalize_error ex_a64_ok = 0 /\ finalize_error ex_a64_align32 = 3 /\ finalize_error ex_too_large = 9 /\
  wf_in ex_win64 /\ fi_local_align ex_win64 <= 128 /\ fi_call_align ex_win64 <= 128 /\ fi_arg_stack_size ex_win64 < 2 ^ 16.
Proof. exact ex_finalize_error. Qed.
Print Assumptions C07_finalize_error_examples.

(* round 5, translator tie: coq/gen/C07SourceData.v is regenerated on every run from the C++ SOURCE of the tree under test
   (tools/c07_translate.py interprets x86/a64 FuncInternal::init_call_conv for every architecture, platform and CallConvId enumerator,
   applies FuncFrame::init's removal of SP, and reads the constants of FuncFrame::finalize / FuncFrame::init / the AArch64 emitters and
   the Error enum).  The model's conventions are EXACTLY the translated table ... *)
From VerifGen Require C07SourceData.
Theorem C07_source_cc_table : Forall C07SourceData.src_row_agrees C07SourceData.src_cc_table.
Proof. exact C07SourceData.src_cc_table_agrees. Qed.
Print Assumptions C07_source_cc_table.

(* ... and the thresholds of the model are the source's: size limit and error code of finalize's kTooLarge refusal, vector save
   width and error code of the AArch64 refusal, both immediate limits of the AArch64 sub/add sp, the floor of the minimum dynamic alignment *)
Theorem C07_source_constants :
  frame_size_limit = C07SourceData.src_frame_size_limit /\
  (forall f, frame_size_limit < fi_call_size f + fi_local_size f -> finalize_error f = C07SourceData.src_err_too_large) /\
  (forall f, fi_call_size f + fi_local_size f <= frame_size_limit -> fi_arch f = A64 -> a64_realisable f = false -> finalize_error f = C07SourceData.src_err_a64_refusal) /\
  (forall f, a64_realisable f = negb (fin_has_da f) && ((qget (cc_srsize (fi_cc f)) 1 <=? C07SourceData.src_a64_vec_save_max) || (fin_saved f 1 =? 0))) /\
  (forall sub, snd (a64_adjust sub C07SourceData.src_a64_imm_one) = true /\ length (fst (a64_adjust sub C07SourceData.src_a64_imm_one)) = 1%nat /\
               length (fst (a64_adjust sub (C07SourceData.src_a64_imm_one + 1))) = 2%nat /\
               snd (a64_adjust sub C07SourceData.src_a64_imm_two) = true /\ snd (a64_adjust sub (C07SourceData.src_a64_imm_two + 1)) = false) /\
  (forall n, min_dynamic_alignment n = let m := Z.max n C07SourceData.src_min_dynamic_floor in if m =? n then 2 * m else m).
Proof. exact C07SourceData.src_constants_agree. Qed.
Print Assumptions C07_source_constants.

(* non-vacuity: the table is not empty and has accepting and refusing rows *)
Theorem C07_source_table_size : (length C07SourceData.src_cc_table >= 100)%nat /\
  (exists o, In (X64, 1, 33, Some o) C07SourceData.src_cc_table) /\ In (X86, 0, 32, None) C07SourceData.src_cc_table.
Proof. exact C07SourceData.src_cc_table_nonvacuous. Qed.
Print Assumptions C07_source_table_size.

(* round 5: the other side of the AArch64 adjustment threshold - a stack adjustment above 16777215 is REFUSED by both emitters (error
   flag, empty epilog), never silently mis-encoded; with C07_roundtrip_a64 (adjustment <= 16777215) the case split is complete *)
Theorem C07_a64_large_adjust_refused : forall f, fi_arch f = A64 -> 16777215 < fo_stack_adj (finalize f) ->
  snd (prolog f (finalize f)) = false /\ epilog f (finalize f) = ([], false).
Proof. exact a64_large_adjust_refused. Qed.
Print Assumptions C07_a64_large_adjust_refused.

Theorem C07_a64_large_adjust_satisfiable :
  fi_arch ex_a64_huge = A64 /\ 16777215 < fo_stack_adj (finalize ex_a64_huge) /\ finalize_error ex_a64_huge = 0.
Proof. exact ex_a64_huge_sat. Qed.
Print Assumptions C07_a64_large_adjust_satisfiable.

(* round 5 - stack arguments END TO END (x86/x64, every frame and entry state): whatever the caller stored in the argument area
   (any offset >= 0 above the return address, any width) is readable after the prolog, with the caller's value, at the addresses
   the frame REPORTS: [sp + sa_offset_from_sp] (when reported), [SA register + sa_offset_from_sa], [bp + sa_offset_from_sa] *)
Theorem C07_stack_args_intact_x86 : forall f, wf_in f -> is_x86_family (fi_arch f) = true -> x86_regs_exist f ->
  forall s0,
  let a := fi_arch f in let o := finalize f in let ws := reg_size a in let sp0 := st_reg s0 0 4 in
  st_ret s0 = None -> (sp0 + ws) mod cc_natural (fi_cc f) = 0 ->
  exists s1, run a (x86_prolog f o) s0 = Some s1 /\
    forall off n v, 0 <= off -> holds (st_mem s0) (sp0 + ws + off) n v ->
      (fo_sa_from_sp o <> -1 -> holds (st_mem s1) (st_reg s1 0 4 + fo_sa_from_sp o + off) n v) /\
      (fin_sa f <> 4 -> holds (st_mem s1) (st_reg s1 0 (fin_sa f) + fo_sa_from_sa o + off) n v) /\
      (fi_has_fp f = true -> holds (st_mem s1) (st_reg s1 0 5 + fo_sa_from_sa o + off) n v).
Proof. exact x86_stack_args_intact. Qed.
Print Assumptions C07_stack_args_intact_x86.

(* the same on AArch64 (scope of C07_roundtrip_a64): [sp + sa_offset_from_sp], [x29 + sa_offset_from_sa], [SA register + sa_offset_from_sa] *)
Theorem C07_stack_args_intact_a64 : forall f, wf_in f -> fi_arch f = A64 ->
  (qget (cc_srsize (fi_cc f)) 1 = 8 \/ fin_saved f 1 = 0) -> fin_has_da f = false -> (fi_sa_reg f = id_bad \/ fi_sa_fix f = true) -> fo_stack_adj (finalize f) <= 16777215 ->
  forall s0,
  let o := finalize f in let sp0 := st_reg s0 0 31 in
  st_ret s0 = None -> sp0 mod 16 = 0 ->
  exists s1, run A64 (fst (prolog f o)) s0 = Some s1 /\
    forall off n v, 0 <= off -> holds (st_mem s0) (sp0 + off) n v ->
      holds (st_mem s1) (st_reg s1 0 31 + fo_sa_from_sp o + off) n v /\
      (fi_sa_fix f = true -> fi_has_fp f = true -> holds (st_mem s1) (st_reg s1 0 29 + fo_sa_from_sa o + off) n v) /\
      (fin_sa f <> 31 -> holds (st_mem s1) (st_reg s1 0 (fin_sa f) + fo_sa_from_sa o + off) n v).
Proof. exact a64_stack_args_intact. Qed.
Print Assumptions C07_stack_args_intact_a64.

(* non-vacuity: each addressing mode of the two theorems occurs in an example frame *)
Theorem C07_stack_args_modes_occur :
  fo_sa_from_sp (finalize ex_x86_align8) <> -1 /\ fin_sa ex_win64 <> 4 /\ fo_sa_from_sp (finalize ex_win64) = -1 /\
  fi_has_fp ex_a64_ok = true /\ fin_sa ex_a64_sa_fixed <> 31.
Proof. exact ex_stack_args_sat. Qed.
Print Assumptions C07_stack_args_modes_occur.

(* ================================================================== round 6 *)
(* hypotheses DISCHARGED.  `x86_regs_exist f` (saved vector/mask/MM ids exist in the mode the frame is emitted for) was a hypothesis of
   every x86 theorem; for every convention the library can produce (cc_init, also with the Compiler's alignment override) it follows
   from one input contract on x86-64: xmm16..31 are saved only in frames that enable AVX / AVX-512 *)
Theorem C07_x86_regs_exist_discharged : forall f,
  lib_cc (fi_arch f) (fi_cc f) -> is_x86_family (fi_arch f) = true -> x86_vec_contract f -> x86_regs_exist f.
Proof. exact x86_regs_exist_discharged. Qed.
Print Assumptions C07_x86_regs_exist_discharged.

(* a frame as the API builds it (library convention + sizes >= 0, power-of-two alignments, admissible SA register) is well formed *)
Theorem C07_api_frame_wf : forall f, api_frame f -> wf_in f.
Proof. exact api_frame_wf. Qed.
Print Assumptions C07_api_frame_wf.

(* the x86/x64 round trip for EVERY API frame: no hypothesis about the convention or the register ids is left *)
Theorem C07_roundtrip_x86_api : forall f, api_frame f -> is_x86_family (fi_arch f) = true -> x86_vec_contract f ->
  forall s0 ra,
  let a := fi_arch f in let o := finalize f in let ws := reg_size a in let sp0 := st_reg s0 0 4 in
  st_ret s0 = None -> holds (st_mem s0) sp0 ws ra ->
  (sp0 + ws) mod cc_natural (fi_cc f) = 0 -> fin_pp f <= sp0 < 2 ^ (8 * ws) ->
  exists s1, run a (x86_prolog f o) s0 = Some s1 /\
    st_reg s1 0 4 = x86_sp_body f sp0 /\ st_ret s1 = None /\
    (fin_sa f <> 4 -> st_reg s1 0 (fin_sa f) + fo_sa_from_sa o = sp0 + ws) /\
    (fi_has_fp f = true -> st_reg s1 0 5 + fo_sa_from_sa o = sp0 + ws) /\
    (fo_sa_from_sp o <> -1 -> st_reg s1 0 4 + fo_sa_from_sp o = sp0 + ws) /\
    forall s2, body_ok f s0 s1 s2 ->
      exists s3, run a (x86_epilog f o) s2 = Some s3 /\
        st_ret s3 = Some ra /\ st_reg s3 0 4 = sp0 + ws + fo_callee_cleanup o /\
        (forall g r, Z.testbit (qget (cc_preserved (fi_cc f)) g) r = true ->
                     trunc (qget (cc_srsize (fi_cc f)) g) (st_reg s3 g r) = trunc (qget (cc_srsize (fi_cc f)) g) (st_reg s0 g r)).
Proof. exact x86_roundtrip_api. Qed.
Print Assumptions C07_roundtrip_x86_api.

(* AArch64, every API frame finalize ACCEPTS at HEAD: either the adjustment is beyond two immediates and both emitters refuse, or
   the full round trip holds - vector save width, dynamic alignment, SA register are no hypotheses any more *)
Theorem C07_roundtrip_a64_api : forall f, api_frame f -> fi_arch f = A64 -> finalize_error f = 0 -> fi_sa_fix f = true ->
  (16777215 < fo_stack_adj (finalize f) /\ snd (prolog f (finalize f)) = false /\ epilog f (finalize f) = ([], false)) \/
  (fo_stack_adj (finalize f) <= 16777215 /\
   forall s0,
   let o := finalize f in let sp0 := st_reg s0 0 31 in
   st_ret s0 = None -> sp0 mod 16 = 0 -> 0 <= st_reg s0 0 30 < 2 ^ 64 ->
   exists s1, run A64 (fst (prolog f o)) s0 = Some s1 /\ snd (prolog f o) = true /\
     st_reg s1 0 31 = a64_sp_body f sp0 /\ st_ret s1 = None /\
     a64_sp_body f sp0 mod fo_final_align o = 0 /\ a64_sp_body f sp0 + fo_sa_from_sp o = sp0 /\
     (fi_sa_fix f = true -> fi_has_fp f = true -> st_reg s1 0 29 + fo_sa_from_sa o = sp0) /\
     (fin_sa f <> 31 -> st_reg s1 0 (fin_sa f) + fo_sa_from_sa o = sp0) /\
     forall s2, a64_body_ok f s0 s1 s2 ->
       exists s3, run A64 (fst (epilog f o)) s2 = Some s3 /\ snd (epilog f o) = true /\
         st_ret s3 = Some (st_reg s0 0 30) /\ st_reg s3 0 31 = sp0 /\
         (forall g r, Z.testbit (qget (cc_preserved (fi_cc f)) g) r = true ->
                      trunc (qget (cc_srsize (fi_cc f)) g) (st_reg s3 g r) = trunc (qget (cc_srsize (fi_cc f)) g) (st_reg s0 g r))).
Proof. exact a64_roundtrip_api. Qed.
Print Assumptions C07_roundtrip_a64_api.

(* non-vacuity and NECESSITY of the remaining contract: API frames inside it exist (Win64; LightCall2 saving xmm20 with AVX-512);
   the same LightCall2 frame without AVX/AVX-512 is an API frame outside the contract for which x86_regs_exist is FALSE *)
Theorem C07_api_contract_examples :
  (api_frame ex_win64 /\ x86_vec_contract ex_win64 /\ is_x86_family (fi_arch ex_win64) = true) /\
  (api_frame ex_light_avx512 /\ x86_vec_contract ex_light_avx512 /\ In 20 (L1 ex_light_avx512)) /\
  (api_frame ex_light_legacy /\ ~ x86_vec_contract ex_light_legacy /\ ~ x86_regs_exist ex_light_legacy).
Proof. exact (conj ex_win64_api ex_contract_needed). Qed.
Print Assumptions C07_api_contract_examples.

Theorem C07_api_a64_examples :
  api_frame ex_a64_sa_fixed /\ finalize_error ex_a64_sa_fixed = 0 /\ fi_sa_fix ex_a64_sa_fixed = true /\
  fo_stack_adj (finalize ex_a64_sa_fixed) <= 16777215 /\
  api_frame ex_a64_huge /\ finalize_error ex_a64_huge = 0 /\ 16777215 < fo_stack_adj (finalize ex_a64_huge).
Proof. exact ex_a64_api. Qed.
Print Assumptions C07_api_a64_examples.

(* round 6 - COMPLETENESS of the proven machine's verdicts (converse of C07_exec_frame_sound / C07_exec_args_frame_sound): whenever the
   scenario's round trip holds for the given instruction lists the verdict is 0.  Verdict 0 is therefore EQUIVALENT to the round trip
   of the scenario, for ANY lists: the judge that runs on the implementation's real prolog/epilog has no false alarm and misses nothing *)
Theorem C07_exec_frame_complete : forall a pro epi sp0 ra dirty preserved srsize has_fp csize local_off lsize cleanup s1 s3,
  let s0 := init_state a sp0 ra in
  run a pro s0 = Some s1 ->
  run a epi (poison_body a s1 dirty has_fp csize local_off lsize) = Some s3 ->
  st_ret s3 = Some ra -> st_reg s3 0 (sp_id a) = sp0 + ret_addr_size a + cleanup ->
  (forall g r, 0 <= g <= 3 -> In r (bits_of 32 (qget preserved g)) -> ~ (g = 0 /\ r = sp_id a) ->
     trunc (if g =? 0 then reg_size a else qget srsize g) (st_reg s3 g r) = trunc (if g =? 0 then reg_size a else qget srsize g) (st_reg s0 g r)) ->
  exec_frame a pro epi sp0 ra dirty preserved srsize has_fp csize local_off lsize cleanup = (0, st_reg s1 0 (sp_id a)).
Proof. exact exec_frame_complete. Qed.
Print Assumptions C07_exec_frame_complete.

Theorem C07_exec_args_frame_complete : forall a pro asg epi sp0 ra args dirty preserved srsize has_fp csize local_off lsize cleanup s1 s1' s3,
  let s0 := init_state_args a sp0 ra args in
  run a pro s0 = Some s1 -> run a asg s1 = Some s1' -> st_reg s1' 0 (sp_id a) = st_reg s1 0 (sp_id a) ->
  (forall k spec, nth_error args k = Some spec -> arg_at_destination a s1' (Z.of_nat k) spec) ->
  run a epi (poison_body a s1' dirty has_fp csize local_off lsize) = Some s3 ->
  st_ret s3 = Some ra -> st_reg s3 0 (sp_id a) = sp0 + ret_addr_size a + cleanup ->
  (forall g r, 0 <= g <= 3 -> In r (bits_of 32 (qget preserved g)) -> ~ (g = 0 /\ r = sp_id a) ->
     trunc (if g =? 0 then reg_size a else qget srsize g) (st_reg s3 g r) = trunc (if g =? 0 then reg_size a else qget srsize g) (st_reg s0 g r)) ->
  fst (exec_args_frame a pro asg epi sp0 ra args dirty preserved srsize has_fp csize local_off lsize cleanup) = 0.
Proof. exact exec_args_frame_complete. Qed.
Print Assumptions C07_exec_args_frame_complete.

(* non-vacuity of the argument-copy scenario: a register and a stack argument copied on the Win64 example frame: verdict 0; with the
   register copy dropped: verdict 6 (argument not at its destination) *)
Theorem C07_exec_args_verdicts : ex_exec_args (fst ex_args_lists) = 0 /\ ex_exec_args (snd ex_args_lists) = 6.
Proof. exact ex_exec_args_verdicts. Qed.
Print Assumptions C07_exec_args_verdicts.

(* round 6, translator tie extended: Environment::stack_alignment() is interpreted from the source for the nine (architecture, platform)
   pairs and the Compiler's override (compiler.cpp) is pattern-checked: the model's env_stack_alignment is the source's ... *)
Theorem C07_source_env_alignment :
  Forall (fun r => let '(a, p, v) := r in env_stack_alignment a p = v) C07SourceData.src_env_stack_alignment.
Proof. exact C07SourceData.src_env_stack_alignment_agrees. Qed.
Print Assumptions C07_source_env_alignment.

(* ... and the convention the Compiler hands to finalize has natural alignment max(convention, environment) with the source's value *)
Theorem C07_source_compiler_cc : forall a p cc, In a [X86; X64; A64] -> In p [0; 1; 2] ->
  exists v, In (a, p, v) C07SourceData.src_env_stack_alignment /\ cc_natural (compiler_cc a p cc) = Z.max (cc_natural cc) v.
Proof. exact C07SourceData.src_compiler_cc_natural. Qed.
Print Assumptions C07_source_compiler_cc.

(* round 6 - "the Assembler accepts the emitted prolog/epilog" PROVED for AArch64: every instruction of the prolog and the epilog of every
   accepted API frame (adjustment within two immediates) is encodable: add/sub immediates are imm12 or imm12 << 12, ldp/stp offsets
   are multiples of 8 in [-512, 504] (also the pre-/post-index amounts: the save area of a library convention is at most 224 bytes),
   ldr/str pre-/post-index amounts are in [-256, 255].  The predicate is evaluated on the implementation's lists in every run and
   compared with the real Assembler's verdict *)
Theorem C07_a64_encodable_api : forall f, api_frame f -> fi_arch f = A64 -> finalize_error f = 0 -> fi_sa_fix f = true ->
  fo_stack_adj (finalize f) <= 16777215 ->
  (forall i, In i (fst (prolog f (finalize f))) -> a64_encodable i = true) /\
  (forall i, In i (fst (epilog f (finalize f))) -> a64_encodable i = true).
Proof. exact a64_api_encodable. Qed.
Print Assumptions C07_a64_encodable_api.

(* the push/pop save area of an accepted AArch64 frame of a library convention is at most 224 bytes *)
Theorem C07_a64_save_area_bound : forall f, lib_cc (fi_arch f) (fi_cc f) -> fi_arch f = A64 -> a64_realisable f = true -> fin_pp f <= 224.
Proof. exact a64_api_save_area. Qed.
Print Assumptions C07_a64_save_area_bound.

Theorem C07_a64_encodable_examples :
  forallb a64_encodable (fst (prolog ex_a64_sa_fixed (finalize ex_a64_sa_fixed))) = true /\
  (length (fst (prolog ex_a64_sa_fixed (finalize ex_a64_sa_fixed))) >= 3)%nat /\
  a64_encodable (Mstp, [a64_reg 0 19; a64_reg 0 20; OMem 31 (-528) 1]) = false /\
  a64_encodable (Msub, [a64_reg 0 31; a64_reg 0 31; OImm 4097]) = false /\
  a64_encodable (Mstr, [a64_reg 0 19; OMem 31 (-272) 1]) = false.
Proof. exact ex_a64_encodable. Qed.
Print Assumptions C07_a64_encodable_examples.

(* round 6 - argument copies (what emit_args_assignment emits between prolog and body) under a VERIFIED static check.  The copy
   sequence is not modelled; a checker on the emitted sequence is: register moves / loads / exchanges may only write registers of the
   frame's dirty set or registers the convention does not preserve (never sp, never a preserved frame pointer), stores must stay inside the call area or the local area.  If the
   checker accepts, then for EVERY entry state and every confined body the round trip holds with the copies executed after the prolog.
   The extracted checker runs on the implementation's copy sequence of every x86/x64 argument-copy frame of the check *)
From Verif Require Import Frame.FrameCopies.
Theorem C07_roundtrip_with_copies : forall f, wf_in f -> is_x86_family (fi_arch f) = true -> x86_regs_exist f ->
  forall cs, copies_ok f cs = true ->
  forall s0 ra,
  let a := fi_arch f in let o := finalize f in let ws := reg_size a in let sp0 := st_reg s0 0 4 in
  st_ret s0 = None -> holds (st_mem s0) sp0 ws ra ->
  (sp0 + ws) mod cc_natural (fi_cc f) = 0 -> fin_pp f <= sp0 < 2 ^ (8 * ws) ->
  exists s1, run a (x86_prolog f o) s0 = Some s1 /\
    forall s1', run a (map acopy_instr cs) s1 = Some s1' ->
      st_reg s1' 0 4 = x86_sp_body f sp0 /\
      forall s2, body_ok f s0 s1' s2 ->
        exists s3, run a (x86_epilog f o) s2 = Some s3 /\
          st_ret s3 = Some ra /\ st_reg s3 0 4 = sp0 + ws + fo_callee_cleanup o /\
          (forall g r, Z.testbit (qget (cc_preserved (fi_cc f)) g) r = true ->
                       trunc (qget (cc_srsize (fi_cc f)) g) (st_reg s3 g r) = trunc (qget (cc_srsize (fi_cc f)) g) (st_reg s0 g r)).
Proof. exact x86_roundtrip_with_copies. Qed.
Print Assumptions C07_roundtrip_with_copies.

(* the checker on a frame is the checker on the five data the check takes from the implementation's frame *)
Theorem C07_copies_ok_data : forall f cs,
  copies_ok f cs = copies_ok_data (q0 (fo_dirty (finalize f))) (q0 (cc_preserved (fi_cc f))) (fi_has_fp f) (fi_call_size f) (fo_local_off (finalize f)) (fi_local_size f) cs.
Proof. exact copies_ok_is_data. Qed.
Print Assumptions C07_copies_ok_data.

Theorem C07_copies_examples :
  copies_ok ex_win64 [CMovRR 8 3 8 1; CLoad 8 6 (fin_sa ex_win64) (fo_sa_from_sa (finalize ex_win64) + 40);
                      CStore (fo_local_off (finalize ex_win64)) 8 6] = true /\
  copies_ok ex_win64 [CMovRR 8 7 8 1] = false /\ copies_ok ex_win64 [CMovRR 8 0 8 1] = true /\
  copies_ok ex_win64 [CStore (fo_local_off (finalize ex_win64) + fi_local_size ex_win64) 8 6] = false /\
  copies_ok ex_win64 [CXchg 8 4 8 3] = false.
Proof. exact ex_copies_ok. Qed.
Print Assumptions C07_copies_examples.

(* the same on AArch64 (mov / ldr / str sp-relative), for every frame finalize accepts *)
Theorem C07_roundtrip_with_copies_a64 : forall f, wf_in f -> fi_arch f = A64 -> a64_realisable f = true ->
  (fi_sa_reg f = id_bad \/ fi_sa_fix f = true) -> fo_stack_adj (finalize f) <= 16777215 ->
  forall cs, copies64_ok f cs = true ->
  forall s0,
  let o := finalize f in let sp0 := st_reg s0 0 31 in
  st_ret s0 = None -> sp0 mod 16 = 0 -> 0 <= st_reg s0 0 30 < 2 ^ 64 ->
  exists s1, run A64 (fst (prolog f o)) s0 = Some s1 /\
    forall s1', run A64 (map acopy64_instr cs) s1 = Some s1' ->
      st_reg s1' 0 31 = a64_sp_body f sp0 /\
      forall s2, a64_body_ok f s0 s1' s2 ->
        exists s3, run A64 (fst (epilog f o)) s2 = Some s3 /\ snd (epilog f o) = true /\
          st_ret s3 = Some (st_reg s0 0 30) /\ st_reg s3 0 31 = sp0 /\
          (forall g r, Z.testbit (qget (cc_preserved (fi_cc f)) g) r = true ->
                       trunc (qget (cc_srsize (fi_cc f)) g) (st_reg s3 g r) = trunc (qget (cc_srsize (fi_cc f)) g) (st_reg s0 g r)).
Proof. exact a64_roundtrip_with_copies. Qed.
Print Assumptions C07_roundtrip_with_copies_a64.

(* non-vacuity on the AAPCS64 example frame (x19..x21 dirty, FP preserved): copies into x19/x20 and a store into the local area are
   accepted, into the volatile x9 too; into x22 (callee-saved, not dirty), into x29 (frame pointer) and a store below sp are rejected *)
Theorem C07_copies_examples_a64 :
  copies64_ok ex_a64_ok [C64Mov 8 19 8 0; C64Ldr 8 20 31 (fo_sa_from_sp (finalize ex_a64_ok)); C64Str (fo_local_off (finalize ex_a64_ok)) 8 20] = true /\
  copies64_ok ex_a64_ok [C64Mov 8 22 8 0] = false /\ copies64_ok ex_a64_ok [C64Mov 8 9 8 0] = true /\
  copies64_ok ex_a64_ok [C64Mov 8 29 8 0] = false /\ copies64_ok ex_a64_ok [C64Str (-8) 8 0] = false.
Proof. exact ex_copies64_ok. Qed.
Print Assumptions C07_copies_examples_a64.

(* ================================================================== round 7 (additive): lifts to API frames *)
(* frame conditions, end-to-end stack arguments and the round trip with verified argument copies for EVERY API frame: the hypotheses
   `wf_in f` and `x86_regs_exist f` of the round-5/6 theorems are discharged (FrameContract.v); on x86-64 the input contract remains *)
From Verif Require Import Frame.FrameApi.
Theorem C07_frame_conditions_x86_api : forall f, api_frame f -> is_x86_family (fi_arch f) = true -> x86_vec_contract f ->
  forall s0 ra,
  let a := fi_arch f in let o := finalize f in let ws := reg_size a in let sp0 := st_reg s0 0 4 in
  st_ret s0 = None -> holds (st_mem s0) sp0 ws ra ->
  (sp0 + ws) mod cc_natural (fi_cc f) = 0 -> fin_pp f <= sp0 < 2 ^ (8 * ws) ->
  exists s1, run a (x86_prolog f o) s0 = Some s1 /\
    (forall x, sp0 <= x -> st_mem s1 x = st_mem s0 x) /\
    (forall x, x < x86_sp_body f sp0 + fo_extra_off o -> st_mem s1 x = st_mem s0 x) /\
    (forall g r, (g, r) <> (0, 4) -> (fi_has_fp f = true -> (g, r) <> (0, 5)) -> (fin_sa f <> 4 -> (g, r) <> (0, fin_sa f)) ->
                 st_reg s1 g r = st_reg s0 g r) /\
    forall s2, body_ok f s0 s1 s2 ->
      exists s3, run a (x86_epilog f o) s2 = Some s3 /\
        st_mem s3 = st_mem s2 /\
        (forall g r, (g, r) <> (0, 4) -> (fi_has_fp f = true -> (g, r) <> (0, 5)) -> Z.testbit (saved_regs f o g) r = false ->
                     st_reg s3 g r = st_reg s2 g r).
Proof. exact x86_frame_conditions_api. Qed.
Print Assumptions C07_frame_conditions_x86_api.

Theorem C07_stack_args_intact_x86_api : forall f, api_frame f -> is_x86_family (fi_arch f) = true -> x86_vec_contract f ->
  forall s0,
  let a := fi_arch f in let o := finalize f in let ws := reg_size a in let sp0 := st_reg s0 0 4 in
  st_ret s0 = None -> (sp0 + ws) mod cc_natural (fi_cc f) = 0 ->
  exists s1, run a (x86_prolog f o) s0 = Some s1 /\
    forall off n v, 0 <= off -> holds (st_mem s0) (sp0 + ws + off) n v ->
      (fo_sa_from_sp o <> -1 -> holds (st_mem s1) (st_reg s1 0 4 + fo_sa_from_sp o + off) n v) /\
      (fin_sa f <> 4 -> holds (st_mem s1) (st_reg s1 0 (fin_sa f) + fo_sa_from_sa o + off) n v) /\
      (fi_has_fp f = true -> holds (st_mem s1) (st_reg s1 0 5 + fo_sa_from_sa o + off) n v).
Proof. exact x86_stack_args_intact_api. Qed.
Print Assumptions C07_stack_args_intact_x86_api.

Theorem C07_roundtrip_with_copies_x86_api : forall f, api_frame f -> is_x86_family (fi_arch f) = true -> x86_vec_contract f ->
  forall cs, copies_ok f cs = true ->
  forall s0 ra,
  let a := fi_arch f in let o := finalize f in let ws := reg_size a in let sp0 := st_reg s0 0 4 in
  st_ret s0 = None -> holds (st_mem s0) sp0 ws ra ->
  (sp0 + ws) mod cc_natural (fi_cc f) = 0 -> fin_pp f <= sp0 < 2 ^ (8 * ws) ->
  exists s1, run a (x86_prolog f o) s0 = Some s1 /\
    forall s1', run a (map acopy_instr cs) s1 = Some s1' ->
      st_reg s1' 0 4 = x86_sp_body f sp0 /\
      forall s2, body_ok f s0 s1' s2 ->
        exists s3, run a (x86_epilog f o) s2 = Some s3 /\
          st_ret s3 = Some ra /\ st_reg s3 0 4 = sp0 + ws + fo_callee_cleanup o /\
          (forall g r, Z.testbit (qget (cc_preserved (fi_cc f)) g) r = true ->
                       trunc (qget (cc_srsize (fi_cc f)) g) (st_reg s3 g r) = trunc (qget (cc_srsize (fi_cc f)) g) (st_reg s0 g r)).
Proof. exact x86_roundtrip_with_copies_api. Qed.
Print Assumptions C07_roundtrip_with_copies_x86_api.

Theorem C07_roundtrip_with_copies_a64_api : forall f, api_frame f -> fi_arch f = A64 -> finalize_error f = 0 -> fi_sa_fix f = true ->
  fo_stack_adj (finalize f) <= 16777215 ->
  forall cs, copies64_ok f cs = true ->
  forall s0,
  let o := finalize f in let sp0 := st_reg s0 0 31 in
  st_ret s0 = None -> sp0 mod 16 = 0 -> 0 <= st_reg s0 0 30 < 2 ^ 64 ->
  exists s1, run A64 (fst (prolog f o)) s0 = Some s1 /\
    forall s1', run A64 (map acopy64_instr cs) s1 = Some s1' ->
      st_reg s1' 0 31 = a64_sp_body f sp0 /\
      forall s2, a64_body_ok f s0 s1' s2 ->
        exists s3, run A64 (fst (epilog f o)) s2 = Some s3 /\ snd (epilog f o) = true /\
          st_ret s3 = Some (st_reg s0 0 30) /\ st_reg s3 0 31 = sp0 /\
          (forall g r, Z.testbit (qget (cc_preserved (fi_cc f)) g) r = true ->
                       trunc (qget (cc_srsize (fi_cc f)) g) (st_reg s3 g r) = trunc (qget (cc_srsize (fi_cc f)) g) (st_reg s0 g r)).
Proof. exact a64_roundtrip_with_copies_api. Qed.
Print Assumptions C07_roundtrip_with_copies_a64_api.

(* non-vacuity of the four lifts: API frames inside the contract with accepted non-empty copy sequences, SA-register addressing present *)
Theorem C07_api_copies_examples :
  (api_frame ex_win64 /\ x86_vec_contract ex_win64 /\ is_x86_family (fi_arch ex_win64) = true /\
   copies_ok ex_win64 [CMovRR 8 3 8 1; CStore (fo_local_off (finalize ex_win64)) 8 3] = true /\ fo_sa_from_sp (finalize ex_win64) = -1 /\ fin_sa ex_win64 <> 4) /\
  (api_frame ex_a64_sa_fixed /\ finalize_error ex_a64_sa_fixed = 0 /\ fi_sa_fix ex_a64_sa_fixed = true /\
   fo_stack_adj (finalize ex_a64_sa_fixed) <= 16777215 /\
   copies64_ok ex_a64_sa_fixed [C64Mov 8 19 8 0; C64Str (fo_local_off (finalize ex_a64_sa_fixed)) 8 19] = true).
Proof. exact ex_api_copies. Qed.
Print Assumptions C07_api_copies_examples.

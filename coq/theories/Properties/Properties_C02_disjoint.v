(* C02 — pairwise disjointness of the ISA-database rows (statement + proof from the generated reflection lemma). *)
From Coq Require Import ZArith List Bool.
From Verif Require Import A64.A64Tmpl A64.A64TmplProofs A64.A64Sem A64.A64SemProofs A64.A64InvProofs.
From VerifGen Require Import IsaA64Db IsaA64Disjoint.
Import ListNotations.
Local Open Scope Z_scope.

(* Two rows never produce the same word - whatever the operands - unless they are the same row or one of the RECORDED pairs of
   overlap_pairs (two forms of one mnemonic, aliases, a general form and its special cases: 805 pairs of 5.2 million; the list is tight,
   overlap_pairs_tight): for every other pair the two templates carry different values in a bit that is fixed in both, and every word of a
   row carries the row's fixed bits (tenc_fixed_bits). So the word alone determines the row up to the recorded aliases. *)
Theorem C02_rows_disjoint : forall r1 r2 ops1 ops2 w, In r1 rows -> In r2 rows ->
  spec_row r1 ops1 = Some w -> spec_row r2 ops2 = Some w ->
  r_id r1 = r_id r2 \/ in_overlap overlap_pairs (r_id r1) (r_id r2) = true.
Proof.
  intros r1 r2 ops1 ops2 w H1 H2 S1 S2.
  assert (W : forall r, In r rows -> forallb item_wf (r_tmpl r) = true).
  { intros r Hin. pose proof (proj1 (forallb_forall row_wf rows) rows_wf r Hin) as H. unfold row_wf in H.
    repeat (apply andb_prop in H; destruct H as [H _]). unfold row_tmpl_wf in H.
    repeat (apply andb_prop in H; destruct H as [H _]). exact H. }
  unfold spec_row in S1, S2.
  destruct (bind (r_ops r1) ops1) as [e1|]; try discriminate. destruct (bind (r_ops r2) ops2) as [e2|]; try discriminate.
  injection S1 as S1. injection S2 as S2.
  pose proof (tenc_fixed_bits _ e1 (W r1 H1)) as F1. pose proof (tenc_fixed_bits _ e2 (W r2 H2)) as F2.
  rewrite S1 in F1. rewrite S2 in F2.
  destruct (sigs_tails_sound _ _ _ _ rows_pairwise (in_map row_sig rows r1 H1) (in_map row_sig rows r2 H2)) as [Eq | P].
  { left. unfold row_sig in Eq. inversion Eq. reflexivity. }
  destruct (sig_ok_cases _ _ _ P) as [E | [C | O]]; [left; exact E | | right; exact O].
  exfalso. unfold sig_conflict in C. apply negb_true_iff in C. apply Z.eqb_neq in C.
  exact (fixed_conflict_disjoint _ _ _ _ w w F1 F2 C eq_refl).
Qed.
Print Assumptions C02_rows_disjoint.

(* Instruction-level lift of C02_rows_disjoint (round 7): if the specification answers the SAME single word for two mnemonic / operand
   lists, the two answering rows are the same row id or one of the recorded alias pairs - a word identifies its instruction form up to the
   recorded aliases (CMP / SUBS XZR, ...), whatever the mnemonics and operands were. *)
Theorem C02_inst_word_determines_row : forall mn1 ops1 id1 mn2 ops2 id2 w,
  spec_a64_rows rows alt_table mn1 ops1 = Some (id1, [w]) -> spec_a64_rows rows alt_table mn2 ops2 = Some (id2, [w]) ->
  id1 = id2 \/ in_overlap overlap_pairs id1 id2 = true.
Proof.
  intros mn1 ops1 id1 mn2 ops2 id2 w H1 H2.
  destruct (spec_a64_from_row rows alt_table mn1 ops1 id1 [w] H1) as (r1 & w1 & I1 & E1 & W1 & S1 & _).
  destruct (spec_a64_from_row rows alt_table mn2 ops2 id2 [w] H2) as (r2 & w2 & I2 & E2 & W2 & S2 & _).
  inversion W1; subst w1. inversion W2; subst w2. subst id1 id2.
  exact (C02_rows_disjoint r1 r2 ops1 ops2 w I1 I2 S1 S2).
Qed.
Print Assumptions C02_inst_word_determines_row.
(* non-vacuity: CMP x2, x3 (mnemonic 108) and SUBS xzr, x2, x3 (mnemonic 796) are answered with the same word by two DIFFERENT rows, which
   are a recorded pair - the second alternative of the theorem is real at instruction level *)
Example ex_inst_same_word : exists id1 id2,
  spec_a64_rows rows alt_table 108 [OGp true 2; OGp true 3] = Some (id1, [3942842463]) /\
  spec_a64_rows rows alt_table 796 [OGp true 63; OGp true 2; OGp true 3] = Some (id2, [3942842463]) /\
  (id1 =? id2) = false /\ in_overlap overlap_pairs id1 id2 = true.
Proof. vm_compute. do 2 eexists. repeat split; reflexivity. Qed.

(* C20 — Formatter and logger text faithfully denotes the instruction and operands.
   This file holds ONLY the property theorems (each closed by `exact <lemma>`) and their Print Assumptions. *)
From Coq Require Import ZArith Bool Ascii String.
From Coq Require Import List.
Import ListNotations.
From Verif Require Import Fmt.TextModel Fmt.TextProofs Fmt.X86FmtModel Fmt.X86FmtProofs Fmt.X86RegTableCheck.
From Verif Require Import Fmt.X86InstModel Fmt.X86InstProofs Fmt.A64FmtModel Fmt.A64FmtProofs Fmt.A64InstProofs Fmt.LogLine Fmt.LogLineX86.
From VerifGen Require Import X86RegTables.
Local Open Scope Z_scope.

(* String::_op_number: every 64-bit value, bases 2/8/10/16, every combination of the sign/space/alternate/signed flags and
   every width: the text reads back as the value (signed reading when kSigned) *)
Theorem C20_num_roundtrip : forall i base width f,
  0 <= i < two64 -> (base = 2 \/ base = 8 \/ base = 10 \/ base = 16) ->
  parse_num base (fmt_num i base width f) = Some (if nf_signed f then sext64 i else i).
Proof. exact num_roundtrip. Qed.
Print Assumptions C20_num_roundtrip.

(* machine-code column of finish_formatted_line: it parses back to the emitted bytes, unknown exactly at the rel bytes that
   precede the last imm bytes; one entry per byte *)
Theorem C20_hex_column : forall bytes rel imm,
  Forall (fun v => 0 <= v < 256) bytes ->
  parse_hexcol (fmt_hexcol bytes rel imm) = Some (hexcol_spec bytes rel imm) /\
  ((rel + imm <= length bytes)%nat -> length (hexcol_spec bytes rel imm) = length bytes).
Proof. intros b r i F. split; [exact (hex_column b r i F)|exact (hexcol_spec_length b r i)]. Qed.
Print Assumptions C20_hex_column.

(* lexing a rendered token list gives the tokens back *)
Theorem C20_lex_render : forall ts,
  forallb tok_ok ts = true -> no_adjacent_ids ts = true -> lex (render ts) = ts.
Proof. exact lex_render. Qed.
Print Assumptions C20_lex_render.

(* x86 register names: for each of the 17 x86 register types and EVERY 32-bit id the printed name parses back to (type, id) *)
Theorem C20_x86_reg_roundtrip : forall t i, named t = true -> 0 <= i < two32 ->
  parse_reg_name (fmt_reg t i) = Some (t, i).
Proof. intros t i Ht Hi. exact (proj1 (reg_facts t i (conj Ht Hi))). Qed.
Print Assumptions C20_x86_reg_roundtrip.

Theorem C20_x86_reg_names_injective : forall t1 i1 t2 i2,
  named t1 = true -> 0 <= i1 < two32 -> named t2 = true -> 0 <= i2 < two32 ->
  fmt_reg t1 i1 = fmt_reg t2 i2 -> t1 = t2 /\ i1 = i2.
Proof. exact reg_names_injective. Qed.
Print Assumptions C20_x86_reg_names_injective.

(* (T) AsmJit's register-name tables, dumped from the working tree: format_register's algorithm over them prints, for every
   RegType 0..31 and id 0..255, the architectural name (or the type@id / <Reg-t>?id fallback) of the manual-derived model,
   and the segment prefixes used by memory operands are the segment register names *)
Theorem C20_name_tables_match :
  (forall t id, 0 <= t < 32 -> 0 <= id < 256 -> aj_format_register x86_reg_tables t id = fmt_reg (rt_of_code t) id) /\
  (forall g, 1 <= g <= 6 -> aj_seg_prefix x86_reg_tables g = fmt_reg SReg g).
Proof. exact (tables_match_sound x86_reg_tables x86_reg_tables_ok). Qed.
Print Assumptions C20_name_tables_match.

(* x86 operands: register, memory (size prefix, segment, abs/rel, base register or label, index, scale, signed displacement in
   decimal or hexadecimal), immediate, label — for EVERY operand of the domain op_ok (all 32-bit ids, all 64-bit displacements and
   immediates) and every flag combination the printed text parses back to the operand (canon_op: an unscaled index without base
   reads as a base register; the broadcast is printed by format_instruction, not here). The parser does not know the flags. *)
Theorem C20_x86_operand_roundtrip : forall f o, op_ok o -> parse_operand (fmt_operand f o) = Some (canon_op o).
Proof. exact operand_roundtrip. Qed.
Print Assumptions C20_x86_operand_roundtrip.

Theorem C20_x86_operand_text_injective : forall f1 f2 o1 o2, op_ok o1 -> op_ok o2 ->
  fmt_operand f1 o1 = fmt_operand f2 o2 -> canon_op o1 = canon_op o2.
Proof. exact operand_text_injective. Qed.
Print Assumptions C20_x86_operand_text_injective.

Theorem C20_x86_canon_mem_id : forall m,
  (m_base m <> MBNone \/ m_index m = None \/ m_shift m <> 0) -> m_bcst m = 0 -> canon_mem m = m.
Proof. exact canon_mem_id. Qed.
Print Assumptions C20_x86_canon_mem_id.

(* what the text does not determine: [rbx+16] is printed both for base=rbx and for index=rbx (scale 1) without base — the same
   address, but two different operands (and two different encodings) *)
Theorem C20_x86_unscaled_index_refuted : exists f o1 o2,
  op_ok o1 /\ op_ok o2 /\ o1 <> o2 /\ fmt_operand f o1 = fmt_operand f o2.
Proof. eexists _, _, _. exact unscaled_index_witness. Qed.
Print Assumptions C20_x86_unscaled_index_refuted.

(* a memory size outside {1,2,4,6,8,10,16,32,64} prints no size prefix at all (no instruction form uses such a size) *)
Theorem C20_x86_odd_mem_size_refuted : exists f o1 o2, o1 <> o2 /\ fmt_operand f o1 = fmt_operand f o2.
Proof. eexists _, _, _. exact odd_size_witness. Qed.
Print Assumptions C20_x86_odd_mem_size_refuted.

(* AArch64 register names (w/x incl. wzr wsp xzr sp, b h s d q, v<n>.<T> for 64/128-bit vectors with element types b h s d b4 h2):
   every 32-bit id parses back to (type, id, element type) *)
Theorem C20_a64_reg_roundtrip : forall t id et,
  a64_named t = true -> 0 <= id < two32 -> (et = 0 \/ (t = AVec64 /\ 1 <= et <= 6) \/ (t = AVec128 /\ 1 <= et <= 6)) ->
  parse_a64_reg (a64_reg_text t id et) = Some (t, id, et).
Proof. intros t id et H1 H2 H3. exact (a64_reg_roundtrip t id et (conj H1 (conj H2 H3))). Qed.
Print Assumptions C20_a64_reg_roundtrip.

(* AArch64 operands with the extend operator printed (fixes/C20-a64-extend-without-amount.patch): registers with element type and
   index, memory operands (base register or label, index register, offset, shift/extend operator and amount, pre/post index),
   immediates with a shift predicate, labels — the text parses back to the operand for every operand of a64_op_ok and all flags *)
Theorem C20_a64_operand_roundtrip : forall f o, a64_op_ok o ->
  parse_a64_operand (a64_fmt_operand true f o) = Some (a64_canon_op o).
Proof. exact a64_operand_roundtrip. Qed.
Print Assumptions C20_a64_operand_roundtrip.

(* the pinned formatter (extend operator dropped when the amount is zero): `[x1, w2, uxtw]` and `[x1, w2, sxtw]` — different
   instructions — print the same text; with the fix they differ *)
Theorem C20_a64_extend_dropped_refuted : exists f o1 o2,
  a64_op_ok o1 /\ a64_op_ok o2 /\ o1 <> o2 /\ a64_canon_op o1 <> a64_canon_op o2 /\
  a64_fmt_operand false f o1 = a64_fmt_operand false f o2 /\ a64_fmt_operand true f o1 <> a64_fmt_operand true f o2.
Proof. eexists _, _, _. exact a64_extend_dropped_witness. Qed.
Print Assumptions C20_a64_extend_dropped_refuted.

(* whole x86 instruction lines: option prefixes ({vex} {vex3} {evex} {modrm}|{modmr} short long xacquire xrelease lock rep|repnz {reg} rex),
   mnemonic, up to any number of operands (printing stops at the first <None>), {k}{z} after the first operand, {1toN} after a memory
   operand, {rX-sae} / {sae}: the line parses back to the instruction for EVERY option combination, extra register, operand list of the
   domain inst_ok (mnemonic: an identifier that is not one of the prefix keywords; operands as in C20_x86_operand_roundtrip with
   broadcast 0..6; not both a rep prefix and a {k} extra register — that combination is printed ambiguously) and every flag combination.
   canon_inst: what the line can determine (options that print nothing are not in the model; {modmr} is hidden by {modrm}, repnz by
   rep, {sae} by {er}; {z}/{k} need an operand; the extra register is printed only as mask or after rep). *)
Theorem C20_x86_inst_roundtrip : forall f i, inst_ok i -> parse_inst (fmt_inst f i) = Some (canon_inst i).
Proof. exact inst_roundtrip. Qed.
Print Assumptions C20_x86_inst_roundtrip.

(* whole AArch64 lines (extend operator printed): mnemonic (identifier without '.'), condition code suffix .eq/.ne/…, operands
   separated by ", " where a memory operand — the only operand that contains ", " itself, incl. the post-index form "[x1], 16" —
   is the last operand: the line parses back for every instruction of a64_inst_ok and all flags *)
Theorem C20_a64_inst_roundtrip : forall f i, a64_inst_ok i ->
  parse_a64_inst (a64_fmt_inst true f i) = Some (a64_canon_inst i).
Proof. exact a64_inst_roundtrip. Qed.
Print Assumptions C20_a64_inst_roundtrip.

(* the logger line with kMachineCode (finish_formatted_line: text, padding, "; " column [padding "| " comment] newline) splits back
   into instruction text, column and comment for every padding and every comment, when the instruction text has no ';' and does not
   end with a space, and at least one byte was emitted *)
Theorem C20_log_line : forall t pad1 pad2 bytes rel imm comment,
  Forall (fun c => Ascii.eqb c ";"%char = false) t -> ends_nonspace t ->
  Forall (fun v => 0 <= v < 256) bytes -> bytes <> [] ->
  parse_log_line (finish_line t pad1 pad2 (Some (bytes, rel, imm)) comment) = Some (t, fmt_hexcol bytes rel imm, comment).
Proof. exact log_line_roundtrip. Qed.
Print Assumptions C20_log_line.

(* capstone (x86): from the whole logger line of an emitted instruction one reads off the instruction (options, mnemonic, operands)
   and the emitted bytes (unknown exactly at the pending displacement) — the log is a transcript of the code buffer *)
Theorem C20_x86_log_line_transcript : forall f i pad1 pad2 bytes rel imm comment,
  inst_ok i -> Forall (fun v => 0 <= v < 256) bytes -> bytes <> [] ->
  exists txt col,
    parse_log_line (finish_line (fmt_inst f i) pad1 pad2 (Some (bytes, rel, imm)) comment) = Some (txt, col, comment) /\
    parse_inst txt = Some (canon_inst i) /\ parse_hexcol col = Some (hexcol_spec bytes rel imm).
Proof. exact x86_log_line_transcript. Qed.
Print Assumptions C20_x86_log_line_transcript.

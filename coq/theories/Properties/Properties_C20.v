(* C20 — Formatter and logger text faithfully denotes the instruction and operands.
   This file holds ONLY the property theorems (each closed by `exact <lemma>`) and their Print Assumptions. *)
From Coq Require Import ZArith Bool Ascii String.
From Coq Require Import List.
Import ListNotations.
From Verif Require Import Fmt.TextModel Fmt.TextProofs Fmt.X86FmtModel Fmt.X86FmtProofs Fmt.X86RegTableCheck.
From Verif Require Import Fmt.X86InstModel Fmt.X86InstProofs Fmt.A64FmtModel Fmt.A64FmtProofs Fmt.A64InstProofs Fmt.LogLine Fmt.LogLineX86 Fmt.LogLineA64 Fmt.LabelVirt Fmt.DataNode Fmt.NodeLine Fmt.InstNamesCheck Fmt.Corollaries Fmt.NameDecode Fmt.X86Explain Fmt.RegList Fmt.RegListAll Fmt.VirtNames Fmt.FuncValue Fmt.LogOptions Fmt.Directives Fmt.A64Virt Fmt.SourceTablesCheck Fmt.FuncLine Fmt.X86VirtPhys Fmt.Transcript Fmt.A64VirtRead Fmt.A32Regs Fmt.LogInsts Fmt.Strict Fmt.EnumNames Fmt.StrictOps Fmt.EnvCheck Fmt.LogIndent Fmt.DataBytes Fmt.DomainCheck Fmt.FuncCheck Fmt.PlainLog Fmt.StrictSmall Fmt.NodeRead Fmt.Kernel.
From VerifGen Require Import X86RegTables InstNames InstNameTables FmtSourceTables X86ExplainTables FmtEnumTables.
Local Open Scope Z_scope.

(* String::_op_number: every 64-bit value, bases 2/8/10/16, every combination of the sign/space/alternate/signed flags and
   every width: the text reads back as the value (signed reading when kSigned) *)
Theorem C20_num_roundtrip : forall i base width f,
  0 <= i < two64 -> (base = 2 \/ base = 8 \/ base = 10 \/ base = 16) ->
  parse_num base (fmt_num i base width f) = Some (if nf_signed f then sext64 i else i).
Proof. exact num_roundtrip. Qed.
Print Assumptions C20_num_roundtrip.

(* machine-code column of finish_formatted_line: it parses back to the emitted bytes, unknown exactly at the rel bytes that
   precede the last imm bytes; one entry per byte *)
Theorem C20_hex_column : forall bytes rel imm,
  Forall (fun v => 0 <= v < 256) bytes ->
  parse_hexcol (fmt_hexcol bytes rel imm) = Some (hexcol_spec bytes rel imm) /\
  ((rel + imm <= length bytes)%nat -> length (hexcol_spec bytes rel imm) = length bytes).
Proof. intros b r i F. split; [exact (hex_column b r i F)|exact (hexcol_spec_length b r i)]. Qed.
Print Assumptions C20_hex_column.

(* lexing a rendered token list gives the tokens back *)
Theorem C20_lex_render : forall ts,
  forallb tok_ok ts = true -> no_adjacent_ids ts = true -> lex (render ts) = ts.
Proof. exact lex_render. Qed.
Print Assumptions C20_lex_render.

(* x86 register names: for each of the 17 x86 register types and EVERY 32-bit id the printed name parses back to (type, id) *)
Theorem C20_x86_reg_roundtrip : forall t i, named t = true -> 0 <= i < two32 ->
  parse_reg_name (fmt_reg t i) = Some (t, i).
Proof. intros t i Ht Hi. exact (proj1 (reg_facts t i (conj Ht Hi))). Qed.
Print Assumptions C20_x86_reg_roundtrip.

Theorem C20_x86_reg_names_injective : forall t1 i1 t2 i2,
  named t1 = true -> 0 <= i1 < two32 -> named t2 = true -> 0 <= i2 < two32 ->
  fmt_reg t1 i1 = fmt_reg t2 i2 -> t1 = t2 /\ i1 = i2.
Proof. exact reg_names_injective. Qed.
Print Assumptions C20_x86_reg_names_injective.

(* (T) AsmJit's register-name tables, dumped from the working tree: format_register's algorithm over them prints, for every
   RegType 0..31 and id 0..255, the architectural name (or the type@id / <Reg-t>?id fallback) of the manual-derived model,
   and the segment prefixes used by memory operands are the segment register names *)
Theorem C20_name_tables_match :
  (forall t id, 0 <= t < 32 -> 0 <= id < 256 -> aj_format_register x86_reg_tables t id = fmt_reg (rt_of_code t) id) /\
  (forall g, 1 <= g <= 6 -> aj_seg_prefix x86_reg_tables g = fmt_reg SReg g).
Proof. exact (tables_match_sound x86_reg_tables x86_reg_tables_ok). Qed.
Print Assumptions C20_name_tables_match.

(* … and for EVERY id from 256 up (no count/special entry of the dumped tables reaches 256; both sides print an id-independent prefix
   followed by the decimal id): together with the theorem above the transliterated format_register equals the model for all ids *)
Theorem C20_name_tables_match_all_ids : forall t id, 0 <= t < 32 -> 0 <= id ->
  aj_format_register x86_reg_tables t id = fmt_reg (rt_of_code t) id.
Proof. exact (tables_match_all x86_reg_tables x86_reg_tables_ok x86_reg_tables_big_ok). Qed.
Print Assumptions C20_name_tables_match_all_ids.

(* x86 operands: register, memory (size prefix, segment, abs/rel, base register or label, index, scale, signed displacement in
   decimal or hexadecimal), immediate, label — for EVERY operand of the domain op_ok (all 32-bit ids, all 64-bit displacements and
   immediates) and every flag combination the printed text parses back to the operand (canon_op: an unscaled index without base
   reads as a base register; the broadcast is printed by format_instruction, not here). The parser does not know the flags. *)
Theorem C20_x86_operand_roundtrip : forall f o, op_ok o -> parse_operand (fmt_operand f o) = Some (canon_op o).
Proof. exact operand_roundtrip. Qed.
Print Assumptions C20_x86_operand_roundtrip.

Theorem C20_x86_operand_text_injective : forall f1 f2 o1 o2, op_ok o1 -> op_ok o2 ->
  fmt_operand f1 o1 = fmt_operand f2 o2 -> canon_op o1 = canon_op o2.
Proof. exact operand_text_injective. Qed.
Print Assumptions C20_x86_operand_text_injective.

Theorem C20_x86_canon_mem_id : forall m,
  (m_base m <> MBNone \/ m_index m = None \/ m_shift m <> 0) -> m_bcst m = 0 -> canon_mem m = m.
Proof. exact canon_mem_id. Qed.
Print Assumptions C20_x86_canon_mem_id.

(* what the text does not determine: [rbx+16] is printed both for base=rbx and for index=rbx (scale 1) without base — the same
   address, but two different operands (and two different encodings) *)
Theorem C20_x86_unscaled_index_refuted : exists f o1 o2,
  op_ok o1 /\ op_ok o2 /\ o1 <> o2 /\ fmt_operand f o1 = fmt_operand f o2.
Proof. eexists _, _, _. exact unscaled_index_witness. Qed.
Print Assumptions C20_x86_unscaled_index_refuted.

(* a memory size outside {1,2,4,6,8,10,16,32,64} prints no size prefix at all (no instruction form uses such a size) *)
Theorem C20_x86_odd_mem_size_refuted : exists f o1 o2, o1 <> o2 /\ fmt_operand f o1 = fmt_operand f o2.
Proof. eexists _, _, _. exact odd_size_witness. Qed.
Print Assumptions C20_x86_odd_mem_size_refuted.

(* AArch64 register names (w/x incl. wzr wsp xzr sp, b h s d q, v<n>.<T> for 64/128-bit vectors with element types b h s d b4 h2):
   every 32-bit id parses back to (type, id, element type) *)
Theorem C20_a64_reg_roundtrip : forall t id et,
  a64_named t = true -> 0 <= id < two32 -> (et = 0 \/ (t = AVec64 /\ 1 <= et <= 6) \/ (t = AVec128 /\ 1 <= et <= 6)) ->
  parse_a64_reg (a64_reg_text t id et) = Some (t, id, et).
Proof. intros t id et H1 H2 H3. exact (a64_reg_roundtrip t id et (conj H1 (conj H2 H3))). Qed.
Print Assumptions C20_a64_reg_roundtrip.

(* AArch64 operands with the extend operator printed (fixes/C20-a64-extend-without-amount.patch): registers with element type and
   index, memory operands (base register or label, index register, offset, shift/extend operator and amount, pre/post index),
   immediates with a shift predicate, labels — the text parses back to the operand for every operand of a64_op_ok and all flags *)
Theorem C20_a64_operand_roundtrip : forall f o, a64_op_ok o ->
  parse_a64_operand (a64_fmt_operand true f o) = Some (a64_canon_op o).
Proof. exact a64_operand_roundtrip. Qed.
Print Assumptions C20_a64_operand_roundtrip.

(* the pinned formatter (extend operator dropped when the amount is zero): `[x1, w2, uxtw]` and `[x1, w2, sxtw]` — different
   instructions — print the same text; with the fix they differ *)
Theorem C20_a64_extend_dropped_refuted : exists f o1 o2,
  a64_op_ok o1 /\ a64_op_ok o2 /\ o1 <> o2 /\ a64_canon_op o1 <> a64_canon_op o2 /\
  a64_fmt_operand false f o1 = a64_fmt_operand false f o2 /\ a64_fmt_operand true f o1 <> a64_fmt_operand true f o2.
Proof. eexists _, _, _. exact a64_extend_dropped_witness. Qed.
Print Assumptions C20_a64_extend_dropped_refuted.

(* whole x86 instruction lines: option prefixes ({vex} {vex3} {evex} {modrm}|{modmr} short long xacquire xrelease lock rep|repnz {reg} rex),
   mnemonic, up to any number of operands (printing stops at the first <None>), {k}{z} after the first operand, {1toN} after a memory
   operand, {rX-sae} / {sae}: the line parses back to the instruction for EVERY option combination, extra register, operand list of the
   domain inst_ok (mnemonic: an identifier that is not one of the prefix keywords; operands as in C20_x86_operand_roundtrip with
   broadcast 0..6; not both a rep prefix and a {k} extra register — that combination is printed ambiguously) and every flag combination.
   canon_inst: what the line can determine (options that print nothing are not in the model; {modmr} is hidden by {modrm}, repnz by
   rep, {sae} by {er}; {z}/{k} need an operand; the extra register is printed only as mask or after rep). *)
Theorem C20_x86_inst_roundtrip : forall f i, inst_ok i -> parse_inst (fmt_inst f i) = Some (canon_inst i).
Proof. exact inst_roundtrip. Qed.
Print Assumptions C20_x86_inst_roundtrip.

(* whole AArch64 lines (extend operator printed): mnemonic (identifier without '.'), condition code suffix .eq/.ne/…, operands
   separated by ", " where a memory operand — the only operand that contains ", " itself, incl. the post-index form "[x1], 16" —
   is the last operand: the line parses back for every instruction of a64_inst_ok and all flags *)
Theorem C20_a64_inst_roundtrip : forall f i, a64_inst_ok i ->
  parse_a64_inst (a64_fmt_inst true f i) = Some (a64_canon_inst i).
Proof. exact a64_inst_roundtrip. Qed.
Print Assumptions C20_a64_inst_roundtrip.

(* the logger line with kMachineCode (finish_formatted_line: text, padding, "; " column [padding "| " comment] newline) splits back
   into instruction text, column and comment for every padding and every comment, when the instruction text has no ';' and does not
   end with a space, and at least one byte was emitted *)
Theorem C20_log_line : forall t pad1 pad2 bytes rel imm comment,
  Forall (fun c => Ascii.eqb c ";"%char = false) t -> ends_nonspace t ->
  Forall (fun v => 0 <= v < 256) bytes -> bytes <> [] ->
  parse_log_line (finish_line t pad1 pad2 (Some (bytes, rel, imm)) comment) = Some (t, fmt_hexcol bytes rel imm, comment).
Proof. exact log_line_roundtrip. Qed.
Print Assumptions C20_log_line.

(* capstone (x86): from the whole logger line of an emitted instruction one reads off the instruction (options, mnemonic, operands)
   and the emitted bytes (unknown exactly at the pending displacement) — the log is a transcript of the code buffer *)
Theorem C20_x86_log_line_transcript : forall f i pad1 pad2 bytes rel imm comment,
  inst_ok i -> Forall (fun v => 0 <= v < 256) bytes -> bytes <> [] ->
  exists txt col,
    parse_log_line (finish_line (fmt_inst f i) pad1 pad2 (Some (bytes, rel, imm)) comment) = Some (txt, col, comment) /\
    parse_inst txt = Some (canon_inst i) /\ parse_hexcol col = Some (hexcol_spec bytes rel imm).
Proof. exact x86_log_line_transcript. Qed.
Print Assumptions C20_x86_log_line_transcript.

(* capstone (AArch64): the same for the logger line of an AArch64 instruction (extend operator printed, as /repo does since f9834ed) *)
Theorem C20_a64_log_line_transcript : forall f i pad1 pad2 bytes rel imm comment,
  a64_inst_ok i -> Forall (fun v => 0 <= v < 256) bytes -> bytes <> [] ->
  exists txt col,
    parse_log_line (finish_line (a64_fmt_inst true f i) pad1 pad2 (Some (bytes, rel, imm)) comment) = Some (txt, col, comment) /\
    parse_a64_inst txt = Some (a64_canon_inst i) /\ parse_hexcol col = Some (hexcol_spec bytes rel imm).
Proof. exact a64_log_line_transcript. Qed.
Print Assumptions C20_a64_log_line_transcript.

(* Formatter::format_label: an anonymous label that carries a name prints "L<id>@name"; the id and the name are recovered *)
Theorem C20_anon_label_roundtrip : forall id name, 0 <= id < two32 ->
  parse_anon_label (fmt_label (LNamed id true PNone name)) = Some (id, name).
Proof. exact anon_label_roundtrip. Qed.
Print Assumptions C20_anon_label_roundtrip.

(* named labels are free user text: a global label called "rax" prints exactly like the register (nothing the formatter could do) *)
Theorem C20_named_label_refuted : exists l t i, fmt_label l = fmt_reg t i.
Proof. eexists _, _, _. exact named_label_collides. Qed.
Print Assumptions C20_named_label_refuted.

(* unnamed virtual registers of a Compiler: "%<index>" with the "@type" suffix under kRegType, or under kRegCasts when the operand's
   register type differs from the virtual register's: index and shown type are recovered *)
Theorem C20_x86_virt_reg_roundtrip : forall regtype regcasts index vtype optype, 0 <= index < two32 -> named optype = true ->
  parse_virt (x86_fmt_virt regtype regcasts None index vtype optype) =
  Some (index, if regtype || (regcasts && negb (rt_code vtype =? rt_code optype)) then Some optype else None).
Proof. exact virt_roundtrip. Qed.
Print Assumptions C20_x86_virt_reg_roundtrip.

(* Formatter::format_data: ".repeat N " (N > 1), the directive (.db .dw .dd .dq / .byte .hword .word .xword), the items as
   zero-padded 0x… literals separated by ", " — repeat count, directive and every item value are recovered *)
Theorem C20_data_roundtrip : forall a64 size items rep,
  (size = 1 \/ size = 2 \/ size = 4 \/ size = 8) -> Forall (fun v => 0 <= v < two64) items -> 1 <= rep < two32 ->
  parse_data (render (data_toks a64 size items rep)) = Some (rep, "."%char :: s (data_word a64 size), items).
Proof. exact data_roundtrip. Qed.
Print Assumptions C20_data_roundtrip.

(* Builder instruction nodes (Formatter::format_node): text, padding, "; " inline comment — instruction and comment are recovered *)
Theorem C20_x86_node_line : forall f i pad inline, inst_ok i ->
  let '(txt, cm) := parse_node_line (fmt_node f pad (NInst i) inline) in
  parse_inst txt = Some (canon_inst i) /\ cm = match inline with [] => None | _ => Some inline end.
Proof. exact node_line_roundtrip. Qed.
Print Assumptions C20_x86_node_line.

(* (T) the mnemonics of the InstId enums, regenerated from the working tree on every run: every x86 mnemonic satisfies the premise
   mnem_ok of C20_x86_inst_roundtrip (an identifier, not a prefix keyword) and no two x86 ids share a name (the mnemonic read off a line
   determines the id); every AArch64 mnemonic satisfies mnem64_ok (AArch64 ids are NOT determined by the name: add / add (ASIMD) …) *)
Theorem C20_inst_names :
  Forall (fun n => mnem_ok (s n)) x86_inst_names /\ NoDup (map s x86_inst_names) /\
  Forall (fun n => mnem64_ok (s n)) a64_inst_names.
Proof. exact (names_check_sound _ _ inst_names_ok). Qed.
Print Assumptions C20_inst_names.

(* the text determines the instruction, whatever the format flags were on either side (x86 and AArch64 lines, AArch64 operands) *)
Theorem C20_x86_inst_text_injective : forall f1 f2 i1 i2, inst_ok i1 -> inst_ok i2 ->
  fmt_inst f1 i1 = fmt_inst f2 i2 -> canon_inst i1 = canon_inst i2.
Proof. exact x86_inst_text_injective. Qed.
Print Assumptions C20_x86_inst_text_injective.

Theorem C20_a64_inst_text_injective : forall f1 f2 i1 i2, a64_inst_ok i1 -> a64_inst_ok i2 ->
  a64_fmt_inst true f1 i1 = a64_fmt_inst true f2 i2 -> a64_canon_inst i1 = a64_canon_inst i2.
Proof. exact a64_inst_text_injective. Qed.
Print Assumptions C20_a64_inst_text_injective.

Theorem C20_a64_operand_text_injective : forall f1 f2 o1 o2, a64_op_ok o1 -> a64_op_ok o2 ->
  a64_fmt_operand true f1 o1 = a64_fmt_operand true f2 o2 -> a64_canon_op o1 = a64_canon_op o2.
Proof. exact a64_operand_text_injective. Qed.
Print Assumptions C20_a64_operand_text_injective.

(* the logger line WITHOUT kMachineCode (text, padding, "; " comment, newline): instruction and comment are recovered *)
Theorem C20_x86_plain_log_line : forall f i pad1 pad2 comment, inst_ok i ->
  let '(txt, cm) := parse_node_line (removelast (finish_line (fmt_inst f i) pad1 pad2 None comment)) in
  parse_inst txt = Some (canon_inst i) /\ cm = match comment with [] => None | _ => Some comment end.
Proof. exact x86_plain_log_line. Qed.
Print Assumptions C20_x86_plain_log_line.

(* memory operands printed through a Compiler (base/index may be virtual registers: name or %index, @type cast): the model is the
   physical text with another register printer; without virtual registers it IS the physical text (so all operand theorems apply) *)
Theorem C20_x86_mem_virt_conservative : forall regtype regcasts f m,
  fmt_mem_virt [] regtype regcasts f m = fmt_operand f (OMem m).
Proof. exact fmt_mem_virt_nil. Qed.
Print Assumptions C20_x86_mem_virt_conservative.

(* (T) the instruction-name tables of the instdb, dumped raw from the working tree: InstNameUtils::decode (5-bit packed small names,
   prefix/suffix slices of the string table) transliterated into Coq gives, for EVERY instruction id of x86 and AArch64, the name of the
   InstId enum; with kShowAliases an x86 name is either unchanged or expands ("cmov.b|nae|c", "jz|je") to exactly the name followed by
   the aliases the enum declares for that id *)
Theorem C20_inst_name_tables :
  (forall k v n, nth_error (tl x86_name_index) k = Some v -> nth_error x86_inst_names k = Some n ->
                 decode_name x86_name_strings false v = s n) /\
  (forall k v n, nth_error (tl a64_name_index) k = Some v -> nth_error a64_inst_names k = Some n ->
                 decode_name a64_name_strings false v = s n) /\
  (forall k v n, nth_error (tl x86_name_index) k = Some v -> nth_error x86_inst_names k = Some n ->
                 alias_ok x86_name_strings x86_enum_aliases v n = true).
Proof.
  exact (conj (proj2 (names_agree_sound _ _ _ x86_names_decode_ok))
        (conj (proj2 (names_agree_sound _ _ _ a64_names_decode_ok)) (aliases_agree_sound _ _ _ _ x86_aliases_decode_ok))).
Qed.
Print Assumptions C20_inst_name_tables.

(* kExplainImms: the line model with explanations (fmt_inst_ex, compared with AsmJit on every X line that carries the flag) is the
   plain line when the flag is off; the shuffle-type explanations {a|b|c|d} determine the immediate byte; the comparison-predicate
   tables of the vcmp.., vpcmp.., vpcom.. families name every predicate differently *)
Theorem C20_x86_explain_conservative : forall f i, fmt_inst_ex false f i = fmt_inst f i.
Proof. exact fmt_inst_ex_off. Qed.
Print Assumptions C20_x86_explain_conservative.

Theorem C20_x86_explain_shuf_roundtrip : forall u, 0 <= u < 256 ->
  parse_shuf 2 (imm_shuf u 2 4) = Some u /\ parse_shuf 1 (imm_shuf u 1 8) = Some u.
Proof. exact shuf_roundtrip. Qed.
Print Assumptions C20_x86_explain_shuf_roundtrip.

Theorem C20_x86_explain_predicates_injective : nodup_str vcmpx && nodup_str vpcmpx && nodup_str vpcomx = true.
Proof. exact predicate_tables_injective. Qed.
Print Assumptions C20_x86_explain_predicates_injective.

(* whole lines printed through a Compiler (virtual registers as operands, memory base/index, {k} mask, rep register; "&" home prefix of
   spilled registers — fmt_inst_virt, compared with format_instruction on the K commands): without virtual registers and home operands
   it is the plain line, so every line theorem applies *)
Theorem C20_x86_inst_virt_conservative : forall regtype regcasts f i, fmt_inst_virt [] regtype regcasts f i [] = fmt_inst f i.
Proof. exact fmt_inst_virt_nil. Qed.
Print Assumptions C20_x86_inst_virt_conservative.

(* AArch32 register lists (arm::FormatterInternal::format_register_list: "{r0-r3, r5, r14}"): for EVERY mask over r0..r15 the printed
   list parses back to exactly the mask (lifted from four exhaustive vm_compute sweeps, RegListQ0..Q3, by RegListAll.sweep_in) *)
Theorem C20_a32_reglist_roundtrip : forall m, 0 <= m < 65536 -> parse_reglist (fmt_reglist a32_reg m) = Some m.
Proof. exact reglist_roundtrip. Qed.
Print Assumptions C20_a32_reglist_roundtrip.

(* NAMED virtual registers print their user-chosen name instead of "%<index>".  For an environment whose names are over [A-Za-z0-9_.],
   are not architectural register names and are pairwise distinct (env_ok), ONE reader recovers from the text of any register
   operand of a Compiler line what it is: physical (type, id) or virtual (index, shown cast) *)
Theorem C20_x86_virt_names_roundtrip : forall env regtype regcasts t id, env_ok env -> reg_ok t id ->
  read_reg env (rp_virt env regtype regcasts t id) = Some (denote env regtype regcasts t id).
Proof. exact rp_virt_roundtrip. Qed.
Print Assumptions C20_x86_virt_names_roundtrip.

Theorem C20_x86_virt_names_injective : forall env regtype regcasts t1 id1 t2 id2, env_ok env -> reg_ok t1 id1 -> reg_ok t2 id2 ->
  rp_virt env regtype regcasts t1 id1 = rp_virt env regtype regcasts t2 id2 ->
  denote env regtype regcasts t1 id1 = denote env regtype regcasts t2 id2.
Proof. exact rp_virt_injective. Qed.
Print Assumptions C20_x86_virt_names_injective.

(* the side conditions cannot be dropped: a virtual register named "rax" prints exactly like the physical rax, two virtual registers with
   one name print alike, and a name containing '@' imitates the cast suffix of another register *)
Theorem C20_x86_virt_names_side_conditions :
  rp_virt [(Some (s "rax"), Gp64)] false false Gp64 256 = rp_virt [(Some (s "rax"), Gp64)] false false Gp64 0 /\
  rp_virt [(Some (s "t"), Gp64); (Some (s "t"), Gp64)] false false Gp64 256 = rp_virt [(Some (s "t"), Gp64); (Some (s "t"), Gp64)] false false Gp64 257 /\
  rp_virt [(Some (s "t@gpd"), Gp64); (Some (s "t"), Gp64)] false false Gp64 256 = rp_virt [(Some (s "t@gpd"), Gp64); (Some (s "t"), Gp64)] true false Gp32 257.
Proof. exact (conj virt_name_collides_phys (conj virt_name_duplicate virt_name_imitates_cast)). Qed.
Print Assumptions C20_x86_virt_names_side_conditions.

(* FuncNode lines of a Compiler ("L1: int32@eax Func(int32@ecx a0, int32x4@[rdx] <none>, float64@[32] %1)"): every function value -
   type name, "@" register or "[stack offset]", one more pair of brackets when passed INDIRECTLY (Win64 vectors) - reads back as its type,
   its indirection flag and its location; x86-64 (System V, Win64, vectorcall) and AArch64 register printers *)
Theorem C20_x86_func_value_roundtrip : forall v, fvalue_ok _ (fun r => reg_ok (fst r) (snd r)) v ->
  parse_fvalue parse_reg_name (fmt_fvalue x86_rp v) = Some v.
Proof. exact x86_fvalue_roundtrip. Qed.
Print Assumptions C20_x86_func_value_roundtrip.

Theorem C20_a64_func_value_roundtrip : forall v, fvalue_ok _ (fun r => a64_reg_ok (fst r) (snd r) 0) v ->
  parse_fvalue a64_pr (fmt_fvalue a64_rp v) = Some v.
Proof. exact a64_fvalue_roundtrip. Qed.
Print Assumptions C20_a64_func_value_roundtrip.

(* logger options: with any code indentation and any two paddings (0 = the defaults 44 / 26) the logged line still splits back into
   indentation, instruction text, machine-code column and comment *)
Theorem C20_log_line_options : forall indent t pad1 pad2 bytes rel imm comment,
  Forall (fun c => Ascii.eqb c ";"%char = false) t -> starts_nonspace t -> ends_nonspace t ->
  Forall (fun v => 0 <= v < 256) bytes -> bytes <> [] ->
  parse_log_line_ind (log_line indent t pad1 pad2 (Some (bytes, rel, imm)) comment) = Some (indent, t, fmt_hexcol bytes rel imm, comment).
Proof. exact log_line_ind_roundtrip. Qed.
Print Assumptions C20_log_line_options.

(* without kMachineCode the comment takes the place of the column: "nop ; 90" is both "nop" with comment "90" and "nop" with bytes 90 *)
Theorem C20_log_line_comment_or_column_refuted :
  log_line 0 (s "nop") 0 0 None (s "90") = log_line 0 (s "nop") 0 0 (Some ([144], 0%nat, 0%nat)) [].
Proof. exact comment_or_column_witness. Qed.
Print Assumptions C20_log_line_comment_or_column_refuted.

(* the non-instruction lines an Assembler logs: ".dq L3" (embed_label), ".dd (L3 - L1)" (embed_label_delta) and "  align 16" read back as the
   item size, the label ids, the indentation and the alignment; x86 and AArch64 directive words *)
Theorem C20_embed_label_line : forall a64 sz id, size_ok sz -> id_ok id -> parse_embed_label a64 (fmt_embed_label a64 sz id) = Some (sz, id).
Proof. exact embed_label_roundtrip. Qed.
Print Assumptions C20_embed_label_line.

Theorem C20_embed_label_delta_line : forall a64 sz id base, size_ok sz -> id_ok id -> id_ok base ->
  parse_embed_delta a64 (fmt_embed_delta a64 sz id base) = Some (sz, id, base).
Proof. exact embed_delta_roundtrip. Qed.
Print Assumptions C20_embed_label_delta_line.

Theorem C20_align_line : forall indent n, id_ok n -> parse_align_line (fmt_align_line indent n) = Some (indent, n).
Proof. exact align_line_roundtrip. Qed.
Print Assumptions C20_align_line.

(* Builder nodes: an EmbedLabelNode prints ".label L<id>" whatever its data size - a 4-byte and an 8-byte embedded label print alike
   (the Assembler's log line of the same node says ".dd L3" / ".dq L3", C20_embed_label_line) *)
Theorem C20_embed_label_node_size_refuted : forall f pad inline id, fmt_node f pad (NEmbedLabel id 4) inline = fmt_node f pad (NEmbedLabel id 8) inline.
Proof. exact embed_label_node_size_lost. Qed.
Print Assumptions C20_embed_label_node_size_refuted.

(* AArch64 virtual registers: the register type is never printed, whatever the flags (the ARM formatter ignores kRegType / kRegCasts):
   the w and the x view of one virtual register print alike - known finding C20/a64-virt-reg-size-not-shown *)
Theorem C20_a64_virt_reg_size_refuted : forall name index, a64_fmt_virt name index AGp32 0 None = a64_fmt_virt name index AGp64 0 None.
Proof. exact a64_virt_type_not_shown. Qed.
Print Assumptions C20_a64_virt_reg_size_refuted.

(* the line logged when a label is bound with an inline comment under kMachineCode ("  L5:      ;          | entry": the column is opened and stays
   empty): indentation, label, empty column and comment are read back, for every label id, indentation and paddings *)
Theorem C20_label_line : forall indent id pad1 pad2 comment, id_ok id -> comment <> [] ->
  parse_log_line_ind (label_line indent (label_text id) pad1 pad2 true comment) = Some (indent, label_text id ++ [":"%char], [], comment).
Proof. exact label_line_roundtrip. Qed.
Print Assumptions C20_label_line.

(* whole AArch64 lines printed through an a64::Compiler (a64_fmt_inst_virt: virtual registers as operands with element suffix / index, as memory
   base and index): for ANY environment, a line none of whose registers is a virtual register of that environment is exactly the plain line
   (so every AArch64 line theorem applies to it); in particular with no virtual registers at all *)
Theorem C20_a64_inst_virt_conservative : forall env fixed f i, Forall (op_phys env) (ai_ops i) -> a64_fmt_inst_virt env fixed f i = a64_fmt_inst fixed f i.
Proof. exact a64_fmt_inst_virt_phys. Qed.
Print Assumptions C20_a64_inst_virt_conservative.

Theorem C20_a64_inst_virt_nil : forall fixed f i, a64_fmt_inst_virt [] fixed f i = a64_fmt_inst fixed f i.
Proof. exact a64_fmt_inst_virt_nil. Qed.
Print Assumptions C20_a64_inst_virt_nil.

(* the small name tables (per run, T): what arm::FormatterInternal::format_cond_code prints for every condition code 0..17, what format_shift_op
   prints for every shift / extend operator 0..17 and what Formatter::format_data_type prints for item sizes 1,2,4,8 on x86-64 and AArch64
   (dumped from the working tree into coq/gen/FmtSourceTables.v) is what the model prints; beyond the tables both print "<Unknown>" *)
Theorem C20_source_small_tables :
  (forall k x, nth_error src_cond_names k = Some x -> model_cond (Z.of_nat k) = x) /\
  (forall k x, nth_error src_shift_names k = Some x -> model_shift (Z.of_nat k) = x) /\
  (forall k x, nth_error src_words_x64 k = Some x -> s (data_word false (2 ^ Z.of_nat k)) = x) /\
  (forall k x, nth_error src_words_a64 k = Some x -> s (data_word true (2 ^ Z.of_nat k)) = x) /\
  length src_cond_names = 18%nat /\ length src_shift_names = 18%nat /\ length src_words_x64 = 4%nat /\ length src_words_a64 = 4%nat.
Proof. exact (small_tables_sound _ _ _ _ source_small_tables_ok). Qed.
Print Assumptions C20_source_small_tables.

Theorem C20_names_beyond_tables : (forall c, 16 <= c -> model_cond c = s "<Unknown>") /\ (forall op, 14 <= op -> model_shift op = s "<Unknown>").
Proof. exact (conj model_cond_beyond model_shift_beyond). Qed.
Print Assumptions C20_names_beyond_tables.

(* the WHOLE FuncNode line "L1: int32@eax Func(int32@ecx a0, int32x4@[rdx] <none>, float64@[32] %1)" reads back as label id, return value (or
   void) and the list of arguments, each with the name of the register bound to it (None for "<none>"); type names and register names over characters
   other than ' ' and ',' (type names without '@' and not "void"), bound names different from "<none>"; x86-64 and AArch64 *)
Theorem C20_x86_func_line_roundtrip : forall lbl ret args, id_ok lbl ->
  match ret with Some v => lvalue_ok _ x86_reg_okP v | None => True end -> Forall (arg_ok _ x86_reg_okP) args ->
  parse_func_line parse_reg_name (fmt_func_node x86_rp lbl (ret_list _ ret) args) = Some (lbl, ret, args).
Proof. exact x86_func_line_roundtrip. Qed.
Print Assumptions C20_x86_func_line_roundtrip.

Theorem C20_a64_func_line_roundtrip : forall lbl ret args, id_ok lbl ->
  match ret with Some v => lvalue_ok _ a64_reg_okP v | None => True end -> Forall (arg_ok _ a64_reg_okP) args ->
  parse_func_line a64_pr (fmt_func_node a64_rp lbl (ret_list _ ret) args) = Some (lbl, ret, args).
Proof. exact a64_func_line_roundtrip. Qed.
Print Assumptions C20_a64_func_line_roundtrip.

(* kExplainImms (per run, T): the function-local tables of x86::FormatterInternal::explain_const, read from the SOURCE TEXT of x86formatter.cpp into
   coq/gen/X86ExplainTables.v (predicate names of vcmp / vpcmp / vpcom, shuffle lane names, the ImmBits rows of vfpclass, vfixupimm, vgetmant, vmpsadbw,
   vpclmulqdq, vperm2x128, vrange, vreduce/vrndscale, vround with their masks and shifts), are the tables of the model X86Explain.v *)
Theorem C20_x86_explain_tables_from_source :
  src_vcmpx = vcmpx /\ src_vpcmpx = vpcmpx /\ src_vpcomx = vpcomx /\ src_vshufpd = vshufpd_t /\ src_vshufps = vshufps_t /\
  src_vfpclassxx = vfpclass_s /\ src_vfixupimmxx = vfixupimm_s /\ src_vgetmantxx = vgetmant_s /\ src_vmpsadbw = vmpsadbw_s /\
  src_vpclmulqdq = vpclmulqdq_s /\ src_vperm2x128 = vperm2x128_s /\ src_vrangexx = vrange_s /\ src_vreducexx_vrndscalexx = vreduce_s /\ src_vroundxx = vround_s.
Proof. exact explain_tables_ok. Qed.
Print Assumptions C20_x86_explain_tables_from_source.

(* x86 Compiler lines at full strength: for ANY environment of virtual registers (and any kRegType / kRegCasts), a line none of whose registers -
   operands, memory base / index, {k} mask or rep register - is a virtual register of that environment, and without home operands, is exactly the plain
   line: what is not virtual must not change (C20_x86_inst_virt_conservative is the case of the empty environment) *)
Theorem C20_x86_inst_virt_phys : forall env regtype regcasts f i, x86_inst_phys env i -> fmt_inst_virt env regtype regcasts f i [] = fmt_inst f i.
Proof. exact fmt_inst_virt_phys. Qed.
Print Assumptions C20_x86_inst_virt_phys.

(* "the log is a faithful transcript of the code buffer": the log of ANY sequence of emitted instructions (kMachineCode, any paddings, with or without
   comments) splits back into its lines and every line into text, column and comment ... *)
Theorem C20_log_roundtrip : forall pad1 pad2 es, Forall emission_ok es ->
  parse_log (log_of pad1 pad2 es) = Some (map (fun e => (e_text e, fmt_hexcol (e_bytes e) (e_rel e) (e_imm e), e_comment e)) es).
Proof. exact log_roundtrip. Qed.
Print Assumptions C20_log_roundtrip.

(* ... and when no displacement was pending the columns, read as bytes, concatenate to exactly the concatenation of the emitted byte strings *)
Theorem C20_log_denotes_code : forall pad1 pad2 es, Forall emission_ok es -> Forall (fun e => e_rel e = 0%nat) es ->
  match parse_log (log_of pad1 pad2 es) with
  | Some ls => columns_bytes (map (fun l => snd (fst l)) ls) = Some (map Some (concat (map e_bytes es)))
  | None => False
  end.
Proof. exact log_denotes_code. Qed.
Print Assumptions C20_log_denotes_code.

(* AArch64 virtual-register operands ("%3", "ptr", "vacc.4s[2]"): for an environment whose names are non-empty, over [A-Za-z0-9_] and pairwise distinct,
   the text reads back as the index of the virtual register, its element suffix and its element index (the register type is not in the text:
   C20_a64_virt_reg_size_refuted) *)
Theorem C20_a64_virt_reg_roundtrip : forall env, env_ok64 env -> forall i name vt t et ei, nth_error env i = Some (name, vt) -> id_ok (Z.of_nat i) ->
  match ei with Some e => id_ok e | None => True end ->
  read_a64_virt env (a64_fmt_virt name (Z.of_nat i) t et ei) = Some (Z.of_nat i, a64_elem_suffix t et, ei).
Proof. exact read_a64_virt_roundtrip. Qed.
Print Assumptions C20_a64_virt_reg_roundtrip.

(* AArch32 general-purpose registers print "r<id>" for every id (no sp/lr/pc names) and read back *)
Theorem C20_a32_gp_roundtrip : forall id, id_ok id -> parse_a32_gp (a32_fmt_reg AGp32 id 0 None) = Some id.
Proof. exact a32_gp_roundtrip. Qed.
Print Assumptions C20_a32_gp_roundtrip.

(* CAPSTONE of the property for whole logs: from the log of ANY sequence of emitted x86 instructions (every flag combination, any paddings, comments or
   not) the proven readers recover the list of instructions (canon_inst: what a line can determine), the comments and - when no displacement was pending -
   the emitted bytes.  The side conditions of C20_log_roundtrip on the instruction text are discharged (x86_text_ok). *)
Theorem C20_x86_log_insts : forall f pad1 pad2 es, Forall (emitted_ok _ inst_ok) es ->
  match parse_log (log_of pad1 pad2 (map (to_emission _ (fmt_inst f)) es)) with
  | Some ls =>
      read_insts _ parse_inst ls = Some (map (fun e => canon_inst (m_inst _ e)) es) /\
      map (fun l => snd l) ls = map (m_comment _) es /\
      (Forall (fun e => m_rel _ e = 0%nat) es ->
       columns_bytes (map (fun l => snd (fst l)) ls) = Some (map Some (concat (map (m_bytes _) es))))
  | None => False
  end.
Proof. exact x86_log_insts. Qed.
Print Assumptions C20_x86_log_insts.

Theorem C20_a64_log_insts : forall f pad1 pad2 es, Forall (emitted_ok _ a64_inst_ok) es ->
  match parse_log (log_of pad1 pad2 (map (to_emission _ (a64_fmt_inst true f)) es)) with
  | Some ls =>
      read_insts _ parse_a64_inst ls = Some (map (fun e => a64_canon_inst (m_inst _ e)) es) /\
      map (fun l => snd l) ls = map (m_comment _) es /\
      (Forall (fun e => m_rel _ e = 0%nat) es ->
       columns_bytes (map (fun l => snd (fst l)) ls) = Some (map Some (concat (map (m_bytes _) es))))
  | None => False
  end.
Proof. exact a64_log_insts. Qed.
Print Assumptions C20_a64_log_insts.

(* the OTHER direction of the readers: the register readers accept only texts that are the print of what they return (no junk reads as a register) *)
Theorem C20_reg_readers_sound :
  (forall x t i, parse_reg_name x = Some (t, i) -> fmt_reg t i = x) /\
  (forall x t i et, parse_a64_reg x = Some (t, i, et) -> a64_reg_text t i et = x).
Proof. exact (conj parse_reg_name_sound parse_a64_reg_sound). Qed.
Print Assumptions C20_reg_readers_sound.

(* strict readers (proven reader + canonical re-print) accept EXACTLY the prints: register lists are a bijection between the masks below 2^16 and the
   accepted texts; for operands and lines of both architectures every accepted text is the print of the value returned, and the print of every canonical
   well-formed value is accepted and read as itself *)
Theorem C20_reglist_strict_exact :
  (forall m, 0 <= m < 65536 -> strict_reglist (fmt_reglist a32_reg m) = Some m) /\
  (forall x m, strict_reglist x = Some m -> x = fmt_reglist a32_reg m).
Proof. exact strict_reglist_exact. Qed.
Print Assumptions C20_reglist_strict_exact.

Theorem C20_x86_strict_exact : forall f,
  (forall x o, strict_operand f x = Some o -> fmt_operand f o = x) /\
  (forall o, op_ok o -> canon_op o = o -> strict_operand f (fmt_operand f o) = Some o) /\
  (forall x i, strict_inst f x = Some i -> fmt_inst f i = x) /\
  (forall i, inst_ok i -> canon_inst i = i -> strict_inst f (fmt_inst f i) = Some i).
Proof. exact strict_x86_exact. Qed.
Print Assumptions C20_x86_strict_exact.

Theorem C20_a64_strict_exact : forall f,
  (forall x o, strict_a64_operand f x = Some o -> a64_fmt_operand true f o = x) /\
  (forall o, a64_op_ok o -> a64_canon_op o = o -> strict_a64_operand f (a64_fmt_operand true f o) = Some o) /\
  (forall x i, strict_a64_inst f x = Some i -> a64_fmt_inst true f i = x) /\
  (forall i, a64_inst_ok i -> a64_canon_inst i = i -> strict_a64_inst f (a64_fmt_inst true f i) = Some i).
Proof. exact strict_a64_exact. Qed.
Print Assumptions C20_a64_strict_exact.

(* the side condition "a memory operand is the last operand" of C20_a64_inst_roundtrip is necessary: an operand behind a memory operand prints exactly
   like a post-index ("ldr x0, [x1], 8" is both) *)
Theorem C20_a64_mem_not_last_refuted :
  a64_fmt_inst true f00 {| ai_mnem := s "ldr"; ai_cond := 0; ai_ops := [AOReg AGp64 0 0 None; AOMem (mem_x1 0 0); AOImm 8 0] |} =
  a64_fmt_inst true f00 {| ai_mnem := s "ldr"; ai_cond := 0; ai_ops := [AOReg AGp64 0 0 None; AOMem (mem_x1 2 8)] |}.
Proof. exact a64_mem_not_last_witness. Qed.
Print Assumptions C20_a64_mem_not_last_refuted.

(* names printed for enumerators (per run, T): for EVERY id the real function was evaluated on (coq/gen/FmtEnumTables.v: error codes 0..max+2, CPU features of
   x86 and ARM 0..max+2, all 256 type ids) the text is the enumerator's own identifier under the Coq rule (strip "k"; type ids also lower-cased and "x1"
   dropped), and "<Unknown>" where the Error / CpuFeatures enums (read raw from the headers) have no enumerator *)
Theorem C20_enum_names :
  (forall k x, nth_error dump_errors k = Some x ->
     x = match lookup (Z.of_nat k) enum_errors with Some n => ident_rule n | None => s "<Unknown>" end) /\
  (forall k x, nth_error dump_features_x86 k = Some x ->
     x = match lookup (Z.of_nat k) enum_features_x86 with Some n => ident_rule n | None => s "<Unknown>" end) /\
  (forall k x, nth_error dump_features_arm k = Some x ->
     x = match lookup (Z.of_nat k) enum_features_arm with Some n => ident_rule n | None => s "<Unknown>" end) /\
  (forall id n, In (id, n) enum_types -> 0 <= id /\ nth_error dump_types (Z.to_nat id) = Some (type_rule n)).
Proof. exact enum_names_sound. Qed.
Print Assumptions C20_enum_names.

(* frame condition: what canon_op / canon_inst forget is never printed - an instruction and its canonical form print alike (x86: unconditionally, every
   option word, extra register and operand list; AArch64: for well-formed lines) *)
Theorem C20_print_canon_invariant :
  (forall f i, fmt_inst f (canon_inst i) = fmt_inst f i) /\ (forall f o, fmt_operand f (canon_op o) = fmt_operand f o) /\
  (forall f i, a64_inst_ok i -> a64_fmt_inst true f (a64_canon_inst i) = a64_fmt_inst true f i) /\
  (forall f o, a64_op_ok o -> a64_fmt_operand true f (a64_canon_op o) = a64_fmt_operand true f o).
Proof. exact (conj fmt_inst_canon (conj fmt_operand_canon (conj a64_fmt_inst_canon a64_fmt_operand_canon))). Qed.
Print Assumptions C20_print_canon_invariant.

(* hence the strict readers are COMPLETE on every well-formed value (the "canonical" hypothesis of C20_x86_strict_exact / C20_a64_strict_exact is
   discharged): the print of any well-formed operand / line is accepted and read as its canonical form; with soundness: the accepted texts are exactly
   the prints *)
Theorem C20_strict_complete :
  (forall f o, op_ok o -> strict_operand f (fmt_operand f o) = Some (canon_op o)) /\
  (forall f i, inst_ok i -> strict_inst f (fmt_inst f i) = Some (canon_inst i)) /\
  (forall f o, a64_op_ok o -> strict_a64_operand f (a64_fmt_operand true f o) = Some (a64_canon_op o)) /\
  (forall f i, a64_inst_ok i -> strict_a64_inst f (a64_fmt_inst true f i) = Some (a64_canon_inst i)).
Proof. exact (conj strict_operand_complete (conj strict_inst_complete (conj strict_a64_operand_complete strict_a64_inst_complete))). Qed.
Print Assumptions C20_strict_complete.

(* the hypotheses of the virtual-register theorems are decidable: the check evaluates env_okb / env_ok64b on the environments it really uses, so
   C20_x86_virt_names_roundtrip and C20_a64_virt_reg_roundtrip apply to them without an unchecked premise *)
Theorem C20_env_checks_sound : (forall env, env_okb env = true -> env_ok env) /\ (forall env, env_ok64b env = true -> env_ok64 env).
Proof. exact (conj env_okb_sound env_ok64b_sound). Qed.
Print Assumptions C20_env_checks_sound.

(* equal logs come from equal programs: two sequences of emitted x86 instructions whose logs are the same text have the same instructions (up to
   canon_inst) and the same comments *)
Theorem C20_x86_log_injective : forall f pad1 pad2 es1 es2, Forall (emitted_ok _ inst_ok) es1 -> Forall (emitted_ok _ inst_ok) es2 ->
  log_of pad1 pad2 (map (to_emission _ (fmt_inst f)) es1) = log_of pad1 pad2 (map (to_emission _ (fmt_inst f)) es2) ->
  map (fun e => canon_inst (m_inst _ e)) es1 = map (fun e => canon_inst (m_inst _ e)) es2 /\ map (m_comment _) es1 = map (m_comment _) es2.
Proof. exact x86_log_injective. Qed.
Print Assumptions C20_x86_log_injective.

(* per run (T): every type name of the TypeId enum but "void" (kVoid) satisfies what the FuncNode-line theorems ask of a type name - no ' ', ',' or '@' in it
   and it is not "void" - so C20_x86_func_line_roundtrip / C20_a64_func_line_roundtrip apply to every type format_type_id can print *)
Theorem C20_type_names_fit_func_lines : forall id n, In (id, n) enum_types -> id <> 0 ->
  Forall clean (type_rule n) /\ Forall (fun c => Ascii.eqb c at_c = false) (type_rule n) /\ type_rule n <> s "void".
Proof. exact (type_names_fit_sound enum_types enum_type_names_fit). Qed.
Print Assumptions C20_type_names_fit_func_lines.

(* the whole-log capstone for ANY code indentation (Logger::set_indentation, FormatIndentationGroup::kCode): every line gives back its indentation and its
   instruction; comments and bytes as in C20_x86_log_insts.  x86-64 and AArch64 *)
Theorem C20_x86_log_insts_indented : forall f indent pad1 pad2 es, Forall (emitted_ok _ inst_ok) es ->
  match parse_log (log_of pad1 pad2 (map (to_emission _ (itxt _ (fmt_inst f) indent)) es)) with
  | Some ls =>
      read_insts _ (ird _ parse_inst) ls = Some (map (fun e => (indent, canon_inst (m_inst _ e))) es) /\
      map (fun l => snd l) ls = map (m_comment _) es /\
      (Forall (fun e => m_rel _ e = 0%nat) es ->
       columns_bytes (map (fun l => snd (fst l)) ls) = Some (map Some (concat (map (m_bytes _) es))))
  | None => False
  end.
Proof. exact x86_log_insts_indented. Qed.
Print Assumptions C20_x86_log_insts_indented.

Theorem C20_a64_log_insts_indented : forall f indent pad1 pad2 es, Forall (emitted_ok _ a64_inst_ok) es ->
  match parse_log (log_of pad1 pad2 (map (to_emission _ (itxt _ (a64_fmt_inst true f) indent)) es)) with
  | Some ls =>
      read_insts _ (ird _ parse_a64_inst) ls = Some (map (fun e => (indent, a64_canon_inst (m_inst _ e))) es) /\
      map (fun l => snd l) ls = map (m_comment _) es /\
      (Forall (fun e => m_rel _ e = 0%nat) es ->
       columns_bytes (map (fun l => snd (fst l)) ls) = Some (map Some (concat (map (m_bytes _) es))))
  | None => False
  end.
Proof. exact a64_log_insts_indented. Qed.
Print Assumptions C20_a64_log_insts_indented.

(* two more formatter tables over their WHOLE domain (per run, T; harness DS2): the size words an x86 memory operand prints in front of '[' for every size
   0..255 ("byte ptr " ... "zmmword ptr ", nothing for the other 247 sizes) and the AArch64 vector register text for every element type 0..7 on a 64-bit and a
   128-bit vector register are what the model prints *)
Theorem C20_source_small_tables2 :
  (forall k x, nth_error src_size_prefixes k = Some x -> render (size_toks (Z.of_nat k)) = x) /\
  (forall k x, nth_error src_vec64 k = Some x -> a64_reg_text AVec64 3 (Z.of_nat k) = x) /\
  (forall k x, nth_error src_vec128 k = Some x -> a64_reg_text AVec128 3 (Z.of_nat k) = x) /\
  length src_size_prefixes = 256%nat /\ length src_vec64 = 8%nat /\ length src_vec128 = 8%nat.
Proof. exact (small_tables2_sound _ _ _ source_small_tables2_ok). Qed.
Print Assumptions C20_source_small_tables2.

(* an embedded-data line DENOTES ITS BYTES: for every byte string whose length is a multiple of the item size (1, 2, 4, 8), on x86 and AArch64 directive words,
   with any repeat count, the items the proven reader recovers from the text of Formatter::format_data, laid out little-endian in the item size and repeated,
   are exactly the embedded bytes (C20_data_roundtrip recovered the items; this closes the step to the bytes that python recomputed) *)
Theorem C20_data_line_denotes_bytes : forall a64 size bytes rep, (size = 1 \/ size = 2 \/ size = 4 \/ size = 8) -> Forall byte bytes ->
  (exists k, length bytes = (k * Z.to_nat size)%nat) -> 1 <= rep < two32 ->
  exists items, parse_data (fmt_data a64 size bytes rep) = Some (rep, "."%char :: s (data_word a64 size), items) /\
                data_bytes (Z.to_nat size) items (Z.to_nat rep) = concat (repeat bytes (Z.to_nat rep)).
Proof. exact data_line_denotes. Qed.
Print Assumptions C20_data_line_denotes_bytes.

(* the domains of the line theorems are decidable: inst_okb / a64_inst_okb are sound for inst_ok / a64_inst_ok.  The driver evaluates them on every
   command whose text does not read back, so "outside the domain of the theorem" is a proven-sound verdict, not python's classification *)
Theorem C20_domain_checks_sound : (forall i, inst_okb i = true -> inst_ok i) /\ (forall i, a64_inst_okb i = true -> a64_inst_ok i) /\
  (forall o, op_vis_okb o = true -> op_vis_ok o) /\ (forall o, a64_op_okb o = true -> a64_op_ok o).
Proof. exact (conj inst_okb_sound (conj a64_inst_okb_sound (conj op_vis_okb_ok a64_op_okb_ok))). Qed.
Print Assumptions C20_domain_checks_sound.

(* the premises of the FuncNode-line theorems are decidable; the driver evaluates them on every line it reads, so C20_x86_func_line_roundtrip /
   C20_a64_func_line_roundtrip apply to those lines without an unchecked premise *)
Theorem C20_func_line_checks_sound :
  (forall ret args, x86_func_line_okb ret args = true ->
     match ret with Some v => lvalue_ok _ x86_reg_okP v | None => True end /\ Forall (arg_ok _ x86_reg_okP) args) /\
  (forall ret args, a64_func_line_okb ret args = true ->
     match ret with Some v => lvalue_ok _ a64_reg_okP v | None => True end /\ Forall (arg_ok _ a64_reg_okP) args).
Proof. exact (conj x86_func_line_okb_sound a64_func_line_okb_sound). Qed.
Print Assumptions C20_func_line_checks_sound.

(* logs WITHOUT kMachineCode (the default flags of a Logger): a whole log splits into its lines, every line into the instruction text and its optional comment,
   and the proven line readers recover the instruction list; x86-64 and AArch64, every flag combination, any paddings *)
Theorem C20_plain_log_roundtrip : forall pad1 pad2 es, Forall plain_ok es ->
  parse_plain_log (plain_log_of pad1 pad2 es) = Some (map (fun e => (q_text e, opt_comment (q_comment e))) es).
Proof. exact plain_log_roundtrip. Qed.
Print Assumptions C20_plain_log_roundtrip.

Theorem C20_x86_plain_log_insts : forall f pad1 pad2 (es : list (x86inst * text)), Forall (fun e => inst_ok (fst e) /\ Forall nonl (snd e)) es ->
  match parse_plain_log (plain_log_of pad1 pad2 (map (fun e => {| q_text := fmt_inst f (fst e); q_comment := snd e |}) es)) with
  | Some ls => traverse (fun l => parse_inst (fst l)) ls = Some (map (fun e => canon_inst (fst e)) es) /\
               map (fun l => snd l) ls = map (fun e => opt_comment (snd e)) es
  | None => False
  end.
Proof. exact x86_plain_log_insts. Qed.
Print Assumptions C20_x86_plain_log_insts.

Theorem C20_a64_plain_log_insts : forall f pad1 pad2 (es : list (a64inst * text)), Forall (fun e => a64_inst_ok (fst e) /\ Forall nonl (snd e)) es ->
  match parse_plain_log (plain_log_of pad1 pad2 (map (fun e => {| q_text := a64_fmt_inst true f (fst e); q_comment := snd e |}) es)) with
  | Some ls => traverse (fun l => parse_a64_inst (fst l)) ls = Some (map (fun e => a64_canon_inst (fst e)) es) /\
               map (fun l => snd l) ls = map (fun e => opt_comment (snd e)) es
  | None => False
  end.
Proof. exact a64_plain_log_insts. Qed.
Print Assumptions C20_a64_plain_log_insts.

(* the other direction for the small readers: parse_dec32 accepts only the canonical decimal of what it returns; the strict label / embed_label / align readers
   accept exactly the prints ("L007" is read leniently as label 7 but is not a print) *)
Theorem C20_small_readers_exact :
  (forall x i, parse_dec32 x = Some i -> dec i = x) /\
  (forall id, id_ok id -> strict_label (label_text id) = Some id) /\ (forall x id, strict_label x = Some id -> x = label_text id) /\
  (forall a64 x p, strict_embed_label a64 x = Some p -> x = fmt_embed_label a64 (fst p) (snd p)) /\
  (forall x p, strict_align x = Some p -> x = fmt_align_line (fst p) (snd p)).
Proof.
  exact (conj parse_dec32_sound (conj (proj1 strict_label_exact) (conj (proj2 strict_label_exact)
        (conj (fun a64 => proj1 (proj2 (strict_directives_exact a64))) (proj2 (proj2 (proj2 (strict_directives_exact false)))))))).
Qed.
Print Assumptions C20_small_readers_exact.

(* Builder nodes that are not instructions (Formatter::format_node): a bound label, .align, .section, embedded label and label delta, constant pool and
   sentinel nodes read back from their text as the node (canon_node: the data size of an embedded label is not in the text) *)
Theorem C20_node_body_roundtrip : forall f n, node_ok n -> parse_node_body (node_body f n) = Some (canon_node n).
Proof. exact node_body_roundtrip. Qed.
Print Assumptions C20_node_body_roundtrip.

(* round 7. canon_inst / canon_op are EXACTLY the kernel of printing: two well-formed instructions (operands) print the same text under the same flags IF AND
   ONLY IF their canonical forms are equal ("only if": C20_x86_inst_text_injective; "if": the frame condition C20_print_canon_invariant) *)
Theorem C20_x86_inst_print_kernel : forall f i1 i2, inst_ok i1 -> inst_ok i2 -> (fmt_inst f i1 = fmt_inst f i2 <-> canon_inst i1 = canon_inst i2).
Proof. exact x86_inst_print_kernel. Qed.
Print Assumptions C20_x86_inst_print_kernel.

Theorem C20_x86_operand_print_kernel : forall f o1 o2, op_ok o1 -> op_ok o2 -> (fmt_operand f o1 = fmt_operand f o2 <-> canon_op o1 = canon_op o2).
Proof. exact x86_operand_print_kernel. Qed.
Print Assumptions C20_x86_operand_print_kernel.

Theorem C20_a64_inst_print_kernel : forall f i1 i2, a64_inst_ok i1 -> a64_inst_ok i2 ->
  (a64_fmt_inst true f i1 = a64_fmt_inst true f i2 <-> a64_canon_inst i1 = a64_canon_inst i2).
Proof. exact a64_inst_print_kernel. Qed.
Print Assumptions C20_a64_inst_print_kernel.

(* the canonical form is a fixed point of print-then-read *)
Theorem C20_canon_fixed_point :
  (forall f i, inst_ok i -> parse_inst (fmt_inst f (canon_inst i)) = Some (canon_inst i)) /\
  (forall f i, a64_inst_ok i -> parse_a64_inst (a64_fmt_inst true f (a64_canon_inst i)) = Some (a64_canon_inst i)).
Proof. exact (conj x86_canon_fixed_point a64_canon_fixed_point). Qed.
Print Assumptions C20_canon_fixed_point.

(* sequence level. Completeness of C20_x86_log_injective: emission sequences with equal canonical instructions, bytes, displacement / immediate sizes and
   comments have the SAME log (the log shows nothing else) - no well-formedness needed *)
Theorem C20_x86_log_complete : forall f pad1 pad2 (es1 es2 : list (emitted x86inst)),
  map (fun e => canon_inst (m_inst _ e)) es1 = map (fun e => canon_inst (m_inst _ e)) es2 ->
  map (fun e => (m_bytes _ e, m_rel _ e, m_imm _ e, m_comment _ e)) es1 = map (fun e => (m_bytes _ e, m_rel _ e, m_imm _ e, m_comment _ e)) es2 ->
  log_of pad1 pad2 (map (to_emission _ (fmt_inst f)) es1) = log_of pad1 pad2 (map (to_emission _ (fmt_inst f)) es2).
Proof. exact x86_log_complete. Qed.
Print Assumptions C20_x86_log_complete.

(* equal logs come from equal programs: AArch64 (round 6 had x86), and x86 logs without machine code *)
Theorem C20_a64_log_injective : forall f pad1 pad2 es1 es2, Forall (emitted_ok _ a64_inst_ok) es1 -> Forall (emitted_ok _ a64_inst_ok) es2 ->
  log_of pad1 pad2 (map (to_emission _ (a64_fmt_inst true f)) es1) = log_of pad1 pad2 (map (to_emission _ (a64_fmt_inst true f)) es2) ->
  map (fun e => a64_canon_inst (m_inst _ e)) es1 = map (fun e => a64_canon_inst (m_inst _ e)) es2 /\ map (m_comment _) es1 = map (m_comment _) es2.
Proof. exact a64_log_injective. Qed.
Print Assumptions C20_a64_log_injective.

Theorem C20_x86_plain_log_injective : forall f pad1 pad2 (es1 es2 : list (x86inst * text)),
  Forall (fun e => inst_ok (fst e) /\ Forall nonl (snd e)) es1 -> Forall (fun e => inst_ok (fst e) /\ Forall nonl (snd e)) es2 ->
  plain_log_of pad1 pad2 (map (fun e => {| q_text := fmt_inst f (fst e); q_comment := snd e |}) es1) =
  plain_log_of pad1 pad2 (map (fun e => {| q_text := fmt_inst f (fst e); q_comment := snd e |}) es2) ->
  map (fun e => canon_inst (fst e)) es1 = map (fun e => canon_inst (fst e)) es2 /\ map (fun e => opt_comment (snd e)) es1 = map (fun e => opt_comment (snd e)) es2.
Proof. exact x86_plain_log_kernel. Qed.
Print Assumptions C20_x86_plain_log_injective.

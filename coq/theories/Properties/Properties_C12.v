(* C12 — Instruction read/write information covers what the CPU really does.  Part 1: theorems that do not depend on generated data
   (byte-level mini-semantics vs. the model's masks, masking, vpternlog, link to the generic path, query_features and AVX512_VL).
   Parts 2 and 3 (reflection over the tables and database cases of the working tree): Properties_C12_X86.v, Properties_C12_A64.v.
   Statements only; proofs are in coq/theories/RwInfo/*Proofs.v. *)
From Coq Require Import NArith ZArith List Bool.
From Verif Require Import RwInfo.RwModel RwInfo.FeatModel RwInfo.RwSpec RwInfo.RwProofs RwInfo.RegWrite RwInfo.RegWriteProofs RwInfo.A64RwModel RwInfo.A64RwProofs RwInfo.FeatProofs RwInfo.BridgeC05 RwInfo.FrameProofs RegAlloc.RwRuleModel RegAlloc.RwRuleProofs.
Import ListNotations.
Local Open Scope N_scope.

(* General-purpose registers: for every destination kind (AL-style, AH-style, 16/32/64-bit), both modes, every old register
   content and every value, each of the 8 bytes of the architectural result is the value byte exactly where the reported write mask
   has the bit, zero exactly where the reported extend mask has it, and the OLD byte everywhere else (so nothing reported as
   overwritten keeps old data, and nothing unreported changes). *)
Theorem C12_gp_bytes_exact : forall (mode64 : bool) (d : gp_dest) (old val : list N) (b : nat),
  (b < 8)%nat ->
  let o := reported_gp mode64 d (dest_size d) in
  let off := dest_offset d in
  byte_at (gp_write mode64 d (dest_size d) old val) b =
    if Nat.leb off b && N.testbit (o_w o) (N.of_nat (b - off)) then byte_at val (b - off)
    else if Nat.leb off b && N.testbit (o_e o) (N.of_nat (b - off)) then 0
    else byte_at old b.
Proof. exact gp_bytes_exact_full. Qed.
Print Assumptions C12_gp_bytes_exact.

(* 64-bit mode, a 1..4-byte value zero-extended into a 32-bit destination (pextrw/movmskps/kmovw r32, ...: table write mask
   narrower than the register): the same exactness. *)
Theorem C12_gp_bytes_exact_zero_extended_x64 : forall (vw : nat) (old val : list N) (b : nat),
  (1 <= vw <= 4)%nat -> (b < 8)%nat ->
  let o := reported_gp true D32 vw in
  byte_at (gp_write true D32 vw old val) b =
    if Nat.leb 0 b && N.testbit (o_w o) (N.of_nat (b - 0)) then byte_at val (b - 0)
    else if Nat.leb 0 b && N.testbit (o_e o) (N.of_nat (b - 0)) then 0
    else byte_at old b.
Proof. exact gp_bytes_exact_zx64. Qed.
Print Assumptions C12_gp_bytes_exact_zero_extended_x64.

(* 32-bit mode, a 1..4-byte value zero-extended into a 32-bit destination (pextrw eax, xmm0, 0): the same exactness.  This statement was
   REFUTED on the pinned tree (C12_gp_bytes_x86_partial_refuted, rounds 1-2); it holds with fixes/C12-gp-partial-write-masks.patch. *)
Theorem C12_gp_bytes_exact_zero_extended_x86 : forall (vw : nat) (old val : list N) (b : nat),
  (1 <= vw <= 4)%nat -> (b < 8)%nat ->
  let o := reported_gp false D32 vw in
  byte_at (gp_write false D32 vw old val) b =
    if Nat.leb 0 b && N.testbit (o_w o) (N.of_nat (b - 0)) then byte_at val (b - 0)
    else if Nat.leb 0 b && N.testbit (o_e o) (N.of_nat (b - 0)) then 0
    else byte_at old b.
Proof. exact gp_bytes_exact_zx32. Qed.
Print Assumptions C12_gp_bytes_exact_zero_extended_x86.

(* Vector registers, VEX/EVEX/XOP encodings: an n-byte result (1 <= n <= 64) — reported write mask = the n low bytes, reported
   extend mask = exactly the bytes zeroed up to MAXVL; for both helpers the code uses (rw_zero_extend_non_vec with the vector group
   mask, rw_zero_extend_avx_vec). *)
Theorem C12_vec_bytes_exact_vex : forall (n b : nat) (old val : list N), (1 <= n <= 64)%nat -> (b < 64)%nat ->
  (byte_at (vec_write Vex n old val) b =
     if N.testbit (o_w (reported_vec n)) (N.of_nat b) then byte_at val b
     else if N.testbit (o_e (reported_vec n)) (N.of_nat b) then 0 else byte_at old b) /\
  (byte_at (vec_write Vex n old val) b =
     if N.testbit (o_w (reported_avx_vec n)) (N.of_nat b) then byte_at val b
     else if N.testbit (o_e (reported_avx_vec n)) (N.of_nat b) then 0 else byte_at old b).
Proof. intros n b old val Hn Hb. split; [apply vec_bytes_exact_vex | apply vec_bytes_exact_avx]; assumption. Qed.
Print Assumptions C12_vec_bytes_exact_vex.

(* Legacy SSE encodings keep the bytes above the result: every byte that changes is in the reported write mask (the reported
   extension over-approximates there). *)
Theorem C12_vec_bytes_cover_legacy : forall (n b : nat) (old val : list N), (1 <= n <= 64)%nat -> (b < 64)%nat ->
  byte_at (vec_write Legacy n old val) b <> byte_at old b -> N.testbit (o_w (reported_vec n)) (N.of_nat b) = true.
Proof. exact vec_bytes_cover_legacy. Qed.
Print Assumptions C12_vec_bytes_cover_legacy.

(* AVX-512 write masking: with {z} (or an all-ones mask) the result does not depend on the old destination; with merging it can;
   and the model of rw_handle_avx512 marks destination and {k} as read (read mask covering the write mask) whenever the instruction
   merges, and leaves the destination's flags alone only when it zeroes. *)
Theorem C12_masking_reads_dst :
  (forall k old1 old2 new, length old1 = length old2 -> mask_write k true old1 new = mask_write k true old2 new) /\
  (exists k old1 old2 new, length old1 = length old2 /\ mask_write k false old1 new <> mask_write k false old2 new) /\
  (forall q av out o r, q_extra_mask q = true -> i_ops out = o :: r -> test (q_options q) optZMask = false -> test av kImplicitZ = false ->
     exists o', i_ops (handle_avx512 q av out) = o' :: r /\ test (o_flags o') fR = true /\ o_r o' = N.lor (o_r o) (o_w o) /\
                test (o_flags (i_extra (handle_avx512 q av out))) fR = true) /\
  (forall q av out, test (q_options q) optZMask = true \/ test av kImplicitZ = true -> i_ops (handle_avx512 q av out) = i_ops out).
Proof.
  split; [exact mask_zeroing_indep | split; [exact mask_merging_depends | split; [exact handle_avx512_merge | exact handle_avx512_zeroing_keeps]]].
Qed.
Print Assumptions C12_masking_reads_dst.

(* vpternlogd/q: when both nibbles of the immediate are equal the result bit does not depend on the destination's bit — the
   condition under which the code drops the destination's read flag. *)
Theorem C12_ternlog_dest_unused : forall imm a b c, imm < 256 -> N.shiftr imm 4 = N.land imm 15 ->
  ternlog imm a b c = ternlog imm (negb a) b c.
Proof. exact ternlog_dest_unused. Qed.
Print Assumptions C12_ternlog_dest_unused.

(* Link of the byte-level theorems to the model of query_rw_info (for ALL tables, rows and operand positions): on a written GP register
   operand whose table record has no explicit write mask the generic path reports exactly the masks of C12_gp_bytes_exact
   (reported_gp with value width = register size); on a written xmm/ymm/zmm operand with the ZExt mark exactly those of
   C12_vec_bytes_exact_vex (reported_vec). *)
Theorem C12_generic_path_gp_masks : forall T mode64 row i (d : gp_dest) id,
  let dsc := nthN (t_op T) (nth i (rr_ops row) 0) d_op in
  test (clear (or_flags dsc) fZExt) fW = true -> or_w dsc = 0 ->
  let o := generic_op T (native_gp_size mode64) row i (OReg (gp_regtype d) id) in
  o_w o = o_w (reported_gp mode64 d (dest_size d)) /\ o_e o = o_e (reported_gp mode64 d (dest_size d)).
Proof. exact generic_op_gp_masks. Qed.
Print Assumptions C12_generic_path_gp_masks.

Theorem C12_generic_path_vec_masks : forall T native row i rt id,
  In rt [11; 12; 13] -> group_byte_mask T grp_vec = ones64 ->
  let dsc := nthN (t_op T) (nth i (rr_ops row) 0) d_op in
  test (clear (or_flags dsc) fZExt) fW = true -> or_w dsc = 0 -> test (or_flags dsc) fZExt = true ->
  let o := generic_op T native row i (OReg rt id) in
  o_w o = o_w (reported_vec (N.to_nat (reg_size rt))) /\ o_e o = o_e (reported_vec (N.to_nat (reg_size rt))).
Proof. exact generic_op_vec_masks. Qed.
Print Assumptions C12_generic_path_vec_masks.

(* For every table, instruction and operand tuple: with a 512-bit register or index among the operands the model of query_features
   never reports AVX512_VL. *)
Theorem C12_features_no_vl_with_zmm : forall T C q rep,
  query_features T C q = Some rep ->
  has_rt (fst (reg_analysis (q_arch64 q) (q_ops q))) rt_vec512 = true ->
  take_nonzero (ad_feat (nthN (t_addl T) (ir_addl (nthN (t_inst T) (q_id q) d_inst)) d_addl)) <> [] ->
  ~ In (f_AVX512_VL C) rep.
Proof. exact query_features_no_vl_with_zmm. Qed.
Print Assumptions C12_features_no_vl_with_zmm.

(* Bridge to C05 (register allocation validator).  C05 ASSUMES a reading of the byte masks (RwRuleProofs.hw_byte, registers as integers): byte i
   becomes the result byte if i is in the write mask, 0 if only in the extend mask, else it keeps the old value.  For every low-aligned GP
   destination, both modes, every old content and value, that reading - applied to the masks C12's model reports - IS the architectural result
   of RegWrite.gp_write (registers as byte lists, z_of_bytes = little-endian value). *)
Theorem C12_C05_byte_mask_readings_agree : forall mode64 d old val i,
  d <> D8hi -> bytes_ok old -> bytes_ok val -> (i < 8)%nat ->
  let o := reported_gp mode64 d (dest_size d) in
  hw_byte (o_w o) (o_e o) (z_of_bytes old) (z_of_bytes val) i = Z.of_N (byte_at (gp_write mode64 d (dest_size d) old val) i).
Proof. exact hw_byte_is_gp_write. Qed.
Print Assumptions C12_C05_byte_mask_readings_agree.

(* ... also for a 1..4-byte value zero-extended into a 32-bit destination, 64- and 32-bit mode. *)
Theorem C12_C05_byte_mask_readings_agree_zero_extended : forall mode64 vw old val i,
  (1 <= vw <= 4)%nat -> bytes_ok old -> bytes_ok val -> (i < 8)%nat ->
  let o := reported_gp mode64 D32 vw in
  hw_byte (o_w o) (o_e o) (z_of_bytes old) (z_of_bytes val) i = Z.of_N (byte_at (gp_write mode64 D32 vw old val) i).
Proof. exact hw_byte_is_gp_write_zx. Qed.
Print Assumptions C12_C05_byte_mask_readings_agree_zero_extended.

(* Composition of C05_partial_write_rule with C12_gp_bytes_exact: with the masks C12's model reports, the use/def widths C05's classification
   emits are justified by the ARCHITECTURAL semantics - old contents that agree on the emitted use widths give the same result bytes below
   the emitted def width. *)
Theorem C12_C05_partial_write_rule_architectural : forall mode64 d a64 id r us dw old old' val,
  d <> D8hi -> bytes_ok old -> bytes_ok old' -> bytes_ok val ->
  r_wmask r = o_w (reported_gp mode64 d (dest_size d)) -> r_emask r = o_e (reported_gp mode64 d (dest_size d)) ->
  classify a64 id r = (us, [dw]) ->
  (is_partial r = true -> old_agree us (z_of_bytes old) (z_of_bytes old')) ->
  forall i, (i < dw)%nat -> (i < 8)%nat ->
  byte_at (gp_write mode64 d (dest_size d) old val) i = byte_at (gp_write mode64 d (dest_size d) old' val) i.
Proof. exact classify_sound_architectural. Qed.
Print Assumptions C12_C05_partial_write_rule_architectural.

(* The implicit-shape matching of rw_info_of (round 3) cannot change the answer for explicit forms: for all tables, when the operand count equals
   the entry count of the record selected by operand count, or that record belongs to a special category, the record itself and the identity
   operand map are used. *)
Theorem C12_select_row_explicit : forall T ii nops,
  let sel := if Nat.eqb nops 2 then nthN (t_rwa T) (ir_a ii) d_rw else nthN (t_rwb T) (ir_b ii) d_rw in
  (entry_count sel = nops \/ (1 < rr_cat sel)%N) -> select_row T ii nops = (sel, seq 0 6).
Proof. intros T ii nops sel [H | H]; [exact (select_row_explicit T ii nops H) | exact (select_row_special T ii nops H)]. Qed.
Print Assumptions C12_select_row_explicit.

(* ---------------------------------------------------------------- what must NOT change (all tables, records, operands) *)
(* Immediates, labels and empty operands are never described as read or written. *)
Theorem C12_non_register_operands_silent : forall T native row i src,
  is_reg_or_mem src = false -> generic_op T native row i src = op_zero.
Proof. exact generic_op_non_regmem. Qed.
Print Assumptions C12_non_register_operands_silent.
Example C12_non_register_operands_silent_nonvacuous : is_reg_or_mem (OImm 5) = false /\ is_reg_or_mem OLabel = false.
Proof. split; reflexivity. Qed.

(* Zero extension is only ever reported for WRITTEN operands: an operand whose record has no write flag gets neither an extend mask nor kZExt;
   a memory operand never gets an extend mask. *)
Theorem C12_no_extension_without_write : forall T native row i src,
  let dsc := nthN (t_op T) (nth i (rr_ops row) 0) d_op in
  test (clear (or_flags dsc) fZExt) fW = false ->
  o_e (generic_op T native row i src) = 0 /\ test (o_flags (generic_op T native row i src)) fZExt = false.
Proof. exact generic_op_unwritten_no_extend. Qed.
Print Assumptions C12_no_extension_without_write.

Theorem C12_memory_operands_never_extended : forall T native row i sz b x, o_e (generic_op T native row i (OMem sz b x)) = 0.
Proof. exact generic_op_mem_no_extend. Qed.
Print Assumptions C12_memory_operands_never_extended.

(* rw_zero_extend_gp only touches the extend mask and the kZExt flag. *)
Theorem C12_zext_gp_frame : forall o regsize native,
  let o' := zext_gp o regsize native in
  o_w o' = o_w o /\ o_r o' = o_r o /\ o_phys o' = o_phys o /\ o_rmsize o' = o_rmsize o /\ o_clc o' = o_clc o /\
  (o_flags o' = o_flags o \/ o_flags o' = N.lor (o_flags o) fZExt).
Proof. exact zext_gp_frame. Qed.
Print Assumptions C12_zext_gp_frame.

(* rw_handle_avx512: nothing changes without a {k} mask; with one, only the extra register and the READ side (flags, read mask) of operand 0 -
   instruction flags, rm_feature, CPU flags, the other operands and operand 0's write/extend masks, fixed id, rm size and lead count stay. *)
Theorem C12_handle_avx512_frame : forall q av out,
  (q_extra_mask q = false -> handle_avx512 q av out = out) /\
  (let out' := handle_avx512 q av out in
   i_flags out' = i_flags out /\ i_rmfeat out' = i_rmfeat out /\ i_rf out' = i_rf out /\ i_wf out' = i_wf out /\
   length (i_ops out') = length (i_ops out) /\ tl (i_ops out') = tl (i_ops out) /\
   match i_ops out', i_ops out with
   | o' :: _, o :: _ => o_w o' = o_w o /\ o_e o' = o_e o /\ o_phys o' = o_phys o /\ o_rmsize o' = o_rmsize o /\ o_clc o' = o_clc o
   | [], [] => True
   | _, _ => False
   end).
Proof. intros q av out. split; [apply handle_avx512_no_mask | apply handle_avx512_frame]. Qed.
Print Assumptions C12_handle_avx512_frame.

(* non-vacuity of the hypotheses of the C05 bridge *)
Example C12_C05_bridge_nonvacuous : bytes_ok [1; 2; 3; 4; 5; 6; 7; 255] /\ D32 <> D8hi /\ (3 < 8)%nat.
Proof. split; [repeat constructor | split; [discriminate | repeat constructor]]. Qed.

(* kCategoryMov, register <- register: for every pair of general-purpose register sizes and both modes the destination's masks are exactly
   reported_gp (the masks of C12_gp_bytes_exact), the destination is not read, the source is not written and has no extend mask, kMovOp is set. *)
Theorem C12_mov_gp_gp : forall mode64 (d d' : gp_dest) id1 id2 opt k out,
  let q := {| q_arch64 := mode64; q_id := 0; q_options := opt; q_extra_mask := k;
              q_ops := [OReg (gp_regtype d) id1; OReg (gp_regtype d') id2] |} in
  exists o0 o1, option_map i_ops (cat_mov q out) = Some [o0; o1] /\
    o_w o0 = o_w (reported_gp mode64 d (dest_size d)) /\ o_e o0 = o_e (reported_gp mode64 d (dest_size d)) /\
    test (o_flags o0) fR = false /\ test (o_flags o1) fW = false /\ o_e o1 = 0 /\ o_w o1 = 0 /\
    option_map (fun r => test (i_flags r) kMovOp) (cat_mov q out) = Some true.
Proof. exact cat_mov_gp_gp. Qed.
Print Assumptions C12_mov_gp_gp.

(* AArch64, what must not change: an instruction without the consecutive flag (or with at most two operands) that is not tbl/tbx never reports
   a register run - no lead count, no kConsecutive - for all tables whose access records only use kRead/kWrite. *)
Theorem C12_a64_no_run_without_flag : forall T id ops out,
  a64_query_rw_info T id ops = Some out ->
  let real := N.land id (at_real_id_mask T) in
  let row := nthN (at_inst T) real {| ai_rw := 0; ai_flags := 0 |} in
  (test (ai_flags row) (at_consecutive T) && Nat.ltb 2 (length ops)) = false ->
  existsb (N.eqb real) (at_tbl_ids T) = false ->
  (forall e, In e (nthN (at_rwx T) (ai_rw row) []) -> e <= 3) ->
  Forall no_run (i_ops out).
Proof. exact a64_no_run_reported. Qed.
Print Assumptions C12_a64_no_run_without_flag.

(* query_features commits to ONE encoding family, for every table, instruction and operand tuple: the reported set never names an AVX-class
   extension (AVX, AVX2, FMA, F16C, AVX_VNNI, AVX_IFMA, AVX_NE_CONVERT) together with an AVX-512 one (BF16, BW, DQ, F, IFMA, VNNI). *)
Theorem C12_features_one_encoding_family : forall T C q rep,
  query_features T C q = Some rep -> has_any rep (avx_class C) && has_any rep (avx512_class C) = false.
Proof. exact query_features_one_family. Qed.
Print Assumptions C12_features_one_encoding_family.

(* AArch64 consecutive path, UNBOUNDED (all tables, ids, operand lists; complements the reflection theorem C12_a64_consecutive_runs over the
   database's list forms): for a flagged instruction with more than two operands, a register at position 0 leads a run of (operand count - 1)
   registers and every later register operand is flagged kConsecutive. *)
Theorem C12_a64_flagged_run_reported : forall T id ops out,
  a64_query_rw_info T id ops = Some out ->
  let real := N.land id (at_real_id_mask T) in
  let row := nthN (at_inst T) real {| ai_rw := 0; ai_flags := 0 |} in
  test (ai_flags row) (at_consecutive T) = true -> (2 < length ops)%nat ->
  (forall e, nth 0 ops ANone = AReg e -> o_clc (nth 0 (i_ops out) op_zero) = u8 (N.of_nat (length ops - 1))) /\
  (forall i e, (0 < i < length ops)%nat -> nth i ops ANone = AReg e -> test (o_flags (nth i (i_ops out) op_zero)) fConsecutive = true).
Proof. exact a64_flagged_run_reported. Qed.
Print Assumptions C12_a64_flagged_run_reported.

(* Legacy SSE (not VEX/EVEX/XOP) instructions keep the bits above the destination register: for ALL tables and records the generic path of a
   legacy instruction never reports a zero-extended byte above the size of a vector destination register (with
   fixes/C12-legacy-sse-keeps-upper-bits.patch; the pinned code reported bytes 16..63 - seen on the host CPU as "extension reported but kept"). *)
Theorem C12_legacy_sse_keeps_upper_bits : forall T native row i rt id,
  reg_group rt = grp_vec ->
  N.land (o_e (generic_op_v T false native row i (OReg rt id))) (not64 (lsb_mask (N.min (reg_size rt) 64))) = 0.
Proof. exact legacy_vec_no_extension_beyond_register. Qed.
Print Assumptions C12_legacy_sse_keeps_upper_bits.
Example C12_legacy_sse_keeps_upper_bits_nonvacuous : reg_group 11 = grp_vec /\ not64 (lsb_mask (N.min (reg_size 11) 64)) <> 0.
Proof. split; [reflexivity | discriminate]. Qed.

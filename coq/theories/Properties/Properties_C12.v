(* C12 — Instruction read/write information covers what the CPU really does.  Part 1: theorems that do not depend on generated data
   (byte-level mini-semantics vs. the model's masks, masking, vpternlog, link to the generic path, query_features and AVX512_VL).
   Parts 2 and 3 (reflection over the tables and database cases of the working tree): Properties_C12_X86.v, Properties_C12_A64.v.
   Statements only; proofs are in coq/theories/RwInfo/*Proofs.v. *)
From Coq Require Import NArith ZArith List Bool.
From Verif Require Import RwInfo.RwModel RwInfo.FeatModel RwInfo.RwSpec RwInfo.RwProofs RwInfo.RegWrite RwInfo.RegWriteProofs RwInfo.A64RwModel RwInfo.A64RwProofs RwInfo.FeatProofs RwInfo.BridgeC05 RwInfo.FrameProofs RwInfo.CompleteProofs RwInfo.TopLevelProofs RwInfo.MaskedFormsProofs RegAlloc.RwRuleModel RegAlloc.RwRuleProofs.
Import ListNotations.
Local Open Scope N_scope.

(* General-purpose registers: for every destination kind (AL-style, AH-style, 16/32/64-bit), both modes, every old register
   content and every value, each of the 8 bytes of the architectural result is the value byte exactly where the reported write mask
   has the bit, zero exactly where the reported extend mask has it, and the OLD byte everywhere else (so nothing reported as
   overwritten keeps old data, and nothing unreported changes). *)
Theorem C12_gp_bytes_exact : forall (mode64 : bool) (d : gp_dest) (old val : list N) (b : nat),
  (b < 8)%nat ->
  let o := reported_gp mode64 d (dest_size d) in
  let off := dest_offset d in
  byte_at (gp_write mode64 d (dest_size d) old val) b =
    if Nat.leb off b && N.testbit (o_w o) (N.of_nat (b - off)) then byte_at val (b - off)
    else if Nat.leb off b && N.testbit (o_e o) (N.of_nat (b - off)) then 0
    else byte_at old b.
Proof. exact gp_bytes_exact_full. Qed.
Print Assumptions C12_gp_bytes_exact.

(* 64-bit mode, a 1..4-byte value zero-extended into a 32-bit destination (pextrw/movmskps/kmovw r32, ...: table write mask
   narrower than the register): the same exactness. *)
Theorem C12_gp_bytes_exact_zero_extended_x64 : forall (vw : nat) (old val : list N) (b : nat),
  (1 <= vw <= 4)%nat -> (b < 8)%nat ->
  let o := reported_gp true D32 vw in
  byte_at (gp_write true D32 vw old val) b =
    if Nat.leb 0 b && N.testbit (o_w o) (N.of_nat (b - 0)) then byte_at val (b - 0)
    else if Nat.leb 0 b && N.testbit (o_e o) (N.of_nat (b - 0)) then 0
    else byte_at old b.
Proof. exact gp_bytes_exact_zx64. Qed.
Print Assumptions C12_gp_bytes_exact_zero_extended_x64.

(* 32-bit mode, a 1..4-byte value zero-extended into a 32-bit destination (pextrw eax, xmm0, 0): the same exactness.  This statement was
   REFUTED on the pinned tree (C12_gp_bytes_x86_partial_refuted, rounds 1-2); it holds with fixes/C12-gp-partial-write-masks.patch. *)
Theorem C12_gp_bytes_exact_zero_extended_x86 : forall (vw : nat) (old val : list N) (b : nat),
  (1 <= vw <= 4)%nat -> (b < 8)%nat ->
  let o := reported_gp false D32 vw in
  byte_at (gp_write false D32 vw old val) b =
    if Nat.leb 0 b && N.testbit (o_w o) (N.of_nat (b - 0)) then byte_at val (b - 0)
    else if Nat.leb 0 b && N.testbit (o_e o) (N.of_nat (b - 0)) then 0
    else byte_at old b.
Proof. exact gp_bytes_exact_zx32. Qed.
Print Assumptions C12_gp_bytes_exact_zero_extended_x86.

(* Vector registers, VEX/EVEX/XOP encodings: an n-byte result (1 <= n <= 64) — reported write mask = the n low bytes, reported
   extend mask = exactly the bytes zeroed up to MAXVL; for both helpers the code uses (rw_zero_extend_non_vec with the vector group
   mask, rw_zero_extend_avx_vec). *)
Theorem C12_vec_bytes_exact_vex : forall (n b : nat) (old val : list N), (1 <= n <= 64)%nat -> (b < 64)%nat ->
  (byte_at (vec_write Vex n old val) b =
     if N.testbit (o_w (reported_vec n)) (N.of_nat b) then byte_at val b
     else if N.testbit (o_e (reported_vec n)) (N.of_nat b) then 0 else byte_at old b) /\
  (byte_at (vec_write Vex n old val) b =
     if N.testbit (o_w (reported_avx_vec n)) (N.of_nat b) then byte_at val b
     else if N.testbit (o_e (reported_avx_vec n)) (N.of_nat b) then 0 else byte_at old b).
Proof. intros n b old val Hn Hb. split; [apply vec_bytes_exact_vex | apply vec_bytes_exact_avx]; assumption. Qed.
Print Assumptions C12_vec_bytes_exact_vex.

(* Legacy SSE encodings keep the bytes above the result: every byte that changes is in the reported write mask (the reported
   extension over-approximates there). *)
Theorem C12_vec_bytes_cover_legacy : forall (n b : nat) (old val : list N), (1 <= n <= 64)%nat -> (b < 64)%nat ->
  byte_at (vec_write Legacy n old val) b <> byte_at old b -> N.testbit (o_w (reported_vec n)) (N.of_nat b) = true.
Proof. exact vec_bytes_cover_legacy. Qed.
Print Assumptions C12_vec_bytes_cover_legacy.

(* AVX-512 write masking: with {z} (or an all-ones mask) the result does not depend on the old destination; with merging it can;
   and the model of rw_handle_avx512 marks destination and {k} as read (read mask covering the write mask) whenever the instruction
   merges, and leaves the destination's flags alone only when it zeroes. *)
Theorem C12_masking_reads_dst :
  (forall k old1 old2 new, length old1 = length old2 -> mask_write k true old1 new = mask_write k true old2 new) /\
  (exists k old1 old2 new, length old1 = length old2 /\ mask_write k false old1 new <> mask_write k false old2 new) /\
  (forall q av out o r, q_extra_mask q = true -> i_ops out = o :: r -> test (q_options q) optZMask = false -> test av kImplicitZ = false ->
     exists o', i_ops (handle_avx512 q av out) = o' :: r /\ test (o_flags o') fR = true /\ o_r o' = N.lor (o_r o) (o_w o) /\
                test (o_flags (i_extra (handle_avx512 q av out))) fR = true) /\
  (forall q av out, test (q_options q) optZMask = true \/ test av kImplicitZ = true -> i_ops (handle_avx512 q av out) = i_ops out).
Proof.
  split; [exact mask_zeroing_indep | split; [exact mask_merging_depends | split; [exact handle_avx512_merge | exact handle_avx512_zeroing_keeps]]].
Qed.
Print Assumptions C12_masking_reads_dst.

(* vpternlogd/q: when both nibbles of the immediate are equal the result bit does not depend on the destination's bit — the
   condition under which the code drops the destination's read flag. *)
Theorem C12_ternlog_dest_unused : forall imm a b c, imm < 256 -> N.shiftr imm 4 = N.land imm 15 ->
  ternlog imm a b c = ternlog imm (negb a) b c.
Proof. exact ternlog_dest_unused. Qed.
Print Assumptions C12_ternlog_dest_unused.

(* Link of the byte-level theorems to the model of query_rw_info (for ALL tables, rows and operand positions): on a written GP register
   operand whose table record has no explicit write mask the generic path reports exactly the masks of C12_gp_bytes_exact
   (reported_gp with value width = register size); on a written xmm/ymm/zmm operand with the ZExt mark exactly those of
   C12_vec_bytes_exact_vex (reported_vec). *)
Theorem C12_generic_path_gp_masks : forall T mode64 row i (d : gp_dest) id,
  let dsc := nthN (t_op T) (nth i (rr_ops row) 0) d_op in
  test (clear (or_flags dsc) fZExt) fW = true -> or_w dsc = 0 ->
  let o := generic_op T (native_gp_size mode64) row i (OReg (gp_regtype d) id) in
  o_w o = o_w (reported_gp mode64 d (dest_size d)) /\ o_e o = o_e (reported_gp mode64 d (dest_size d)).
Proof. exact generic_op_gp_masks. Qed.
Print Assumptions C12_generic_path_gp_masks.

Theorem C12_generic_path_vec_masks : forall T native row i rt id,
  In rt [11; 12; 13] -> group_byte_mask T grp_vec = ones64 ->
  let dsc := nthN (t_op T) (nth i (rr_ops row) 0) d_op in
  test (clear (or_flags dsc) fZExt) fW = true -> or_w dsc = 0 -> test (or_flags dsc) fZExt = true ->
  let o := generic_op T native row i (OReg rt id) in
  o_w o = o_w (reported_vec (N.to_nat (reg_size rt))) /\ o_e o = o_e (reported_vec (N.to_nat (reg_size rt))).
Proof. exact generic_op_vec_masks. Qed.
Print Assumptions C12_generic_path_vec_masks.

(* For every table, instruction and operand tuple: with a 512-bit register or index among the operands the model of query_features
   never reports AVX512_VL. *)
Theorem C12_features_no_vl_with_zmm : forall T C q rep,
  query_features T C q = Some rep ->
  has_rt (fst (reg_analysis (q_arch64 q) (q_ops q))) rt_vec512 = true ->
  take_nonzero (ad_feat (nthN (t_addl T) (ir_addl (nthN (t_inst T) (q_id q) d_inst)) d_addl)) <> [] ->
  ~ In (f_AVX512_VL C) rep.
Proof. exact query_features_no_vl_with_zmm. Qed.
Print Assumptions C12_features_no_vl_with_zmm.

(* Bridge to C05 (register allocation validator).  C05 ASSUMES a reading of the byte masks (RwRuleProofs.hw_byte, registers as integers): byte i
   becomes the result byte if i is in the write mask, 0 if only in the extend mask, else it keeps the old value.  For every low-aligned GP
   destination, both modes, every old content and value, that reading - applied to the masks C12's model reports - IS the architectural result
   of RegWrite.gp_write (registers as byte lists, z_of_bytes = little-endian value). *)
Theorem C12_C05_byte_mask_readings_agree : forall mode64 d old val i,
  d <> D8hi -> bytes_ok old -> bytes_ok val -> (i < 8)%nat ->
  let o := reported_gp mode64 d (dest_size d) in
  hw_byte (o_w o) (o_e o) (z_of_bytes old) (z_of_bytes val) i = Z.of_N (byte_at (gp_write mode64 d (dest_size d) old val) i).
Proof. exact hw_byte_is_gp_write. Qed.
Print Assumptions C12_C05_byte_mask_readings_agree.

(* ... also for a 1..4-byte value zero-extended into a 32-bit destination, 64- and 32-bit mode. *)
Theorem C12_C05_byte_mask_readings_agree_zero_extended : forall mode64 vw old val i,
  (1 <= vw <= 4)%nat -> bytes_ok old -> bytes_ok val -> (i < 8)%nat ->
  let o := reported_gp mode64 D32 vw in
  hw_byte (o_w o) (o_e o) (z_of_bytes old) (z_of_bytes val) i = Z.of_N (byte_at (gp_write mode64 D32 vw old val) i).
Proof. exact hw_byte_is_gp_write_zx. Qed.
Print Assumptions C12_C05_byte_mask_readings_agree_zero_extended.

(* Composition of C05_partial_write_rule with C12_gp_bytes_exact: with the masks C12's model reports, the use/def widths C05's classification
   emits are justified by the ARCHITECTURAL semantics - old contents that agree on the emitted use widths give the same result bytes below
   the emitted def width. *)
Theorem C12_C05_partial_write_rule_architectural : forall mode64 d a64 id r us dw old old' val,
  d <> D8hi -> bytes_ok old -> bytes_ok old' -> bytes_ok val ->
  r_wmask r = o_w (reported_gp mode64 d (dest_size d)) -> r_emask r = o_e (reported_gp mode64 d (dest_size d)) ->
  classify a64 id r = (us, [dw]) ->
  (is_partial r = true -> old_agree us (z_of_bytes old) (z_of_bytes old')) ->
  forall i, (i < dw)%nat -> (i < 8)%nat ->
  byte_at (gp_write mode64 d (dest_size d) old val) i = byte_at (gp_write mode64 d (dest_size d) old' val) i.
Proof. exact classify_sound_architectural. Qed.
Print Assumptions C12_C05_partial_write_rule_architectural.

(* The implicit-shape matching of rw_info_of (round 3) cannot change the answer for explicit forms: for all tables, when the operand count equals
   the entry count of the record selected by operand count, or that record belongs to a special category, the record itself and the identity
   operand map are used. *)
Theorem C12_select_row_explicit : forall T ii nops,
  let sel := if Nat.eqb nops 2 then nthN (t_rwa T) (ir_a ii) d_rw else nthN (t_rwb T) (ir_b ii) d_rw in
  (entry_count sel = nops \/ (1 < rr_cat sel)%N) -> select_row T ii nops = (sel, seq 0 6).
Proof. intros T ii nops sel [H | H]; [exact (select_row_explicit T ii nops H) | exact (select_row_special T ii nops H)]. Qed.
Print Assumptions C12_select_row_explicit.

(* ---------------------------------------------------------------- what must NOT change (all tables, records, operands) *)
(* Immediates, labels and empty operands are never described as read or written. *)
Theorem C12_non_register_operands_silent : forall T native row i src,
  is_reg_or_mem src = false -> generic_op T native row i src = op_zero.
Proof. exact generic_op_non_regmem. Qed.
Print Assumptions C12_non_register_operands_silent.
Example C12_non_register_operands_silent_nonvacuous : is_reg_or_mem (OImm 5) = false /\ is_reg_or_mem OLabel = false.
Proof. split; reflexivity. Qed.

(* Zero extension is only ever reported for WRITTEN operands: an operand whose record has no write flag gets neither an extend mask nor kZExt;
   a memory operand never gets an extend mask. *)
Theorem C12_no_extension_without_write : forall T native row i src,
  let dsc := nthN (t_op T) (nth i (rr_ops row) 0) d_op in
  test (clear (or_flags dsc) fZExt) fW = false ->
  o_e (generic_op T native row i src) = 0 /\ test (o_flags (generic_op T native row i src)) fZExt = false.
Proof. exact generic_op_unwritten_no_extend. Qed.
Print Assumptions C12_no_extension_without_write.

Theorem C12_memory_operands_never_extended : forall T native row i sz b x, o_e (generic_op T native row i (OMem sz b x)) = 0.
Proof. exact generic_op_mem_no_extend. Qed.
Print Assumptions C12_memory_operands_never_extended.

(* rw_zero_extend_gp only touches the extend mask and the kZExt flag. *)
Theorem C12_zext_gp_frame : forall o regsize native,
  let o' := zext_gp o regsize native in
  o_w o' = o_w o /\ o_r o' = o_r o /\ o_phys o' = o_phys o /\ o_rmsize o' = o_rmsize o /\ o_clc o' = o_clc o /\
  (o_flags o' = o_flags o \/ o_flags o' = N.lor (o_flags o) fZExt).
Proof. exact zext_gp_frame. Qed.
Print Assumptions C12_zext_gp_frame.

(* rw_handle_avx512: nothing changes without a {k} mask; with one, only the extra register and the READ side (flags, read mask) of operand 0 -
   instruction flags, rm_feature, CPU flags, the other operands and operand 0's write/extend masks, fixed id, rm size and lead count stay. *)
Theorem C12_handle_avx512_frame : forall q av out,
  (q_extra_mask q = false -> handle_avx512 q av out = out) /\
  (let out' := handle_avx512 q av out in
   i_flags out' = i_flags out /\ i_rmfeat out' = i_rmfeat out /\ i_rf out' = i_rf out /\ i_wf out' = i_wf out /\
   length (i_ops out') = length (i_ops out) /\ tl (i_ops out') = tl (i_ops out) /\
   match i_ops out', i_ops out with
   | o' :: _, o :: _ => o_w o' = o_w o /\ o_e o' = o_e o /\ o_phys o' = o_phys o /\ o_rmsize o' = o_rmsize o /\ o_clc o' = o_clc o
   | [], [] => True
   | _, _ => False
   end).
Proof. intros q av out. split; [apply handle_avx512_no_mask | apply handle_avx512_frame]. Qed.
Print Assumptions C12_handle_avx512_frame.

(* non-vacuity of the hypotheses of the C05 bridge *)
Example C12_C05_bridge_nonvacuous : bytes_ok [1; 2; 3; 4; 5; 6; 7; 255] /\ D32 <> D8hi /\ (3 < 8)%nat.
Proof. split; [repeat constructor | split; [discriminate | repeat constructor]]. Qed.

(* kCategoryMov, register <- register: for every pair of general-purpose register sizes and both modes the destination's masks are exactly
   reported_gp (the masks of C12_gp_bytes_exact), the destination is not read, the source is not written and has no extend mask, kMovOp is set. *)
Theorem C12_mov_gp_gp : forall mode64 (d d' : gp_dest) id1 id2 opt k out,
  let q := {| q_arch64 := mode64; q_id := 0; q_options := opt; q_extra_mask := k;
              q_ops := [OReg (gp_regtype d) id1; OReg (gp_regtype d') id2] |} in
  exists o0 o1, option_map i_ops (cat_mov q out) = Some [o0; o1] /\
    o_w o0 = o_w (reported_gp mode64 d (dest_size d)) /\ o_e o0 = o_e (reported_gp mode64 d (dest_size d)) /\
    test (o_flags o0) fR = false /\ test (o_flags o1) fW = false /\ o_e o1 = 0 /\ o_w o1 = 0 /\
    option_map (fun r => test (i_flags r) kMovOp) (cat_mov q out) = Some true.
Proof. exact cat_mov_gp_gp. Qed.
Print Assumptions C12_mov_gp_gp.

(* AArch64, what must not change: an instruction without the consecutive flag (or with at most two operands) that is not tbl/tbx never reports
   a register run - no lead count, no kConsecutive - for all tables whose access records only use kRead/kWrite. *)
Theorem C12_a64_no_run_without_flag : forall T id ops out,
  a64_query_rw_info T id ops = Some out ->
  let real := N.land id (at_real_id_mask T) in
  let row := nthN (at_inst T) real {| ai_rw := 0; ai_flags := 0 |} in
  (test (ai_flags row) (at_consecutive T) && Nat.ltb 2 (length ops)) = false ->
  existsb (N.eqb real) (at_tbl_ids T) = false ->
  (forall e, In e (nthN (at_rwx T) (ai_rw row) []) -> e <= 3) ->
  Forall no_run (i_ops out).
Proof. exact a64_no_run_reported. Qed.
Print Assumptions C12_a64_no_run_without_flag.

(* query_features commits to ONE encoding family, for every table, instruction and operand tuple: the reported set never names an AVX-class
   extension (AVX, AVX2, FMA, F16C, AVX_VNNI, AVX_IFMA, AVX_NE_CONVERT) together with an AVX-512 one (BF16, BW, DQ, F, IFMA, VNNI). *)
Theorem C12_features_one_encoding_family : forall T C q rep,
  query_features T C q = Some rep -> has_any rep (avx_class C) && has_any rep (avx512_class C) = false.
Proof. exact query_features_one_family. Qed.
Print Assumptions C12_features_one_encoding_family.

(* AArch64 consecutive path, UNBOUNDED (all tables, ids, operand lists; complements the reflection theorem C12_a64_consecutive_runs over the
   database's list forms): for a flagged instruction with more than two operands, a register at position 0 leads a run of (operand count - 1)
   registers and every later register operand is flagged kConsecutive. *)
Theorem C12_a64_flagged_run_reported : forall T id ops out,
  a64_query_rw_info T id ops = Some out ->
  let real := N.land id (at_real_id_mask T) in
  let row := nthN (at_inst T) real {| ai_rw := 0; ai_flags := 0 |} in
  test (ai_flags row) (at_consecutive T) = true -> (2 < length ops)%nat ->
  (forall e, nth 0 ops ANone = AReg e -> o_clc (nth 0 (i_ops out) op_zero) = u8 (N.of_nat (length ops - 1))) /\
  (forall i e, (0 < i < length ops)%nat -> nth i ops ANone = AReg e -> test (o_flags (nth i (i_ops out) op_zero)) fConsecutive = true).
Proof. exact a64_flagged_run_reported. Qed.
Print Assumptions C12_a64_flagged_run_reported.

(* Legacy SSE (not VEX/EVEX/XOP) instructions keep the bits above the destination register: for ALL tables and records the generic path of a
   legacy instruction never reports a zero-extended byte above the size of a vector destination register (with
   fixes/C12-legacy-sse-keeps-upper-bits.patch; the pinned code reported bytes 16..63 - seen on the host CPU as "extension reported but kept"). *)
Theorem C12_legacy_sse_keeps_upper_bits : forall T native row i rt id,
  reg_group rt = grp_vec ->
  N.land (o_e (generic_op_v T false native row i (OReg rt id))) (not64 (lsb_mask (N.min (reg_size rt) 64))) = 0.
Proof. exact legacy_vec_no_extension_beyond_register. Qed.
Print Assumptions C12_legacy_sse_keeps_upper_bits.
Example C12_legacy_sse_keeps_upper_bits_nonvacuous : reg_group 11 = grp_vec /\ not64 (lsb_mask (N.min (reg_size 11) 64)) <> 0.
Proof. split; [reflexivity | discriminate]. Qed.


(* ==================================================================== round 6: completeness directions, whole-function frames *)

(* query_features never invents an extension: for every table, instruction and operand tuple, each reported id is one of the non-zero
   entries of the instruction's own feature record (the operand-dependent refinement only removes alternatives). *)
Theorem C12_features_only_from_record : forall T C q rep x,
  query_features T C q = Some rep -> In x rep ->
  In x (ad_feat (nthN (t_addl T) (ir_addl (nthN (t_inst T) (q_id q) d_inst)) d_addl)) /\ x <> 0.
Proof. exact query_features_subset_of_record. Qed.
Print Assumptions C12_features_only_from_record.

(* vpternlog, both directions: the two nibbles of the predicate are equal (the condition under which the model - and the code - drop the
   read of the destination) EXACTLY when no result bit depends on the destination bit.  C12_ternlog_dest_unused was the "if" half. *)
Theorem C12_ternlog_read_dropped_iff_unused : forall imm, imm < 256 ->
  (N.shiftr imm 4 = N.land imm 15 <-> forall a b c, ternlog imm a b c = ternlog imm (negb a) b c).
Proof. exact ternlog_unused_iff. Qed.
Print Assumptions C12_ternlog_read_dropped_iff_unused.
Theorem C12_ternlog_dest_used_otherwise : forall imm, imm < 256 -> N.shiftr imm 4 <> N.land imm 15 ->
  exists b c, ternlog imm false b c <> ternlog imm true b c.
Proof. exact ternlog_dest_used. Qed.
Print Assumptions C12_ternlog_dest_used_otherwise.
Example C12_ternlog_both_directions_nonvacuous :
  (N.shiftr 0xF0 4 = N.land 0xF0 15 -> False) /\ N.shiftr 0x55 4 = N.land 0x55 15 /\ ternlog 0xF0 false true true <> ternlog 0xF0 true true true.
Proof. repeat split; vm_compute; congruence. Qed.

(* implicit call shapes (div ecx, cmpxchg ebx, ecx ...): when the operands are matched against a record with fixed registers, there is
   one entry per operand, every chosen entry lies inside the record and is NOT a fixed one, no entry is used twice and at least one
   fixed entry was skipped. *)
Theorem C12_implicit_map_spec : forall T row nops m,
  implicit_map T row nops = Some m ->
  length m = nops /\ (forall i, In i m -> (i < entry_count row)%nat /\ fixed_entry T row i = false) /\
  (length m < entry_count row)%nat /\ NoDup m.
Proof. exact implicit_map_spec. Qed.
Print Assumptions C12_implicit_map_spec.

(* Whole generic path (all of: movss/movsd and pextrw special cases, rm_feature, reg/mem marking with the single-candidate rule, the
   vpternlog idiom, {k} masking): none of the post-passes changes a write mask, a fixed-register id or a consecutive-lead count, exactly one
   record per operand comes out, and only movss/movsd may touch an extend mask.  [generic_base] is the per-operand function the earlier
   theorems speak about, so they now hold for what query_rw_info RETURNS. *)
Theorem C12_generic_post_passes_frame : forall T q vexlike row omap rm av out0,
  let out := generic T q vexlike row omap rm av out0 in
  length (i_ops out) = length (q_ops q) /\
  map o_w (i_ops out) = map o_w (generic_base T q vexlike row omap) /\
  map o_phys (i_ops out) = map o_phys (generic_base T q vexlike row omap) /\
  map o_clc (i_ops out) = map o_clc (generic_base T q vexlike row omap) /\
  (test (rm_flags rm) rmFlagMovssMovsd = false -> map o_e (i_ops out) = map o_e (generic_base T q vexlike row omap)).
Proof.
  intros. subst out. split; [apply generic_one_record_per_operand|]. split; [apply generic_keeps_write_masks|].
  split; [apply generic_keeps_phys_ids|]. split; [apply generic_keeps_lead_counts | apply generic_keeps_extend_masks].
Qed.
Print Assumptions C12_generic_post_passes_frame.

(* ... in particular the masks RETURNED for a written general-purpose register operand (any position, any other operands, options, {k},
   reg/mem record) are the architectural ones of C12_gp_bytes_exact. *)
Theorem C12_whole_path_gp_masks : forall T q vexlike row omap rm av out0 i (d : gp_dest) id,
  (i < length (q_ops q))%nat -> nth i (q_ops q) ONone = OReg (gp_regtype d) id ->
  let dsc := nthN (t_op T) (nth (nth i omap i) (rr_ops row) 0) d_op in
  test (clear (or_flags dsc) fZExt) fW = true -> or_w dsc = 0 ->
  let o := nth i (i_ops (generic T q vexlike row omap rm av out0)) op_zero in
  o_w o = o_w (reported_gp (q_arch64 q) d (dest_size d)) /\
  (test (rm_flags rm) rmFlagMovssMovsd = false -> o_e o = o_e (reported_gp (q_arch64 q) d (dest_size d))).
Proof.
  intros T q vexlike row omap rm av out0 i d id Hi Hop dsc HW Hw o. subst o. split.
  - apply (generic_whole_path_gp_write_mask T q vexlike row omap rm av out0 i d id Hi Hop HW Hw).
  - intros Hm. apply (generic_whole_path_gp_extend_mask T q vexlike row omap rm av out0 i d id Hi Hop Hm HW Hw).
Qed.
Print Assumptions C12_whole_path_gp_masks.

(* C12_generic_path_vec_masks without its hypothesis on rw_reg_group_byte_mask_table: for EVERY table the write mask of a VEX/EVEX vector
   destination is the architectural one and every byte reported as extended is one the write really zeroes (C12_vec_bytes_exact_vex);
   the reported extension is the architectural one intersected with the table's entry. *)
Theorem C12_generic_path_vec_masks_any_table : forall T native row i rt id,
  In rt [11; 12; 13] ->
  let dsc := nthN (t_op T) (nth i (rr_ops row) 0) d_op in
  test (clear (or_flags dsc) fZExt) fW = true -> or_w dsc = 0 -> test (or_flags dsc) fZExt = true ->
  let o := generic_op T native row i (OReg rt id) in
  o_w o = o_w (reported_vec (N.to_nat (reg_size rt))) /\
  o_e o = N.land (o_e (reported_vec (N.to_nat (reg_size rt)))) (group_byte_mask T grp_vec) /\
  (forall b, N.testbit (o_e o) b = true -> N.testbit (o_e (reported_vec (N.to_nat (reg_size rt)))) b = true).
Proof.
  intros T native row i rt id Hrt dsc HW Hw HZ o. subst o.
  destruct (generic_op_vec_masks_any_table T native row i rt id Hrt HW Hw HZ) as [A B].
  split; [exact A|]. split; [exact B|]. intros b. apply (generic_op_vec_extension_sound T native row i rt id b Hrt HW Hw HZ).
Qed.
Print Assumptions C12_generic_path_vec_masks_any_table.


(* ---------------------------------------------------------------- top level: statements about what query_rw_info RETURNS *)

(* Whenever query_rw_info succeeds - generic path or any special category, any table, any operand tuple - it returns exactly one operand
   record per operand given.  Same for AArch64. *)
Theorem C12_one_record_per_operand : forall T q out, query_rw_info T q = Some out -> length (i_ops out) = length (q_ops q).
Proof. exact query_rw_info_one_record_per_operand. Qed.
Print Assumptions C12_one_record_per_operand.
Theorem C12_a64_one_record_per_operand : forall T id ops out, a64_query_rw_info T id ops = Some out -> length (i_ops out) = length ops.
Proof. exact a64_one_record_per_operand. Qed.
Print Assumptions C12_a64_one_record_per_operand.

(* What query_rw_info returns for a memory operand never carries an extend mask: every table, every tuple, generic path and every special
   category except kCategoryImul (its code zero-extends its leading operands without looking at their kind; only registers are valid there). *)
Theorem C12_memory_never_extended_top_level : forall T q out i sz b x,
  query_rw_info T q = Some out -> selected_category T q <> 4 -> nth i (q_ops q) ONone = OMem sz b x ->
  o_e (nth i (i_ops out) op_zero) = 0.
Proof. exact query_rw_info_memory_never_extended. Qed.
Print Assumptions C12_memory_never_extended_top_level.

(* Through all post-passes an extend mask is kept or cleared, never grown; every flag other than kRead / kRegMem of every operand is the
   per-operand function's; hence an operand is RETURNED as written exactly when its table entry says so. *)
Theorem C12_post_passes_extend_and_flags : forall T q vexlike row omap rm av out0 i, (i < length (q_ops q))%nat ->
  let o := nth i (i_ops (generic T q vexlike row omap rm av out0)) op_zero in
  let o0 := generic_op_v T vexlike (native_gp_size (q_arch64 q)) row (nth i omap i) (nth i (q_ops q) ONone) in
  (o_e o = o_e o0 \/ o_e o = 0) /\ test (o_flags o) fW = test (o_flags o0) fW /\
  map other_flags (i_ops (generic T q vexlike row omap rm av out0)) = map other_flags (generic_base T q vexlike row omap).
Proof.
  intros T q vexlike row omap rm av out0 i Hi o o0. subst o o0. split; [|split].
  - apply (generic_extend_mask_kept_or_cleared T q vexlike row omap rm av out0 i Hi).
  - apply generic_write_flag_of_operand. exact Hi.
  - apply generic_keeps_other_flags.
Qed.
Print Assumptions C12_post_passes_extend_and_flags.

(* Whole path, vector registers.  Legacy SSE (movss/movsd included): nothing beyond the register is returned as extended.  VEX/EVEX/XOP:
   every byte returned as extended is one the write really zeroes - for every table. *)
Theorem C12_whole_path_legacy_sse : forall T q row omap rm av out0 i rt id,
  (i < length (q_ops q))%nat -> nth i (q_ops q) ONone = OReg rt id -> reg_group rt = grp_vec ->
  N.land (o_e (nth i (i_ops (generic T q false row omap rm av out0)) op_zero)) (not64 (lsb_mask (N.min (reg_size rt) 64))) = 0.
Proof. exact generic_whole_path_legacy_vec. Qed.
Print Assumptions C12_whole_path_legacy_sse.
Theorem C12_whole_path_vex_extension_sound : forall T q row omap rm av out0 i rt id b,
  (i < length (q_ops q))%nat -> nth i (q_ops q) ONone = OReg rt id -> In rt [11; 12; 13] ->
  let dsc := nthN (t_op T) (nth (nth i omap i) (rr_ops row) 0) d_op in
  test (clear (or_flags dsc) fZExt) fW = true -> or_w dsc = 0 -> test (or_flags dsc) fZExt = true ->
  N.testbit (o_e (nth i (i_ops (generic T q true row omap rm av out0)) op_zero)) b = true ->
  N.testbit (o_e (reported_vec (N.to_nat (reg_size rt)))) b = true.
Proof. exact generic_whole_path_vex_vec_sound. Qed.
Print Assumptions C12_whole_path_vex_extension_sound.

(* query_rw_info itself (not a piece of it): when the selected record is a generic one the result IS the generic path's, and the masks
   returned for a written general-purpose register operand are the architectural ones of C12_gp_bytes_exact. *)
Theorem C12_query_rw_info_gp_masks : forall T q out i (d : gp_dest) id,
  query_rw_info T q = Some out -> selected_category T q <= 1 ->
  (i < length (q_ops q))%nat -> nth i (q_ops q) ONone = OReg (gp_regtype d) id ->
  let ro := select_row T (nthN (t_inst T) (q_id q) d_inst) (length (q_ops q)) in
  let dsc := nthN (t_op T) (nth (nth i (snd ro) i) (rr_ops (fst ro)) 0) d_op in
  test (clear (or_flags dsc) fZExt) fW = true -> or_w dsc = 0 ->
  o_w (nth i (i_ops out) op_zero) = o_w (reported_gp (q_arch64 q) d (dest_size d)) /\
  (test (rm_flags (nthN (t_rm T) (rr_rm (fst ro)) d_rm)) rmFlagMovssMovsd = false ->
   o_e (nth i (i_ops out) op_zero) = o_e (reported_gp (q_arch64 q) d (dest_size d))).
Proof. exact query_rw_info_gp_masks. Qed.
Print Assumptions C12_query_rw_info_gp_masks.


(* ---------------------------------------------------------------- AArch64 by-element operands (v1.s[2]): masks = the element's bytes *)
(* arithmetic meaning of the mask a64 query_rw_info computes, for element sizes 1/2/4/8 bytes, every index and every byte below 64 *)
Theorem C12_a64_element_mask_is_the_element : forall es idx b, In es [1; 2; 4; 8] -> idx < 64 -> b < 64 ->
  N.testbit (a64_elem_access es idx) b = (idx * es <=? b) && (b <? idx * es + es).
Proof. exact a64_elem_access_spec. Qed.
Print Assumptions C12_a64_element_mask_is_the_element.

(* and the model (every table, every tuple, non-list instructions): a by-element register operand whose table entry says "written" is
   returned with a write mask that holds byte b exactly when b lies in element idx; nothing else of the register is reported written *)
Theorem C12_a64_by_element_write_mask : forall T id ops out i et idx b,
  a64_query_rw_info T id ops = Some out -> (i < length ops)%nat -> nth i ops ANone = AReg (Some (et, idx)) ->
  let row := nthN (at_inst T) (N.land id (at_real_id_mask T)) {| ai_rw := 0; ai_flags := 0 |} in
  (test (ai_flags row) (at_consecutive T) && Nat.ltb 2 (length ops)) = false ->
  test (clear (nth i (nthN (at_rwx T) (ai_rw row) []) 0) fZExt) fW = true ->
  let es := nthN (at_elem_size T) et 0 in
  In es [1; 2; 4; 8] -> idx < 64 -> b < 64 ->
  N.testbit (o_w (nth i (i_ops out) op_zero)) b = (idx * es <=? b) && (b <? idx * es + es).
Proof.
  intros T id ops out i et idx b H Hi Hop row Hc HW es He Hx Hb.
  destruct (a64_by_element_masks T id ops out i et idx H Hi Hop Hc) as [_ W]. rewrite W. clear W.
  unfold a64_base_op. cbv zeta. cbn [o_w]. fold row. rewrite HW. fold es.
  rewrite N.land_spec. rewrite (a64_elem_access_spec es idx b He Hx Hb).
  replace (N.testbit ones64 b) with true; [reflexivity|].
  symmetry. change ones64 with (N.ones 64). apply N.ones_spec_low. exact Hb.
Qed.
Print Assumptions C12_a64_by_element_write_mask.


(* Source operands: every operand after the first is RETURNED by the generic path exactly as its table entry made it - flags, read and write
   masks, extend mask, fixed-register id, lead count - except that the reg/mem pass may add kRegMem with the memory size; with {er} (embedded
   rounding) even that is excluded.  In particular the read mask of a source is the table's. *)
Theorem C12_source_operands_returned_as_tabled : forall T q vexlike row omap rm av out0 i, (1 <= i < length (q_ops q))%nat ->
  let o := nth i (i_ops (generic T q vexlike row omap rm av out0)) op_zero in
  let o0 := generic_op_v T vexlike (native_gp_size (q_arch64 q)) row (nth i omap i) (nth i (q_ops q) ONone) in
  (o = o0 \/ (test (q_options q) optER = false /\ (o = add_flags o0 fRegM \/ exists s, o = set_rmsize (add_flags o0 fRegM) s))) /\
  o_r o = o_r o0 /\ o_w o = o_w o0 /\ o_e o = o_e o0.
Proof.
  intros T q vexlike row omap rm av out0 i Hi o o0.
  pose proof (generic_source_operands T q vexlike row omap rm av out0 i Hi) as H. cbv zeta in H. fold o o0 in H.
  split; [exact H|].
  destruct H as [-> | [_ [-> | [s ->]]]]; repeat split; reflexivity.
Qed.
Print Assumptions C12_source_operands_returned_as_tabled.


(* The reg/mem pass, all of it (candidate mask from the RWInfoRm record, the single-candidate rule of moves between register files and of
   three-operand forms, {er}): a source operand is RETURNED different from its table entry (i.e. marked kRegMem) only if it is a REGISTER
   operand and the instruction has no embedded rounding - for every table and every operand tuple.  (The database-wide C12_rm_replaceable
   says the claim is then true; this says it is never made on anything else.) *)
Theorem C12_regmem_only_on_registers : forall T q vexlike row omap rm av out0 i, (1 <= i < length (q_ops q))%nat ->
  let o := nth i (i_ops (generic T q vexlike row omap rm av out0)) op_zero in
  let o0 := generic_op_v T vexlike (native_gp_size (q_arch64 q)) row (nth i omap i) (nth i (q_ops q) ONone) in
  o <> o0 -> is_reg (nth i (q_ops q) ONone) = true /\ test (q_options q) optER = false.
Proof. exact generic_regmem_only_on_registers. Qed.
Print Assumptions C12_regmem_only_on_registers.


(* {k} merge-masking, whole generic path: under a {k} mask without {z}, on an instruction that is not implicitly zeroing, operand 0 is RETURNED
   as read with a read mask covering its write mask, and {k} itself as read (C12_masking_reads_dst: merging really depends on the old value). *)
Theorem C12_merge_masking_whole_path : forall T q vexlike row omap rm av out0,
  q_extra_mask q = true -> test (q_options q) optZMask = false -> test av kImplicitZ = false -> (0 < length (q_ops q))%nat ->
  let out := generic T q vexlike row omap rm av out0 in
  let o := nth 0 (i_ops out) op_zero in
  test (o_flags o) fR = true /\ N.land (o_w o) (o_r o) = o_w o /\ test (o_flags (i_extra out)) fR = true.
Proof. exact generic_merge_masking_reads_destination. Qed.
Print Assumptions C12_merge_masking_whole_path.

(* Completeness of reads: the generic path never drops a read its table entry announces, except on operand 0 of vpternlogd/q with an immediate
   whose two nibbles are equal - and then (C12_ternlog_read_dropped_iff_unused) no result bit depends on the destination.  (Operands after
   the first: C12_source_operands_returned_as_tabled.) *)
Theorem C12_read_dropped_only_when_unused : forall T q vexlike row omap rm av out0, (0 < length (q_ops q))%nat ->
  test (o_flags (generic_op_v T vexlike (native_gp_size (q_arch64 q)) row (nth 0 omap 0%nat) (nth 0 (q_ops q) ONone))) fR = true ->
  test (o_flags (nth 0 (i_ops (generic T q vexlike row omap rm av out0)) op_zero)) fR = false ->
  rr_cat row = 1 /\ existsb (N.eqb (q_id q)) (t_ternlog T) = true /\ length (q_ops q) = 4%nat /\
  exists v, opn (q_ops q) 3 = OImm v /\
            forall a b c, ternlog (Z.to_N (Z.land v 255)) a b c = ternlog (Z.to_N (Z.land v 255)) (negb a) b c.
Proof.
  intros T q vexlike row omap rm av out0 Hl HB HF.
  destruct (generic_read_dropped_only_by_ternlog T q vexlike row omap rm av out0 Hl HB HF) as [C1 [C2 [C3 [v [C4 C5]]]]].
  split; [exact C1|]. split; [exact C2|]. split; [exact C3|]. exists v. split; [exact C4|].
  apply ternlog_unused_iff; [apply land255_lt | exact C5].
Qed.
Print Assumptions C12_read_dropped_only_when_unused.


(* ... and operand 0 (whose kRead may be touched by masking / the vpternlog idiom, so the statement is about the flag): it is returned with
   kRegMem although its table entry has none only if it is a register operand and there is no {er}.  Together with
   C12_regmem_only_on_registers: the generic path never makes a reg/mem claim on a memory operand, an immediate, or under embedded rounding. *)
Theorem C12_regmem_operand0_only_on_register : forall T q vexlike row omap rm av out0, (0 < length (q_ops q))%nat ->
  test (o_flags (generic_op_v T vexlike (native_gp_size (q_arch64 q)) row (nth 0 omap 0%nat) (nth 0 (q_ops q) ONone))) fRegM = false ->
  test (o_flags (nth 0 (i_ops (generic T q vexlike row omap rm av out0)) op_zero)) fRegM = true ->
  is_reg (nth 0 (q_ops q) ONone) = true /\ test (q_options q) optER = false.
Proof. exact generic_regmem_operand0. Qed.
Print Assumptions C12_regmem_operand0_only_on_register.

(* ==================================================================== round 6, second part *)

(* query_rw_info itself, legacy SSE: for an instruction that is not VEX/EVEX/XOP encoded and whose selected record is generic, the result
   never extends a vector register operand beyond the register (movss/movsd included). *)
Theorem C12_query_rw_info_legacy_sse : forall T q out i rt id,
  query_rw_info T q = Some out -> selected_category T q <= 1 ->
  test (ir_cflags (nthN (t_inst T) (q_id q) d_inst)) (t_vex_flags T) = false ->
  (i < length (q_ops q))%nat -> nth i (q_ops q) ONone = OReg rt id -> reg_group rt = grp_vec ->
  N.land (o_e (nth i (i_ops out) op_zero)) (not64 (lsb_mask (N.min (reg_size rt) 64))) = 0.
Proof. exact query_rw_info_legacy_vec. Qed.
Print Assumptions C12_query_rw_info_legacy_sse.

(* query_rw_info itself, reg/mem claims at every operand position: kRegMem that the table entry does not already carry is returned only for
   a register operand and never with {er}. *)
Theorem C12_query_rw_info_regmem_only_on_registers : forall T q out i,
  query_rw_info T q = Some out -> selected_category T q <= 1 -> (i < length (q_ops q))%nat ->
  let ro := select_row T (nthN (t_inst T) (q_id q) d_inst) (length (q_ops q)) in
  let o0 := generic_op_v T (test (ir_cflags (nthN (t_inst T) (q_id q) d_inst)) (t_vex_flags T)) (native_gp_size (q_arch64 q))
                         (fst ro) (nth i (snd ro) i) (nth i (q_ops q) ONone) in
  test (o_flags o0) fRegM = false -> test (o_flags (nth i (i_ops out) op_zero)) fRegM = true ->
  is_reg (nth i (q_ops q) ONone) = true /\ test (q_options q) optER = false.
Proof. exact query_rw_info_regmem_only_on_registers. Qed.
Print Assumptions C12_query_rw_info_regmem_only_on_registers.

(* query_features answers every valid instruction id. *)
Theorem C12_features_total : forall T C q, q_id q < N.of_nat (length (t_inst T)) -> exists rep, query_features T C q = Some rep.
Proof. exact query_features_total. Qed.
Print Assumptions C12_features_total.

(* kCategoryMov beyond register moves: a load (not the moffs64 form) and an immediate move return the architectural masks of
   C12_gp_bytes_exact for the destination, the destination is not read, the memory operand is read in the register's size. *)
Theorem C12_mov_load_and_immediate : forall mode64 (d : gp_dest) id opt k out,
  (forall sz b x, b <> 0 ->
     exists o0 o1, option_map i_ops (cat_mov {| q_arch64 := mode64; q_id := 0; q_options := opt; q_extra_mask := k;
                                                q_ops := [OReg (gp_regtype d) id; OMem sz b x] |} out) = Some [o0; o1] /\
       o_w o0 = o_w (reported_gp mode64 d (dest_size d)) /\ o_e o0 = o_e (reported_gp mode64 d (dest_size d)) /\
       o_r o0 = 0 /\ o_w o1 = 0 /\ o_e o1 = 0 /\ o_r o1 = lsb_mask (reg_size (gp_regtype d))) /\
  (forall v,
     exists o0, option_map i_ops (cat_mov {| q_arch64 := mode64; q_id := 0; q_options := opt; q_extra_mask := k;
                                             q_ops := [OReg (gp_regtype d) id; OImm v] |} out) = Some [o0; op_zero] /\
       o_w o0 = o_w (reported_gp mode64 d (dest_size d)) /\ o_e o0 = o_e (reported_gp mode64 d (dest_size d)) /\ o_r o0 = 0).
Proof.
  intros mode64 d id opt k out. split.
  - intros sz b x Hb. apply (cat_mov_load_masks mode64 d id sz b x opt k out Hb).
  - intros v. apply (cat_mov_imm_masks mode64 d id v opt k out).
Qed.
Print Assumptions C12_mov_load_and_immediate.

(* kCategoryMovh64 (movhps / movhpd): the load writes exactly bytes 8..15 of the register, extends nothing and does not read it; the store
   reads exactly bytes 8..15. *)
Theorem C12_movh64_touches_the_high_half : forall rt id sz b x mode64 opt k out, reg_group rt = grp_vec ->
  (exists o0 o1, option_map i_ops (cat_movh64 {| q_arch64 := mode64; q_id := 0; q_options := opt; q_extra_mask := k;
                                                  q_ops := [OReg rt id; OMem sz b x] |} out) = Some [o0; o1] /\
     o_w o0 = 65280 /\ o_e o0 = 0 /\ o_r o0 = 0 /\ o_r o1 = 255 /\ o_w o1 = 0) /\
  (exists o0 o1, option_map i_ops (cat_movh64 {| q_arch64 := mode64; q_id := 0; q_options := opt; q_extra_mask := k;
                                                  q_ops := [OMem sz b x; OReg rt id] |} out) = Some [o0; o1] /\
     o_w o0 = 255 /\ o_r o1 = 65280 /\ o_w o1 = 0 /\ o_e o1 = 0).
Proof. exact cat_movh64_masks. Qed.
Print Assumptions C12_movh64_touches_the_high_half.

(* PUNPCKL{BW,WD,DQ,QDQ} (kCategoryPunpcklxx): mini-semantics [punpckl] (interleave the low halves).  The result depends on the low half of
   each operand ONLY, and on EVERY byte of those halves; the model reports exactly lsb_mask (n/2) as read mask of both operands and the
   whole register as written. *)
Theorem C12_punpckl_reads_exactly_the_low_halves : forall es n, In (es, n) punpckl_shapes ->
  (forall a a' b b', (forall k, (k < n / 2)%nat -> byte_at a k = byte_at a' k) -> (forall k, (k < n / 2)%nat -> byte_at b k = byte_at b' k) ->
     punpckl es n a b = punpckl es n a' b') /\
  (forall a b k, (k < n / 2)%nat ->
     (exists j, (j < n)%nat /\ byte_at (punpckl es n a b) j = byte_at a k) /\ (exists j, (j < n)%nat /\ byte_at (punpckl es n a b) j = byte_at b k)).
Proof.
  intros es n Hs. split.
  - intros a a' b b'. apply punpckl_reads_low_halves_only. exact Hs.
  - intros a b k Hk. apply punpckl_reads_every_low_byte; assumption.
Qed.
Print Assumptions C12_punpckl_reads_exactly_the_low_halves.
Theorem C12_punpckl_reported_masks : forall id1 id2 mode64 opt k out,
  (exists o0 o1, option_map i_ops (cat_punpcklxx {| q_arch64 := mode64; q_id := 0; q_options := opt; q_extra_mask := k;
                                                     q_ops := [OReg rt_vec128 id1; OReg rt_vec128 id2] |} out) = Some [o0; o1] /\
     o_r o0 = lsb_mask 8 /\ o_w o0 = lsb_mask 16 /\ o_r o1 = lsb_mask 8 /\ o_w o1 = 0 /\ o_e o0 = 0) /\
  (exists o0 o1, option_map i_ops (cat_punpcklxx {| q_arch64 := mode64; q_id := 0; q_options := opt; q_extra_mask := k;
                                                     q_ops := [OReg rt_mm id1; OReg rt_mm id2] |} out) = Some [o0; o1] /\
     o_r o0 = lsb_mask 4 /\ o_w o0 = lsb_mask 8 /\ o_r o1 = lsb_mask 4 /\ o_w o1 = 0 /\ o_e o0 = 0).
Proof. exact cat_punpcklxx_masks. Qed.
Print Assumptions C12_punpckl_reported_masks.
Example C12_punpckl_nonvacuous :
  punpckl 1 8 [1; 2; 3; 4; 5; 6; 7; 8] [11; 12; 13; 14; 15; 16; 17; 18] = [1; 11; 2; 12; 3; 13; 4; 14] /\
  punpckl 4 16 (map N.of_nat (seq 0 16)) (map N.of_nat (seq 100 16)) = [0; 1; 2; 3; 100; 101; 102; 103; 4; 5; 6; 7; 104; 105; 106; 107].
Proof. split; vm_compute; reflexivity. Qed.

(* kCategoryVmov1_2 / 1_4 / 1_8, register forms without {k}: destination masks = those of an n-byte VEX/EVEX result write (C12_vec_bytes_exact),
   n = source size >> shift; the source is read in full. *)
Theorem C12_narrowing_moves_masks : forall ta tb ida idb shift rm av mode64 opt out,
  In ta [11; 12; 13] -> In tb [11; 12; 13] -> In shift [1; 2; 3] ->
  let q := {| q_arch64 := mode64; q_id := 0; q_options := opt; q_extra_mask := false; q_ops := [OReg ta ida; OReg tb idb] |} in
  exists o0 o1, option_map i_ops (cat_vmov_narrow q shift rm av out) = Some [o0; o1] /\
    o_w o0 = o_w (reported_avx_vec (N.to_nat (N.shiftr (reg_size tb) shift))) /\
    o_e o0 = o_e (reported_avx_vec (N.to_nat (N.shiftr (reg_size tb) shift))) /\
    o_r o0 = 0 /\ o_r o1 = lsb_mask (reg_size tb) /\ o_w o1 = 0 /\ o_e o1 = 0.
Proof. exact cat_vmov_narrow_masks. Qed.
Print Assumptions C12_narrowing_moves_masks.

(* AArch64, non-list path: a register operand (plain or by-element) is RETURNED as read / written exactly when its table entry says so. *)
Theorem C12_a64_register_access_is_the_tables : forall T id ops out i el,
  a64_query_rw_info T id ops = Some out -> (i < length ops)%nat -> nth i ops ANone = AReg el ->
  let row := nthN (at_inst T) (N.land id (at_real_id_mask T)) {| ai_rw := 0; ai_flags := 0 |} in
  (test (ai_flags row) (at_consecutive T) && Nat.ltb 2 (length ops)) = false ->
  let e := clear (nth i (nthN (at_rwx T) (ai_rw row) []) 0) fZExt in
  test (o_flags (nth i (i_ops out) op_zero)) fR = test e fR /\ test (o_flags (nth i (i_ops out) op_zero)) fW = test e fW.
Proof. exact a64_register_access_flags_from_table. Qed.
Print Assumptions C12_a64_register_access_is_the_tables.

(* AArch64: immediates and absent operands are returned as the all-zero record (non-list, non-tbl instructions). *)
Theorem C12_a64_non_register_operands_silent : forall T id ops out i,
  a64_query_rw_info T id ops = Some out -> (i < length ops)%nat -> a_is_reg_or_mem (nth i ops ANone) = false ->
  let row := nthN (at_inst T) (N.land id (at_real_id_mask T)) {| ai_rw := 0; ai_flags := 0 |} in
  (test (ai_flags row) (at_consecutive T) && Nat.ltb 2 (length ops)) = false ->
  existsb (N.eqb (N.land id (at_real_id_mask T))) (at_tbl_ids T) = false ->
  nth i (i_ops out) op_zero = op_zero.
Proof. exact a64_non_regmem_silent. Qed.
Print Assumptions C12_a64_non_register_operands_silent.


(* kCategoryVmovmskps/pd, 32-bit destination: masks of a 1-byte result zero-extended into r32 (C12_gp_bytes_exact_zero_extended_x64/_x86). *)
Theorem C12_vmovmsk_masks : forall mode64 id1 tb id2 opt k out, In tb [11; 12] ->
  let q := {| q_arch64 := mode64; q_id := 0; q_options := opt; q_extra_mask := k; q_ops := [OReg (gp_regtype D32) id1; OReg tb id2] |} in
  exists o0 o1, option_map i_ops (cat_vmovmsk q out) = Some [o0; o1] /\
    o_w o0 = o_w (reported_gp mode64 D32 1) /\ o_e o0 = o_e (reported_gp mode64 D32 1) /\ o_r o0 = 0 /\
    o_r o1 = lsb_mask (reg_size tb) /\ o_w o1 = 0.
Proof. exact cat_vmovmsk_masks. Qed.
Print Assumptions C12_vmovmsk_masks.

(* kCategoryVmov2_1 / 4_1 / 8_1, register forms without {k}: destination written in full with the VEX/EVEX extension, source read in its low
   (destination size >> shift) bytes only. *)
Theorem C12_widening_moves_masks : forall ta tb ida idb shift rm av mode64 opt out,
  In ta [11; 12; 13] -> In tb [11; 12; 13] -> In shift [1; 2; 3] ->
  let q := {| q_arch64 := mode64; q_id := 0; q_options := opt; q_extra_mask := false; q_ops := [OReg ta ida; OReg tb idb] |} in
  exists o0 o1, option_map i_ops (cat_vmov_widen q shift rm av out) = Some [o0; o1] /\
    o_w o0 = o_w (reported_avx_vec (N.to_nat (reg_size ta))) /\ o_e o0 = o_e (reported_avx_vec (N.to_nat (reg_size ta))) /\
    o_r o0 = 0 /\ o_r o1 = lsb_mask (N.shiftr (reg_size ta) shift) /\ o_w o1 = 0 /\ o_e o1 = 0.
Proof. exact cat_vmov_widen_masks. Qed.
Print Assumptions C12_widening_moves_masks.

(* (V)MOVDDUP, mini-semantics [movddup] (every even quadword duplicated): for the 256/512-bit forms the result depends on the source bytes
   selected by 0x00FF00FF00FF00FF ONLY and on EVERY one of them; the model reports exactly those bytes (inside the register) as read. *)
Theorem C12_movddup_reads_exactly_the_even_quadwords : forall n, In n [32; 64]%nat ->
  (forall s s', (forall k, (k < n)%nat -> N.testbit ddup_pattern (N.of_nat k) = true -> byte_at s k = byte_at s' k) -> movddup n s = movddup n s') /\
  (forall s k, (k < n)%nat -> N.testbit ddup_pattern (N.of_nat k) = true -> exists j, (j < n)%nat /\ byte_at (movddup n s) j = byte_at s k).
Proof.
  intros n Hn. split.
  - intros s s'. apply movddup_reads_pattern_only. exact Hn.
  - intros s k. apply movddup_reads_every_pattern_byte. exact Hn.
Qed.
Print Assumptions C12_movddup_reads_exactly_the_even_quadwords.
Theorem C12_vmovddup_reported_masks : forall tb ida idb av mode64 opt out, In tb [11; 12; 13] ->
  let q := {| q_arch64 := mode64; q_id := 0; q_options := opt; q_extra_mask := false; q_ops := [OReg tb ida; OReg tb idb] |} in
  exists o0 o1, option_map i_ops (cat_vmovddup q av out) = Some [o0; o1] /\
    o_w o0 = o_w (reported_avx_vec (N.to_nat (reg_size tb))) /\ o_e o0 = o_e (reported_avx_vec (N.to_nat (reg_size tb))) /\ o_r o0 = 0 /\
    o_r o1 = (if reg_size tb =? 16 then lsb_mask 8 else N.land (lsb_mask (reg_size tb)) ddup_pattern) /\ o_w o1 = 0.
Proof. exact cat_vmovddup_masks. Qed.
Print Assumptions C12_vmovddup_reported_masks.
Example C12_movddup_nonvacuous :
  movddup 32 (map N.of_nat (seq 0 32)) = [0; 1; 2; 3; 4; 5; 6; 7; 0; 1; 2; 3; 4; 5; 6; 7; 16; 17; 18; 19; 20; 21; 22; 23; 16; 17; 18; 19; 20; 21; 22; 23] /\
  N.testbit ddup_pattern 0 = true /\ N.testbit ddup_pattern 8 = false /\ N.testbit ddup_pattern 16 = true.
Proof. repeat split; vm_compute; reflexivity. Qed.


(* kCategoryMovabs: the accumulator (fixed register id 0, kRegPhysId) gets the architectural masks; the store form reads it. *)
Theorem C12_movabs_masks : forall mode64 (d : gp_dest) id sz b x opt k out, d <> D8hi ->
  (exists o0 o1, option_map i_ops (cat_movabs {| q_arch64 := mode64; q_id := 0; q_options := opt; q_extra_mask := k;
                                                  q_ops := [OReg (gp_regtype d) id; OMem sz b x] |} out) = Some [o0; o1] /\
     o_w o0 = o_w (reported_gp mode64 d (dest_size d)) /\ o_e o0 = o_e (reported_gp mode64 d (dest_size d)) /\
     test (o_flags o0) fRegPhys = true /\ o_phys o0 = gpAx /\ o_r o0 = 0 /\ o_r o1 = lsb_mask (reg_size (gp_regtype d)) /\ o_w o1 = 0) /\
  (exists o0 o1, option_map i_ops (cat_movabs {| q_arch64 := mode64; q_id := 0; q_options := opt; q_extra_mask := k;
                                                  q_ops := [OMem sz b x; OReg (gp_regtype d) id] |} out) = Some [o0; o1] /\
     o_w o0 = lsb_mask (reg_size (gp_regtype d)) /\ o_r o1 = lsb_mask (reg_size (gp_regtype d)) /\ o_w o1 = 0 /\ o_e o1 = 0 /\
     test (o_flags o1) fRegPhys = true /\ o_phys o1 = gpAx).
Proof. exact cat_movabs_masks. Qed.
Print Assumptions C12_movabs_masks.

(* kCategoryImul, imul r, r/m: the destination is read AND written with the architectural masks; the source is read and may be memory. *)
Theorem C12_imul_two_operand_masks : forall mode64 (d : gp_dest) id1 id2 opt k out, In d [D16; D32; D64] ->
  let q := {| q_arch64 := mode64; q_id := 0; q_options := opt; q_extra_mask := k; q_ops := [OReg (gp_regtype d) id1; OReg (gp_regtype d) id2] |} in
  exists o0 o1, option_map i_ops (cat_imul q out) = Some [o0; o1] /\
    o_w o0 = o_w (reported_gp mode64 d (dest_size d)) /\ o_e o0 = o_e (reported_gp mode64 d (dest_size d)) /\
    o_r o0 = lsb_mask (reg_size (gp_regtype d)) /\ test (o_flags o0) fR = true /\ test (o_flags o0) fW = true /\
    o_r o1 = lsb_mask (reg_size (gp_regtype d)) /\ o_w o1 = 0 /\ test (o_flags o1) fRegM = true.
Proof. exact cat_imul_two_operand_masks. Qed.
Print Assumptions C12_imul_two_operand_masks.

(* kCategoryVmaskmov: the load writes the whole destination with the VEX extension; the masked STORE reports memory as read AND written
   (bytes the mask leaves alone keep their old value, so the old memory content is live). *)
Theorem C12_vmaskmov_masks : forall tv id1 id2 id3 sz b x mode64 opt k out, In tv [11; 12] ->
  (exists o0 o1 o2, option_map i_ops (cat_vmaskmov {| q_arch64 := mode64; q_id := 0; q_options := opt; q_extra_mask := k;
                                                      q_ops := [OReg tv id1; OReg tv id2; OMem sz b x] |} out) = Some [o0; o1; o2] /\
     o_w o0 = o_w (reported_avx_vec (N.to_nat (reg_size tv))) /\ o_e o0 = o_e (reported_avx_vec (N.to_nat (reg_size tv))) /\ o_r o0 = 0 /\
     o_r o1 = lsb_mask (reg_size tv) /\ o_w o1 = 0 /\ o_r o2 = lsb_mask (reg_size tv) /\ o_w o2 = 0) /\
  (exists o0 o1 o2, option_map i_ops (cat_vmaskmov {| q_arch64 := mode64; q_id := 0; q_options := opt; q_extra_mask := k;
                                                      q_ops := [OMem sz b x; OReg tv id2; OReg tv id3] |} out) = Some [o0; o1; o2] /\
     test (o_flags o0) fR = true /\ test (o_flags o0) fW = true /\ o_r o0 = lsb_mask (reg_size tv) /\ o_w o0 = lsb_mask (reg_size tv) /\ o_e o0 = 0 /\
     o_r o1 = lsb_mask (reg_size tv) /\ o_w o1 = 0 /\ o_r o2 = lsb_mask (reg_size tv) /\ o_w o2 = 0).
Proof. exact cat_vmaskmov_masks. Qed.
Print Assumptions C12_vmaskmov_masks.


(* End to end (C12 -> C05): the reading of the byte masks that C05's validator assumes, applied to the masks query_rw_info itself RETURNS for a
   written low-aligned general-purpose register operand (generic record, no explicit write mask, not movss/movsd), is the architectural result
   of RegWrite.gp_write - for every table, every operand tuple and position, every old content and value. *)
Theorem C12_C05_returned_masks_architectural : forall T q out i (d : gp_dest) id old val b,
  query_rw_info T q = Some out -> selected_category T q <= 1 ->
  (i < length (q_ops q))%nat -> nth i (q_ops q) ONone = OReg (gp_regtype d) id ->
  let ro := select_row T (nthN (t_inst T) (q_id q) d_inst) (length (q_ops q)) in
  let dsc := nthN (t_op T) (nth (nth i (snd ro) i) (rr_ops (fst ro)) 0) d_op in
  test (clear (or_flags dsc) fZExt) fW = true -> or_w dsc = 0 ->
  test (rm_flags (nthN (t_rm T) (rr_rm (fst ro)) d_rm)) rmFlagMovssMovsd = false ->
  d <> D8hi -> bytes_ok old -> bytes_ok val -> (b < 8)%nat ->
  let o := nth i (i_ops out) op_zero in
  hw_byte (o_w o) (o_e o) (z_of_bytes old) (z_of_bytes val) b = Z.of_N (byte_at (gp_write (q_arch64 q) d (dest_size d) old val) b).
Proof.
  intros T q out i d id old val b H C Hi Hop ro dsc HW Hw Hm Hd Bo Bv Hb o. subst o.
  destruct (query_rw_info_gp_masks T q out i d id H C Hi Hop HW Hw) as [W E]. rewrite W, (E Hm).
  apply hw_byte_is_gp_write; assumption.
Qed.
Print Assumptions C12_C05_returned_masks_architectural.


(* ==================================================================== round 7: {k} and memory forms of the move categories *)

(* Narrowing moves under a {k} mask (vpmovqb xmm1 {k1}, zmm2 ...): merge-masking returns the destination READ with read mask = write mask,
   {z} or an implicitly zeroing instruction returns it not read; write / extend masks are those of the unmasked form (C12_narrowing_moves_masks). *)
Theorem C12_narrowing_moves_masked : forall ta tb ida idb shift rm av mode64 opt out,
  In ta [11; 12; 13] -> In tb [11; 12; 13] -> In shift [1; 2; 3] ->
  let q := {| q_arch64 := mode64; q_id := 0; q_options := opt; q_extra_mask := true; q_ops := [OReg ta ida; OReg tb idb] |} in
  let n := N.to_nat (N.shiftr (reg_size tb) shift) in
  exists o0 o1 r, cat_vmov_narrow q shift rm av out = Some r /\ i_ops r = [o0; o1] /\
    o_w o0 = o_w (reported_avx_vec n) /\ o_e o0 = o_e (reported_avx_vec n) /\
    (if negb (test opt optZMask) && negb (test av kImplicitZ)
     then test (o_flags o0) fR = true /\ o_r o0 = o_w o0
     else test (o_flags o0) fR = false /\ o_r o0 = 0).
Proof. exact cat_vmov_narrow_masked. Qed.
Print Assumptions C12_narrowing_moves_masked.

(* Memory forms of the narrowing moves: the store writes (source size >> shift) bytes and reads the whole source; the load writes the narrowed
   size with the VEX/EVEX extension and reads the full memory operand. *)
Theorem C12_narrowing_moves_memory_forms : forall tv id sz b x shift rm av mode64 opt out,
  In tv [11; 12; 13] -> In shift [1; 2; 3] -> In sz [16; 32; 64] ->
  (exists o0 o1, option_map i_ops (cat_vmov_narrow {| q_arch64 := mode64; q_id := 0; q_options := opt; q_extra_mask := false;
                                                      q_ops := [OMem sz b x; OReg tv id] |} shift rm av out) = Some [o0; o1] /\
     o_w o0 = lsb_mask (N.shiftr (reg_size tv) shift) /\ o_e o0 = 0 /\ o_r o0 = 0 /\ o_r o1 = lsb_mask (reg_size tv) /\ o_w o1 = 0) /\
  (exists o0 o1, option_map i_ops (cat_vmov_narrow {| q_arch64 := mode64; q_id := 0; q_options := opt; q_extra_mask := false;
                                                      q_ops := [OReg tv id; OMem sz b x] |} shift rm av out) = Some [o0; o1] /\
     o_w o0 = o_w (reported_avx_vec (N.to_nat (N.shiftr sz shift))) /\ o_e o0 = o_e (reported_avx_vec (N.to_nat (N.shiftr sz shift))) /\
     o_r o0 = 0 /\ o_r o1 = lsb_mask sz /\ o_w o1 = 0 /\ o_e o1 = 0).
Proof. exact cat_vmov_narrow_memory_forms. Qed.
Print Assumptions C12_narrowing_moves_memory_forms.

(* Memory form of the widening moves (vpmovzxbq zmm, m64 ...): destination written in full with the extension, memory read in
   (destination size >> shift) bytes. *)
Theorem C12_widening_moves_memory_form : forall tv id sz b x shift rm av mode64 opt out,
  In tv [11; 12; 13] -> In shift [1; 2; 3] ->
  exists o0 o1, option_map i_ops (cat_vmov_widen {| q_arch64 := mode64; q_id := 0; q_options := opt; q_extra_mask := false;
                                                    q_ops := [OReg tv id; OMem sz b x] |} shift rm av out) = Some [o0; o1] /\
    o_w o0 = o_w (reported_avx_vec (N.to_nat (reg_size tv))) /\ o_e o0 = o_e (reported_avx_vec (N.to_nat (reg_size tv))) /\ o_r o0 = 0 /\
    o_r o1 = lsb_mask (N.shiftr (reg_size tv) shift) /\ o_w o1 = 0 /\ o_e o1 = 0.
Proof. exact cat_vmov_widen_memory_form. Qed.
Print Assumptions C12_widening_moves_memory_form.
Example C12_masked_forms_nonvacuous :
  negb (test 0 optZMask) && negb (test 0 kImplicitZ) = true /\ negb (test optZMask optZMask) && negb (test 0 kImplicitZ) = false /\
  o_w (reported_avx_vec (N.to_nat (N.shiftr (reg_size 13) 3))) = 255.
Proof. repeat split; vm_compute; reflexivity. Qed.

(* C05 — Register allocation preserves the meaning of Compiler programs.
   Translation validation: the theorems below say that the VALIDATOR (RaIRModel.validate, extracted and run by
   ./check C05 on every output of the real allocator) is sound: an accepted pair (program over virtual registers,
   program over physical registers and frame slots) has the same behaviour for every input, every instruction
   semantics respecting the declared uses/defs, and every initial content of registers and stack.
   Universal over inputs; the programs are generated (sampled) by the check. *)
From Coq Require Import ZArith NArith List Bool Arith.
From Verif Require Import RegAlloc.RaIRModel RegAlloc.RaIRProofs RegAlloc.RaIRProgress RegAlloc.RaIRExamples.
From Verif Require Import RegAlloc.RwRuleModel RegAlloc.RwRuleProofs.
From VerifGen Require Import C05IdiomTags.
Import ListNotations.
Local Open Scope Z_scope.

(* main theorem: never stuck, and every observation (world reached / values returned) of the allocated program is an
   observation of the source program — for any number n of executed instructions, so also for diverging runs *)
Theorem C05_validate_sound : forall sp tp hs, validate sp tp hs = true ->
  forall (world : Type) (sem : opcode -> list Z -> world -> list Z * world)
         (semc : opcode -> list Z -> world -> bool) (V0 : sstate) (T0 : tstate) (W : world) (n : nat),
    trun world sem semc n tp (O, T0, W) <> Stuck /\
    exists k, observe_s world (srun world sem semc k sp (O, V0, W)) = observe_t world (trun world sem semc n tp (O, T0, W)).
Proof. exact validate_sound. Qed.
Print Assumptions C05_validate_sound.

(* soundness rests on the CHECK alone: any annotation (however inferred) that passes the check is good *)
Theorem C05_check_sound : forall (world : Type) (sem : opcode -> list Z -> world -> list Z * world)
    (semc : opcode -> list Z -> world -> bool) sp tp ann, check sp tp ann = true ->
  forall V0 T0 W n,
    trun world sem semc n tp (O, T0, W) <> Stuck /\
    exists k, observe_s world (srun world sem semc k sp (O, V0, W)) = observe_t world (trun world sem semc n tp (O, T0, W)).
Proof. exact check_sound. Qed.
Print Assumptions C05_check_sound.

Theorem C05_validate_sound_return : forall sp tp hs, validate sp tp hs = true ->
  forall (world : Type) (sem : opcode -> list Z -> world -> list Z * world)
         (semc : opcode -> list Z -> world -> bool) V0 T0 W n res W',
    trun world sem semc n tp (O, T0, W) = Halt res W' ->
    exists k, srun world sem semc k sp (O, V0, W) = Halt res W'.
Proof. exact validate_sound_halt. Qed.
Print Assumptions C05_validate_sound_return.

Theorem C05_validate_sound_effects : forall sp tp hs, validate sp tp hs = true ->
  forall (world : Type) (sem : opcode -> list Z -> world -> list Z * world)
         (semc : opcode -> list Z -> world -> bool) V0 T0 W n t T W',
    trun world sem semc n tp (O, T0, W) = Next (t, T, W') ->
    exists k s V, srun world sem semc k sp (O, V0, W) = Next (s, V, W').
Proof. exact validate_sound_worlds. Qed.
Print Assumptions C05_validate_sound_effects.

(* the validator that ./check runs is validate_full = validate + progress ranks; it additionally preserves termination:
   if the source program returns, the allocated program returns (with the same values and world, by the theorems above) *)
Theorem C05_validate_full_implies_validate : forall sp tp hs, validate_full sp tp hs = true -> validate sp tp hs = true.
Proof. exact validate_full_sound. Qed.
Print Assumptions C05_validate_full_implies_validate.

Theorem C05_termination_preserved : forall sp tp hs, validate_full sp tp hs = true ->
  forall (world : Type) (sem : opcode -> list Z -> world -> list Z * world)
         (semc : opcode -> list Z -> world -> bool) V0 T0 W K res W',
    srun world sem semc K sp (O, V0, W) = Halt res W' ->
    exists n, trun world sem semc n tp (O, T0, W) = Halt res W'.
Proof. exact validate_full_terminates. Qed.
Print Assumptions C05_termination_preserved.

(* frame bytes: a value saved with w bytes is read back exactly in its low n <= w bytes, a store does not disturb
   disjoint bytes, and a merging register write (mov al/ax) determines exactly the low bytes *)
Theorem C05_slot_roundtrip : forall n k m off x, (n <= k)%nat -> load n (store k m off x) off = tr n x.
Proof. exact load_store_same. Qed.
Print Assumptions C05_slot_roundtrip.

Theorem C05_slot_frame : forall n k m o o' x,
  (o' <? o + Z.of_nat k) && (o <? o' + Z.of_nat n) = false -> load n (store k m o x) o' = load n m o'.
Proof. exact load_store_disjoint. Qed.
Print Assumptions C05_slot_frame.

Theorem C05_partial_write_low_bytes : forall n w x old, (n <= w)%nat -> tr n (tr w x + (old - tr w old)) = tr n x.
Proof. exact tr_keep. Qed.
Print Assumptions C05_partial_write_low_bytes.

(* the hypothesis of the soundness theorem is satisfiable, and the validator is not vacuous: one hand-made
   miscompilation of each kind is rejected *)
Theorem C05_accepts_correct_spill_loop : validate ex_src ex_good ex_good_h = true.
Proof. exact ex_good_accepted. Qed.
Print Assumptions C05_accepts_correct_spill_loop.

Theorem C05_rejects_missing_reload :
  validate ex_src ex_missing_reload [Some 0; Some 1; None; Some 2; Some 3; Some 4; None; Some 6]%nat = false.
Proof. exact ex_missing_reload_rejected. Qed.
Print Assumptions C05_rejects_missing_reload.

Theorem C05_rejects_clobbered_live_value : validate ex_src ex_clobber ex_good_h = false.
Proof. exact ex_clobber_rejected. Qed.
Print Assumptions C05_rejects_clobbered_live_value.

Theorem C05_rejects_wrong_back_edge_assignment : validate ex_src ex_back_edge ex_good_h = false.
Proof. exact ex_back_edge_rejected. Qed.
Print Assumptions C05_rejects_wrong_back_edge_assignment.

Theorem C05_rejects_overlapping_slots :
  validate ex_src ex_overlap [Some 0; Some 1; None; None; Some 2; None; Some 3; Some 4; None; Some 6]%nat = false.
Proof. exact ex_overlap_rejected. Qed.
Print Assumptions C05_rejects_overlapping_slots.

Theorem C05_rejects_narrow_spill : validate ex_src ex_narrow ex_good_h = false.
Proof. exact ex_narrow_rejected. Qed.
Print Assumptions C05_rejects_narrow_spill.

Theorem C05_rejects_exchanged_operands : validate ex_src ex_swapped ex_good_h = false.
Proof. exact ex_swapped_rejected. Qed.
Print Assumptions C05_rejects_exchanged_operands.

Theorem C05_rejects_dropped_zero_extension : validate ex_src_zext ex_zext_elided [Some 0; Some 2; Some 4]%nat = false.
Proof. exact ex_zext_elided_rejected. Qed.
Print Assumptions C05_rejects_dropped_zero_extension.

Theorem C05_rejects_value_kept_across_clobber :
  validate ex_src_call ex_call_clobber [Some 0; Some 1; Some 2; Some 3; Some 5]%nat = false.
Proof. exact ex_call_clobber_rejected. Qed.
Print Assumptions C05_rejects_value_kept_across_clobber.

Theorem C05_accepts_correct_spill_loop_full : validate_full ex_src ex_good ex_good_h = true.
Proof. exact ex_good_full. Qed.
Print Assumptions C05_accepts_correct_spill_loop_full.

Theorem C05_rejects_silent_loop_in_inserted_code : validate_full ex_src ex_spin ex_spin_h = false.
Proof. exact ex_spin_rejected. Qed.
Print Assumptions C05_rejects_silent_loop_in_inserted_code.

(* ------------------------------------------------------------------ the use/def classification (run extracted, on raw RW facts)
   Mini semantics of a register write: byte i of the register becomes the result byte if i is in the write mask, 0 if it is
   only in the extend mask, and keeps its old value otherwise (hw_byte). *)
Theorem C05_partial_write_rule : forall a64 id r us d old old' res,
  classify a64 id r = (us, [d]) ->
  (is_partial r = true -> old_agree us old old') ->
  forall i, (i < d)%nat -> hw_byte (r_wmask r) (r_emask r) old res i = hw_byte (r_wmask r) (r_emask r) old' res i.
Proof. exact classify_write_sound. Qed.
Print Assumptions C05_partial_write_rule.

Theorem C05_partial_write_rule_no_def : forall a64 id r us,
  classify a64 id r = (us, []) -> r_write r = false \/ keeps id r = true.
Proof. exact classify_no_def. Qed.
Print Assumptions C05_partial_write_rule_no_def.

Theorem C05_partial_write_rule_keeps : forall id r old res,
  keeps id r = true ->
  (forall i, mbit (r_wmask r) i = true -> byte i res = byte i old) ->
  forall i, (i < r_vsize r)%nat -> hw_byte (r_wmask r) (r_emask r) old res i = byte i old.
Proof. exact keeps_sound. Qed.
Print Assumptions C05_partial_write_rule_keeps.

(* the idiom table: for the tagged operations (alu_sem) a "result independent of the register" idiom really is, and a
   "value preserved" idiom really preserves *)
Theorem C05_idiom_same_register_constant : forall op w a a', idiom_of op true None w = IWO -> alu_sem op w a a = alu_sem op w a' a'.
Proof. exact idiom_same_wo. Qed.
Print Assumptions C05_idiom_same_register_constant.

Theorem C05_idiom_same_register_identity : forall op w a, idiom_of op true None w = IRO -> alu_sem op w a a = trb w a.
Proof. exact idiom_same_ro. Qed.
Print Assumptions C05_idiom_same_register_identity.

Theorem C05_idiom_immediate_constant : forall op w a a' i, idiom_of op false (Some i) w = IWO -> alu_sem op w a i = alu_sem op w a' i.
Proof. exact idiom_imm_wo. Qed.
Print Assumptions C05_idiom_immediate_constant.

Theorem C05_idiom_immediate_identity : forall op w a i, idiom_of op false (Some i) w = IRO -> alu_sem op w a i = trb w a.
Proof. exact idiom_imm_ro. Qed.
Print Assumptions C05_idiom_immediate_identity.

(* annotated jump tables (SJmpTab/TJmpTab) are part of the IR the soundness theorems above quantify over *)
Theorem C05_accepts_jump_table : validate_full ex_src_jt ex_jt_good [Some 0; Some 1; Some 2; Some 3; Some 4; Some 5; None; Some 7]%nat = true.
Proof. exact ex_jt_good_accepted. Qed.
Print Assumptions C05_accepts_jump_table.

Theorem C05_rejects_jump_table_target_with_two_assignments :
  validate ex_src_jt ex_jt_bad [Some 0; Some 1; Some 2; Some 3; Some 4; Some 5; None; Some 7]%nat = false.
Proof. exact ex_jt_bad_rejected. Qed.
Print Assumptions C05_rejects_jump_table_target_with_two_assignments.

Theorem C05_rejects_permuted_jump_table :
  validate ex_src_jt ex_jt_perm [Some 0; Some 1; Some 2; Some 3; Some 4; Some 5; None; Some 7]%nat = false.
Proof. exact ex_jt_perm_rejected. Qed.
Print Assumptions C05_rejects_permuted_jump_table.

(* register lists: the side condition the validator applies to every register-list operand group of the allocated
   program (reported by InstAPI::query_rw_info as consecutive_lead_count): an accepted group is exactly the register
   sequence the CPU derives from the encoded first register, and its member i is register (first + i) mod 32 *)
Theorem C05_register_list_is_what_the_cpu_uses : forall ls, consec_ok ls = true ->
  match ls with
  | [] => True
  | LReg g id :: _ => ls = expand_list g id (length ls)
  | LSlot _ :: _ => False
  end.
Proof. exact consec_ok_sound. Qed.
Print Assumptions C05_register_list_is_what_the_cpu_uses.

Theorem C05_register_list_members : forall g n id i, (id < 32)%N -> (i < n)%nat ->
  nth i (expand_list g id n) (LSlot 0) = LReg g (N.modulo (id + N.of_nat i) 32).
Proof. exact expand_list_nth. Qed.
Print Assumptions C05_register_list_members.

Theorem C05_rejects_non_consecutive_list : consec_ok [LReg 1 1; LReg 1 3] = false /\ consec_ok [LReg 1 30; LReg 1 31; LReg 1 0] = true.
Proof. exact (conj ex_list_gap ex_list_wrap). Qed.
Print Assumptions C05_rejects_non_consecutive_list.

(* the instruction-id -> idiom-class table is generated from the tree under test (ids via InstAPI, mnemonics and operand
   access cross-checked with db/isa_x86.json) and re-checked on every run: no instruction id is listed twice, so the class
   found by alu_of_id is the one generated for that mnemonic *)
Theorem C05_idiom_tag_table_is_a_function : ids_distinct idiom_tags = true.
Proof. exact idiom_tags_distinct. Qed.
Print Assumptions C05_idiom_tag_table_is_a_function.

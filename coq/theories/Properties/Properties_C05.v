(* C05 — Register allocation preserves the meaning of Compiler programs.
   Translation validation: the theorems below say that the VALIDATOR (RaIRModel.validate, extracted and run by
   ./check C05 on every output of the real allocator) is sound: an accepted pair (program over virtual registers,
   program over physical registers and frame slots) has the same behaviour for every input, every instruction
   semantics respecting the declared uses/defs, and every initial content of registers and stack.
   Universal over inputs; the programs are generated (sampled) by the check. *)
From Coq Require Import ZArith NArith List Bool Arith Lia.
From Verif Require Import RegAlloc.RaIRModel RegAlloc.RaIRProofs RegAlloc.RaIRProgress RegAlloc.RaIRExamples.
From Verif Require Import RegAlloc.RwRuleModel RegAlloc.RwRuleProofs RegAlloc.SaTrackProofs RegAlloc.RankComplete.
From VerifGen Require Import C05IdiomTags.
Import ListNotations.
Local Open Scope Z_scope.

(* main theorem: never stuck, and every observation (world reached / values returned) of the allocated program is an
   observation of the source program — for any number n of executed instructions, so also for diverging runs *)
Theorem C05_validate_sound : forall sp tp hs, validate sp tp hs = true ->
  forall (world : Type) (sem : opcode -> list Z -> world -> list Z * world)
         (semc : opcode -> list Z -> world -> bool) (V0 : sstate) (T0 : tstate) (W : world) (n : nat),
    trun world sem semc n tp (O, T0, W) <> Stuck /\
    exists k, observe_s world (srun world sem semc k sp (O, V0, W)) = observe_t world (trun world sem semc n tp (O, T0, W)).
Proof. exact validate_sound. Qed.
Print Assumptions C05_validate_sound.

(* soundness rests on the CHECK alone: any annotation (however inferred) that passes the check is good *)
Theorem C05_check_sound : forall (world : Type) (sem : opcode -> list Z -> world -> list Z * world)
    (semc : opcode -> list Z -> world -> bool) sp tp ann, check sp tp ann = true ->
  forall V0 T0 W n,
    trun world sem semc n tp (O, T0, W) <> Stuck /\
    exists k, observe_s world (srun world sem semc k sp (O, V0, W)) = observe_t world (trun world sem semc n tp (O, T0, W)).
Proof. exact check_sound. Qed.
Print Assumptions C05_check_sound.

Theorem C05_validate_sound_return : forall sp tp hs, validate sp tp hs = true ->
  forall (world : Type) (sem : opcode -> list Z -> world -> list Z * world)
         (semc : opcode -> list Z -> world -> bool) V0 T0 W n res W',
    trun world sem semc n tp (O, T0, W) = Halt res W' ->
    exists k, srun world sem semc k sp (O, V0, W) = Halt res W'.
Proof. exact validate_sound_halt. Qed.
Print Assumptions C05_validate_sound_return.

Theorem C05_validate_sound_effects : forall sp tp hs, validate sp tp hs = true ->
  forall (world : Type) (sem : opcode -> list Z -> world -> list Z * world)
         (semc : opcode -> list Z -> world -> bool) V0 T0 W n t T W',
    trun world sem semc n tp (O, T0, W) = Next (t, T, W') ->
    exists k s V, srun world sem semc k sp (O, V0, W) = Next (s, V, W').
Proof. exact validate_sound_worlds. Qed.
Print Assumptions C05_validate_sound_effects.

(* the validator that ./check runs is validate_full = validate + progress ranks; it additionally preserves termination:
   if the source program returns, the allocated program returns (with the same values and world, by the theorems above) *)
Theorem C05_validate_full_implies_validate : forall sp tp hs, validate_full sp tp hs = true -> validate sp tp hs = true.
Proof. exact validate_full_sound. Qed.
Print Assumptions C05_validate_full_implies_validate.

Theorem C05_termination_preserved : forall sp tp hs, validate_full sp tp hs = true ->
  forall (world : Type) (sem : opcode -> list Z -> world -> list Z * world)
         (semc : opcode -> list Z -> world -> bool) V0 T0 W K res W',
    srun world sem semc K sp (O, V0, W) = Halt res W' ->
    exists n, trun world sem semc n tp (O, T0, W) = Halt res W'.
Proof. exact validate_full_terminates. Qed.
Print Assumptions C05_termination_preserved.

(* frame bytes: a value saved with w bytes is read back exactly in its low n <= w bytes, a store does not disturb
   disjoint bytes, and a merging register write (mov al/ax) determines exactly the low bytes *)
Theorem C05_slot_roundtrip : forall n k m off x, (n <= k)%nat -> load n (store k m off x) off = tr n x.
Proof. exact load_store_same. Qed.
Print Assumptions C05_slot_roundtrip.

Theorem C05_slot_frame : forall n k m o o' x,
  (o' <? o + Z.of_nat k) && (o <? o' + Z.of_nat n) = false -> load n (store k m o x) o' = load n m o'.
Proof. exact load_store_disjoint. Qed.
Print Assumptions C05_slot_frame.

Theorem C05_partial_write_low_bytes : forall n w x old, (n <= w)%nat -> tr n (tr w x + (old - tr w old)) = tr n x.
Proof. exact tr_keep. Qed.
Print Assumptions C05_partial_write_low_bytes.

(* the hypothesis of the soundness theorem is satisfiable, and the validator is not vacuous: one hand-made
   miscompilation of each kind is rejected *)
Theorem C05_accepts_correct_spill_loop : validate ex_src ex_good ex_good_h = true.
Proof. exact ex_good_accepted. Qed.
Print Assumptions C05_accepts_correct_spill_loop.

Theorem C05_rejects_missing_reload :
  validate ex_src ex_missing_reload [Some 0; Some 1; None; Some 2; Some 3; Some 4; None; Some 6]%nat = false.
Proof. exact ex_missing_reload_rejected. Qed.
Print Assumptions C05_rejects_missing_reload.

Theorem C05_rejects_clobbered_live_value : validate ex_src ex_clobber ex_good_h = false.
Proof. exact ex_clobber_rejected. Qed.
Print Assumptions C05_rejects_clobbered_live_value.

Theorem C05_rejects_wrong_back_edge_assignment : validate ex_src ex_back_edge ex_good_h = false.
Proof. exact ex_back_edge_rejected. Qed.
Print Assumptions C05_rejects_wrong_back_edge_assignment.

Theorem C05_rejects_overlapping_slots :
  validate ex_src ex_overlap [Some 0; Some 1; None; None; Some 2; None; Some 3; Some 4; None; Some 6]%nat = false.
Proof. exact ex_overlap_rejected. Qed.
Print Assumptions C05_rejects_overlapping_slots.

Theorem C05_rejects_narrow_spill : validate ex_src ex_narrow ex_good_h = false.
Proof. exact ex_narrow_rejected. Qed.
Print Assumptions C05_rejects_narrow_spill.

Theorem C05_rejects_exchanged_operands : validate ex_src ex_swapped ex_good_h = false.
Proof. exact ex_swapped_rejected. Qed.
Print Assumptions C05_rejects_exchanged_operands.

Theorem C05_rejects_dropped_zero_extension : validate ex_src_zext ex_zext_elided [Some 0; Some 2; Some 4]%nat = false.
Proof. exact ex_zext_elided_rejected. Qed.
Print Assumptions C05_rejects_dropped_zero_extension.

Theorem C05_rejects_value_kept_across_clobber :
  validate ex_src_call ex_call_clobber [Some 0; Some 1; Some 2; Some 3; Some 5]%nat = false.
Proof. exact ex_call_clobber_rejected. Qed.
Print Assumptions C05_rejects_value_kept_across_clobber.

Theorem C05_accepts_correct_spill_loop_full : validate_full ex_src ex_good ex_good_h = true.
Proof. exact ex_good_full. Qed.
Print Assumptions C05_accepts_correct_spill_loop_full.

Theorem C05_rejects_silent_loop_in_inserted_code : validate_full ex_src ex_spin ex_spin_h = false.
Proof. exact ex_spin_rejected. Qed.
Print Assumptions C05_rejects_silent_loop_in_inserted_code.

(* ------------------------------------------------------------------ the use/def classification (run extracted, on raw RW facts)
   Mini semantics of a register write: byte i of the register becomes the result byte if i is in the write mask, 0 if it is
   only in the extend mask, and keeps its old value otherwise (hw_byte). *)
Theorem C05_partial_write_rule : forall a64 id r us d old old' res,
  classify a64 id r = (us, [d]) ->
  (is_partial r = true -> old_agree us old old') ->
  forall i, (i < d)%nat -> hw_byte (r_wmask r) (r_emask r) old res i = hw_byte (r_wmask r) (r_emask r) old' res i.
Proof. exact classify_write_sound. Qed.
Print Assumptions C05_partial_write_rule.

Theorem C05_partial_write_rule_no_def : forall a64 id r us,
  classify a64 id r = (us, []) -> r_write r = false \/ keeps id r = true.
Proof. exact classify_no_def. Qed.
Print Assumptions C05_partial_write_rule_no_def.

Theorem C05_partial_write_rule_keeps : forall id r old res,
  keeps id r = true ->
  (forall i, mbit (r_wmask r) i = true -> byte i res = byte i old) ->
  forall i, (i < r_vsize r)%nat -> hw_byte (r_wmask r) (r_emask r) old res i = byte i old.
Proof. exact keeps_sound. Qed.
Print Assumptions C05_partial_write_rule_keeps.

(* the idiom table: for the tagged operations (alu_sem) a "result independent of the register" idiom really is, and a
   "value preserved" idiom really preserves *)
Theorem C05_idiom_same_register_constant : forall op w a a', idiom_of op true None w = IWO -> alu_sem op w a a = alu_sem op w a' a'.
Proof. exact idiom_same_wo. Qed.
Print Assumptions C05_idiom_same_register_constant.

Theorem C05_idiom_same_register_identity : forall op w a, idiom_of op true None w = IRO -> alu_sem op w a a = trb w a.
Proof. exact idiom_same_ro. Qed.
Print Assumptions C05_idiom_same_register_identity.

Theorem C05_idiom_immediate_constant : forall op w a a' i, idiom_of op false (Some i) w = IWO -> alu_sem op w a i = alu_sem op w a' i.
Proof. exact idiom_imm_wo. Qed.
Print Assumptions C05_idiom_immediate_constant.

Theorem C05_idiom_immediate_identity : forall op w a i, idiom_of op false (Some i) w = IRO -> alu_sem op w a i = trb w a.
Proof. exact idiom_imm_ro. Qed.
Print Assumptions C05_idiom_immediate_identity.

(* annotated jump tables (SJmpTab/TJmpTab) are part of the IR the soundness theorems above quantify over *)
Theorem C05_accepts_jump_table : validate_full ex_src_jt ex_jt_good [Some 0; Some 1; Some 2; Some 3; Some 4; Some 5; None; Some 7]%nat = true.
Proof. exact ex_jt_good_accepted. Qed.
Print Assumptions C05_accepts_jump_table.

Theorem C05_rejects_jump_table_target_with_two_assignments :
  validate ex_src_jt ex_jt_bad [Some 0; Some 1; Some 2; Some 3; Some 4; Some 5; None; Some 7]%nat = false.
Proof. exact ex_jt_bad_rejected. Qed.
Print Assumptions C05_rejects_jump_table_target_with_two_assignments.

Theorem C05_rejects_permuted_jump_table :
  validate ex_src_jt ex_jt_perm [Some 0; Some 1; Some 2; Some 3; Some 4; Some 5; None; Some 7]%nat = false.
Proof. exact ex_jt_perm_rejected. Qed.
Print Assumptions C05_rejects_permuted_jump_table.

(* register lists: the side condition the validator applies to every register-list operand group of the allocated
   program (reported by InstAPI::query_rw_info as consecutive_lead_count): an accepted group is exactly the register
   sequence the CPU derives from the encoded first register, and its member i is register (first + i) mod 32 *)
Theorem C05_register_list_is_what_the_cpu_uses : forall ls, consec_ok ls = true ->
  match ls with
  | [] => True
  | LReg g id :: _ => ls = expand_list g id (length ls)
  | LSlot _ :: _ => False
  end.
Proof. exact consec_ok_sound. Qed.
Print Assumptions C05_register_list_is_what_the_cpu_uses.

Theorem C05_register_list_members : forall g n id i, (id < 32)%N -> (i < n)%nat ->
  nth i (expand_list g id n) (LSlot 0) = LReg g (N.modulo (id + N.of_nat i) 32).
Proof. exact expand_list_nth. Qed.
Print Assumptions C05_register_list_members.

Theorem C05_rejects_non_consecutive_list : consec_ok [LReg 1 1; LReg 1 3] = false /\ consec_ok [LReg 1 30; LReg 1 31; LReg 1 0] = true.
Proof. exact (conj ex_list_gap ex_list_wrap). Qed.
Print Assumptions C05_rejects_non_consecutive_list.

(* the instruction-id -> idiom-class table is generated from the tree under test (ids via InstAPI, mnemonics and operand
   access cross-checked with db/isa_x86.json) and re-checked on every run: no instruction id is listed twice, so the class
   found by alu_of_id is the one generated for that mnemonic *)
Theorem C05_idiom_tag_table_is_a_function : ids_distinct idiom_tags = true.
Proof. exact idiom_tags_distinct. Qed.
Print Assumptions C05_idiom_tag_table_is_a_function.

(* ---- round 5: the value semantics alu_sem behind the idiom theorems is compared with the host CPU on every run
   (c05_harness "alu": every tagged mnemonic, every operand size, register/same-register/immediate forms, boundary
   values) wherever alu_defined holds. These theorems say that this comparison covers every instance an idiom verdict
   rests on: a verdict other than "no idiom" is only given where alu_sem is specified, and never for an untagged id. *)
Theorem C05_idiom_verdicts_rest_on_specified_semantics :
  (forall op w i, idiom_of op false (Some i) w <> INone -> alu_defined op i = true) /\
  (forall op w b, idiom_of op true None w <> INone -> alu_defined op b = true) /\
  (forall same imm w, idiom_of AOther same imm w = INone) /\
  (forall tbl id, find (fun p => N.eqb (fst p) id) tbl = None -> forall same imm w, idiom_of (alu_of_id tbl id) same imm w = INone).
Proof.
  split; [exact idiom_imm_defined|]. split; [exact idiom_same_defined|]. split; [exact idiom_other_none|].
  intros tbl id H same imm w. unfold alu_of_id. rewrite H. apply idiom_other_none.
Qed.
Print Assumptions C05_idiom_verdicts_rest_on_specified_semantics.

(* not vacuous: specified and unspecified instances exist, verdicts of all three kinds exist, and alu_sem computes *)
Theorem C05_alu_semantics_examples :
  alu_defined AXor 5 = true /\ alu_defined AShl 1 = false /\ alu_defined AShl 0 = true /\ alu_defined AOther 0 = false /\
  idiom_of AXor true None 4 = IWO /\ idiom_of AAnd true None 4 = IRO /\ idiom_of AOr false (Some 255) 1 = IWO /\ idiom_of AAdd false (Some 1) 4 = INone /\
  alu_sem AXor 1 511 15 = 240 /\ alu_sem ASub 2 0 1 = 65535 /\ alu_sem VCmpEqD 8 (2^32 + 7) (2^33 + 7) = 2^32 - 1.
Proof. vm_compute. repeat split; reflexivity. Qed.
Print Assumptions C05_alu_semantics_examples.

(* ---- round 5: stack arguments in frames with a re-aligned stack are read through the "SA" register, which the argument
   assignment may exchange or copy first. The driver accepts "[r + k] is argument-area byte k" only while r is in the set
   computed by sa_step / sa_at. This theorem: for ANY instruction semantics and along ANY execution from the function
   entry, whenever the execution stands in front of an instruction other than a label, every register listed by sa_at
   there holds (in its low aw bytes) the address A that the registers m0 held at the entry. *)
Theorem C05_sa_register_tracking_sound :
  forall (world : Type) (sem : opcode -> list Z -> world -> list Z * world) (semc : opcode -> list Z -> world -> bool)
         (aw : nat) (A : Z) (p : tprog) (m0 : list N) (n : nat) T0 W0 pc T W i,
  (forall r, In r m0 -> tr aw (rs T0 0%N r) = A) ->
  trun world sem semc n p (0%nat, T0, W0) = Next (pc, T, W) ->
  nth_error p pc = Some i -> (forall l, i <> TLabel l) ->
  forall r, In r (sa_at aw p m0 pc) -> tr aw (rs T 0%N r) = A.
Proof. intros world sem semc aw A p m0 n T0 W0 pc T W i. exact (sa_track_sound_entry world sem semc aw A p m0 n T0 W0 pc T W i). Qed.
Print Assumptions C05_sa_register_tracking_sound.

(* not vacuous, and what must NOT be accepted: the set follows an exchange and a full-width copy (pc 2, 3), loses a register
   that is overwritten (pc 4) or copied at less than the address width (pc 5: 4 of 8 bytes), survives an instruction that
   defines other registers, and is empty behind any label *)
Theorem C05_sa_register_tracking_examples :
  let p := [TOp 1%N [] [(LReg 0 7, 8%nat)]; TSwap (LReg 0 0) (LReg 0 1) 8; TMove (LReg 0 3) (LReg 0 1) 8 false 8;
            TMove (LReg 0 1) (LSlot 40) 8 false 8; TMove (LReg 0 2) (LReg 0 3) 4 false 8; TOp 2%N [(LReg 0 3, 8%nat)] [(LReg 1 3, 16%nat); (LReg 0 5, 8%nat)];
            TLabel 9%N; TMove (LReg 0 6) (LReg 0 3) 8 false 8] in
  map (sa_at 8 p [0%N]) [1; 2; 3; 4; 5; 6; 7; 8]%nat = [[0]; [1]; [3; 1]; [3]; [3]; [3]; []; []]%N /\
  sa_at 8 [TOp 1%N [] [(LReg 0 0, 8%nat)]] [0%N] 1 = [].
Proof. vm_compute. split; reflexivity. Qed.
Print Assumptions C05_sa_register_tracking_examples.

(* ---- round 5: by-reference vector arguments (see RaIRExamples, 12): the pattern the dumper prints for
   "lea p, [sp+k]; movaps [p], x; mov rcx, p; call" is accepted, and what must NOT be accepted is refused - a spill into the
   temporary between the copy and the call, and a call whose pointer register was never loaded *)
Theorem C05_accepts_by_reference_argument :
  validate_full ex_src_byref ex_byref_good [Some 0; Some 1; None; None; Some 2; Some 4]%nat = true.
Proof. exact ex_byref_accepted. Qed.
Print Assumptions C05_accepts_by_reference_argument.

Theorem C05_rejects_by_reference_argument_overwritten_or_without_pointer :
  validate ex_src_byref ex_byref_overwritten [Some 0; Some 1; None; None; None; Some 2; Some 4]%nat = false /\
  validate ex_src_byref ex_byref_no_pointer [Some 0; Some 1; None; Some 2; Some 4]%nat = false.
Proof. exact (conj ex_byref_overwritten_rejected ex_byref_no_pointer_rejected). Qed.
Print Assumptions C05_rejects_by_reference_argument_overwritten_or_without_pointer.

(* ================================================================== round 6 *)

(* ---- bounded slowdown (quantitative form of C05_termination_preserved): if the source returns within K instructions, the
   accepted allocated program returns the same values in the same world within (K+1)*(B+1) instructions, B = the largest
   progress rank - i.e. the allocator's inserted moves/swaps/labels/jumps form runs shorter than B+1 between matched
   instructions, on every path, for every instruction semantics *)
Theorem C05_allocated_program_steps_bounded : forall sp tp hs, validate_full sp tp hs = true ->
  forall (world : Type) (sem : opcode -> list Z -> world -> list Z * world) (semc : opcode -> list Z -> world -> bool) V0 T0 W K res W',
    srun world sem semc K sp (O, V0, W) = Halt res W' ->
    exists n, (n <= (K + 1) * (list_max (infer_ranks tp) + 1))%nat /\ trun world sem semc n tp (O, T0, W) = Halt res W'.
Proof. exact validate_full_steps_bounded. Qed.
Print Assumptions C05_allocated_program_steps_bounded.

(* not vacuous: the accepted spill loop has B = 3 (so at most 4 target instructions per source instruction), and the bound is
   a consequence for it; the refused spinning program is not covered (validate_full is false there) *)
Theorem C05_steps_bound_example :
  list_max (infer_ranks ex_good) = 3%nat /\ validate_full ex_src ex_good ex_good_h = true /\
  (forall (world : Type) sem semc V0 T0 (W : world) K res W', srun world sem semc K ex_src (O, V0, W) = Halt res W' ->
     exists n, (n <= (K + 1) * 4)%nat /\ trun world sem semc n ex_good (O, T0, W) = Halt res W').
Proof.
  split; [vm_compute; reflexivity|]. split; [exact ex_good_full|].
  intros world sem semc V0 T0 W K res W' H.
  exact (validate_full_steps_bounded ex_src ex_good ex_good_h ex_good_full world sem semc V0 T0 W K res W' H).
Qed.
Print Assumptions C05_steps_bound_example.

(* ---- the partial-write rule, completeness direction: the use of the old register that classify adds for a partial write is
   NECESSARY. If the write does not cover the virtual register, some byte of it keeps its old content whatever the
   instruction computes - two executions differing in that byte of the old value differ in the result, so "pure definition"
   would be wrong. And exactly then: a covering write lets no old byte of the virtual register through. *)
Theorem C05_partial_write_needs_the_old_value : forall r,
  (is_partial r = true ->
     exists i, (i < r_vsize r)%nat /\ (forall old res, hw_byte (r_wmask r) (r_emask r) old res i = byte i old) /\
               (forall res, hw_byte (r_wmask r) (r_emask r) 0 res i <> hw_byte (r_wmask r) (r_emask r) (256 ^ Z.of_nat i) res i)) /\
  (is_partial r = false ->
     forall old old' res i, (i < r_vsize r)%nat -> hw_byte (r_wmask r) (r_emask r) old res i = hw_byte (r_wmask r) (r_emask r) old' res i).
Proof.
  intros r. split.
  - intros H. destruct (partial_write_keeps_a_byte r H) as [i [Hi Hk]]. exists i. split; [exact Hi|]. split; [exact Hk|].
    intros res. rewrite !Hk. unfold byte. rewrite Z.div_0_l by (apply Z.pow_nonzero; lia). rewrite Z.div_same by (apply Z.pow_nonzero; lia).
    cbn. discriminate.
  - intros H old old' res i Hi. exact (covering_write_ignores_old_value r old old' res H i Hi).
Qed.
Print Assumptions C05_partial_write_needs_the_old_value.

(* ---- the rule on the legacy-SSE destination shapes InstAPI::query_rw_info reports since 75c576a/30f5035 (raw facts as
   printed by the harness for a 16-byte virtual register): movlps/movlpd x,[m] (write mask 0x00FF, nothing extended),
   movhps (0xFF00), movss x,x (0x000F), cvtsi2sd (0x00FF) are partial -> the old 16 bytes are a use; movss x,[m]
   (0x000F written, 0xFFF0 cleared), movq x,r (0x00FF / 0xFF00) and movaps cover the register -> pure definitions; paddd
   reads and writes all 16 bytes. And what the CPU does for movlps: bytes 0-7 from the result, bytes 8-15 kept. *)
Definition raw_sse_dst (rd : bool) (wm em : N) (rm : nat) (isrm : bool) : rawop :=
  mkRaw rd true (if rd then 65535 else 0)%N wm em rm isrm 16 false 16 true.
Theorem C05_partial_write_rule_legacy_sse_shapes :
  classify false INone (raw_sse_dst false 255 0 0 false) = ([16], [16])%nat /\          (* movlps / movlpd / cvtsi2sd *)
  classify false INone (raw_sse_dst false 65280 0 0 false) = ([16], [16])%nat /\        (* movhps *)
  classify false INone (raw_sse_dst false 15 0 4 true) = ([16], [16])%nat /\            (* movss x, x *)
  classify false INone (raw_sse_dst false 15 65520 4 true) = ([], [16])%nat /\          (* movss x, [m] *)
  classify false INone (raw_sse_dst false 255 65280 0 false) = ([], [16])%nat /\        (* movq x, r *)
  classify false INone (raw_sse_dst false 65535 0 16 true) = ([], [16])%nat /\          (* movaps *)
  classify false INone (raw_sse_dst true 65535 0 0 false) = ([16], [16])%nat /\         (* paddd *)
  (forall old res i, (i < 8)%nat -> hw_byte 255 0 old res i = byte i res) /\
  (forall old res i, (8 <= i < 16)%nat -> hw_byte 255 0 old res i = byte i old).
Proof.
  repeat (split; [vm_compute; reflexivity|]). split; intros old res i Hi; unfold hw_byte, mbit.
  - do 8 (destruct i as [|i]; [reflexivity|]). lia.
  - do 8 (destruct i as [|i]; [lia|]). do 8 (destruct i as [|i]; [reflexivity|]). lia.
Qed.
Print Assumptions C05_partial_write_rule_legacy_sse_shapes.

(* at the validator: with those uses/defs a movlps whose register lives in a slot needs the full reload; treating it as a
   pure definition (fresh register) or reloading only the 8 written bytes is refused *)
Theorem C05_accepts_partial_sse_write_after_full_reload :
  validate_full ex_src_movlps ex_movlps_good [Some 0; None; None; Some 1; Some 2; Some 4]%nat = true.
Proof. exact ex_movlps_accepted. Qed.
Print Assumptions C05_accepts_partial_sse_write_after_full_reload.

Theorem C05_rejects_partial_sse_write_as_pure_definition :
  validate ex_src_movlps ex_movlps_pure_def [Some 0; None; Some 1; Some 2; Some 4]%nat = false /\
  validate ex_src_movlps ex_movlps_half_reload [Some 0; None; None; Some 1; Some 2; Some 4]%nat = false.
Proof. exact (conj ex_movlps_pure_def_rejected ex_movlps_half_reload_rejected). Qed.
Print Assumptions C05_rejects_partial_sse_write_as_pure_definition.

(* ---- frame condition: a register that no instruction of the allocated program has among its defs (the driver checks this
   for zbp in functions that keep a frame pointer, whose stack arguments the dumper names by their offset from zbp) has the
   same content after any number of steps from any configuration, for any instruction semantics *)
Theorem C05_undefined_register_is_constant : forall g i tp, reg_untouched g i tp = true ->
  forall (world : Type) (sem : opcode -> list Z -> world -> list Z * world) (semc : opcode -> list Z -> world -> bool)
         n pc T W pc' T' W',
  trun world sem semc n tp (pc, T, W) = Next (pc', T', W') -> rs T' g i = rs T g i.
Proof. intros g i tp H world sem semc. exact (untouched_constant world sem semc g i tp H). Qed.
Print Assumptions C05_undefined_register_is_constant.

Theorem C05_undefined_register_examples :
  reg_untouched 0 5 ex_good = true /\ reg_untouched 0 7 ex_good = false /\
  reg_untouched 0 5 [TMove (LReg 0 5) (LSlot 0) 8 false 8] = false /\ reg_untouched 0 5 [TSwap (LReg 0 1) (LReg 0 5) 8] = false /\
  reg_untouched 0 5 [TOp 1%N [(LReg 0 5, 8%nat)] [(LReg 0 1, 8%nat)]; TMove (LSlot 0) (LReg 0 5) 8 false 8] = true.
Proof. vm_compute. repeat split; reflexivity. Qed.
Print Assumptions C05_undefined_register_examples.

(* ---- frame condition of the allocator's inserted instructions (what must NOT change): a move, swap, label or jump of the
   allocated program leaves the world alone, every register it does not define and every stack byte outside the w bytes
   of a slot it stores to - for any program, configuration and instruction semantics. (The same instruction forms are
   executed on the host CPU on every run and compared with tstep on whole registers and a 128-byte stack window.) *)
Theorem C05_inserted_instructions_frame :
  forall (world : Type) (sem : opcode -> list Z -> world -> list Z * world) (semc : opcode -> list Z -> world -> bool)
         tp pc ins T W pc' T' W',
  nth_error tp pc = Some ins -> is_inserted_kind ins = true ->
  tstep world sem semc tp (pc, T, W) = Next (pc', T', W') ->
  W' = W /\ (forall g i, defines_reg g i ins = false -> rs T' g i = rs T g i) /\ (forall a, stores_byte ins a = false -> st T' a = st T a).
Proof. exact inserted_frame. Qed.
Print Assumptions C05_inserted_instructions_frame.

Theorem C05_inserted_instructions_frame_examples :
  stores_byte (TMove (LSlot 32) (LReg 1 1) 16 false 16) 31 = false /\ stores_byte (TMove (LSlot 32) (LReg 1 1) 16 false 16) 32 = true /\
  stores_byte (TMove (LSlot 32) (LReg 1 1) 16 false 16) 47 = true /\ stores_byte (TMove (LSlot 32) (LReg 1 1) 16 false 16) 48 = false /\
  stores_byte (TMove (LReg 0 1) (LSlot 32) 8 false 8) 32 = false /\ defines_reg 0 1 (TMove (LReg 0 1) (LSlot 32) 8 false 8) = true /\
  defines_reg 0 2 (TSwap (LReg 0 1) (LReg 0 2) 8) = true /\ defines_reg 0 3 (TSwap (LReg 0 1) (LReg 0 2) 8) = false /\
  is_inserted_kind (TOp 1%N [] []) = false.
Proof. vm_compute. repeat split; reflexivity. Qed.
Print Assumptions C05_inserted_instructions_frame_examples.

(* ---- by-reference call arguments: "lea p, [sp+k]" makes p the address of temporary k at instruction s; the copy
   "movaps [q], x" behind it is read as "slot k := x" only while q is in sa_from. This theorem: if instruction s, whenever
   it runs and falls through, leaves the address A in the registers m0, then along ANY execution from the entry, in front of
   any instruction other than a label, every register of sa_from aw p s m0 pc holds A (copies and exchanges are followed,
   any other definition, label or jump forgets) *)
Theorem C05_temporary_address_tracking_sound :
  forall (world : Type) (sem : opcode -> list Z -> world -> list Z * world) (semc : opcode -> list Z -> world -> bool)
         (aw : nat) (A : Z) (p : tprog) (s : nat) (m0 : list N) (n : nat) T0 W0 pc T W i,
  (forall T W T' W', tstep world sem semc p (s, T, W) = Next (S s, T', W') -> forall r, In r m0 -> tr aw (rs T' 0%N r) = A) ->
  trun world sem semc n p (0%nat, T0, W0) = Next (pc, T, W) ->
  nth_error p pc = Some i -> (forall l, i <> TLabel l) ->
  forall r, In r (sa_from aw p s m0 pc) -> tr aw (rs T 0%N r) = A.
Proof. intros world sem semc aw A p s m0 n T0 W0 pc T W i. exact (sa_from_sound_entry world sem semc aw A p s m0 n T0 W0 pc T W i). Qed.
Print Assumptions C05_temporary_address_tracking_sound.

Theorem C05_temporary_address_tracking_examples :
  let p := [TOp 1%N [] [(LReg 0 7, 8%nat)]; TOp 30%N [] [(LReg 0 0, 8%nat)]; TMove (LSlot 32) (LReg 1 1) 16 false 16;
            TMove (LReg 0 1) (LReg 0 0) 8 false 8; TOp 2%N [] [(LReg 0 0, 8%nat)]; TLabel 3%N; TMove (LReg 0 2) (LReg 0 1) 8 false 8] in
  map (sa_from 8 p 1 [0%N]) [0; 1; 2; 3; 4; 5; 6; 7]%nat = [[]; []; [0]; [0]; [1; 0]; [1]; []; []]%N.
Proof. vm_compute. reflexivity. Qed.
Print Assumptions C05_temporary_address_tracking_examples.

(* ---- completeness of the progress part: if ANY rank assignment passes check_progress, the inferred one (fuel = length of
   the program) passes. So the refusal "cycle-of-inserted-instructions" is never spurious: validate_full refuses an
   allocation that validate accepts only if NO ranking exists, i.e. the inserted code contains a cycle. *)
Theorem C05_progress_check_is_complete : forall tp, (exists rk, check_progress tp rk = true) -> check_progress tp (infer_ranks tp) = true.
Proof. exact progress_check_complete. Qed.
Print Assumptions C05_progress_check_is_complete.

Theorem C05_validate_full_refuses_only_real_cycles : forall sp tp hs,
  validate sp tp hs = true -> (exists rk, check_progress tp rk = true) -> validate_full sp tp hs = true.
Proof. intros sp tp hs Hv Hr. unfold validate_full. rewrite Hv. exact (progress_check_complete tp Hr). Qed.
Print Assumptions C05_validate_full_refuses_only_real_cycles.

(* not vacuous in both directions: the correct spill loop has a ranking (so the inferred one passes), and for the program
   whose inserted code spins NO ranking whatsoever passes *)
Theorem C05_progress_completeness_examples :
  check_progress ex_good (infer_ranks ex_good) = true /\ (forall rk, check_progress ex_spin rk = false).
Proof.
  split; [vm_compute; reflexivity|]. intros rk. destruct (check_progress ex_spin rk) eqn:H; [|reflexivity].
  assert (Hc : check_progress ex_spin (infer_ranks ex_spin) = true) by (apply progress_check_complete; exists rk; exact H).
  vm_compute in Hc. discriminate Hc.
Qed.
Print Assumptions C05_progress_completeness_examples.

(* ---- the progress check characterised: the inferred ranks pass IF the inserted code has no jump to a missing label and no
   silent cycle (k+1 inserted-kind steps leading from an instruction back to itself), and ONLY IF (any passing ranking
   excludes both). So "cycle-of-inserted-instructions" is refused exactly when such a cycle (or dangling jump) is in the
   dumped program text. *)
Theorem C05_progress_check_accepts_exactly_acyclic_inserted_code : forall tp,
  ((forall t, (t < length tp)%nat -> bad_jmp tp t = false) -> (forall k t, nxt_iter tp (S k) t <> Some t) ->
     check_progress tp (infer_ranks tp) = true) /\
  (forall rk, check_progress tp rk = true ->
     (forall t, (t < length tp)%nat -> bad_jmp tp t = false) /\ (forall k t, nxt_iter tp (S k) t <> Some t)).
Proof. intros tp. split; [exact (progress_check_acyclic tp)|exact (ranking_excludes_cycles tp)]. Qed.
Print Assumptions C05_progress_check_accepts_exactly_acyclic_inserted_code.

(* the refused example contains exactly such a cycle *)
Theorem C05_silent_cycle_example : exists t k, nxt_iter ex_spin (S k) t = Some t.
Proof.
  assert (H : existsb (fun t => existsb (fun k => match nxt_iter ex_spin (S k) t with Some x => Nat.eqb x t | None => false end) (seq 0 (length ex_spin))) (seq 0 (length ex_spin)) = true)
    by (vm_compute; reflexivity).
  apply existsb_exists in H. destruct H as [t [_ H]]. apply existsb_exists in H. destruct H as [k [_ H]].
  exists t, k. destruct (nxt_iter ex_spin (S k) t) as [x|]; [|discriminate]. apply Nat.eqb_eq in H. subst. reflexivity.
Qed.
Print Assumptions C05_silent_cycle_example.

(* ---- the refusal is justified semantically: inserted-kind instructions step to their silent successor whatever the
   instruction semantics and the machine state are, so an allocated program standing at an instruction of a silent cycle
   runs forever - it never returns, never gets stuck and never changes the world again *)
Theorem C05_silent_cycle_diverges :
  forall (world : Type) (sem : opcode -> list Z -> world -> list Z * world) (semc : opcode -> list Z -> world -> bool) tp k t,
  nxt_iter tp (S k) t = Some t ->
  forall T W n, exists pc T', trun world sem semc n tp (t, T, W) = Next (pc, T', W).
Proof. exact silent_cycle_diverges. Qed.
Print Assumptions C05_silent_cycle_diverges.

(* ---- read side of the classification: for a register operand that is read (x86; not narrowed by a memory form) every byte
   of the read mask lies below a use width that classify emits - whatever the write side adds to or changes in the result *)
Theorem C05_classify_read_covers_read_mask : forall id r,
  r_read r = true -> id <> IWO -> r_ismem r = false -> (r_write r = true \/ r_isrm r = false \/ r_rm r = O) ->
  forall i, mbit (r_rmask r) i = true -> exists u, In u (fst (classify false id r)) /\ (i < u)%nat.
Proof. exact classify_read_covers_mask. Qed.
Print Assumptions C05_classify_read_covers_read_mask.

(* not vacuous: paddd's destination (reads and writes 16 bytes) and a read-only 8-byte source; with the write-only idiom
   class the read is deliberately dropped (the hypothesis id <> IWO is needed) *)
Theorem C05_classify_read_examples :
  classify false INone (raw_sse_dst true 65535 0 0 false) = ([16], [16])%nat /\
  classify false INone (mkRaw true false 255 0 0 0 false 8 false 8 false) = ([8], [])%nat /\
  classify false IWO (mkRaw true true 255 255 0 0 false 8 false 8 true) = ([], [8])%nat /\
  mbit 255 7 = true /\ mbit 255 8 = false.
Proof. vm_compute. repeat split; reflexivity. Qed.
Print Assumptions C05_classify_read_examples.

(* ---- completeness of the register-list condition: every list the CPU can use (the expansion of any lead register, of any
   length) is accepted by consec_ok - together with C05_register_list_is_what_the_cpu_uses the check accepts exactly the
   consecutive (modulo 32) lists *)
Theorem C05_register_list_check_is_complete : forall g id n, consec_ok (expand_list g id n) = true.
Proof. exact consec_ok_complete. Qed.
Print Assumptions C05_register_list_check_is_complete.

(* ================================================================== round 7 *)

(* ---- register-list members with the hypothesis id < 32 discharged: the lead register is whatever the instruction encodes,
   every further member is the successor modulo 32 (C05_register_list_members is the special case id < 32) *)
Theorem C05_register_list_members_any_lead : forall g n id i, (i < n)%nat ->
  nth i (expand_list g id n) (LSlot 0) = LReg g (if Nat.eqb i 0 then id else N.modulo (id + N.of_nat i) 32).
Proof. exact expand_list_nth_any. Qed.
Print Assumptions C05_register_list_members_any_lead.

Theorem C05_register_list_members_examples :
  nth 2 (expand_list 1 30 3) (LSlot 0) = LReg 1 0 /\ nth 0 (expand_list 1 30 3) (LSlot 0) = LReg 1 30 /\
  nth 1 (expand_list 1 31 2) (LSlot 0) = LReg 1 0 /\ nth 3 (expand_list 1 4 4) (LSlot 0) = LReg 1 7.
Proof. vm_compute. repeat split; reflexivity. Qed.
Print Assumptions C05_register_list_members_examples.

(* ---- sequence-level lift of C05_inserted_instructions_frame: a run of k inserted-kind instructions (moves, swaps, labels,
   jumps) takes the allocated program from t to its k-th silent successor for ANY instruction semantics and machine state,
   and the world (memory of the program, calls made) is exactly what it was *)
Theorem C05_inserted_code_runs_keep_the_world :
  forall (world : Type) (sem : opcode -> list Z -> world -> list Z * world) (semc : opcode -> list Z -> world -> bool) tp k t x T W,
  nxt_iter tp k t = Some x -> exists T', trun world sem semc k tp (t, T, W) = Next (x, T', W).
Proof. exact silent_steps_keep_world. Qed.
Print Assumptions C05_inserted_code_runs_keep_the_world.

(* not vacuous: in the accepted spill loop three inserted instructions lead from pc 2 to pc 5; a matched instruction has no
   silent successor *)
Theorem C05_inserted_code_run_example : nxt_iter ex_good 3 2 = Some 5%nat /\ nxt_iter ex_good 1 0 = None.
Proof. vm_compute. split; reflexivity. Qed.
Print Assumptions C05_inserted_code_run_example.

(* ---- divergence is preserved (sequence-level consequence of C05_validate_sound_return): if the source program never
   returns from V0/W, an accepted allocated program never returns either, from any initial registers and stack *)
Theorem C05_divergence_preserved : forall sp tp hs, validate sp tp hs = true ->
  forall (world : Type) (sem : opcode -> list Z -> world -> list Z * world) (semc : opcode -> list Z -> world -> bool) V0 T0 W,
  (forall k res W', srun world sem semc k sp (O, V0, W) <> Halt res W') ->
  forall n res W', trun world sem semc n tp (O, T0, W) <> Halt res W'.
Proof.
  intros sp tp hs Hv world sem semc V0 T0 W Hdiv n res W' Hh.
  destruct (validate_sound_halt sp tp hs Hv world sem semc V0 T0 W n res W' Hh) as [k Hk]. exact (Hdiv k res W' Hk).
Qed.
Print Assumptions C05_divergence_preserved.

(* not vacuous: a source loop that never exits when its branch is always taken, an accepted allocation of it, and the
   conclusion of C05_divergence_preserved for them *)
Definition ex_src_forever : sprog := [ SOp 10%N [] [(1%N, 8%nat)]; SLabel 1%N; SCond 20%N [(1%N, 8%nat)] 1%N; SRet [(1%N, 8%nat)] ].
Definition ex_forever : tprog := [ TOp 10%N [] [(LReg 0 7, 8%nat)]; TLabel 1%N; TCond 20%N [(LReg 0 7, 8%nat)] 1%N; TRet [(LReg 0 7, 8%nat)] ].
Theorem C05_divergence_example :
  validate ex_src_forever ex_forever [Some 0; Some 1; Some 2; Some 3]%nat = true /\
  forall (sem : opcode -> list Z -> unit -> list Z * unit) V0 T0 n res W',
    trun unit sem (fun _ _ _ => true) n ex_forever (O, T0, tt) <> Halt res W' /\
    srun unit sem (fun _ _ _ => true) n ex_src_forever (O, V0, tt) <> Halt res W'.
Proof.
  assert (Hv : validate ex_src_forever ex_forever [Some 0; Some 1; Some 2; Some 3]%nat = true) by (vm_compute; reflexivity).
  split; [exact Hv|]. intros sem V0 T0 n res W'.
  assert (Hs : forall k pc V W, (pc = 1 \/ pc = 2)%nat -> exists c, srun unit sem (fun _ _ _ => true) k ex_src_forever (pc, V, W) = Next c).
  { induction k; intros pc V W Hpc; [eexists; reflexivity|]. destruct Hpc as [-> | ->]; cbn [srun sstep nth_error ex_src_forever].
    - apply IHk. right. reflexivity.
    - cbn. apply IHk. left. reflexivity. }
  assert (Hdiv : forall k res W', srun unit sem (fun _ _ _ => true) k ex_src_forever (O, V0, tt) <> Halt res W').
  { intros k r w. destruct k; [discriminate|]. cbn [srun sstep nth_error ex_src_forever]. destruct (sem 10%N _ tt) as [rs w1].
    destruct (Hs k 1%nat (swrite V0 [(1%N, 8%nat)] rs) w1 (or_introl eq_refl)) as [c Hc]. rewrite Nat.add_1_r in *. cbn. cbn in Hc. rewrite Hc. discriminate. }
  split; [|apply Hdiv].
  exact (C05_divergence_preserved ex_src_forever ex_forever _ Hv unit sem (fun _ _ _ => true) V0 T0 tt Hdiv n res W').
Qed.
Print Assumptions C05_divergence_example.

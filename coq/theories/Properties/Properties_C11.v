(* C11 — JIT memory management and independent code generation are thread-safe.
   This file holds ONLY the property theorems (each closed by `exact <lemma>`) and their Print Assumptions.
   entry_points / writable_globals are REGENERATED from /repo's working tree on every run (coq/gen/LockSkeleton.v from the
   clang AST of jitallocator.cpp + jitruntime.cpp, coq/gen/WritableGlobals.v from the static build). *)
From Coq Require Import String List Bool ZArith Permutation.
From Verif Require Import Jit.JitModel Jit.JitBits Jit.JitBlockProofs Jit.JitProofs Jit.JitWitness Conc.JitConcProofs Conc.RefineProofs.
From Verif Require Import Conc.LockModel Conc.LockProofs Conc.ConcModel Conc.ConcProofs Conc.ProgramProofs Conc.FreshProofs.
From Verif Require Import Conc.StaticsModel Conc.StaticsProofs.
From VerifGen Require Import LockSkeleton WritableGlobals StaticsSkeleton.
Import ListNotations.

(* ---- obligations re-proved over the regenerated skeleton (reflection) *)

(* every access of every public JitAllocator/JitRuntime entry point (all of them except reset) to a member that some entry
   point writes lies inside a LockGuard on JitAllocatorPrivateImpl::lock (incl. write -> JitAllocatorImpl_shrink); no lock is
   re-acquired while held; no callback runs under the lock; no unknown callee, unclassified class or non-const static *)
Theorem C11_all_shared_access_locked : check_program entry_points = [].
Proof. exact skeleton_ok. Qed.
Print Assumptions C11_all_shared_access_locked.

(* the skeleton is not vacuous: alloc/release/shrink/query/statistics/write(fn)/_add/_release are present and contain a locked
   region, and the allocator's bookkeeping members were all seen being written (hence are protected) *)
Theorem C11_skeleton_coverage : coverage_diag entry_points = [].
Proof. exact skeleton_coverage. Qed.
Print Assumptions C11_skeleton_coverage.

(* what SLocked abstracts is what the code does: LockGuard's constructor calls Lock::lock and its destructor Lock::unlock, and
   these are pthread_mutex_lock / pthread_mutex_unlock (not the no-op fallback of osutils_p.h) in the checked configuration *)
Theorem C11_lock_is_a_mutex : check_lock_impl lock_impl = [].
Proof. exact lock_impl_ok. Qed.
Print Assumptions C11_lock_is_a_mutex.

(* the hypotheses of C11_locked_entry_points are satisfiable: every skeleton has its canonical execution, and for each of
   alloc/release/shrink/query/statistics/write(fn)/_add/_release that execution acquires the lock and accesses protected
   members while holding it *)
Theorem C11_entry_points_executable : forall name s,
  In (name, s) entry_points -> exec s (fst (default_trace s)) (snd (default_trace s)).
Proof. exact (fun _ s _ => default_trace_exec s). Qed.
Print Assumptions C11_entry_points_executable.

Theorem C11_locked_work_nonvacuous : nonvacuous_diag entry_points = [].
Proof. exact skeleton_nonvacuous. Qed.
Print Assumptions C11_locked_work_nonvacuous.

(* every data object of the static library in a writable section is on the reviewed allow-list (host CPU cache + flag,
   VirtMem function-local atomics / init-once caches): no other shared mutable state behind the API *)
Theorem C11_no_shared_mutable_globals : forall g, In g writable_globals -> global_allowed g = true.
Proof. exact (check_globals_sound writable_globals globals_ok). Qed.
Print Assumptions C11_no_shared_mutable_globals.

(* ---- consequences for every execution (generic theorems of the mutex model instantiated with the checked skeleton) *)

(* every event sequence of every entry point, on every path (both branches, any number of loop iterations, any early exit),
   touches protected members only with the lock held, never writes an immutable member, never re-acquires, and releases
   the lock before it returns *)
Theorem C11_locked_entry_points : forall name s t abrupt,
  In (name, s) entry_points -> exec s t abrupt ->
  wl (prot_of (written entry_points)) false t = Some false.
Proof. exact (fun name s t abrupt => entry_point_well_locked entry_points name s t abrupt skeleton_ok). Qed.
Print Assumptions C11_locked_entry_points.

(* outside their critical sections the entry points (in particular JitRuntime::_add with its CodeHolder flatten / relocate / copy
   step, and the destructors of their local RAII objects) perform only thread-local steps - on the caller's CodeHolder, Span and the
   bytes of its own span, all thread-owned, hence covered by C11_independent_threads - and reads of never-written members *)
Theorem C11_outside_lock_thread_local : forall name s t abrupt,
  In (name, s) entry_points -> exec s t abrupt ->
  unlocked_local (prot_of (written entry_points)) false t = true.
Proof. exact (fun name s t abrupt => entry_point_unlocked_part_local entry_points name s t abrupt skeleton_ok). Qed.
Print Assumptions C11_outside_lock_thread_local.

(* DATA-RACE FREEDOM for any number of threads calling any sequences of entry points on one allocator/runtime, under every
   interleaving the mutex admits: two conflicting accesses (same cell, at least one write) of different threads are always
   separated by a release of the lock by the first thread followed by an acquire by the second (ordered by happens-before) *)
Theorem C11_drf : forall m tr s a i e1 b j e2 c,
  runs_program entry_points tr -> run (init m) tr = Some s ->
  tr = a ++ (i, e1) :: b ++ (j, e2) :: c -> i <> j -> conflict e1 e2 ->
  exists b1 b2 b3, b = b1 ++ (i, ERel) :: b2 ++ (j, EAcq) :: b3.
Proof. exact (fun m tr s a i e1 b j e2 c => program_drf entry_points m tr s a i e1 b j e2 c skeleton_ok). Qed.
Print Assumptions C11_drf.

(* LINEARISABILITY / SERIALISABILITY: every such concurrent execution has the same final state, the same per-thread events and
   values read, and the same order of lock operations and protected accesses as an execution in which each critical section
   (= one allocator operation body) runs alone; the sequential specification of the allocator (C09) therefore applies to
   the sequence of critical sections in the order of their acquires *)
Theorem C11_linearizable : forall m tr s,
  runs_program entry_points tr -> run (init m) tr = Some s ->
  run (init m) (ser tr) = Some s /\
  (forall i, proj i (ser tr) = proj i tr) /\
  serial None (ser tr) /\
  filter (keyb (prot_of (written entry_points))) (ser tr) = filter (keyb (prot_of (written entry_points))) tr.
Proof. exact (fun m tr s => program_serialisable entry_points m tr s skeleton_ok). Qed.
Print Assumptions C11_linearizable.

(* no self-deadlock: the thread that holds the allocator lock never tries to acquire it *)
Theorem C11_holder_never_blocks : forall m tr s i e rest,
  runs_program entry_points (tr ++ (i, e) :: rest) -> run (init m) tr = Some s -> st_owner s = Some i -> e <> EAcq.
Proof. exact (fun m tr s i e rest => program_holder_never_blocks entry_points m tr s i e rest skeleton_ok). Qed.
Print Assumptions C11_holder_never_blocks.

(* INDEPENDENT THREADS: when every cell is touched only by the thread owning its object (own holder, emitters, compiler; no
   shared mutable state - see C11_no_shared_mutable_globals) each thread reads exactly what it would read alone and leaves
   its objects exactly as it would alone: it obtains the code it would obtain alone *)
Theorem C11_independent_threads : forall (own : nat -> nat) m tr s,
  run (init m) tr = Some s ->
  (forall k e, In (k, e) tr ->
     match e with ERd o _ _ | EWr o _ _ => own o = k | ETau => True | EAcq | ERel => False end) ->
  forall i, exists si, run (init m) (alone i tr) = Some si /\
                       forall o f, own o = i -> st_mem si o f = st_mem s o f.
Proof. exact independent_threads_alone. Qed.
Print Assumptions C11_independent_threads.

(* the hypotheses of the two execution theorems are satisfiable (a racing-free two-thread execution that is not serial) *)
Theorem C11_hypotheses_satisfiable :
  let prot := fun _ : field => true in
  let f := ("C", "x")%string in
  let tr := [(0, EAcq); (1, ETau); (0, EWr 0 f 1%Z); (0, ERel); (1, EAcq); (1, ERd 0 f 1%Z); (1, EWr 0 f 2%Z); (1, ERel)] in
  (exists s, run (init (fun _ _ => 0%Z)) tr = Some s) /\ disciplined prot tr /\ ser tr <> tr.
Proof. exact serialisable_hyp_sat. Qed.
Print Assumptions C11_hypotheses_satisfiable.

(* ---- fresh-object refinement: members only initialised by the constructor of their object (under the lock) may be read
   without the lock.  Soundness: the initialising write of a fresh object is ordered before every read by another thread,
   provided other threads touch the object for the first time while holding the lock (they learn the pointer from the
   lock-protected tree / list / cursor or from a locked alloc) — that proviso is a trusted fact about the code *)
Theorem C11_init_once_published : forall m tr s a i o f v b j v' c,
  run (init m) tr = Some s ->
  tr = a ++ (i, EWr o f v) :: b ++ (j, ERd o f v') :: c -> i <> j ->
  holds false (proj i a) = true ->
  (forall k e, In (k, e) a -> k <> i -> mentions e o = false) ->
  (forall pre k e post, tr = pre ++ (k, e) :: post -> k <> i -> mentions e o = true ->
     (forall e0, In (k, e0) pre -> mentions e0 o = false) -> holds false (proj k pre) = true) ->
  exists b1 b2 b3, b = b1 ++ (i, ERel) :: b2 ++ (j, EAcq) :: b3.
Proof. exact init_once_published. Qed.
Print Assumptions C11_init_once_published.

(* ---- C09 lifted to concurrent histories (critical sections in acquire order, C11_linearizable): if every thread releases and
   shrinks only spans it obtained itself and has not released (conc_reach), then in EVERY interleaving every operation is a
   valid operation of the sequential model, so every state is reachable there and all C09 theorems apply *)
Local Open Scope Z_scope.
Theorem C11_c09_lifts : forall c st own, cfg_ok c -> conc_reach c st own ->
  reach c st /\ keys_live (blocks st) own /\ NoDup (map snd own).
Proof. exact conc_reach_sound. Qed.
Print Assumptions C11_c09_lifts.

Theorem C11_c09_invariant_concurrent : forall c st own, cfg_ok c -> conc_reach c st own -> ginv c st.
Proof. exact conc_ginv. Qed.
Print Assumptions C11_c09_invariant_concurrent.

Theorem C11_c09_live_disjoint_concurrent : forall c st own, cfg_ok c -> conc_reach c st own ->
  forall b1 b2 sp1 sp2, In b1 (blocks st) -> In b2 (blocks st) -> In sp1 (b_live b1) -> In sp2 (b_live b2) ->
  (b_id b1 = b_id b2 -> b1 = b2) /\
  (1 <= snd sp1 /\ b_pad b1 <= fst sp1 /\ fst sp1 + snd sp1 <= b_area b1) /\
  (b1 = b2 -> forall i, in_span sp1 i -> in_span sp2 i -> sp1 = sp2).
Proof. exact conc_live_disjoint. Qed.
Print Assumptions C11_c09_live_disjoint_concurrent.

Theorem C11_c09_stats_exact_concurrent : forall c st own, cfg_ok c -> conc_reach c st own ->
  s_allocs (statistics c st) = total_live (blocks st) /\
  s_used (statistics c st) =
    fold_right (fun b a => (b_pad b + sum_len (b_live b)) * pool_gran c (b_pool b) + a) 0 (blocks st) /\
  s_reserved (statistics c st) = fold_right (fun b a => b_area b * pool_gran c (b_pool b) + a) 0 (blocks st).
Proof. exact conc_stats_exact. Qed.
Print Assumptions C11_c09_stats_exact_concurrent.

(* per-thread ownership: spans owned by different threads are different live spans (their granules are disjoint by the
   theorem above) *)
Theorem C11_owned_spans_distinct : forall c st own (i j : nat) k1 k2, cfg_ok c -> conc_reach c st own ->
  In (i, k1) own -> In (j, k2) own -> i <> j ->
  k1 <> k2 /\ (exists n1, In (fst k1, (snd k1, n1)) (all_live (blocks st))) /\
              (exists n2, In (fst k2, (snd k2, n2)) (all_live (blocks st))).
Proof. exact owned_spans_distinct. Qed.
Print Assumptions C11_owned_spans_distinct.

Theorem C11_concurrent_history_satisfiable : exists st own, conc_reach cfg_f st own /\ map fst own = [1%nat].
Proof. exact conc_reach_example. Qed.
Print Assumptions C11_concurrent_history_satisfiable.

(* ---- round 3 *)
Local Close Scope Z_scope.

(* the first-touch proviso of C11_init_once_published follows from the lock discipline plus object knowledge: thread j read the
   address of o from a lock-protected pointer cell (tree / list links, pool cursor - all in required_protected, re-checked against
   the skeleton by C11_skeleton_coverage) before using it, and nobody had seen that address before the object was created *)
Theorem C11_init_once_published_by_knowledge : forall prot m tr s a i o f v b j v' c,
  run (init m) tr = Some s -> disciplined prot tr ->
  tr = a ++ (i, EWr o f v) :: b ++ (j, ERd o f v') :: c -> i <> j ->
  holds false (proj i a) = true ->
  (forall k o' f', In (k, ERd o' f' (Z.of_nat o)) a -> prot f' = true -> k = i) ->
  (exists pre o' f' post, a ++ (i, EWr o f v) :: b = pre ++ (j, ERd o' f' (Z.of_nat o)) :: post /\ prot f' = true) ->
  exists b1 b2 b3, b = b1 ++ (i, ERel) :: b2 ++ (j, EAcq) :: b3.
Proof. exact init_once_published_by_knowledge. Qed.
Print Assumptions C11_init_once_published_by_knowledge.

(* ONE theorem from the cell-level event model to the sequential C09 model: for every concurrent execution of disciplined
   threads (all critical sections closed), if each critical section executed alone implements the C09 step it is labelled with
   (seq_refines: the sequential correspondence C09's check establishes) and threads release / shrink only their own spans
   (conc_ok on the labels), then the abstraction of the final memory IS the state the sequential model reaches by running the
   labels in the order of the lock acquisitions, it is reachable there, and the C09 invariant holds of it *)
Theorem C11_concurrent_refines_c09 : forall c prot abs lab is_section m tr s,
  cfg_ok c ->
  run (init m) tr = Some s -> disciplined prot tr -> st_owner s = None ->
  abs m = init_state c ->
  seq_refines c abs lab is_section ->
  Forall (fun sec => is_section (fst sec) (snd sec)) (sections None (ser tr)) ->
  let ops := map (fun sec => (fst sec, lab (fst sec) (snd sec))) (sections None (ser tr)) in
  conc_ok c (init_state c) [] ops ->
  abs (st_mem s) = JitModel.run c (init_state c) (map snd ops) /\
  reach c (abs (st_mem s)) /\ ginv c (abs (st_mem s)) /\ exists own, conc_reach c (abs (st_mem s)) own.
Proof. exact concurrent_refines_c09. Qed.
Print Assumptions C11_concurrent_refines_c09.

Theorem C11_refinement_hypotheses_satisfiable :
  let c := cfg_f in
  let abs := fun _ : memory => init_state c in
  let lab := fun (_ : nat) (_ : list ev) => OQuery 0 0 in
  let is_section := fun (_ : nat) (_ : list ev) => True in
  let m := fun (_ : nat) (_ : field) => 0%Z in
  let tr := [(0%nat, EAcq); (0%nat, ETau); (0%nat, ERel)] in
  cfg_ok c /\ (exists s, run (init m) tr = Some s /\ st_owner s = None) /\ disciplined (fun _ => true) tr /\
  abs m = init_state c /\ seq_refines c abs lab is_section /\
  Forall (fun sec => is_section (fst sec) (snd sec)) (sections None (ser tr)) /\
  conc_ok c (init_state c) [] (map (fun sec => (fst sec, lab (fst sec) (snd sec))) (sections None (ser tr))).
Proof. exact refine_hyps_sat. Qed.
Print Assumptions C11_refinement_hypotheses_satisfiable.

(* ---- the process-wide caches (VirtMem::info / large_page_size / hardened_runtime_info / dual-mapping helpers, CpuInfo::host):
   skeleton of every access to a variable with static storage duration in these functions, regenerated from the clang AST of
   virtmem.cpp and cpuinfo.cpp.  Every static is a std::atomic, or a listed init-once static that is written only inside
   `if (!flag)` of its own guard flag *)
Theorem C11_statics_guarded : vcheck_program static_entry_points = [].
Proof. exact statics_ok. Qed.
Print Assumptions C11_statics_guarded.

(* hence, once the host information has been initialised (no guard flag is observed zero any more), these functions write no
   non-atomic static at all: what remains are atomic operations and reads, which cannot race - the "no shared mutable state
   behind the API once the host information has been initialised" half of the property, for the caches *)
Theorem C11_statics_warm_no_writes : forall name s t fl,
  In (name, s) static_entry_points -> vexec s t fl ->
  (forall g, ~ In (VZero g) t) -> forall n, ~ In (VWr n) t.
Proof. exact (fun name s t fl => warm_no_plain_writes static_entry_points name s t fl statics_ok). Qed.
Print Assumptions C11_statics_warm_no_writes.

(* ---- round 4: value-aware guards.  The skeleton records `flag.store(<non-zero literal>)`; under the value-aware semantics
   (a guard `if (!g)` is entered iff g is zero) one normally completing call of VirtMem::info / CpuInfo::host always leaves its
   guard flag set (reflection over the regenerated skeleton) ... *)
Theorem C11_statics_warmup_sets_flags : warmup_diag static_entry_points = [].
Proof. exact statics_warmup_ok. Qed.
Print Assumptions C11_statics_warmup_sets_flags.

(* ... hence after ONE warming call every later call - whatever else set flags in between - never observes the flag zero and
   writes no non-atomic static guarded by it: the premise "once the host information has been initialised" is established by a
   single call of info()/host() (what JitRuntime's constructor does) *)
Theorem C11_statics_warm_after_first_call : forall name s g nz t1 fl1 nz1 nz1' t2 fl nz2,
  In (name, s) static_entry_points -> always_sets g s = true ->
  vrun nz s t1 fl1 nz1 -> (forall x, nz1 x = true -> nz1' x = true) -> vrun nz1' s t2 fl nz2 ->
  ~ In (VZero g) t2 /\ forall n, guard_of n = Some g -> ~ In (VWr n) t2.
Proof. exact (fun name s g nz t1 fl1 nz1 nz1' t2 fl nz2 => warm_after_first_call static_entry_points name s g nz t1 fl1 nz1 nz1' t2 fl nz2 statics_ok). Qed.
Print Assumptions C11_statics_warm_after_first_call.

(* ---- round 5 *)
(* frame of the value-aware runs: a call leaves every flag it has no store for exactly as it was - in particular no call ever
   clears a guard flag, so "warm" can never become "cold" again *)
Theorem C11_statics_flags_frame : forall nz s t fl nz', vrun nz s t fl nz' -> forall x, ~ In x (sets_of s) -> nz' x = nz x.
Proof. exact vrun_frame. Qed.
Print Assumptions C11_statics_flags_frame.

(* non-vacuity of C11_statics_warm_after_first_call: a cold call that writes the cache, then a warm call that does not *)
Theorem C11_statics_warm_satisfiable :
  vcheck_program [("f"%string, info_like)] = [] /\ always_sets "VirtMem::info::vm_info_initialized"%string info_like = true /\
  exists t1 nz1 t2 nz2,
    vrun (fun _ => false) info_like t1 false nz1 /\ In (VWr "VirtMem::info::vm_info"%string) t1 /\
    vrun nz1 info_like t2 false nz2 /\ ~ In (VWr "VirtMem::info::vm_info"%string) t2.
Proof. exact warm_after_first_call_sat. Qed.
Print Assumptions C11_statics_warm_satisfiable.

(* the ownership hypothesis conc_ok of C11_concurrent_refines_c09 is decided by an executable check ... *)
Theorem C11_ownership_discipline_decided : forall c ops st own, conc_okb c st own ops = true -> conc_ok c st own ops.
Proof. exact conc_okb_sound. Qed.
Print Assumptions C11_ownership_discipline_decided.

(* ... and is non-vacuous: two threads interleaving alloc / shrink / query / release of their own spans *)
Theorem C11_disciplined_history_example :
  conc_ok cfg_f (init_state cfg_f) []
    [(0%nat, OAlloc 100%Z); (1%nat, OAlloc 5000%Z); (0%nat, OShrink 0%Z 64%Z 64%Z); (1%nat, OQuery 0%Z 64%Z); (1%nat, ORelease 0%Z 192%Z); (0%nat, ORelease 0%Z 64%Z)].
Proof. exact conc_ok_example. Qed.
Print Assumptions C11_disciplined_history_example.

(* NO DEADLOCK ON THE ALLOCATOR LOCK (with C11_holder_never_blocks): whenever a thread of the program holds the lock, its
   remaining events contain the release, with no acquire (and no other release) before it - the holder only has to keep running *)
Theorem C11_holder_releases : forall t done rest,
  thread_trace entry_points t -> t = done ++ rest ->
  wl (prot_of (written entry_points)) false done = Some true ->
  exists r1 r2, rest = r1 ++ ERel :: r2 /\ ~ In EAcq r1 /\ ~ In ERel r1.
Proof. exact (fun t done rest => thread_holder_releases entry_points t done rest skeleton_ok). Qed.
Print Assumptions C11_holder_releases.

(* the serialisation of C11_linearizable only reorders the execution: it has exactly the same events (nothing dropped, nothing
   invented), for every trace whatsoever *)
Theorem C11_serialisation_is_permutation : forall tr, Permutation tr (ser tr).
Proof. exact ser_permutation. Qed.
Print Assumptions C11_serialisation_is_permutation.

(* ---- round 6 *)
(* frame of the serialisation: an execution that is already serial is returned unchanged, so serialising is idempotent *)
Theorem C11_serialisation_fixes_serial : forall tr, serial None tr -> ser tr = tr.
Proof. exact ser_serial_id. Qed.
Print Assumptions C11_serialisation_fixes_serial.

Theorem C11_serialisation_idempotent : forall prot m tr s, run (init m) tr = Some s -> disciplined prot tr -> ser (ser tr) = ser tr.
Proof. exact ser_idempotent. Qed.
Print Assumptions C11_serialisation_idempotent.

(* the classic formulation of data-race freedom: no reachable state of the program enables two conflicting accesses of different
   threads at the same time (if both one-event extensions are executions of disciplined threads, the threads are the same) *)
Theorem C11_no_simultaneous_conflict : forall m tr s i e1 j e2,
  run (init m) tr = Some s ->
  runs_program entry_points (tr ++ [(i, e1)]) -> runs_program entry_points (tr ++ [(j, e2)]) ->
  conflict e1 e2 -> i = j.
Proof.
  exact (fun m tr s i e1 j e2 Hr H1 H2 =>
    no_simultaneous_conflict (prot_of (written entry_points)) m tr s i e1 j e2 Hr
      (program_disciplined entry_points _ skeleton_ok H1) (program_disciplined entry_points _ skeleton_ok H2)).
Qed.
Print Assumptions C11_no_simultaneous_conflict.

(* the ownership discipline is DECIDABLE: completeness direction added to C11_ownership_discipline_decided *)
Local Open Scope Z_scope.
Theorem C11_ownership_discipline_iff : forall c ops st own, conc_okb c st own ops = true <-> conc_ok c st own ops.
Proof. exact conc_okb_iff. Qed.
Print Assumptions C11_ownership_discipline_iff.

(* ... and it really excludes something: thread 1 releasing thread 0's span is not a disciplined history *)
Theorem C11_undisciplined_history_rejected :
  ~ conc_ok cfg_f (init_state cfg_f) [] [(0%nat, OAlloc 100); (1%nat, ORelease 0 64)].
Proof. exact conc_ok_negative_example. Qed.
Print Assumptions C11_undisciplined_history_rejected.

(* what a thread gets from a successful alloc in the middle of ANY concurrent history (C09_alloc_result lifted) and, new, that the
   span it gets is owned by nobody - neither by another thread nor by itself *)
Theorem C11_c09_alloc_result_concurrent : forall c st own size st' id off len, cfg_ok c -> conc_reach c st own ->
  0 <= size -> size + c_gran c <= two64 -> alloc c st size = (st', RAlloc Ok id off len) ->
  (size <= len < size + c_gran c /\ len mod c_gran c = 0 /\
   exists b, In b (blocks st') /\ b_id b = id /\ b_pool b = size_to_pool c len /\
             off mod pool_gran c (b_pool b) = 0 /\ len mod pool_gran c (b_pool b) = 0 /\
             In (off / pool_gran c (b_pool b), len / pool_gran c (b_pool b)) (b_live b) /\
             (nextid st' <> nextid st ->
              forall b0, In b0 (blocks st) -> b_pool b0 = b_pool b -> no_room b0 (len / pool_gran c (b_pool b)))) /\
  (forall (j : nat) k, In (j, k) own -> k <> (id, off / pool_gran c (size_to_pool c len))).
Proof. exact conc_alloc_result. Qed.
Print Assumptions C11_c09_alloc_result_concurrent.
Local Close Scope Z_scope.

(* warm threads cannot race on the process-wide caches: any number of threads calling the checked cache functions with every
   guard flag already set - no two of their events conflict, whatever the interleaving (there is no write at all) *)
Theorem C11_statics_warm_threads_race_free : forall (ts : list (list vev)),
  (forall t, In t ts -> exists name s fl, In (name, s) static_entry_points /\ vexec s t fl /\ forall g, ~ In (VZero g) t) ->
  forall t1 t2 a b, In t1 ts -> In t2 ts -> In a t1 -> In b t2 -> ~ vconflict a b.
Proof. exact (fun ts => warm_threads_race_free static_entry_points ts statics_ok). Qed.
Print Assumptions C11_statics_warm_threads_race_free.

Theorem C11_statics_warm_threads_satisfiable :
  let t := [VTau; VRd "VirtMem::info::vm_info"%string] in
  vcheck_program [("f"%string, info_like)] = [] /\ vexec info_like t false /\ (forall g, ~ In (VZero g) t) /\
  In (VRd "VirtMem::info::vm_info"%string) t.
Proof. exact warm_threads_race_free_sat. Qed.
Print Assumptions C11_statics_warm_threads_satisfiable.

(* the entry points excluded by the documented contract (JitAllocator::reset, JitRuntime::reset) are translated too, and the checker
   REJECTS them: they touch protected members without the lock, so leaving them out of the thread-safe set is necessary, not
   merely convenient (re-proved per run over the regenerated skeleton) *)
Theorem C11_reset_exclusion_necessary : forall p, In p excluded_entry_skeletons -> chk (written entry_points) false (snd p) <> [].
Proof. exact (excluded_unsafe_sound entry_points excluded_entry_skeletons excluded_unsafe). Qed.
Print Assumptions C11_reset_exclusion_necessary.

(* COMPLETENESS of the lock-discipline check on live code: whenever the reachability-aware checker `viol` finds an unlocked
   access to a protected member, a re-acquire or an unsupported lock construct, SOME execution of the skeleton really breaks
   the discipline - there are no false alarms except on dead code (statements after one that cannot complete normally) ... *)
Theorem C11_checker_complete_on_live_code : forall wr s h, viol wr h s = true ->
  exists t abrupt, exec s t abrupt /\ wl (prot_of wr) h t = None.
Proof. exact viol_complete. Qed.
Print Assumptions C11_checker_complete_on_live_code.

(* ... and the reflective checker used for the obligations is at least as strict: what it accepts has no live violation *)
Theorem C11_checkers_agree : forall wr s h, chk wr h s = [] -> viol wr h s = false.
Proof. exact chk_nil_no_viol. Qed.
Print Assumptions C11_checkers_agree.

(* non-vacuity, and the dead-code gap made explicit: the write after the locked region is a live violation, the write after a
   return is flagged only by the (stricter) reflective checker *)
Theorem C11_checker_completeness_example :
  let w := SAcc "f"%string "JitAllocatorPool"%string "cursor"%string W in
  let wr := [("JitAllocatorPool"%string, "cursor"%string)] in
  viol wr false (SSeq (SLocked "f"%string "JitAllocatorPrivateImpl"%string "lock"%string w) w) = true /\
  viol wr false (SSeq SRet w) = false /\ chk wr false (SSeq SRet w) <> [].
Proof. exact viol_example. Qed.
Print Assumptions C11_checker_completeness_example.

(* ---- round 7: sequence-level lift of the warm-up theorem.  Once a guard flag is set, NO call in ANY later sequence of calls of
   the checked cache functions (any of them, in any order, any number) observes it zero or writes a static guarded by it *)
Theorem C11_statics_warm_stable_under_calls : forall g nz ts nz',
  nz g = true -> vrun_calls static_entry_points nz ts nz' ->
  nz' g = true /\ forall t, In t ts -> ~ In (VZero g) t /\ forall n, guard_of n = Some g -> ~ In (VWr n) t.
Proof. exact (fun g nz ts nz' => warm_stable_under_calls static_entry_points g nz ts nz' statics_ok). Qed.
Print Assumptions C11_statics_warm_stable_under_calls.

(* one warming call of info()/host() followed by an arbitrary sequence of calls *)
Theorem C11_statics_warm_call_then_any_calls : forall name s g nz t1 fl1 nz1 ts nz2,
  In (name, s) static_entry_points -> always_sets g s = true ->
  vrun nz s t1 fl1 nz1 -> vrun_calls static_entry_points nz1 ts nz2 ->
  forall t, In t ts -> ~ In (VZero g) t /\ forall n, guard_of n = Some g -> ~ In (VWr n) t.
Proof. exact (fun name s g nz t1 fl1 nz1 ts nz2 => warm_call_then_any_calls static_entry_points name s g nz t1 fl1 nz1 ts nz2 statics_ok). Qed.
Print Assumptions C11_statics_warm_call_then_any_calls.

Theorem C11_statics_warm_sequence_satisfiable :
  exists t1 nz1 ts nz2,
    vrun (fun _ => false) info_like t1 false nz1 /\ vrun_calls [("f"%string, info_like)] nz1 ts nz2 /\ length ts = 2%nat /\
    In (VWr "VirtMem::info::vm_info"%string) t1.
Proof. exact warm_call_then_any_calls_sat. Qed.
Print Assumptions C11_statics_warm_sequence_satisfiable.

(* C11 — JIT memory management and independent code generation are thread-safe.
   This file holds ONLY the property theorems (each closed by `exact <lemma>`) and their Print Assumptions.
   entry_points / writable_globals are REGENERATED from /repo's working tree on every run (coq/gen/LockSkeleton.v from the
   clang AST of jitallocator.cpp + jitruntime.cpp, coq/gen/WritableGlobals.v from the static build). *)
From Coq Require Import String List Bool ZArith.
From Verif Require Import Conc.LockModel Conc.LockProofs Conc.ConcModel Conc.ConcProofs Conc.ProgramProofs.
From VerifGen Require Import LockSkeleton WritableGlobals.
Import ListNotations.

(* ---- obligations re-proved over the regenerated skeleton (reflection) *)

(* every access of every public JitAllocator/JitRuntime entry point (all of them except reset) to a member that some entry
   point writes lies inside a LockGuard on JitAllocatorPrivateImpl::lock (incl. write -> JitAllocatorImpl_shrink); no lock is
   re-acquired while held; no callback runs under the lock; no unknown callee, unclassified class or non-const static *)
Theorem C11_all_shared_access_locked : check_program entry_points = [].
Proof. exact skeleton_ok. Qed.
Print Assumptions C11_all_shared_access_locked.

(* the skeleton is not vacuous: alloc/release/shrink/query/statistics/write(fn)/_add/_release are present and contain a locked
   region, and the allocator's bookkeeping members were all seen being written (hence are protected) *)
Theorem C11_skeleton_coverage : coverage_diag entry_points = [].
Proof. exact skeleton_coverage. Qed.
Print Assumptions C11_skeleton_coverage.

(* what SLocked abstracts is what the code does: LockGuard's constructor calls Lock::lock and its destructor Lock::unlock, and
   these are pthread_mutex_lock / pthread_mutex_unlock (not the no-op fallback of osutils_p.h) in the checked configuration *)
Theorem C11_lock_is_a_mutex : check_lock_impl lock_impl = [].
Proof. exact lock_impl_ok. Qed.
Print Assumptions C11_lock_is_a_mutex.

(* the hypotheses of C11_locked_entry_points are satisfiable: every skeleton has its canonical execution, and for each of
   alloc/release/shrink/query/statistics/write(fn)/_add/_release that execution acquires the lock and accesses protected
   members while holding it *)
Theorem C11_entry_points_executable : forall name s,
  In (name, s) entry_points -> exec s (fst (default_trace s)) (snd (default_trace s)).
Proof. exact (fun _ s _ => default_trace_exec s). Qed.
Print Assumptions C11_entry_points_executable.

Theorem C11_locked_work_nonvacuous : nonvacuous_diag entry_points = [].
Proof. exact skeleton_nonvacuous. Qed.
Print Assumptions C11_locked_work_nonvacuous.

(* every data object of the static library in a writable section is on the reviewed allow-list (host CPU cache + flag,
   VirtMem function-local atomics / init-once caches): no other shared mutable state behind the API *)
Theorem C11_no_shared_mutable_globals : forall g, In g writable_globals -> global_allowed g = true.
Proof. exact (check_globals_sound writable_globals globals_ok). Qed.
Print Assumptions C11_no_shared_mutable_globals.

(* ---- consequences for every execution (generic theorems of the mutex model instantiated with the checked skeleton) *)

(* every event sequence of every entry point, on every path (both branches, any number of loop iterations, any early exit),
   touches protected members only with the lock held, never writes an immutable member, never re-acquires, and releases
   the lock before it returns *)
Theorem C11_locked_entry_points : forall name s t abrupt,
  In (name, s) entry_points -> exec s t abrupt ->
  wl (prot_of (written entry_points)) false t = Some false.
Proof. exact (fun name s t abrupt => entry_point_well_locked entry_points name s t abrupt skeleton_ok). Qed.
Print Assumptions C11_locked_entry_points.

(* DATA-RACE FREEDOM for any number of threads calling any sequences of entry points on one allocator/runtime, under every
   interleaving the mutex admits: two conflicting accesses (same cell, at least one write) of different threads are always
   separated by a release of the lock by the first thread followed by an acquire by the second (ordered by happens-before) *)
Theorem C11_drf : forall m tr s a i e1 b j e2 c,
  runs_program entry_points tr -> run (init m) tr = Some s ->
  tr = a ++ (i, e1) :: b ++ (j, e2) :: c -> i <> j -> conflict e1 e2 ->
  exists b1 b2 b3, b = b1 ++ (i, ERel) :: b2 ++ (j, EAcq) :: b3.
Proof. exact (fun m tr s a i e1 b j e2 c => program_drf entry_points m tr s a i e1 b j e2 c skeleton_ok). Qed.
Print Assumptions C11_drf.

(* LINEARISABILITY / SERIALISABILITY: every such concurrent execution has the same final state, the same per-thread events and
   values read, and the same order of lock operations and protected accesses as an execution in which each critical section
   (= one allocator operation body) runs alone; the sequential specification of the allocator (C09) therefore applies to
   the sequence of critical sections in the order of their acquires *)
Theorem C11_linearizable : forall m tr s,
  runs_program entry_points tr -> run (init m) tr = Some s ->
  run (init m) (ser tr) = Some s /\
  (forall i, proj i (ser tr) = proj i tr) /\
  serial None (ser tr) /\
  filter (keyb (prot_of (written entry_points))) (ser tr) = filter (keyb (prot_of (written entry_points))) tr.
Proof. exact (fun m tr s => program_serialisable entry_points m tr s skeleton_ok). Qed.
Print Assumptions C11_linearizable.

(* no self-deadlock: the thread that holds the allocator lock never tries to acquire it *)
Theorem C11_holder_never_blocks : forall m tr s i e rest,
  runs_program entry_points (tr ++ (i, e) :: rest) -> run (init m) tr = Some s -> st_owner s = Some i -> e <> EAcq.
Proof. exact (fun m tr s i e rest => program_holder_never_blocks entry_points m tr s i e rest skeleton_ok). Qed.
Print Assumptions C11_holder_never_blocks.

(* INDEPENDENT THREADS: when every cell is touched only by the thread owning its object (own holder, emitters, compiler; no
   shared mutable state - see C11_no_shared_mutable_globals) each thread reads exactly what it would read alone and leaves
   its objects exactly as it would alone: it obtains the code it would obtain alone *)
Theorem C11_independent_threads : forall (own : nat -> nat) m tr s,
  run (init m) tr = Some s ->
  (forall k e, In (k, e) tr ->
     match e with ERd o _ _ | EWr o _ _ => own o = k | ETau => True | EAcq | ERel => False end) ->
  forall i, exists si, run (init m) (alone i tr) = Some si /\
                       forall o f, own o = i -> st_mem si o f = st_mem s o f.
Proof. exact independent_threads_alone. Qed.
Print Assumptions C11_independent_threads.

(* the hypotheses of the two execution theorems are satisfiable (a racing-free two-thread execution that is not serial) *)
Theorem C11_hypotheses_satisfiable :
  let prot := fun _ : field => true in
  let f := ("C", "x")%string in
  let tr := [(0, EAcq); (1, ETau); (0, EWr 0 f 1%Z); (0, ERel); (1, EAcq); (1, ERd 0 f 1%Z); (1, EWr 0 f 2%Z); (1, ERel)] in
  (exists s, run (init (fun _ _ => 0%Z)) tr = Some s) /\ disciplined prot tr /\ ser tr <> tr.
Proof. exact serialisable_hyp_sat. Qed.
Print Assumptions C11_hypotheses_satisfiable.

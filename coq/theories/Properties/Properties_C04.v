(* C04 — Relocated code addresses its absolute targets correctly at any base address.
   This file holds ONLY the property theorems (each closed by `exact <lemma>`) and their Print Assumptions.
   Model: Verif.Reloc.RelocModel (`relocate_entry` / `relocate_all` / `relocate` = CodeHolder::relocate_to_base incl. the x86-64 address
   table) on top of the C03 label model.  `rel_target abits base next d` = (base + next + d) mod 2^abits is the address a relative
   field denotes; `next` = section offset + source offset + region size. *)
From Coq Require Import ZArith List Bool.
From Verif Require Import Codec.OffsetModel Labels.LabelsModel Labels.LabelsProofs Reloc.RelocModel Reloc.RelocProofs Reloc.InstalledImage.
From Verif Require Import X86.X86Model Reloc.X86Meaning Labels.A64Dec Reloc.A64Meaning Labels.X86RefMeaning Labels.X86EndToEnd Reloc.RelocInImage Labels.FlatModel Reloc.RelocComplete Reloc.InstalledDecode.
From Verif Require Import Sections.SectionModel Sections.SectionProofs Sections.ChunkModel Sections.CopyProofs Sections.JitReloc.
Import ListNotations.
Local Open Scope Z_scope.

(* embedded label address / abs32 operand, any base: the stored word is base + target section offset + payload, and it fits *)
Theorem C04_abs_exact : forall base asize atoff slots e o slots',
  relocate_entry base asize atoff slots e = inl (o, slots') -> forall toff n,
  e_kind e = RRelToAbs (Some toff) -> e_fmt e = ufmt n -> n = 1 \/ n = 2 \/ n = 4 \/ n = 8 -> e_old e = 0 ->
  o_word o = (e_payload e + base + toff) mod 2 ^ 64 /\ o_word o < 2 ^ (8 * n) /\ o_rewrite o = None /\ slots' = slots.
Proof. exact reloc_abs_exact. Qed.
Print Assumptions C04_abs_exact.

(* composition with C03: after ANY label program, layout with ANY offsets and relocation to ANY base, an embedded label address is
   base + (section offset + label offset) + addend *)
Theorem C04_embedded_label_address : forall ops offs rid re base asize atoff slots o slots' ls lo n,
  let s := run init ops in
  nth_error (relocs s) rid = Some re -> rl_type re = RelToAbs -> rl_size re = n -> n = 1 \/ n = 2 \/ n = 4 \/ n = 8 ->
  nth_error (labels s) (rl_label re) = Some (Some (ls, lo)) ->
  relocate_entry base asize atoff slots (entry_of_reloc s offs re) = inl (o, slots') ->
  o_word o = (base + (nth ls offs 0 + lo) + rl_addend re) mod 2 ^ 64 /\ o_word o < 2 ^ (8 * n).
Proof. exact embedded_label_address. Qed.
Print Assumptions C04_embedded_label_address.

(* relative branch to an absolute target, 64-bit address space, every displacement format of the backends (x86 rel32, a64 imm26/imm19/...) *)
Theorem C04_rel_exact64 : forall base asize atoff slots e o slots',
  relocate_entry base asize atoff slots e = inl (o, slots') -> forall k,
  e_kind e = RAbsToRel -> 4 < asize -> e_fmt e = fmt_of_kind k -> hole_ok k (e_old e) = true ->
  rel_target 64 base (e_secoff e + e_off e + e_region e) (decode_kind k (o_word o)) = e_payload e mod 2 ^ 64 /\
  Z.land (o_word o) (Z.lnot (kind_mask k)) = e_old e /\ slots' = slots.
Proof. exact reloc_rel_exact64. Qed.
Print Assumptions C04_rel_exact64.

(* 32-bit address space: every target is reachable by wrap-around and the field denotes it modulo 2^32 *)
Theorem C04_rel_exact32 : forall base asize atoff slots e o slots',
  relocate_entry base asize atoff slots e = inl (o, slots') ->
  e_kind e = RAbsToRel -> asize <= 4 -> e_fmt e = fmt_of_kind K_Rel32 -> e_old e = 0 ->
  rel_target 32 base (e_secoff e + e_off e + e_region e) (decode_kind K_Rel32 (o_word o)) = e_payload e mod 2 ^ 32.
Proof. exact reloc_rel_exact32. Qed.
Print Assumptions C04_rel_exact32.

(* x86-64 call/jmp to an absolute target: rel32 when it reaches, otherwise FF /2 | FF /4 through a slot that holds the target *)
Theorem C04_addr_entry_exact : forall base asize atoff slots e o slots',
  relocate_entry base asize atoff slots e = inl (o, slots') -> forall opc,
  e_kind e = RAddrEntry opc -> e_fmt e = fmt_of_kind K_Rel32 -> e_old e = 0 ->
  let next := e_secoff e + e_off e + e_region e in
  let d := decode_kind K_Rel32 (o_word o) in
  (o_rewrite o = None /\ slots' = slots /\ rel_target 64 base next d = e_payload e mod 2 ^ 64) \/
  (exists slot modrm, o_rewrite o = Some (255, modrm) /\ o_slot o = Some slot /\
     ((opc = 232 /\ modrm = 21) \/ (opc = 233 /\ modrm = 37)) /\
     extends slots slots' /\ 0 <= slot < zlen slots' /\ nth_error slots' (Z.to_nat slot) = Some (e_payload e) /\
     rel_target 64 base next d = (base + atoff + slot * asize) mod 2 ^ 64 /\
     ~ (- 2 ^ 31 <= to_i64 (wrap 64 (e_payload e - (base + next))) < 2 ^ 31)).
Proof. exact reloc_addr_entry_exact. Qed.
Print Assumptions C04_addr_entry_exact.

(* label - base expressions (embed_label_delta across sections / before binding) *)
Theorem C04_expr_exact : forall base asize atoff slots e o slots',
  relocate_entry base asize atoff slots e = inl (o, slots') -> forall pl pb n,
  e_kind e = RExpr (Some pl) (Some pb) -> e_fmt e = sfmt n -> n = 1 \/ n = 2 \/ n = 4 \/ n = 8 -> e_old e = 0 ->
  decode_signed (sfmt n) (o_word o) = to_i64 (wrap 64 (pl - pb)) /\
  (- 2 ^ (8 * n - 1) <= to_i64 (wrap 64 (pl - pb)) < 2 ^ (8 * n - 1)).
Proof. exact reloc_expr_exact. Qed.
Print Assumptions C04_expr_exact.

(* unreachable targets are errors, never truncated fields *)
Theorem C04_abs32_overflow_reported : forall base asize atoff slots e toff,
  e_kind e = RRelToAbs (Some toff) -> e_fmt e = ufmt 4 -> e_old e = 0 ->
  2 ^ 32 <= (e_payload e + base + toff) mod 2 ^ 64 ->
  relocate_entry base asize atoff slots e = inr RInvalidEntry.
Proof. exact abs32_overflow_reported. Qed.
Print Assumptions C04_abs32_overflow_reported.

Theorem C04_rel_out_of_range_reported : forall base asize atoff slots e,
  e_kind e = RAbsToRel -> 4 < asize ->
  ~ (- 2 ^ 31 <= to_i64 (wrap 64 (e_payload e - (base + (e_secoff e + e_off e + e_region e)))) < 2 ^ 31) ->
  relocate_entry base asize atoff slots e = inr ROutOfRange.
Proof. exact rel_out_of_range_reported. Qed.
Print Assumptions C04_rel_out_of_range_reported.

Theorem C04_expr_unbound_reported : forall base asize atoff slots e pl pb,
  e_kind e = RExpr pl pb -> pl = None \/ pb = None -> relocate_entry base asize atoff slots e = inr RExprUnbound.
Proof. exact expr_unbound_reported. Qed.
Print Assumptions C04_expr_unbound_reported.

(* the whole entry list: a successful relocate_to_base relocated EVERY entry with `relocate_entry`, against a slot table that only grows
   (so the slot each rewritten instruction points to still holds its target in the final table) and stays duplicate-free *)
Theorem C04_relocate_all_sound : forall base asize atoff es slots os slots',
  relocate_all base asize atoff slots es = inl (os, slots') ->
  extends slots slots' /\ (NoDup slots -> NoDup slots') /\ length os = length es /\
  forall i e o, nth_error es i = Some e -> nth_error os i = Some o ->
    exists s1 s2, relocate_entry base asize atoff s1 e = inl (o, s2) /\ extends slots s1 /\ extends s2 slots'.
Proof. exact relocate_all_sound. Qed.
Print Assumptions C04_relocate_all_sound.

(* address table: slots are the dense indices of a duplicate-free list, the table size is slots x address size, the reported code size
   reduction is reserved - used when the table is the last section *)
Theorem C04_addrtab_shrink : forall base asize atoff reserved last es r,
  relocate base asize atoff reserved last es = inl r ->
  NoDup (rr_table r) /\ rr_table_size r = zlen (rr_table r) * asize /\
  rr_reduction r = (if last then reserved - rr_table_size r else 0) /\ length (rr_outs r) = length es.
Proof. exact relocate_table. Qed.
Print Assumptions C04_addrtab_shrink.

Theorem C04_slot_shared : forall a slots, In a slots -> snd (find_or_add a slots) = slots.
Proof. exact slot_shared. Qed.
Print Assumptions C04_slot_shared.

(* base address known when assembling vs. relocating to that base afterwards (x86 jmp/call/jcc imm, x86-64 [abs] encoded RIP-relative
   with or without a trailing immediate: `next` is the end of the instruction in both paths): `known_rel32` is the field the assembler
   emits at once; it exists exactly when relocate_to_base succeeds on the AbsToRel entry recorded otherwise, and is the same field *)
Theorem C04_known_base_equiv : forall base asize atoff slots e,
  e_kind e = RAbsToRel -> e_fmt e = fmt_of_kind K_Rel32 -> e_old e = 0 ->
  let next := e_secoff e + e_off e + e_region e in
  let abits := if asize <=? 4 then 32 else 64 in
  (forall o s', relocate_entry base asize atoff slots e = inl (o, s') ->
                known_rel32 abits base next (e_payload e) = Some (o_word o)) /\
  (forall w, known_rel32 abits base next (e_payload e) = Some w ->
             relocate_entry base asize atoff slots e = inl ({| o_word := w; o_rewrite := None; o_slot := None |}, slots)).
Proof. exact known_base_equiv_rel. Qed.
Print Assumptions C04_known_base_equiv.

(* x86-64 call/jmp imm within rel32 reach: the address-table entry is patched to the field the known-base path emits, no rewrite *)
Theorem C04_known_base_equiv_addr_entry : forall base asize atoff slots e opc w,
  e_kind e = RAddrEntry opc -> e_fmt e = fmt_of_kind K_Rel32 -> e_old e = 0 -> 2 <= e_off e + e_lead e ->
  known_rel32 64 base (e_secoff e + e_off e + e_region e) (e_payload e) = Some w ->
  relocate_entry base asize atoff slots e = inl ({| o_word := w; o_rewrite := None; o_slot := None |}, slots).
Proof. exact known_base_equiv_addr_entry. Qed.
Print Assumptions C04_known_base_equiv_addr_entry.

(* AArch64 ADRP with an absolute target (round 2): the relocated field holds target - pc (C04_rel_exact64 with the ADRP format, which
   refuses anything that is not a multiple of 4096); then the ARCHITECTURAL result Page(pc) + imm * 4096 is the page of the target *)
Theorem C04_adrp_page_exact : forall pc d target,
  0 <= pc < 2 ^ 64 -> 0 <= target < 2 ^ 64 -> d mod 4096 = 0 -> (pc + d) mod 2 ^ 64 = target ->
  ((pc - pc mod 4096) + d) mod 2 ^ 64 = target - target mod 4096.
Proof. exact adrp_page_exact. Qed.
Print Assumptions C04_adrp_page_exact.

(* ---- installed image (round 2), composition with C10's model of JitRuntime::_add (Verif.Sections.JitReloc: flatten, relocate with THIS
   model's `relocate`, copy, shrink).  For every `call <absolute>` site of a program whose sites do not overlap: the bytes found in the
   installed image at the site are the relocated rel32 word, preceded by FF 15 when the call goes through the address table and by
   the emitted bytes otherwise ... ---- *)
Theorem C04_installed_call_site : forall st calls base fill final img h2 i pos target,
  wf_holder (jh st) -> data_len_ok (jh st) ->
  (forall h1, flatten (jh st) = (EOk, h1) -> NoDup (map sid h1) /\ (forall s, In s h1 -> 0 <= sid s)) ->
  jtab st <> Some 0 -> (forall h off, sites_disjoint (map (site_entry h off) calls)) ->
  jit_add_reloc st calls base fill = (JOk, final, img, h2) ->
  nth_error calls i = Some (SCall pos target) ->
  exists h1 text atoff reserved last r o,
    flatten (jh st) = (EOk, h1) /\ by_id h1 0 = Some text /\
    relocate base REG_SIZE atoff reserved last (map (site_entry h1 (soff text)) calls) = inl r /\
    nth_error (rr_outs r) i = Some o /\
    (forall k, 0 <= k < 4 -> soff text + pos + 2 + k < final ->
       cell (flat img) (soff text + pos + 2 + k) = cell (le_bytes 4 (o_word o)) k) /\
    (forall j, 0 <= j < 2 -> soff text + pos + j < final ->
       cell (flat img) (soff text + pos + j) =
       match o_rewrite o with Some (b0, b1) => if j =? 0 then b0 else b1 | None => cell (sdata text) (pos + j) end).
Proof. exact installed_call_site. Qed.
Print Assumptions C04_installed_call_site.

(* ... and that word reaches the target: directly (end of instruction + rel32 = target) or through slot `slot` of the relocated address
   table, which holds the target (FF /2 through [rip + rel32] = base + table offset + 8 * slot) *)
Theorem C04_installed_call_reaches : forall base atoff reserved last h text_off calls r i pos target o,
  relocate base REG_SIZE atoff reserved last (map (site_entry h text_off) calls) = inl r ->
  nth_error calls i = Some (SCall pos target) -> nth_error (rr_outs r) i = Some o ->
  let next := text_off + pos + CALL_LEN in
  let d := decode_kind K_Rel32 (o_word o) in
  (o_rewrite o = None /\ rel_target 64 base next d = target mod 2 ^ 64) \/
  (o_rewrite o = Some (255, 21) /\
   exists slot, 0 <= slot /\ nth_error (rr_table r) (Z.to_nat slot) = Some target /\
                rel_target 64 base next d = (base + atoff + slot * REG_SIZE) mod 2 ^ 64).
Proof. exact call_out_reaches. Qed.
Print Assumptions C04_installed_call_reaches.

(* round 3: the installed ADDRESS TABLE itself: slot i of the relocated table is found, little endian, at table offset + 8 i of the
   installed image - so an `FF 15 [rip + rel32]` proven above to point at base + atoff + 8 slot reads the target there *)
Theorem C04_installed_table_slot : forall st calls base fill final img h2,
  wf_holder (jh st) -> data_len_ok (jh st) ->
  (forall h1, flatten (jh st) = (EOk, h1) -> NoDup (map sid h1) /\ (forall s, In s h1 -> 0 <= sid s)) ->
  jit_add_reloc st calls base fill = (JOk, final, img, h2) ->
  forall t, jtab st = Some t ->
  exists h1 text atoff reserved last r,
    flatten (jh st) = (EOk, h1) /\ by_id h1 0 = Some text /\
    relocate base REG_SIZE atoff reserved last (map (site_entry h1 (soff text)) calls) = inl r /\
    (forall ts, by_id h1 t = Some ts -> atoff = soff ts /\
       forall i a k, nth_error (rr_table r) i = Some a -> 0 <= k < 8 -> soff ts + 8 * Z.of_nat i + k < final ->
         cell (flat img) (soff ts + 8 * Z.of_nat i + k) = cell (le_bytes 8 a) k).
Proof. exact installed_table_slot. Qed.
Print Assumptions C04_installed_table_slot.

(* round 3: a relocation kind other than call sites - an embedded label address (embed_label, RelToAbs): the 8 installed bytes are
   (label offset + base + offset of the label's section) mod 2^64, little endian *)
Theorem C04_installed_abs_site : forall st calls base fill final img h2 i pos target loff,
  wf_holder (jh st) -> data_len_ok (jh st) ->
  (forall h1, flatten (jh st) = (EOk, h1) -> NoDup (map sid h1) /\ (forall s, In s h1 -> 0 <= sid s)) ->
  jtab st <> Some 0 -> (forall h off, sites_disjoint (map (site_entry h off) calls)) ->
  jit_add_reloc st calls base fill = (JOk, final, img, h2) ->
  nth_error calls i = Some (SAbs pos target loff) ->
  exists h1 text ts w,
    flatten (jh st) = (EOk, h1) /\ by_id h1 0 = Some text /\ by_id h1 target = Some ts /\
    w = (loff + base + soff ts) mod 2 ^ 64 /\
    (forall k, 0 <= k < 8 -> soff text + pos + k < final -> cell (flat img) (soff text + pos + k) = cell (le_bytes 8 w) k).
Proof. exact installed_abs_site. Qed.
Print Assumptions C04_installed_abs_site.

(* ---- round 3: run-time meaning through C01's PROVEN structural decoder (Verif.X86.X86Model.sdec; round trip X86Proofs.sdec_senc) instead
   of the hand-written reference semantics.  `site_target m class shape addr bytes` decodes the bytes at a site and returns the address the
   instruction designates (RIP-relative: end of instruction + disp32; absolute disp32; branch: end + rel32).  An instruction (any
   structural instruction C01's round trip covers) whose displacement / immediate field holds the word relocate_to_base wrote designates
   the relocation's absolute target: ---- *)
Theorem C04_rip_operand_designates_target : forall base asize atoff slots e o slots' sh s c reg rest,
  relocate_entry base asize atoff slots e = inl (o, slots') ->
  e_kind e = RAbsToRel -> 4 < asize -> e_fmt e = fmt_of_kind K_Rel32 -> e_old e = 0 ->
  s_modrm s = MMem reg (mkM BRip None 0 (sext32 (o_word o))) -> wf M64 sh s = true -> adm M64 sh s c = true ->
  e_region e = Z.of_nat (length (senc M64 sh s c)) ->
  site_target M64 CMem sh (base + e_secoff e + e_off e) (senc M64 sh s c ++ rest) = Some (e_payload e mod 2 ^ 64).
Proof. exact rip_operand_designates_target. Qed.
Print Assumptions C04_rip_operand_designates_target.

Theorem C04_branch_designates_target : forall base asize atoff slots e o slots' (m : mode) sh s c xr xx xb xr' rest,
  relocate_entry base asize atoff slots e = inl (o, slots') ->
  e_kind e = RAbsToRel -> (if is64 m then 4 <? asize else asize <=? 4) = true -> e_fmt e = fmt_of_kind K_Rel32 -> e_old e = 0 ->
  s_modrm s = MNone xr xx xb xr' -> s_imm s = o_word o -> wf m sh s = true -> adm m sh s c = true ->
  e_region e = Z.of_nat (length (senc m sh s c)) ->
  site_target m CBranch sh (base + e_secoff e + e_off e) (senc m sh s c ++ rest) = Some (e_payload e mod 2 ^ abits m).
Proof. exact branch_designates_target. Qed.
Print Assumptions C04_branch_designates_target.

Theorem C04_abs32_operand_designates_target : forall base asize atoff slots e o slots' sh s c reg toff rest,
  relocate_entry base asize atoff slots e = inl (o, slots') ->
  e_kind e = RRelToAbs (Some toff) -> e_fmt e = ufmt 4 -> e_old e = 0 ->
  s_modrm s = MMem reg (mkM BNone None 0 (sext32 (o_word o))) -> wf M32 sh s = true -> adm M32 sh s c = true ->
  site_target M32 CMem sh (base + e_secoff e + e_off e) (senc M32 sh s c ++ rest) = Some ((e_payload e + base + toff) mod 2 ^ 64) /\
  (e_payload e + base + toff) mod 2 ^ 64 < 2 ^ 32.
Proof. exact abs32_operand_designates_target. Qed.
Print Assumptions C04_abs32_operand_designates_target.

(* ---- round 4 ---- *)
(* AArch64 run-time meaning through the structural decoder Labels.A64Dec: a label-bearing instruction with an ABSOLUTE target whose word
   relocate_to_base patched (kAbsToRel, payload = target + region size) decodes to that instruction and designates the target *)
Theorem C04_a64_reloc_designates_target : forall base asize atoff slots e o slots' i,
  relocate_entry base asize atoff slots e = inl (o, slots') ->
  e_kind e = RAbsToRel -> 4 < asize -> e_fmt e = fmt_of_kind (kind_of i) -> e_old e = a64_enc (set_imm i 0) ->
  a64_wf (set_imm i 0) -> hole_ok (kind_of i) (e_old e) = true -> (forall r v, i <> IAdr true r v) ->
  let pc := base + e_secoff e + e_off e in
  exists v, a64_dec (o_word o) = Some (set_imm i v) /\
            a64_site_target pc (o_word o) = Some ((e_payload e - e_region e) mod 2 ^ 64).
Proof. exact a64_reloc_designates_target. Qed.
Print Assumptions C04_a64_reloc_designates_target.

(* label-delta expressions END TO END (embed_label_delta recorded as kExpression by the C03 model): after ANY label program and ANY layout
   `offs` (so in particular C10's flatten), relocating the recorded entry stores pos(label) - pos(base) with pos = section offset + label
   offset, and it fits the width; an unbound label is reported *)
Theorem C04_delta_expression_end_to_end : forall ops offs rid re l b base asize atoff slots o slots' n,
  let s := run init ops in
  nth_error (relocs s) rid = Some re -> rl_type re = Expr l b -> rl_size re = n -> n = 1 \/ n = 2 \/ n = 4 \/ n = 8 ->
  relocate_entry base asize atoff slots (entry_of_reloc s offs re) = inl (o, slots') ->
  exists ls lo bs bo,
    nth_error (labels s) l = Some (Some (ls, lo)) /\ nth_error (labels s) b = Some (Some (bs, bo)) /\
    let d := to_i64 (wrap 64 ((nth ls offs 0 + lo) - (nth bs offs 0 + bo))) in
    decode_signed (sfmt n) (o_word o) = d /\ - 2 ^ (8 * n - 1) <= d < 2 ^ (8 * n - 1).
Proof. exact delta_expression_end_to_end. Qed.
Print Assumptions C04_delta_expression_end_to_end.

Theorem C04_delta_expression_unbound_reported : forall ops offs rid re l b base asize atoff slots,
  let s := run init ops in
  nth_error (relocs s) rid = Some re -> rl_type re = Expr l b ->
  (nth_error (labels s) l = Some None \/ nth_error (labels s) b = Some None) ->
  relocate_entry base asize atoff slots (entry_of_reloc s offs re) = inr RExprUnbound.
Proof. exact delta_expression_unbound_reported. Qed.
Print Assumptions C04_delta_expression_unbound_reported.

(* relocated section bytes for ANY entry list and address size (x86-32, 4-byte embedded labels): C10's `patch_all` = the writes of
   relocate_to_base; installation of these bytes is C10's copy theorem (their JIT scenario itself is x86-64 with 8-byte labels) *)
Theorem C04_relocated_site_bytes : forall base asize atoff reserved last es r data i e o,
  relocate base asize atoff reserved last es = inl r ->
  (forall e', In e' es -> site_wf data e') -> sites_disjoint es ->
  nth_error es i = Some e -> nth_error (rr_outs r) i = Some o ->
  (forall k, 0 <= k < vsize (e_fmt e) ->
     cell (patch_all data es (rr_outs r)) (e_off e + e_lead e + k) = cell (le_bytes (Z.to_nat (vsize (e_fmt e))) (o_word o)) k) /\
  exists s1 s2, relocate_entry base asize atoff s1 e = inl (o, s2).
Proof. exact relocated_site_bytes. Qed.
Print Assumptions C04_relocated_site_bytes.

Theorem C04_relocated_abs32_site : forall base asize atoff reserved last es r data i e o toff,
  relocate base asize atoff reserved last es = inl r ->
  (forall e', In e' es -> site_wf data e') -> sites_disjoint es ->
  nth_error es i = Some e -> nth_error (rr_outs r) i = Some o ->
  e_kind e = RRelToAbs (Some toff) -> e_fmt e = ufmt 4 -> e_old e = 0 ->
  let w := (e_payload e + base + toff) mod 2 ^ 64 in
  w < 2 ^ 32 /\ forall k, 0 <= k < 4 -> cell (patch_all data es (rr_outs r)) (e_off e + e_lead e + k) = cell (le_bytes 4 w) k.
Proof. exact relocated_abs32_site. Qed.
Print Assumptions C04_relocated_abs32_site.

Theorem C04_relocated_rel32_site32 : forall base asize atoff reserved last es r data i e o,
  relocate base asize atoff reserved last es = inl r ->
  (forall e', In e' es -> site_wf data e') -> sites_disjoint es ->
  nth_error es i = Some e -> nth_error (rr_outs r) i = Some o ->
  e_kind e = RAbsToRel -> asize <= 4 -> e_fmt e = fmt_of_kind K_Rel32 -> e_old e = 0 ->
  rel_target 32 base (e_secoff e + e_off e + e_region e) (decode_kind K_Rel32 (o_word o)) = e_payload e mod 2 ^ 32 /\
  forall k, 0 <= k < 4 -> cell (patch_all data es (rr_outs r)) (e_off e + e_lead e + k) = cell (le_bytes 4 (o_word o)) k.
Proof. exact relocated_rel32_site32. Qed.
Print Assumptions C04_relocated_rel32_site32.

(* ---- round 5: the installed image at ANY relocation site of C10's JitRuntime::_add model, stated through C10's `site_entry` only (no
   constructor of their site type is named, so new site kinds are covered as they appear): the bytes installed at the value word of the
   i-th site are the little-endian word C04's relocate_entry computed for C10's entry of that site ---- *)
Theorem C04_installed_site_word : forall st calls base fill final img h2 i c,
  wf_holder (jh st) -> data_len_ok (jh st) ->
  (forall h1, flatten (jh st) = (EOk, h1) -> NoDup (map sid h1) /\ (forall s, In s h1 -> 0 <= sid s)) ->
  jtab st <> Some 0 -> (forall h off, sites_disjoint (map (site_entry h off) calls)) ->
  jit_add_reloc st calls base fill = (JOk, final, img, h2) ->
  nth_error calls i = Some c ->
  exists h1 text atoff s1 s2 o,
    flatten (jh st) = (EOk, h1) /\ by_id h1 0 = Some text /\
    let e := site_entry h1 (soff text) c in
    relocate_entry base REG_SIZE atoff s1 e = inl (o, s2) /\
    (forall k, 0 <= k < vsize (e_fmt e) -> soff text + e_off e + e_lead e + k < final ->
       cell (flat img) (soff text + e_off e + e_lead e + k) = cell (le_bytes (Z.to_nat (vsize (e_fmt e))) (o_word o)) k).
Proof. exact installed_site_word. Qed.
Print Assumptions C04_installed_site_word.

(* an expression site (embed_label_delta across sections, RelocType::kExpression - C10's SExpr sites): the n installed bytes decode
   (signed) to the difference of the two flattened label positions, which fits; a successful _add has both sides bound *)
Theorem C04_installed_expr_site : forall st calls base fill final img h2 i c n,
  wf_holder (jh st) -> data_len_ok (jh st) ->
  (forall h1, flatten (jh st) = (EOk, h1) -> NoDup (map sid h1) /\ (forall s, In s h1 -> 0 <= sid s)) ->
  jtab st <> Some 0 -> (forall h off, sites_disjoint (map (site_entry h off) calls)) ->
  jit_add_reloc st calls base fill = (JOk, final, img, h2) ->
  nth_error calls i = Some c ->
  (forall h off, exists a b, e_kind (site_entry h off c) = RExpr a b) ->
  (forall h off, e_fmt (site_entry h off c) = sfmt n /\ e_old (site_entry h off c) = 0) -> n = 1 \/ n = 2 \/ n = 4 \/ n = 8 ->
  exists h1 text pl pb w,
    flatten (jh st) = (EOk, h1) /\ by_id h1 0 = Some text /\
    let e := site_entry h1 (soff text) c in
    e_kind e = RExpr (Some pl) (Some pb) /\
    decode_signed (sfmt n) w = to_i64 (wrap 64 (pl - pb)) /\ - 2 ^ (8 * n - 1) <= to_i64 (wrap 64 (pl - pb)) < 2 ^ (8 * n - 1) /\
    (forall k, 0 <= k < n -> soff text + e_off e + e_lead e + k < final ->
       cell (flat img) (soff text + e_off e + e_lead e + k) = cell (le_bytes (Z.to_nat n) w) k).
Proof. exact installed_expr_site. Qed.
Print Assumptions C04_installed_expr_site.

(* an embedded label address of any width (RelToAbs stored as an n-byte unsigned value; C10's SAbs is n = 8, see
   C04_c10_abs_site_is_abs_entry): the n installed bytes are base + target section offset + payload, and that address fits *)
Theorem C04_installed_abs_entry : forall st calls base fill final img h2 i c n,
  wf_holder (jh st) -> data_len_ok (jh st) ->
  (forall h1, flatten (jh st) = (EOk, h1) -> NoDup (map sid h1) /\ (forall s, In s h1 -> 0 <= sid s)) ->
  jtab st <> Some 0 -> (forall h off, sites_disjoint (map (site_entry h off) calls)) ->
  jit_add_reloc st calls base fill = (JOk, final, img, h2) ->
  nth_error calls i = Some c ->
  (forall h off, exists a, e_kind (site_entry h off c) = RRelToAbs a) ->
  (forall h off, e_fmt (site_entry h off c) = ufmt n /\ e_old (site_entry h off c) = 0) -> n = 1 \/ n = 2 \/ n = 4 \/ n = 8 ->
  exists h1 text toff,
    flatten (jh st) = (EOk, h1) /\ by_id h1 0 = Some text /\
    let e := site_entry h1 (soff text) c in
    let w := (e_payload e + base + toff) mod 2 ^ 64 in
    e_kind e = RRelToAbs (Some toff) /\ w < 2 ^ (8 * n) /\
    (forall k, 0 <= k < n -> soff text + e_off e + e_lead e + k < final ->
       cell (flat img) (soff text + e_off e + e_lead e + k) = cell (le_bytes (Z.to_nat n) w) k).
Proof. exact installed_abs_entry. Qed.
Print Assumptions C04_installed_abs_entry.

Theorem C04_c10_abs_site_is_abs_entry : forall pos target loff,
  (forall h off, exists a, e_kind (site_entry h off (SAbs pos target loff)) = RRelToAbs a) /\
  (forall h off, e_fmt (site_entry h off (SAbs pos target loff)) = ufmt 8 /\ e_old (site_entry h off (SAbs pos target loff)) = 0).
Proof. exact c10_abs_site_is_abs_entry. Qed.
Print Assumptions C04_c10_abs_site_is_abs_entry.

(* ---- round 6: C10's expression sites by constructor: embed_label_delta(l1, l2, n) across sections, installed by JitRuntime::_add - both
   sections exist in the flattened holder, the n installed bytes at the site decode (signed) to (offset of section t1 + o1) - (offset of
   section t2 + o2), and that difference fits n bytes ---- *)
Theorem C04_installed_sexpr : forall st calls base fill final img h2 i p t1 o1 t2 o2 n,
  wf_holder (jh st) -> data_len_ok (jh st) ->
  (forall h1, flatten (jh st) = (EOk, h1) -> NoDup (map sid h1) /\ (forall s, In s h1 -> 0 <= sid s)) ->
  jtab st <> Some 0 -> (forall h off, sites_disjoint (map (site_entry h off) calls)) ->
  jit_add_reloc st calls base fill = (JOk, final, img, h2) ->
  nth_error calls i = Some (SExpr p t1 o1 t2 o2 n) -> n = 1 \/ n = 2 \/ n = 4 \/ n = 8 ->
  exists h1 text s1 s2 w,
    flatten (jh st) = (EOk, h1) /\ by_id h1 0 = Some text /\ by_id h1 t1 = Some s1 /\ by_id h1 t2 = Some s2 /\
    let d := to_i64 (wrap 64 ((soff s1 + o1) - (soff s2 + o2))) in
    decode_signed (sfmt n) w = d /\ - 2 ^ (8 * n - 1) <= d < 2 ^ (8 * n - 1) /\
    (forall k, 0 <= k < n -> soff text + p + k < final -> cell (flat img) (soff text + p + k) = cell (le_bytes (Z.to_nat n) w) k).
Proof. exact installed_sexpr. Qed.
Print Assumptions C04_installed_sexpr.

(* non-vacuity: a concrete two-section holder with one 4-byte expression site; all hypotheses hold, the installed bytes are 19 = (16+5)-(0+2) *)
Theorem C04_installed_sexpr_witness : exists final img h2,
  wf_holder (jh ex_expr_state) /\ data_len_ok (jh ex_expr_state) /\
  (forall h1, flatten (jh ex_expr_state) = (EOk, h1) -> NoDup (map sid h1) /\ (forall s, In s h1 -> 0 <= sid s)) /\
  jtab ex_expr_state <> Some 0 /\ (forall h off, sites_disjoint (map (site_entry h off) [SExpr 0 1 5 0 2 4])) /\
  jit_add_reloc ex_expr_state [SExpr 0 1 5 0 2 4] 4194304 204 = (JOk, final, img, h2) /\
  final = 22 /\ map (cell (flat img)) [0; 1; 2; 3; 4; 16; 21] = [19; 0; 0; 0; 0; 1; 6].
Proof. exact installed_sexpr_witness. Qed.
Print Assumptions C04_installed_sexpr_witness.

(* what relocation + installation must NOT change: every .text byte outside the (conservative) ranges [value word - 2, end of value
   word) of all sites, and every byte of every other section except the address table, is installed as the flattened holder had it *)
Theorem C04_installed_outside_sites : forall st calls base fill final img h2,
  wf_holder (jh st) -> data_len_ok (jh st) ->
  (forall h1, flatten (jh st) = (EOk, h1) -> NoDup (map sid h1) /\ (forall s, In s h1 -> 0 <= sid s)) ->
  jtab st <> Some 0 ->
  jit_add_reloc st calls base fill = (JOk, final, img, h2) ->
  exists h1 text,
    flatten (jh st) = (EOk, h1) /\ by_id h1 0 = Some text /\
    (forall k, 0 <= k < sbsize text ->
       (forall c, In c calls -> let e := site_entry h1 (soff text) c in ~ (site_lo e <= k < site_hi e)) ->
       soff text + k < final -> cell (flat img) (soff text + k) = cell (sdata text) k) /\
    (forall s, In s h1 -> sid s <> 0 -> jtab st <> Some (sid s) ->
       forall k, 0 <= k < sbsize s -> soff s + k < final -> cell (flat img) (soff s + k) = cell (sdata s) k).
Proof. exact installed_outside_sites. Qed.
Print Assumptions C04_installed_outside_sites.

(* ---- round 6: the relocated x86 branch FOUND IN THE RELOCATED BYTES: whatever well-formed immediate-only instruction with a 4-byte
   immediate lies in the bytes relocate_to_base produced so that it occupies the entry's region, decoding those bytes with C01's proven
   decoder designates the relocation's absolute target; the immediate is read from the bytes, not assumed ---- *)
Theorem C04_reloc_branch_in_image : forall base asize atoff reserved last es r data i e o (m : mode) sh s c xr xx xb xr' (A B : list Z),
  relocate base asize atoff reserved last es = inl r ->
  (forall e', In e' es -> site_wf data e') -> sites_disjoint es ->
  nth_error es i = Some e -> nth_error (rr_outs r) i = Some o ->
  e_kind e = RAbsToRel -> (if is64 m then 4 <? asize else asize <=? 4) = true -> e_fmt e = fmt_of_kind K_Rel32 -> e_old e = 0 ->
  patch_all data es (rr_outs r) = A ++ senc m sh s c ++ B ->
  zlen A = e_off e -> zlen (senc m sh s c) = e_region e -> e_lead e + 4 = e_region e -> sh_imm sh = 4%nat ->
  s_modrm s = MNone xr xx xb xr' -> wf m sh s = true -> adm m sh s c = true ->
  site_target m CBranch sh (base + e_secoff e + e_off e) (senc m sh s c ++ B) = Some (e_payload e mod 2 ^ abits m).
Proof. exact reloc_branch_in_image. Qed.
Print Assumptions C04_reloc_branch_in_image.

Theorem C04_reloc_branch_in_image_witness :
  let sh := mkSh false false 4 1 in let c := mkC false 0 false in
  exists r o, relocate 4194304 8 0 0 false [ex_jmp_entry] = inl r /\ nth_error (rr_outs r) O = Some o /\
    (forall e', In e' [ex_jmp_entry] -> site_wf [233; 0; 0; 0; 0] e') /\ sites_disjoint [ex_jmp_entry] /\
    patch_all [233; 0; 0; 0; 0] [ex_jmp_entry] (rr_outs r) = [] ++ senc M64 sh (ex_jmp 4091) c ++ [] /\
    wf M64 sh (ex_jmp 4091) = true /\ adm M64 sh (ex_jmp 4091) c = true /\
    site_target M64 CBranch sh 4194304 (senc M64 sh (ex_jmp 4091) c ++ []) = Some 4198400.
Proof. exact reloc_branch_in_image_witness. Qed.
Print Assumptions C04_reloc_branch_in_image_witness.


(* x86-64 `[abs]` operand turned RIP-relative (AbsToRel on the disp32 of a memory operand, with or without a trailing immediate) found in
   the relocated bytes: the displacement is read from the bytes *)
Theorem C04_reloc_rip_in_image : forall base asize atoff reserved last es r data i e o sh s c reg d (A B : list Z),
  relocate base asize atoff reserved last es = inl r ->
  (forall e', In e' es -> site_wf data e') -> sites_disjoint es ->
  nth_error es i = Some e -> nth_error (rr_outs r) i = Some o ->
  e_kind e = RAbsToRel -> 4 < asize -> e_fmt e = fmt_of_kind K_Rel32 -> e_old e = 0 ->
  patch_all data es (rr_outs r) = A ++ senc M64 sh s c ++ B ->
  zlen A = e_off e -> zlen (senc M64 sh s c) = e_region e -> e_lead e + 4 + Z.of_nat (sh_imm sh) = e_region e ->
  s_modrm s = MMem reg (mkM BRip None 0 d) -> wf M64 sh s = true -> adm M64 sh s c = true ->
  site_target M64 CMem sh (base + e_secoff e + e_off e) (senc M64 sh s c ++ B) = Some (e_payload e mod 2 ^ 64).
Proof. exact reloc_rip_in_image. Qed.
Print Assumptions C04_reloc_rip_in_image.

(* the word READ from the relocated bytes at a site is the word the model computed (any kind, any width) *)
Theorem C04_relocated_site_word : forall base asize atoff reserved last es r data i e o,
  relocate base asize atoff reserved last es = inl r ->
  (forall e', In e' es -> site_wf data e') -> sites_disjoint es ->
  nth_error es i = Some e -> nth_error (rr_outs r) i = Some o ->
  0 <= o_word o < 2 ^ (8 * vsize (e_fmt e)) ->
  FlatModel.read_word (patch_all data es (rr_outs r)) (e_off e + e_lead e) (Z.to_nat (vsize (e_fmt e))) = o_word o.
Proof. exact relocated_site_word. Qed.
Print Assumptions C04_relocated_site_word.

(* an AArch64 label-bearing instruction relocated to an absolute address: the 32-bit word read from the relocated bytes, decoded by the
   structural decoder, designates payload - region size (AsmJit measures AbsToRel from the end of the region also on AArch64) *)
Theorem C04_a64_reloc_in_image : forall base asize atoff reserved last es r data idx e o i,
  relocate base asize atoff reserved last es = inl r ->
  (forall e', In e' es -> site_wf data e') -> sites_disjoint es ->
  nth_error es idx = Some e -> nth_error (rr_outs r) idx = Some o ->
  e_kind e = RAbsToRel -> 4 < asize -> e_fmt e = fmt_of_kind (kind_of i) -> e_old e = a64_enc (set_imm i 0) ->
  a64_wf (set_imm i 0) -> hole_ok (kind_of i) (e_old e) = true -> (forall rg v, i <> IAdr true rg v) ->
  let pc := base + e_secoff e + e_off e in
  a64_site_target pc (FlatModel.read_word (patch_all data es (rr_outs r)) (e_off e + e_lead e) 4) = Some ((e_payload e - e_region e) mod 2 ^ 64).
Proof. exact a64_reloc_in_image. Qed.
Print Assumptions C04_a64_reloc_in_image.

Theorem C04_reloc_rip_in_image_witness :
  let sh := mkSh true false 0 1 in let c := mkC false 0 false in
  exists r o, relocate 4194304 8 0 0 false [ex_lea_entry] = inl r /\ nth_error (rr_outs r) O = Some o /\
    (forall e', In e' [ex_lea_entry] -> site_wf [72; 141; 5; 0; 0; 0; 0] e') /\ sites_disjoint [ex_lea_entry] /\
    patch_all [72; 141; 5; 0; 0; 0; 0] [ex_lea_entry] (rr_outs r) = [] ++ senc M64 sh (ex_lea 4089) c ++ [] /\
    wf M64 sh (ex_lea 4089) = true /\ adm M64 sh (ex_lea 4089) c = true /\
    site_target M64 CMem sh 4194304 (senc M64 sh (ex_lea 4089) c ++ []) = Some 4198400.
Proof. exact reloc_rip_in_image_witness. Qed.
Print Assumptions C04_reloc_rip_in_image_witness.

Theorem C04_a64_reloc_in_image_witness :
  exists r o, relocate 4194304 8 0 0 false [ex_b_entry] = inl r /\ nth_error (rr_outs r) O = Some o /\
    (forall e', In e' [ex_b_entry] -> site_wf [0; 0; 0; 20] e') /\ sites_disjoint [ex_b_entry] /\
    e_old ex_b_entry = a64_enc (set_imm (IB false 0) 0) /\ a64_wf (set_imm (IB false 0) 0) /\ hole_ok (kind_of (IB false 0)) (e_old ex_b_entry) = true /\
    a64_site_target 4194304 (FlatModel.read_word (patch_all [0; 0; 0; 20] [ex_b_entry] (rr_outs r)) 0 4) = Some 4198396.
Proof. exact a64_reloc_in_image_witness. Qed.
Print Assumptions C04_a64_reloc_in_image_witness.


(* x86-32 `op reg, [label + disp]` / `op [label + disp], imm` (RelToAbs on the disp32 of an absolute memory operand) found in the relocated
   bytes: decoding them designates base + target section offset + payload, which fits 32 bits; the displacement is read from the bytes *)
Theorem C04_reloc_abs32_in_image : forall base asize atoff reserved last es r data i e o sh s c reg d toff (A B : list Z),
  relocate base asize atoff reserved last es = inl r ->
  (forall e', In e' es -> site_wf data e') -> sites_disjoint es ->
  nth_error es i = Some e -> nth_error (rr_outs r) i = Some o ->
  e_kind e = RRelToAbs (Some toff) -> e_fmt e = ufmt 4 -> e_old e = 0 ->
  patch_all data es (rr_outs r) = A ++ senc M32 sh s c ++ B ->
  zlen A = e_off e -> e_lead e + 4 + Z.of_nat (sh_imm sh) = zlen (senc M32 sh s c) ->
  s_modrm s = MMem reg (mkM BNone None 0 d) -> p_67 (s_pfx s) = false -> wf M32 sh s = true -> adm M32 sh s c = true ->
  site_target M32 CMem sh (base + e_secoff e + e_off e) (senc M32 sh s c ++ B) = Some ((e_payload e + base + toff) mod 2 ^ 64) /\
  (e_payload e + base + toff) mod 2 ^ 64 < 2 ^ 32.
Proof. exact reloc_abs32_in_image. Qed.
Print Assumptions C04_reloc_abs32_in_image.

Theorem C04_reloc_abs32_in_image_witness :
  let sh := mkSh true false 0 1 in let c := mkC false 0 false in
  exists r o, relocate 4194304 4 0 0 false [ex_abs32_entry] = inl r /\ nth_error (rr_outs r) O = Some o /\
    (forall e', In e' [ex_abs32_entry] -> site_wf [139; 5; 0; 0; 0; 0] e') /\ sites_disjoint [ex_abs32_entry] /\
    patch_all [139; 5; 0; 0; 0; 0] [ex_abs32_entry] (rr_outs r) = [] ++ senc M32 sh (ex_mov32 4194568) c ++ [] /\
    wf M32 sh (ex_mov32 4194568) = true /\ adm M32 sh (ex_mov32 4194568) c = true /\
    site_target M32 CMem sh 4194304 (senc M32 sh (ex_mov32 4194568) c ++ []) = Some 4194568.
Proof. exact reloc_abs32_in_image_witness. Qed.
Print Assumptions C04_reloc_abs32_in_image_witness.

(* ---- round 7: the COMPLETENESS direction - exact success conditions of one relocation entry (`succeeds` = relocate_entry answers a patch).
   The *_exact theorems say what a success stores, the *_reported theorems that unreachable is an error; these say WHEN it succeeds. ---- *)
Theorem C04_reloc_abs_succeeds_iff : forall base asize atoff slots e toff n,
  e_kind e = RRelToAbs (Some toff) -> e_fmt e = ufmt n -> n = 1 \/ n = 2 \/ n = 4 \/ n = 8 -> e_old e = 0 ->
  (succeeds base asize atoff slots e <-> (e_payload e + base + toff) mod 2 ^ 64 < 2 ^ (8 * n)).
Proof. exact reloc_abs_succeeds_iff. Qed.
Print Assumptions C04_reloc_abs_succeeds_iff.

Theorem C04_reloc_expr_succeeds_iff : forall base asize atoff slots e a b n,
  e_kind e = RExpr a b -> e_fmt e = sfmt n -> n = 1 \/ n = 2 \/ n = 4 \/ n = 8 -> e_old e = 0 ->
  (succeeds base asize atoff slots e <->
   exists pl pb, a = Some pl /\ b = Some pb /\ - 2 ^ (8 * n - 1) <= to_i64 (wrap 64 (pl - pb)) < 2 ^ (8 * n - 1)).
Proof. exact reloc_expr_succeeds_iff. Qed.
Print Assumptions C04_reloc_expr_succeeds_iff.

Theorem C04_reloc_rel_succeeds_iff : forall base asize atoff slots e,
  e_kind e = RAbsToRel -> 4 < asize -> e_fmt e = fmt_of_kind K_Rel32 -> e_old e = 0 ->
  (succeeds base asize atoff slots e <->
   - 2 ^ 31 <= to_i64 (wrap 64 (e_payload e - (base + (e_secoff e + e_off e + e_region e)))) < 2 ^ 31).
Proof. exact reloc_rel_succeeds_iff. Qed.
Print Assumptions C04_reloc_rel_succeeds_iff.

(* an address-table call / jmp (E8 / E9) never fails when every table slot it may get is within rel32 reach of the site *)
Theorem C04_reloc_addr_entry_complete : forall base asize atoff slots e opc,
  e_kind e = RAddrEntry opc -> opc = 232 \/ opc = 233 -> e_fmt e = fmt_of_kind K_Rel32 -> e_old e = 0 -> 2 <= e_off e + e_lead e ->
  (forall slot, 0 <= slot <= zlen slots ->
     - 2 ^ 31 <= to_i64 (wrap 64 (atoff + slot * asize - (e_secoff e + e_off e + e_region e))) < 2 ^ 31) ->
  succeeds base asize atoff slots e.
Proof. exact reloc_addr_entry_complete. Qed.
Print Assumptions C04_reloc_addr_entry_complete.

Theorem C04_reloc_abs_succeeds_iff_witness :
  succeeds 4294967040 8 0 [] (ex_abs_e 255) /\ ~ succeeds 4294967040 8 0 [] (ex_abs_e 256).
Proof. exact reloc_abs_succeeds_iff_witness. Qed.
Print Assumptions C04_reloc_abs_succeeds_iff_witness.

Theorem C04_reloc_expr_succeeds_iff_witness :
  succeeds 0 8 0 [] (ex_expr_e (Some 127) (Some 0)) /\ ~ succeeds 0 8 0 [] (ex_expr_e (Some 128) (Some 0)) /\ ~ succeeds 0 8 0 [] (ex_expr_e None (Some 0)).
Proof. exact reloc_expr_succeeds_iff_witness. Qed.
Print Assumptions C04_reloc_expr_succeeds_iff_witness.

(* ---- round 7: END TO END on the relocated bytes, no hypothesis about a structural instruction: `call / jmp / jcc <absolute>` emitted as
   the opcode bytes `pre` (one of the proven forms, C03_x86_branch_forms) + a rel32 hole with a RelocType::kAbsToRel entry, no other
   relocation site touching the instruction; after relocate_to_base, decoding the relocated bytes at the instruction's first byte with
   C01's proven decoder designates the absolute target ---- *)
Theorem C04_reloc_branch_end_to_end : forall base asize atoff reserved last es r data i e o (m : mode) pre mk (A Hh B : list Z),
  branch_form m 4 pre mk ->
  relocate base asize atoff reserved last es = inl r ->
  (forall e', In e' es -> site_wf data e') -> sites_disjoint es ->
  nth_error es i = Some e -> nth_error (rr_outs r) i = Some o ->
  e_kind e = RAbsToRel -> (if is64 m then 4 <? asize else asize <=? 4) = true -> e_fmt e = fmt_of_kind K_Rel32 -> e_old e = 0 ->
  data = A ++ pre ++ Hh ++ B -> length Hh = 4%nat ->
  e_off e = zlen A -> e_lead e = zlen pre -> e_region e = zlen pre + 4 ->
  (forall j e', j <> i -> nth_error es j = Some e' -> site_hi e' <= zlen A \/ zlen A + zlen pre + 4 <= site_lo e') ->
  site_target m CBranch (mkSh false false 4 1) (base + e_secoff e + e_off e) (skipn (Z.to_nat (zlen A)) (patch_all data es (rr_outs r)))
    = Some (e_payload e mod 2 ^ abits m).
Proof. exact reloc_branch_end_to_end. Qed.
Print Assumptions C04_reloc_branch_end_to_end.

(* frame condition used above: a cell is left alone by every site that either does not contain it in its (conservative) range or does not
   rewrite its opcode bytes and does not contain it in its value word *)
Theorem C04_patch_all_outside_gen : forall es outs data c, 0 <= c ->
  (forall e, In e es -> site_wf data e) ->
  (forall e o, In (e, o) (combine es outs) -> leaves_alone c e o) ->
  cell (patch_all data es outs) c = cell data c.
Proof. exact patch_all_outside_gen. Qed.
Print Assumptions C04_patch_all_outside_gen.

Theorem C04_reloc_branch_end_to_end_witness :
  exists r o, branch_form M64 4 [233] (mk_leg false 0 233) /\
    relocate 4194304 8 0 0 false [ex_jmp_entry] = inl r /\ nth_error (rr_outs r) O = Some o /\
    (forall e', In e' [ex_jmp_entry] -> site_wf [233; 0; 0; 0; 0] e') /\ sites_disjoint [ex_jmp_entry] /\
    [233; 0; 0; 0; 0] = [] ++ [233] ++ [0; 0; 0; 0] ++ [] /\
    (forall j e', j <> O -> nth_error [ex_jmp_entry] j = Some e' -> site_hi e' <= zlen (@nil Z) \/ zlen (@nil Z) + zlen [233] + 4 <= site_lo e') /\
    site_target M64 CBranch (mkSh false false 4 1) (4194304 + 0 + 0) (skipn (Z.to_nat (zlen (@nil Z))) (patch_all [233; 0; 0; 0; 0] [ex_jmp_entry] (rr_outs r)))
      = Some 4198400.
Proof. exact reloc_branch_end_to_end_witness. Qed.
Print Assumptions C04_reloc_branch_end_to_end_witness.


(* the same for x86-64 `[abs]` operands made RIP-relative (AbsToRel on the disp32): lea / mov forms (C03_x86_rip_forms) and the forms with a
   trailing immediate (C03_x86_rip_imm_forms) *)
Theorem C04_reloc_rip_end_to_end : forall base asize atoff reserved last es r data i e o pre mk reg (A Hh B : list Z),
  rip_form pre mk reg ->
  relocate base asize atoff reserved last es = inl r ->
  (forall e', In e' es -> site_wf data e') -> sites_disjoint es ->
  nth_error es i = Some e -> nth_error (rr_outs r) i = Some o ->
  e_kind e = RAbsToRel -> 4 < asize -> e_fmt e = fmt_of_kind K_Rel32 -> e_old e = 0 ->
  data = A ++ pre ++ Hh ++ B -> length Hh = 4%nat ->
  e_off e = zlen A -> e_lead e = zlen pre -> e_region e = zlen pre + 4 ->
  (forall j e', j <> i -> nth_error es j = Some e' -> site_hi e' <= zlen A \/ zlen A + zlen pre + 4 <= site_lo e') ->
  site_target M64 CMem (mkSh true false 0 1) (base + e_secoff e + e_off e) (skipn (Z.to_nat (zlen A)) (patch_all data es (rr_outs r)))
    = Some (e_payload e mod 2 ^ 64).
Proof. exact reloc_rip_end_to_end. Qed.
Print Assumptions C04_reloc_rip_end_to_end.

Theorem C04_reloc_rip_imm_end_to_end : forall base asize atoff reserved last es r data i e o n pre mk reg imm (A Hh B : list Z),
  rip_form_imm n pre mk reg -> 0 <= imm < 256 ^ Z.of_nat n ->
  relocate base asize atoff reserved last es = inl r ->
  (forall e', In e' es -> site_wf data e') -> sites_disjoint es ->
  nth_error es i = Some e -> nth_error (rr_outs r) i = Some o ->
  e_kind e = RAbsToRel -> 4 < asize -> e_fmt e = fmt_of_kind K_Rel32 -> e_old e = 0 ->
  data = A ++ pre ++ Hh ++ X86Model.le_bytes n imm ++ B -> length Hh = 4%nat ->
  e_off e = zlen A -> e_lead e = zlen pre -> e_region e = zlen pre + 4 + Z.of_nat n ->
  (forall j e', j <> i -> nth_error es j = Some e' -> site_hi e' <= zlen A \/ zlen A + zlen pre + 4 + Z.of_nat n <= site_lo e') ->
  site_target M64 CMem (mkSh true false n 1) (base + e_secoff e + e_off e) (skipn (Z.to_nat (zlen A)) (patch_all data es (rr_outs r)))
    = Some (e_payload e mod 2 ^ 64).
Proof. exact reloc_rip_imm_end_to_end. Qed.
Print Assumptions C04_reloc_rip_imm_end_to_end.

Theorem C04_reloc_rip_end_to_end_witness :
  exists r o, rip_form [72; 141; 5] (mk_rip 141 0) 0 /\
    relocate 4194304 8 0 0 false [ex_lea_entry] = inl r /\ nth_error (rr_outs r) O = Some o /\
    (forall e', In e' [ex_lea_entry] -> site_wf [72; 141; 5; 0; 0; 0; 0] e') /\ sites_disjoint [ex_lea_entry] /\
    [72; 141; 5; 0; 0; 0; 0] = [] ++ [72; 141; 5] ++ [0; 0; 0; 0] ++ [] /\
    site_target M64 CMem (mkSh true false 0 1) (4194304 + 0 + 0) (skipn (Z.to_nat (zlen (@nil Z))) (patch_all [72; 141; 5; 0; 0; 0; 0] [ex_lea_entry] (rr_outs r)))
      = Some 4198400.
Proof. exact reloc_rip_end_to_end_witness. Qed.
Print Assumptions C04_reloc_rip_end_to_end_witness.


(* x86-32 `op reg, [label + d]` / `op [label + d], imm` (RelToAbs on the disp32 of an absolute memory operand), end to end on the relocated
   bytes; abs_form n pre mk reg: pre ++ disp32 ++ n-byte immediate is C01's 32-bit-mode encoding of mk d imm *)
Theorem C04_reloc_abs32_end_to_end : forall base asize atoff reserved last es r data i e o n pre mk reg imm toff (A Hh B : list Z),
  abs_form n pre mk reg -> 0 <= imm < 256 ^ Z.of_nat n ->
  relocate base asize atoff reserved last es = inl r ->
  (forall e', In e' es -> site_wf data e') -> sites_disjoint es ->
  nth_error es i = Some e -> nth_error (rr_outs r) i = Some o ->
  e_kind e = RRelToAbs (Some toff) -> e_fmt e = ufmt 4 -> e_old e = 0 ->
  data = A ++ pre ++ Hh ++ X86Model.le_bytes n imm ++ B -> length Hh = 4%nat ->
  e_off e = zlen A -> e_lead e = zlen pre ->
  (forall j e', j <> i -> nth_error es j = Some e' -> site_hi e' <= zlen A \/ zlen A + zlen pre + 4 + Z.of_nat n <= site_lo e') ->
  site_target M32 CMem (mkSh true false n 1) (base + e_secoff e + e_off e) (skipn (Z.to_nat (zlen A)) (patch_all data es (rr_outs r)))
    = Some ((e_payload e + base + toff) mod 2 ^ 64) /\
  (e_payload e + base + toff) mod 2 ^ 64 < 2 ^ 32.
Proof. exact reloc_abs32_end_to_end. Qed.
Print Assumptions C04_reloc_abs32_end_to_end.

Theorem C04_x86_abs_forms :
  (forall opc reg, opc = 141 \/ opc = 139 \/ opc = 137 -> 0 <= reg < 8 -> abs_form 0 [opc; 8 * reg + 5] (mk_abs32 false opc reg) reg) /\
  abs_form 1 [198; 5] (mk_abs32 false 198 0) 0 /\ abs_form 2 [102; 199; 5] (mk_abs32 true 199 0) 0 /\
  abs_form 4 [199; 5] (mk_abs32 false 199 0) 0 /\ abs_form 1 [131; 5] (mk_abs32 false 131 0) 0.
Proof. exact (conj abs_forms_rm (conj abs_form_mov8 (conj abs_form_mov16 (conj abs_form_mov32 abs_form_add8)))). Qed.
Print Assumptions C04_x86_abs_forms.

Theorem C04_reloc_abs32_end_to_end_witness :
  exists r o, abs_form 0 [139; 8 * 0 + 5] (mk_abs32 false 139 0) 0 /\
    relocate 4194304 4 0 0 false [ex_abs32_entry] = inl r /\ nth_error (rr_outs r) O = Some o /\
    (forall e', In e' [ex_abs32_entry] -> site_wf [139; 5; 0; 0; 0; 0] e') /\ sites_disjoint [ex_abs32_entry] /\
    [139; 5; 0; 0; 0; 0] = [] ++ [139; 8 * 0 + 5] ++ [0; 0; 0; 0] ++ X86Model.le_bytes 0 0 ++ [] /\
    site_target M32 CMem (mkSh true false 0 1) (4194304 + 0 + 0) (skipn (Z.to_nat (zlen (@nil Z))) (patch_all [139; 5; 0; 0; 0; 0] [ex_abs32_entry] (rr_outs r)))
      = Some 4194568.
Proof. exact reloc_abs32_end_to_end_witness. Qed.
Print Assumptions C04_reloc_abs32_end_to_end_witness.


(* ---- round 7: the installed `call <absolute>` DECODED from the installed image (six bytes read at the site) by C01's proven decoder:
   a direct `call rel32` (40 E8) to the target, or `call [rip + disp32]` (FF 15) whose operand is the address-table slot holding the target
   (its installed bytes: C04_installed_table_slot) ---- *)
Theorem C04_installed_call_decodes : forall st calls base fill final img h2 i pos target,
  wf_holder (jh st) -> data_len_ok (jh st) ->
  (forall h1, flatten (jh st) = (EOk, h1) -> NoDup (map sid h1) /\ (forall s, In s h1 -> 0 <= sid s)) ->
  jtab st <> Some 0 -> (forall h off, sites_disjoint (map (site_entry h off) calls)) ->
  jit_add_reloc st calls base fill = (JOk, final, img, h2) ->
  nth_error calls i = Some (SCall pos target) ->
  exists h1 text atoff reserved last r,
    flatten (jh st) = (EOk, h1) /\ by_id h1 0 = Some text /\
    relocate base REG_SIZE atoff reserved last (map (site_entry h1 (soff text)) calls) = inl r /\
    (soff text + pos + CALL_LEN <= final -> cell (sdata text) pos = 64 -> cell (sdata text) (pos + 1) = 232 ->
     let a := soff text + pos in let bytes := bytes_at (flat img) a 6 in
     site_target M64 CBranch (mkSh false false 4 1) (base + a) bytes = Some (target mod 2 ^ 64) \/
     exists slot, 0 <= slot /\ nth_error (rr_table r) (Z.to_nat slot) = Some target /\
       site_target M64 CMem (mkSh true false 0 1) (base + a) bytes = Some ((base + atoff + slot * REG_SIZE) mod 2 ^ 64)).
Proof. exact installed_call_decodes. Qed.
Print Assumptions C04_installed_call_decodes.

Theorem C04_installed_call_decodes_witness : exists final img h2,
  let calls := [SCall 0 1311768467463790320; SCall 6 4198400] in
  wf_holder (jh ex_call_state) /\ data_len_ok (jh ex_call_state) /\
  (forall h1, flatten (jh ex_call_state) = (EOk, h1) -> NoDup (map sid h1) /\ (forall s, In s h1 -> 0 <= sid s)) /\
  jtab ex_call_state <> Some 0 /\ (forall h off, sites_disjoint (map (site_entry h off) calls)) /\
  jit_add_reloc ex_call_state calls 4194304 204 = (JOk, final, img, h2) /\
  site_target M64 CBranch (mkSh false false 4 1) (4194304 + 6) (bytes_at (flat img) 6 6) = Some 4198400 /\
  site_target M64 CMem (mkSh true false 0 1) (4194304 + 0) (bytes_at (flat img) 0 6) = Some (4194304 + 16) /\
  bytes_at (flat img) 16 8 = JitReloc.le_bytes 8 1311768467463790320.
Proof. exact installed_call_decodes_witness. Qed.
Print Assumptions C04_installed_call_decodes_witness.

(* ---- round 8: the LIST level (relocate_to_base's loop): over entries that do not go through the address table the loop succeeds exactly
   when every single entry succeeds (C04_reloc_*_succeeds_iff give the per-kind conditions), and the slot table comes back unchanged ---- *)
Theorem C04_relocate_all_complete : forall base asize atoff es slots, Forall no_table es ->
  ((exists os s', relocate_all base asize atoff slots es = inl (os, s')) <-> Forall (succeeds base asize atoff []) es).
Proof. exact relocate_all_complete. Qed.
Print Assumptions C04_relocate_all_complete.

Theorem C04_relocate_all_no_table_slots : forall base asize atoff es slots os s', Forall no_table es ->
  relocate_all base asize atoff slots es = inl (os, s') -> s' = slots.
Proof. exact relocate_all_no_table_slots. Qed.
Print Assumptions C04_relocate_all_no_table_slots.

Theorem C04_relocate_all_complete_witness :
  Forall no_table [ex_abs_e 255; ex_expr_e (Some 127) (Some 0)] /\
  (exists os s', relocate_all 4294967040 8 0 [] [ex_abs_e 255; ex_expr_e (Some 127) (Some 0)] = inl (os, s')) /\
  ~ (exists os s', relocate_all 4294967040 8 0 [] [ex_abs_e 255; ex_abs_e 256] = inl (os, s')).
Proof. exact relocate_all_complete_witness. Qed.
Print Assumptions C04_relocate_all_complete_witness.

(* C12, part 3: theorems by reflection over the AArch64 instruction table of the working tree and the cases generated from
   db/isa_aarch64.json (coq/gen/C12_A64*.v). *)
From Coq Require Import NArith ZArith List Bool.
From Verif Require Import RwInfo.RwModel RwInfo.FeatModel RwInfo.RwSpec RwInfo.RwProofs RwInfo.RegWrite RwInfo.RegWriteProofs RwInfo.A64RwModel RwInfo.A64RwProofs RwInfo.FeatProofs.
From VerifGen Require Import C12_A64Tables C12_A64Cases C12_A64Access.
Import ListNotations.
Local Open Scope N_scope.

(* AArch64 register lists: for every validator-accepted tuple built from the forms of db/isa_aarch64.json that contain a register
   list or register pair `Nx{...}` (ld1-4, ld1r-4r, st1-4, casp*; list a64_list_cases of coq/gen), the model of the a64
   query_rw_info reports each list as a run: some lead operand at or before the list's first register announces at least as many
   consecutive registers as reach the list's end, and every operand after the lead up to the list's end carries kConsecutive. *)
Theorem C12_a64_consecutive_runs : forall c, In c a64_list_cases ->
  exists out, a64_query_rw_info a64_tabs (ac_id c) (ac_ops c) = Some out /\ Forall (run_reported (i_ops out)) (ac_runs c).
Proof. exact a64_consecutive_runs. Qed.
Print Assumptions C12_a64_consecutive_runs.

(* FALSE for a64_list_cases_bad (known finding): tbl/tbx with 2..4 table registers report no run at all. *)
Theorem C12_a64_consecutive_runs_refuted : forall c, In c a64_list_cases_bad -> a64_case_ok a64_tabs c = false.
Proof. exact a64_consecutive_runs_refuted. Qed.
Print Assumptions C12_a64_consecutive_runs_refuted.

(* AArch64 operand access, database-wide: for every validator-accepted tuple built from the forms of the expanded db/isa_aarch64.json
   that AsmJit knows and the tuple builder can express (GP, SIMD scalar/vector/element registers, immediates, base / offset / pre- and
   post-index memory; a64_access_cases of coq/gen), the model of a64 query_rw_info reports every operand the database names as read
   (n, m, s, t, x) with kRead and every operand it names as written (d, x) with kWrite. *)
Theorem C12_a64_access_covers_db : forall c, In c a64_access_cases ->
  exists out, a64_query_rw_info a64_tabs (ac_id c) (ac_ops c) = Some out /\ access_reported (ac_access c) (i_ops out).
Proof. exact a64_access_covers_db. Qed.
Print Assumptions C12_a64_access_covers_db.

Theorem C12_a64_access_covers_db_refuted : forall c, In c a64_access_cases_bad -> a64_case_ok a64_tabs c = false.
Proof. exact a64_access_covers_db_refuted. Qed.
Print Assumptions C12_a64_access_covers_db_refuted.

(* non-vacuity of C12_a64_no_run_without_flag on the table of the working tree: every access record only uses kRead/kWrite, and there are
   instructions without the consecutive flag that are not tbl/tbx *)
Example C12_a64_no_run_without_flag_nonvacuous :
  forallb (fun r => forallb (fun e => e <=? 3) r) (at_rwx a64_tabs) = true /\
  existsb (fun row => negb (test (ai_flags row) (at_consecutive a64_tabs))) (at_inst a64_tabs) = true.
Proof. split; vm_compute; reflexivity. Qed.

(* non-vacuity of C12_a64_flagged_run_reported: the table has flagged instructions, and the snapshot has accepted list cases with > 2 operands *)
Example C12_a64_flagged_run_reported_nonvacuous :
  existsb (fun row => test (ai_flags row) (at_consecutive a64_tabs)) (at_inst a64_tabs) = true /\
  existsb (fun c => Nat.ltb 2 (length (ac_ops c))) a64_list_cases = true.
Proof. split; vm_compute; reflexivity. Qed.

(* round 6: C12_a64_by_element_write_mask is not vacuous - a database case of the snapshot has a WRITTEN by-element register operand at
   position 0 (ins v.s[1], w / ld1 {v.s}[1], [x] ...), handled by the non-list path, element size 1/2/4/8; and for such a case the model's
   write mask is exactly the element (e.g. bytes 4..7 for .s[1]) *)
From Verif Require Import RwInfo.CompleteProofs.
Definition by_element_written_case (c : a64_case) : bool :=
  match ac_ops c with
  | AReg (Some (et, idx)) :: _ =>
      let row := nthN (at_inst a64_tabs) (N.land (ac_id c) (at_real_id_mask a64_tabs)) {| ai_rw := 0; ai_flags := 0 |} in
      negb (test (ai_flags row) (at_consecutive a64_tabs) && Nat.ltb 2 (length (ac_ops c))) &&
      test (clear (nth 0 (nthN (at_rwx a64_tabs) (ai_rw row) []) 0) fZExt) fW &&
      existsb (N.eqb (nthN (at_elem_size a64_tabs) et 0)) [1; 2; 4; 8] && (idx <? 64) &&
      match a64_query_rw_info a64_tabs (ac_id c) (ac_ops c) with
      | Some out => o_w (nth 0 (i_ops out) op_zero) =? a64_elem_access (nthN (at_elem_size a64_tabs) et 0) idx
      | None => false end
  | _ => false end.
Example C12_a64_by_element_write_mask_nonvacuous : exists c, In c a64_access_cases /\ by_element_written_case c = true.
Proof.
  destruct (find by_element_written_case a64_access_cases) as [c|] eqn:E; [|vm_compute in E; discriminate].
  apply find_some in E. exists c. exact E.
Qed.
Print Assumptions C12_a64_by_element_write_mask_nonvacuous.

(* C12_a64_non_register_operands_silent / C12_a64_register_access_is_the_tables: database cases with an immediate operand next to register operands,
   handled by the non-list, non-tbl path, exist - and the immediate's record is all zero there *)
Definition imm_operand_case (c : a64_case) : bool :=
  let real := N.land (ac_id c) (at_real_id_mask a64_tabs) in
  let row := nthN (at_inst a64_tabs) real {| ai_rw := 0; ai_flags := 0 |} in
  negb (test (ai_flags row) (at_consecutive a64_tabs) && Nat.ltb 2 (length (ac_ops c))) &&
  negb (existsb (N.eqb real) (at_tbl_ids a64_tabs)) &&
  existsb (fun o => negb (a_is_reg_or_mem o)) (ac_ops c) && existsb a_is_reg_or_mem (ac_ops c) &&
  match a64_query_rw_info a64_tabs (ac_id c) (ac_ops c) with Some _ => true | None => false end.
Example C12_a64_silent_operands_nonvacuous : exists c, In c a64_access_cases /\ imm_operand_case c = true.
Proof.
  destruct (find imm_operand_case a64_access_cases) as [c|] eqn:E; [|vm_compute in E; discriminate].
  apply find_some in E. exists c. exact E.
Qed.
Print Assumptions C12_a64_silent_operands_nonvacuous.

(* C12, part 3: theorems by reflection over the AArch64 instruction table of the working tree and the cases generated from
   db/isa_aarch64.json (coq/gen/C12_A64*.v). *)
From Coq Require Import NArith ZArith List Bool.
From Verif Require Import RwInfo.RwModel RwInfo.FeatModel RwInfo.RwSpec RwInfo.RwProofs RwInfo.RegWrite RwInfo.RegWriteProofs RwInfo.A64RwModel RwInfo.A64RwProofs RwInfo.FeatProofs.
From VerifGen Require Import C12_A64Tables C12_A64Cases C12_A64Access.
Import ListNotations.
Local Open Scope N_scope.

(* AArch64 register lists: for every validator-accepted tuple built from the forms of db/isa_aarch64.json that contain a register
   list or register pair `Nx{...}` (ld1-4, ld1r-4r, st1-4, casp*; list a64_list_cases of coq/gen), the model of the a64
   query_rw_info reports each list as a run: some lead operand at or before the list's first register announces at least as many
   consecutive registers as reach the list's end, and every operand after the lead up to the list's end carries kConsecutive. *)
Theorem C12_a64_consecutive_runs : forall c, In c a64_list_cases ->
  exists out, a64_query_rw_info a64_tabs (ac_id c) (ac_ops c) = Some out /\ Forall (run_reported (i_ops out)) (ac_runs c).
Proof. exact a64_consecutive_runs. Qed.
Print Assumptions C12_a64_consecutive_runs.

(* FALSE for a64_list_cases_bad (known finding): tbl/tbx with 2..4 table registers report no run at all. *)
Theorem C12_a64_consecutive_runs_refuted : forall c, In c a64_list_cases_bad -> a64_case_ok a64_tabs c = false.
Proof. exact a64_consecutive_runs_refuted. Qed.
Print Assumptions C12_a64_consecutive_runs_refuted.

(* AArch64 operand access, database-wide: for every validator-accepted tuple built from the forms of the expanded db/isa_aarch64.json
   that AsmJit knows and the tuple builder can express (GP, SIMD scalar/vector/element registers, immediates, base / offset / pre- and
   post-index memory; a64_access_cases of coq/gen), the model of a64 query_rw_info reports every operand the database names as read
   (n, m, s, t, x) with kRead and every operand it names as written (d, x) with kWrite. *)
Theorem C12_a64_access_covers_db : forall c, In c a64_access_cases ->
  exists out, a64_query_rw_info a64_tabs (ac_id c) (ac_ops c) = Some out /\ access_reported (ac_access c) (i_ops out).
Proof. exact a64_access_covers_db. Qed.
Print Assumptions C12_a64_access_covers_db.

Theorem C12_a64_access_covers_db_refuted : forall c, In c a64_access_cases_bad -> a64_case_ok a64_tabs c = false.
Proof. exact a64_access_covers_db_refuted. Qed.
Print Assumptions C12_a64_access_covers_db_refuted.

(* non-vacuity of C12_a64_no_run_without_flag on the table of the working tree: every access record only uses kRead/kWrite, and there are
   instructions without the consecutive flag that are not tbl/tbx *)
Example C12_a64_no_run_without_flag_nonvacuous :
  forallb (fun r => forallb (fun e => e <=? 3) r) (at_rwx a64_tabs) = true /\
  existsb (fun row => negb (test (ai_flags row) (at_consecutive a64_tabs))) (at_inst a64_tabs) = true.
Proof. split; vm_compute; reflexivity. Qed.

(* non-vacuity of C12_a64_flagged_run_reported: the table has flagged instructions, and the snapshot has accepted list cases with > 2 operands *)
Example C12_a64_flagged_run_reported_nonvacuous :
  existsb (fun row => test (ai_flags row) (at_consecutive a64_tabs)) (at_inst a64_tabs) = true /\
  existsb (fun c => Nat.ltb 2 (length (ac_ops c))) a64_list_cases = true.
Proof. split; vm_compute; reflexivity. Qed.

(* C02 — AArch64 assembler emits a correct encoding of every instruction it accepts: property theorems.
   Only statements + `exact lemma` here; models in A64/A64Tmpl.v, A64/A64Sem.v, proofs in A64/*Proofs.v, generated ISA-database
   rows and their reflection lemmas in coq/gen/IsaA64Db.v (re-generated from /repo/db on every run of the check).
   The theorems are about the specification spec_a64 / spec_row derived from the ISA database; that the words of a64::Assembler are
   the words of this specification is checked per run on generated operands (tools/checks/c02.py), not proved. *)
From Coq Require Import ZArith List Bool.
From Verif Require Import A64.A64Tmpl A64.A64TmplProofs A64.A64Sem A64.A64SemProofs A64.A64InvProofs A64.A64RefusalProofs.
From VerifGen Require Import IsaA64Db.
Import ListNotations.
Local Open Scope Z_scope.

(* Generic template round trip: for every well-formed 32-bit template and every environment, the encoded word is a 32-bit
   value that carries exactly the fixed bits of the template, every item chunk read back from the word is the chunk that was
   put in, and every field whose slices tile bits [0,W) is recovered modulo 2^W. *)
Theorem C02_tmpl_roundtrip : forall (t : tmpl) (e : env), twf t = true ->
  let w := tenc t e in
  0 <= w < 2 ^ 32 /\ tmatch t w = true /\ tchunks t w = map (ival e) t /\
  forall f W, field_ok t (f, W) = true -> tfield t w f = lookup e f mod 2 ^ W.
Proof. exact tmpl_roundtrip. Qed.
Print Assumptions C02_tmpl_roundtrip.

(* Every row generated from the ISA database is well formed (reflection over all supported rows of the current /repo/db):
   32-bit template, fixed bits in range, field slices tile their fields, every field bound by exactly one operand syntax
   with the declared width, distinct field names. *)
Theorem C02_db_rows_wf : forall r, In r rows -> row_wf r = true.
Proof. exact (proj1 (forallb_forall row_wf rows) rows_wf). Qed.
Print Assumptions C02_db_rows_wf.

(* For EVERY supported row and ALL operands the specification accepts: the word is a 32-bit value carrying the fixed bits of the
   row's template (it "matches the bit template of the ISA database"), and every field value derived from the operands (register
   numbers, immediates, scaled offsets, option bits) is read back exactly from the word — no field is truncated or overlaps. *)
Theorem C02_fields_recovered : forall r ops w, In r rows -> spec_row r ops = Some w ->
  0 <= w < 2 ^ 32 /\ tmatch (r_tmpl r) w = true /\
  exists e, bind (r_ops r) ops = Some e /\ w = tenc (r_tmpl r) e /\ forall f v, In (f, v) e -> tfield (r_tmpl r) w f = v.
Proof. intros r ops w Hin. apply spec_row_fields_recovered. exact (proj1 (forallb_forall row_wf rows) rows_wf r Hin). Qed.
Print Assumptions C02_fields_recovered.

(* Operands are recovered from the word (injectivity of the encoding on canonical operands), for the rows all of whose operand
   syntaxes are inverted by unbind1: GP and SIMD&FP registers (SP/ZR distinction by form, view, arrangement, lane), plain/scaled/
   signed/bounded immediates, condition codes, system registers, shifted-register modifiers, branch/literal displacements, base,
   base+offset (incl. pre/post index), LDP/STP write-back (zero write-back in its normal form), register-index and post-index-by-
   register addressing.
   PARTIAL: rows with an extended-register operand, ADD/SUB immediate with optional lsl #12, bitfield aliases, move-wide with
   shift, bitmask immediates and LDn/STn register lists (length rows - rows_inv_count of them) are not covered by this theorem (their
   field values are still covered by C02_fields_recovered). *)
Theorem C02_operands_recovered_partial : forall r ops w, In r rows -> row_inv r = true ->
  spec_row r ops = Some w -> canon (r_ops r) ops = Some (decode_row r w).
Proof. intros r ops w Hin. apply operands_recovered. exact (proj1 (forallb_forall row_wf rows) rows_wf r Hin). Qed.
Print Assumptions C02_operands_recovered_partial.

(* the hypotheses are satisfiable: that many rows are in the scope of the theorem, and here is one accepted instance *)
Example C02_operands_recovered_scope : Z.of_nat (length (filter row_inv rows)) = rows_inv_count /\ 0 < rows_inv_count.
Proof. split; [exact rows_inv_counted | reflexivity]. Qed.

(* Refusal is exact (same scope): the specification is undefined for an operand list exactly when the list is not made of valid
   operands of the row's syntaxes, validity being the architectural range stated declaratively in A64RefusalProofs.valid1
   (register id 0..30 or the SP/ZR id the form allows and the right width, immediate inside its field range and a multiple of its
   scale, condition code 0..15, shift kind allowed and amount below the register width, displacement aligned and inside the signed
   range, base register 0..30|SP, offset aligned and inside the field's range, matching addressing mode). *)
Theorem C02_refusal_exact_partial : forall r ops, In r rows -> forallb syn_inv (r_ops r) = true ->
  ((exists w, spec_row r ops = Some w) <-> ops_valid (r_ops r) ops) /\ (spec_row r ops = None <-> ~ ops_valid (r_ops r) ops).
Proof.
  intros r ops _ Hinv. destruct (refusal_exact (r_ops r) ops Hinv) as [A B]. unfold spec_row.
  destruct (bind (r_ops r) ops) as [e|] eqn:E.
  - split; [split; [intros _; apply A; exists e; reflexivity | intros _; eexists; reflexivity] | split; [discriminate | intros N; apply B in N; discriminate]].
  - split; [split; [intros [w X]; discriminate | intros V; apply A in V; destruct V as [e X]; discriminate] | split; [intros _; apply B; reflexivity | reflexivity]].
Qed.
Print Assumptions C02_refusal_exact_partial.

(* Instruction level (all instructions except the MOV Rd,#imm pseudo instruction, whose words come from the C17 move-wide model and are
   judged by execution in the check): whatever spec_a64_rows returns for a mnemonic is the single word of one database row of that mnemonic (or of its
   LDUR/STUR fall-back mnemonic), so the three theorems above apply to it. *)
Theorem C02_spec_a64_is_a_row : forall mn ops id ws, spec_a64_rows rows alt_table mn ops = Some (id, ws) ->
  exists r w, In r rows /\ r_id r = id /\ ws = [w] /\ spec_row r ops = Some w /\
              (r_mn r = mn \/ exists p, In p alt_table /\ fst p = mn /\ snd p = r_mn r).
Proof. exact (spec_a64_from_row rows alt_table). Qed.
Print Assumptions C02_spec_a64_is_a_row.

(* C02 — AArch64 assembler emits a correct encoding of every instruction it accepts: property theorems.
   Only statements + `exact lemma` here; models in A64/A64Tmpl.v, A64/A64Sem.v, proofs in A64/*Proofs.v, generated ISA-database
   rows and their reflection lemmas in coq/gen/IsaA64Db.v (re-generated from /repo/db on every run of the check).
   The theorems are about the specification spec_a64 / spec_row derived from the ISA database; that the words of a64::Assembler are
   the words of this specification is checked per run on generated operands (tools/checks/c02.py), not proved. *)
From Coq Require Import ZArith List Bool.
From Verif Require Import A64.A64Tmpl A64.A64TmplProofs A64.A64Sem A64.A64SemProofs A64.A64InvProofs A64.A64RefusalProofs A64.A64InstProofs A64.A64CanonProofs A64.A64FpProofs A64.A64TmplComplete A64.A64BijProofs Codec.ImmModel.
From VerifGen Require Import IsaA64Db.
Import ListNotations.
Local Open Scope Z_scope.

(* Generic template round trip: for every well-formed 32-bit template and every environment, the encoded word is a 32-bit
   value that carries exactly the fixed bits of the template, every item chunk read back from the word is the chunk that was
   put in, and every field whose slices tile bits [0,W) is recovered modulo 2^W. *)
Theorem C02_tmpl_roundtrip : forall (t : tmpl) (e : env), twf t = true ->
  let w := tenc t e in
  0 <= w < 2 ^ 32 /\ tmatch t w = true /\ tchunks t w = map (ival e) t /\
  forall f W, field_ok t (f, W) = true -> tfield t w f = lookup e f mod 2 ^ W.
Proof. exact tmpl_roundtrip. Qed.
Print Assumptions C02_tmpl_roundtrip.

(* Every row generated from the ISA database is well formed (reflection over all supported rows of the current /repo/db):
   32-bit template, fixed bits in range, field slices tile their fields, every field bound by exactly one operand syntax
   with the declared width, distinct field names. *)
Theorem C02_db_rows_wf : forall r, In r rows -> row_wf r = true.
Proof. exact (proj1 (forallb_forall row_wf rows) rows_wf). Qed.
Print Assumptions C02_db_rows_wf.

(* For EVERY supported row and ALL operands the specification accepts: the word is a 32-bit value carrying the fixed bits of the
   row's template (it "matches the bit template of the ISA database"), and every field value derived from the operands (register
   numbers, immediates, scaled offsets, option bits) is read back exactly from the word — no field is truncated or overlaps. *)
Theorem C02_fields_recovered : forall r ops w, In r rows -> spec_row r ops = Some w ->
  0 <= w < 2 ^ 32 /\ tmatch (r_tmpl r) w = true /\
  exists e, bind (r_ops r) ops = Some e /\ w = tenc (r_tmpl r) e /\ forall f v, In (f, v) e -> tfield (r_tmpl r) w f = v.
Proof. intros r ops w Hin. apply spec_row_fields_recovered. exact (proj1 (forallb_forall row_wf rows) rows_wf r Hin). Qed.
Print Assumptions C02_fields_recovered.

(* Operands are recovered from the word (the encoding is injective on canonical operands), for EVERY supported row and ALL operands the
   specification accepts: decoding the word with the inverse operand map (decode_row: GP / SIMD&FP registers with SP/ZR distinction, view,
   arrangement, lane, register lists; plain / scaled / signed / bounded immediates; condition codes; system registers; shift and extend
   modifiers; ADD/SUB immediate with lsl #12; bitfield aliases; move-wide with shift; bitmask immediates through DecodeBitMasks (C17
   logical_imm_sound); SIMD shift amounts; displacements; every addressing mode) returns the operands in canonical form (canon: don't-care
   parts normalised, optional modifiers made explicit, zero write-back in its normal form). *)
Theorem C02_operands_recovered : forall r ops w, In r rows ->
  spec_row r ops = Some w -> canon (r_ops r) ops = Some (decode_row r w).
Proof.
  intros r ops w Hin. apply operands_recovered.
  - exact (proj1 (forallb_forall row_wf rows) rows_wf r Hin).
  - exact (proj1 (forallb_forall row_inv rows) rows_all_inv r Hin).
Qed.
Print Assumptions C02_operands_recovered.

(* Refusal is exact, for EVERY supported row: the specification is undefined for an operand list exactly when the list is not made of
   valid operands of the row's syntaxes, validity being the architectural range stated declaratively in A64RefusalProofs.valid1
   (register id 0..30 or the SP/ZR id the form allows and the right width/view/arrangement; lane inside the vector; consecutive list;
   immediate inside its field range and a multiple of its scale; bitmask immediate = some DecodeBitMasks value (C17
   logical_imm_refused_iff); lsb + width inside the register; condition code 0..15; shift kind allowed and amount below the register
   width; displacement aligned and inside the signed range; base register 0..30|SP; offset aligned and inside the field's range;
   matching addressing mode). *)
Theorem C02_refusal_exact : forall r ops, In r rows ->
  ((exists w, spec_row r ops = Some w) <-> ops_valid (r_ops r) ops) /\ (spec_row r ops = None <-> ~ ops_valid (r_ops r) ops).
Proof.
  intros r ops _.
  assert (Hinv : forallb syn_inv (r_ops r) = true) by (apply forallb_forall; intros s _; destruct s; reflexivity).
  destruct (refusal_exact (r_ops r) ops Hinv) as [A B]. unfold spec_row.
  destruct (bind (r_ops r) ops) as [e|] eqn:E.
  - split; [split; [intros _; apply A; exists e; reflexivity | intros _; eexists; reflexivity] | split; [discriminate | intros N; apply B in N; discriminate]].
  - split; [split; [intros [w X]; discriminate | intros V; apply A in V; destruct V as [e X]; discriminate] | split; [intros _; apply B; reflexivity | reflexivity]].
Qed.
Print Assumptions C02_refusal_exact.

(* The MOV Rd, #imm pseudo instruction (the only multi-word output): whatever spec_mov_imm emits either is a MOVZ/MOVN(+MOVK) sequence on
   register Rd that, decoded architecturally (mw_decode) and executed from any initial register value, leaves the immediate in the register
   (1..4 words, Rd not SP), or is the single word ORR Rd|SP, ZR, #bitmask whose N:immr:imms fields denote the immediate (Rd not ZR). *)
Theorem C02_mov_imm_correct : forall x rd v ws, spec_mov_imm x rd v = Some ws ->
  let width := if x then 64 else 32 in
  let imm := v mod 2 ^ width in
  (gp_ok rd 63 = true /\ forall init, 0 <= init < 2 ^ 64 ->
     exists ops, map Codec.ImmModel.mw_decode ws = map (fun m => Some (rd mod 32, m)) ops /\ Codec.ImmModel.mw_run init ops = Some imm /\ (1 <= length ws <= 4)%nat) \/
  (gp_ok rd 31 = true /\ rd <> 63 /\ exists n r s, ws = [orr_imm_word x n r s (rd mod 32)] /\
     0 <= n < 2 /\ 0 <= r < 64 /\ 0 <= s < 64 /\ Codec.ImmModel.decode_bit_masks width n s r = Some imm).
Proof. exact mov_imm_correct. Qed.
Print Assumptions C02_mov_imm_correct.

(* The mask view of the fixed bits agrees with the template view: every word encoded from a supported row carries exactly tfixed on the
   positions tmask, whatever the operands (this is what links C02_tables_agree_db_partial, stated with tmask/tfixed, to the words of
   spec_row). *)
Theorem C02_fixed_bits_mask : forall r e, In r rows -> Z.land (tenc (r_tmpl r) e) (tmask (r_tmpl r)) = tfixed (r_tmpl r).
Proof.
  intros r e Hin. apply tenc_fixed_bits.
  pose proof (proj1 (forallb_forall row_wf rows) rows_wf r Hin) as H. unfold row_wf in H.
  repeat (apply andb_prop in H; destruct H as [H _]). unfold row_tmpl_wf in H.
  repeat (apply andb_prop in H; destruct H as [H _]). exact H.
Qed.
Print Assumptions C02_fixed_bits_mask.

(* Instruction level (all instructions except the MOV Rd,#imm pseudo instruction, covered by C02_mov_imm_correct): whatever spec_a64_rows returns for a mnemonic is the single word of one database row of that mnemonic (or of its
   LDUR/STUR fall-back mnemonic), so the three theorems above apply to it. *)
Theorem C02_spec_a64_is_a_row : forall mn ops id ws, spec_a64_rows rows alt_table mn ops = Some (id, ws) ->
  exists r w, In r rows /\ r_id r = id /\ ws = [w] /\ spec_row r ops = Some w /\
              (r_mn r = mn \/ exists p, In p alt_table /\ fst p = mn /\ snd p = r_mn r).
Proof. exact (spec_a64_from_row rows alt_table). Qed.
Print Assumptions C02_spec_a64_is_a_row.


(* Instruction-level refusal is exact (round 6): for a mnemonic and ANY operand list the specification answers None exactly when the
   operands are invalid (ops_valid, the declarative ranges of C02_refusal_exact) for EVERY database row of the mnemonic and of its fall-back
   mnemonic (LDR -> LDUR ...). So a refusal of the specification is never an artefact of the row search, and an acceptance needs just one row. *)
Theorem C02_inst_refusal_exact : forall mn ops, spec_a64_rows rows alt_table mn ops = None <->
  (forall r, In r rows -> (r_mn r = mn \/ exists k, find (fun p => fst p =? mn) alt_table = Some (k, r_mn r)) -> ~ ops_valid (r_ops r) ops).
Proof.
  intros mn ops. rewrite spec_a64_rows_none. split.
  - intros [H1 H2] r Hin [Hm | [k Hk]].
    + apply (proj2 (C02_refusal_exact r ops Hin)). exact (H1 r Hin Hm).
    + apply (proj2 (C02_refusal_exact r ops Hin)). apply (H2 (r_mn r)); [right; exists k; exact Hk | exact Hin | reflexivity].
  - intros H. split.
    + intros r Hin Hm. apply (proj2 (C02_refusal_exact r ops Hin)). apply H; [exact Hin | left; exact Hm].
    + intros mn' Hf r Hin Hm. apply (proj2 (C02_refusal_exact r ops Hin)). apply H; [exact Hin|]. right.
      destruct Hf as [Hf | [k Hf]]; [exists mn | exists k]; rewrite Hm; exact Hf.
Qed.
Print Assumptions C02_inst_refusal_exact.

(* The row search is deterministic and ordered: the answer for a mnemonic is its FIRST accepting row in database order - every earlier row
   of the mnemonic refuses the operands (this is what makes the shifted-register form win over the extended-register form, and the scaled
   LDR over LDUR). *)
Theorem C02_inst_first_row : forall mn ops id w, spec_rows rows mn ops = Some (id, w) ->
  exists pre r post, rows = pre ++ r :: post /\ r_id r = id /\ r_mn r = mn /\ spec_row r ops = Some w /\
                     (forall r', In r' pre -> r_mn r' = mn -> ~ ops_valid (r_ops r') ops).
Proof.
  intros mn ops id w H. destruct (spec_rows_first rows mn ops id w H) as (pre & r & post & Hd & A & B & C & D).
  exists pre, r, post. repeat split; auto. intros r' Hi Hm.
  assert (Hin : In r' rows) by (rewrite Hd; apply in_or_app; left; exact Hi).
  apply (proj2 (C02_refusal_exact r' ops Hin)). exact (D r' Hi Hm).
Qed.
Print Assumptions C02_inst_first_row.

(* Decoding is a right inverse of encoding on the image (round 6, all rows, all operands): the canonical operands read back from an emitted
   word are themselves accepted by the row and encode to the SAME word, and they are valid operands in the declarative sense. Together with
   C02_operands_recovered (decode after encode = canonical form) this makes spec_row / decode_row a bijection between the canonical valid
   operand lists of a row and the words the row can produce; canonicalisation (explicit LSL #0, explicit extend kind, imm12 with lsl #12,
   bitmask value modulo the register width, zero write-back normal form, double bits of an FP immediate, ...) never changes the encoding. *)
Theorem C02_canonical_reencodes : forall r ops w, In r rows -> spec_row r ops = Some w ->
  spec_row r (decode_row r w) = Some w /\ ops_valid (r_ops r) (decode_row r w).
Proof.
  intros r ops w Hin H.
  pose proof (C02_operands_recovered r ops w Hin H) as Hc.
  assert (Hok : canon_row_ok (r_ops r) = true) by exact (proj1 (forallb_forall _ rows) rows_canon_ok r Hin).
  assert (S : spec_row r (decode_row r w) = Some w).
  { unfold spec_row in *. destruct (bind (r_ops r) ops) as [e|] eqn:B; [|discriminate]. inversion H; subst.
    rewrite (canon_bind_same _ _ _ _ Hok B Hc). reflexivity. }
  split; [exact S|].
  apply (proj1 (proj1 (C02_refusal_exact r (decode_row r w) Hin))). exists w. exact S.
Qed.
Print Assumptions C02_canonical_reencodes.
(* canonical operands are a fixed point of decode-after-encode *)
Corollary C02_decode_idempotent : forall r ops w, In r rows -> spec_row r ops = Some w ->
  canon (r_ops r) (decode_row r w) = Some (decode_row r w).
Proof.
  intros r ops w Hin H. destruct (C02_canonical_reencodes r ops w Hin H) as [S _].
  exact (C02_operands_recovered r (decode_row r w) w Hin S).
Qed.
Print Assumptions C02_decode_idempotent.

(* Injectivity on operands (corollary of C02_operands_recovered, stated explicitly): two operand lists that a row encodes to the same
   word have the same canonical form - no two different canonical operand lists collide. *)
Corollary C02_row_injective : forall r ops1 ops2 w, In r rows -> spec_row r ops1 = Some w -> spec_row r ops2 = Some w ->
  canon (r_ops r) ops1 = canon (r_ops r) ops2.
Proof.
  intros r ops1 ops2 w Hin H1 H2.
  rewrite (C02_operands_recovered r ops1 w Hin H1), (C02_operands_recovered r ops2 w Hin H2). reflexivity.
Qed.
Print Assumptions C02_row_injective.

(* Frame condition (what must NOT change): if two accepted operand lists of a row bind the same value to a field, that field reads back
   identically from both words - changing one operand changes only the bits of the fields it binds; and the fixed bits never change
   (C02_fixed_bits_mask). *)
Corollary C02_field_frame : forall r ops1 ops2 w1 w2 e1 e2 f v, In r rows ->
  bind (r_ops r) ops1 = Some e1 -> bind (r_ops r) ops2 = Some e2 -> w1 = tenc (r_tmpl r) e1 -> w2 = tenc (r_tmpl r) e2 ->
  In (f, v) e1 -> In (f, v) e2 ->
  tfield (r_tmpl r) w1 f = tfield (r_tmpl r) w2 f /\
  Z.land w1 (tmask (r_tmpl r)) = Z.land w2 (tmask (r_tmpl r)).
Proof.
  intros r ops1 ops2 w1 w2 e1 e2 f v Hin B1 B2 -> -> I1 I2.
  assert (S1 : spec_row r ops1 = Some (tenc (r_tmpl r) e1)) by (unfold spec_row; rewrite B1; reflexivity).
  assert (S2 : spec_row r ops2 = Some (tenc (r_tmpl r) e2)) by (unfold spec_row; rewrite B2; reflexivity).
  destruct (C02_fields_recovered r ops1 _ Hin S1) as (_ & _ & e1' & B1' & _ & F1).
  destruct (C02_fields_recovered r ops2 _ Hin S2) as (_ & _ & e2' & B2' & _ & F2).
  rewrite B1 in B1'. inversion B1'; subst e1'. rewrite B2 in B2'. inversion B2'; subst e2'.
  split; [rewrite (F1 f v I1), (F2 f v I2); reflexivity|].
  rewrite !(C02_fixed_bits_mask r _ Hin). reflexivity.
Qed.
Print Assumptions C02_field_frame.

(* FMOV immediates: the declarative validity WITHOUT the two guards that bind1/valid1 carry only to avoid range lemmas (they are discharged
   in A64FpProofs: the imm8 encoding is always an 8-bit value; the double converted from an int32 is always a 64-bit pattern): an Imm is a
   valid FMOV immediate iff it is a double (64-bit pattern) or an int32, and the value is one of the 256 imm8 numbers. *)
Theorem C02_fp_imm_valid : forall fa fd p v r,
  valid1 (SFpImm fa fd) (OImm p v :: r) <->
  ((256 <= p /\ 0 <= v < 2 ^ 64) \/ (p < 256 /\ - 2 ^ 31 <= v < 2 ^ 31)) /\ is_fp_imm8 9 6 48 (fimm_bits p v) = true.
Proof. exact fp_imm_valid_clean. Qed.
Print Assumptions C02_fp_imm_valid.
Example ex_fp_imm_valid : is_fp_imm8 9 6 48 (fimm_bits 256 4607182418800017408) = true   (* 1.0 *)
  /\ is_fp_imm8 9 6 48 (fimm_bits 0 31) = true /\ is_fp_imm8 9 6 48 (fimm_bits 0 32) = false   (* the integers 31 and 32 *)
  /\ is_fp_imm8 9 6 48 (fimm_bits 256 4591870180066957722) = false.   (* 0.1 *)
Proof. vm_compute. repeat split; reflexivity. Qed.

(* Completeness of the template codec (round 6; the converse of C02_tmpl_roundtrip): for every row whose template writes each field as one
   whole slice (simple_rows_count = 3115 of the 3306 rows; the others split a field such as relS or idx into slices), EVERY 32-bit word that
   carries the fixed bits of the row is the encoding of the field values read from it - tenc is onto the matching words, so
   "matches the template" and "is tenc of some field environment" are the same thing, and the field environment is the one tfield reads. *)
Theorem C02_tmpl_complete_simple : forall r w, In r rows -> tsimple (r_tmpl r) = true -> tmatch (r_tmpl r) w = true ->
  tenc (r_tmpl r) (env_of (r_tmpl r) w) = w.
Proof.
  intros r w Hin Hs Hm.
  pose proof (proj1 (forallb_forall row_wf rows) rows_wf r Hin) as H. unfold row_wf in H.
  assert (T : twf (r_tmpl r) = true).
  { destruct (row_tmpl_wf (r_tmpl r) (r_fields r)) eqn:E; [|rewrite ?andb_false_l in H; cbn in H; discriminate H].
    unfold row_tmpl_wf in E. apply andb_prop in E. destruct E as [E _]. apply andb_prop in E. destruct E as [E _]. exact E. }
  unfold twf in T. apply andb_prop in T. destruct T as [Hwf H32].
  apply Z.eqb_eq in H32. apply tmpl_complete_simple; assumption.
Qed.
Print Assumptions C02_tmpl_complete_simple.

(* The image of a row characterised (round 6): for every row whose operand syntaxes are bijective between in-range field values and valid
   operands (syn_bij: registers, plain/scaled/signed/bounded immediates, conditions, displacements, offsets, vector views and lanes, system
   registers and operations; bij_rows_count rows - not the forms with several encodings of one operand: bitmask immediates, optional shifts,
   zero write-back, bitfield aliases, byte register offsets, one register in two fields) and whose template is simple, a 32-bit word is produced by the row for SOME operands exactly
   when it carries the row's fixed bits and the operands decoded from it are valid - and then those decoded operands produce it.
   So for these rows the specification is a bijection between valid canonical operand lists and the matching words with valid decodes:
   no matching word is missed by the encoder, none is produced twice. *)
Theorem C02_image_characterised : forall r w, In r rows -> forallb syn_bij (r_ops r) = true -> tsimple (r_tmpl r) = true ->
  ((exists ops, spec_row r ops = Some w) <-> (tmatch (r_tmpl r) w = true /\ ops_valid (r_ops r) (decode_row r w))) /\
  (tmatch (r_tmpl r) w = true -> ops_valid (r_ops r) (decode_row r w) -> spec_row r (decode_row r w) = Some w).
Proof.
  intros r w Hin Hb Hs.
  assert (Hwf : row_wf r = true) by exact (proj1 (forallb_forall row_wf rows) rows_wf r Hin).
  pose proof (proj1 (forallb_forall row_inv rows) rows_all_inv r Hin) as Hri. unfold row_inv in Hri. apply andb_prop in Hri. destruct Hri as [_ Hhi].
  assert (D : tmatch (r_tmpl r) w = true -> ops_valid (r_ops r) (decode_row r w) -> spec_row r (decode_row r w) = Some w)
    by (intros Hm Hv; apply row_decode_encode; try assumption; exact (proj1 (forallb_forall _ rows) rows_canon_ok r Hin)).
  split; [|exact D]. split.
  - intros [ops H]. destruct (C02_fields_recovered r ops w Hin H) as (_ & Hm & _).
    destruct (C02_canonical_reencodes r ops w Hin H) as [_ Hv]. split; assumption.
  - intros [Hm Hv]. exists (decode_row r w). apply D; assumption.
Qed.
Print Assumptions C02_image_characterised.

(* Instruction-level lift of C02_canonical_reencodes (round 7): whatever single word the specification answers for a mnemonic, the operands
   decoded from that word with the answering row are valid operands of that row and make the row produce the same word again - the
   round trip word -> operands -> word holds for every instruction-level answer, not only row by row. *)
Theorem C02_inst_canonical_reencodes : forall mn ops id ws, spec_a64_rows rows alt_table mn ops = Some (id, ws) ->
  exists r w, In r rows /\ r_id r = id /\ ws = [w] /\
              spec_row r (decode_row r w) = Some w /\ ops_valid (r_ops r) (decode_row r w) /\
              canon (r_ops r) ops = Some (decode_row r w).
Proof.
  intros mn ops id ws H. destruct (C02_spec_a64_is_a_row mn ops id ws H) as (r & w & Hin & Hid & Hws & Hs & _).
  exists r, w. destruct (C02_canonical_reencodes r ops w Hin Hs) as [A B].
  repeat split; auto. exact (C02_operands_recovered r ops w Hin Hs).
Qed.
Print Assumptions C02_inst_canonical_reencodes.

(* ---- non-vacuity on a hand-written row (ADD Xd, Xn, Xm with a zero shift): the hypotheses of the theorems above are satisfiable and the
   conclusions say something: the row is well formed, accepts x1, x2, x3 with the architectural word 8B030041, the operands are read back
   from that word, and SP (id 31) in a ZR position is refused. The generated coq/gen/IsaA64Db.v carries instruction-level Examples over
   the real database rows (ex_add, ex_ldr_falls_back_to_ldur, ex_mov_sequence, ex_fmov_imm, ex_ld2_lane, ex_refuses_...). *)
Definition ex_row : row :=
  {| r_id := 1; r_mn := 1; r_ops := [SGp true 63 0; SGp true 63 1; SGp true 63 2];
     r_tmpl := [TFixed 11 1112; TField 2 4 0; TFixed 6 0; TField 1 4 0; TField 0 4 0]; r_fields := [(0, 5); (1, 5); (2, 5)] |}.
Example ex_row_wf : row_wf ex_row = true /\ row_inv ex_row = true.
Proof. vm_compute. split; reflexivity. Qed.
Example ex_row_encodes : spec_row ex_row [OGp true 1; OGp true 2; OGp true 3] = Some 2332229697.
Proof. vm_compute. reflexivity. Qed.
Example ex_row_decodes : decode_row ex_row 2332229697 = [OGp true 1; OGp true 2; OGp true 3]
  /\ canon (r_ops ex_row) [OGp true 1; OGp true 2; OGp true 3] = Some (decode_row ex_row 2332229697).
Proof. vm_compute. split; reflexivity. Qed.
Example ex_row_refuses_sp : spec_row ex_row [OGp true 1; OGp true 31; OGp true 3] = None
  /\ ~ ops_valid (r_ops ex_row) [OGp true 1; OGp true 31; OGp true 3].
Proof.
  split; [vm_compute; reflexivity|]. cbn. intros (_ & (_ & [H | H]) & _); [destruct H as [_ H]; apply Z.leb_gt in H || (revert H; apply Z.lt_nge; reflexivity) | discriminate].
Qed.
Example ex_fixed_bits : Z.land 2332229697 (tmask (r_tmpl ex_row)) = tfixed (r_tmpl ex_row) /\ tmask (r_tmpl ex_row) = 4292934656.
Proof. vm_compute. split; reflexivity. Qed.
Example ex_row_reencodes : spec_row ex_row (decode_row ex_row 2332229697) = Some 2332229697 /\ canon_row_ok (r_ops ex_row) = true.
Proof. vm_compute. split; reflexivity. Qed.
Example ex_row_frame : tfield (r_tmpl ex_row) 2332229697 1 = 2 /\ tfield (r_tmpl ex_row) 2332229697 2 = 3
  /\ spec_row ex_row [OGp true 9; OGp true 2; OGp true 3] = Some 2332229705 /\ tfield (r_tmpl ex_row) 2332229705 1 = 2.
Proof. vm_compute. repeat split; reflexivity. Qed.
Example ex_row_complete : tsimple (r_tmpl ex_row) = true /\ tmatch (r_tmpl ex_row) 2332295362 = true
  /\ tenc (r_tmpl ex_row) (env_of (r_tmpl ex_row) 2332295362) = 2332295362.   (* an arbitrary word with ADD's fixed bits: 8B040082 *)
Proof. vm_compute. repeat split; reflexivity. Qed.
Example ex_row_image : forallb syn_bij (r_ops ex_row) = true /\ decode_row ex_row 2332295362 = [OGp true 2; OGp true 6; OGp true 4]
  /\ spec_row ex_row (decode_row ex_row 2332295362) = Some 2332295362
  /\ spec_row ex_row (decode_row ex_row 2332229697) = Some 2332229697.
Proof. vm_compute. repeat split; reflexivity. Qed.
(* non-vacuity of C02_inst_canonical_reencodes on the real rows: ADD x1, x2, x3 (mnemonic number 3 in the stable numbering) has an answer *)
Example ex_inst_reencodes : exists id, spec_a64_rows rows alt_table 3 [OGp true 1; OGp true 2; OGp true 3] = Some (id, [2332229697]).
Proof. vm_compute. eexists. reflexivity. Qed.

(* C02 — AArch64 assembler emits a correct encoding of every instruction it accepts: property theorems.
   Only statements + `exact lemma` here; models in A64/A64Tmpl.v, A64/A64Sem.v, proofs in A64/*Proofs.v, generated ISA-database
   rows and their reflection lemmas in coq/gen/IsaA64Db.v (re-generated from /repo/db on every run of the check).
   The theorems are about the specification spec_a64 / spec_row derived from the ISA database; that the words of a64::Assembler are
   the words of this specification is checked per run on generated operands (tools/checks/c02.py), not proved. *)
From Coq Require Import ZArith List Bool.
From Verif Require Import A64.A64Tmpl A64.A64TmplProofs A64.A64Sem A64.A64SemProofs A64.A64InvProofs A64.A64RefusalProofs Codec.ImmModel.
From VerifGen Require Import IsaA64Db.
Import ListNotations.
Local Open Scope Z_scope.

(* Generic template round trip: for every well-formed 32-bit template and every environment, the encoded word is a 32-bit
   value that carries exactly the fixed bits of the template, every item chunk read back from the word is the chunk that was
   put in, and every field whose slices tile bits [0,W) is recovered modulo 2^W. *)
Theorem C02_tmpl_roundtrip : forall (t : tmpl) (e : env), twf t = true ->
  let w := tenc t e in
  0 <= w < 2 ^ 32 /\ tmatch t w = true /\ tchunks t w = map (ival e) t /\
  forall f W, field_ok t (f, W) = true -> tfield t w f = lookup e f mod 2 ^ W.
Proof. exact tmpl_roundtrip. Qed.
Print Assumptions C02_tmpl_roundtrip.

(* Every row generated from the ISA database is well formed (reflection over all supported rows of the current /repo/db):
   32-bit template, fixed bits in range, field slices tile their fields, every field bound by exactly one operand syntax
   with the declared width, distinct field names. *)
Theorem C02_db_rows_wf : forall r, In r rows -> row_wf r = true.
Proof. exact (proj1 (forallb_forall row_wf rows) rows_wf). Qed.
Print Assumptions C02_db_rows_wf.

(* For EVERY supported row and ALL operands the specification accepts: the word is a 32-bit value carrying the fixed bits of the
   row's template (it "matches the bit template of the ISA database"), and every field value derived from the operands (register
   numbers, immediates, scaled offsets, option bits) is read back exactly from the word — no field is truncated or overlaps. *)
Theorem C02_fields_recovered : forall r ops w, In r rows -> spec_row r ops = Some w ->
  0 <= w < 2 ^ 32 /\ tmatch (r_tmpl r) w = true /\
  exists e, bind (r_ops r) ops = Some e /\ w = tenc (r_tmpl r) e /\ forall f v, In (f, v) e -> tfield (r_tmpl r) w f = v.
Proof. intros r ops w Hin. apply spec_row_fields_recovered. exact (proj1 (forallb_forall row_wf rows) rows_wf r Hin). Qed.
Print Assumptions C02_fields_recovered.

(* Operands are recovered from the word (the encoding is injective on canonical operands), for EVERY supported row and ALL operands the
   specification accepts: decoding the word with the inverse operand map (decode_row: GP / SIMD&FP registers with SP/ZR distinction, view,
   arrangement, lane, register lists; plain / scaled / signed / bounded immediates; condition codes; system registers; shift and extend
   modifiers; ADD/SUB immediate with lsl #12; bitfield aliases; move-wide with shift; bitmask immediates through DecodeBitMasks (C17
   logical_imm_sound); SIMD shift amounts; displacements; every addressing mode) returns the operands in canonical form (canon: don't-care
   parts normalised, optional modifiers made explicit, zero write-back in its normal form). *)
Theorem C02_operands_recovered : forall r ops w, In r rows ->
  spec_row r ops = Some w -> canon (r_ops r) ops = Some (decode_row r w).
Proof.
  intros r ops w Hin. apply operands_recovered.
  - exact (proj1 (forallb_forall row_wf rows) rows_wf r Hin).
  - exact (proj1 (forallb_forall row_inv rows) rows_all_inv r Hin).
Qed.
Print Assumptions C02_operands_recovered.

(* Refusal is exact, for EVERY supported row: the specification is undefined for an operand list exactly when the list is not made of
   valid operands of the row's syntaxes, validity being the architectural range stated declaratively in A64RefusalProofs.valid1
   (register id 0..30 or the SP/ZR id the form allows and the right width/view/arrangement; lane inside the vector; consecutive list;
   immediate inside its field range and a multiple of its scale; bitmask immediate = some DecodeBitMasks value (C17
   logical_imm_refused_iff); lsb + width inside the register; condition code 0..15; shift kind allowed and amount below the register
   width; displacement aligned and inside the signed range; base register 0..30|SP; offset aligned and inside the field's range;
   matching addressing mode). *)
Theorem C02_refusal_exact : forall r ops, In r rows ->
  ((exists w, spec_row r ops = Some w) <-> ops_valid (r_ops r) ops) /\ (spec_row r ops = None <-> ~ ops_valid (r_ops r) ops).
Proof.
  intros r ops _.
  assert (Hinv : forallb syn_inv (r_ops r) = true) by (apply forallb_forall; intros s _; destruct s; reflexivity).
  destruct (refusal_exact (r_ops r) ops Hinv) as [A B]. unfold spec_row.
  destruct (bind (r_ops r) ops) as [e|] eqn:E.
  - split; [split; [intros _; apply A; exists e; reflexivity | intros _; eexists; reflexivity] | split; [discriminate | intros N; apply B in N; discriminate]].
  - split; [split; [intros [w X]; discriminate | intros V; apply A in V; destruct V as [e X]; discriminate] | split; [intros _; apply B; reflexivity | reflexivity]].
Qed.
Print Assumptions C02_refusal_exact.

(* The MOV Rd, #imm pseudo instruction (the only multi-word output): whatever spec_mov_imm emits either is a MOVZ/MOVN(+MOVK) sequence on
   register Rd that, decoded architecturally (mw_decode) and executed from any initial register value, leaves the immediate in the register
   (1..4 words, Rd not SP), or is the single word ORR Rd|SP, ZR, #bitmask whose N:immr:imms fields denote the immediate (Rd not ZR). *)
Theorem C02_mov_imm_correct : forall x rd v ws, spec_mov_imm x rd v = Some ws ->
  let width := if x then 64 else 32 in
  let imm := v mod 2 ^ width in
  (gp_ok rd 63 = true /\ forall init, 0 <= init < 2 ^ 64 ->
     exists ops, map Codec.ImmModel.mw_decode ws = map (fun m => Some (rd mod 32, m)) ops /\ Codec.ImmModel.mw_run init ops = Some imm /\ (1 <= length ws <= 4)%nat) \/
  (gp_ok rd 31 = true /\ rd <> 63 /\ exists n r s, ws = [orr_imm_word x n r s (rd mod 32)] /\
     0 <= n < 2 /\ 0 <= r < 64 /\ 0 <= s < 64 /\ Codec.ImmModel.decode_bit_masks width n s r = Some imm).
Proof. exact mov_imm_correct. Qed.
Print Assumptions C02_mov_imm_correct.

(* The mask view of the fixed bits agrees with the template view: every word encoded from a supported row carries exactly tfixed on the
   positions tmask, whatever the operands (this is what links C02_tables_agree_db_partial, stated with tmask/tfixed, to the words of
   spec_row). *)
Theorem C02_fixed_bits_mask : forall r e, In r rows -> Z.land (tenc (r_tmpl r) e) (tmask (r_tmpl r)) = tfixed (r_tmpl r).
Proof.
  intros r e Hin. apply tenc_fixed_bits.
  pose proof (proj1 (forallb_forall row_wf rows) rows_wf r Hin) as H. unfold row_wf in H.
  repeat (apply andb_prop in H; destruct H as [H _]). unfold row_tmpl_wf in H.
  repeat (apply andb_prop in H; destruct H as [H _]). exact H.
Qed.
Print Assumptions C02_fixed_bits_mask.

(* Instruction level (all instructions except the MOV Rd,#imm pseudo instruction, covered by C02_mov_imm_correct): whatever spec_a64_rows returns for a mnemonic is the single word of one database row of that mnemonic (or of its
   LDUR/STUR fall-back mnemonic), so the three theorems above apply to it. *)
Theorem C02_spec_a64_is_a_row : forall mn ops id ws, spec_a64_rows rows alt_table mn ops = Some (id, ws) ->
  exists r w, In r rows /\ r_id r = id /\ ws = [w] /\ spec_row r ops = Some w /\
              (r_mn r = mn \/ exists p, In p alt_table /\ fst p = mn /\ snd p = r_mn r).
Proof. exact (spec_a64_from_row rows alt_table). Qed.
Print Assumptions C02_spec_a64_is_a_row.


(* ---- non-vacuity on a hand-written row (ADD Xd, Xn, Xm with a zero shift): the hypotheses of the theorems above are satisfiable and the
   conclusions say something: the row is well formed, accepts x1, x2, x3 with the architectural word 8B030041, the operands are read back
   from that word, and SP (id 31) in a ZR position is refused. The generated coq/gen/IsaA64Db.v carries instruction-level Examples over
   the real database rows (ex_add, ex_ldr_falls_back_to_ldur, ex_mov_sequence, ex_fmov_imm, ex_ld2_lane, ex_refuses_...). *)
Definition ex_row : row :=
  {| r_id := 1; r_mn := 1; r_ops := [SGp true 63 0; SGp true 63 1; SGp true 63 2];
     r_tmpl := [TFixed 11 1112; TField 2 4 0; TFixed 6 0; TField 1 4 0; TField 0 4 0]; r_fields := [(0, 5); (1, 5); (2, 5)] |}.
Example ex_row_wf : row_wf ex_row = true /\ row_inv ex_row = true.
Proof. vm_compute. split; reflexivity. Qed.
Example ex_row_encodes : spec_row ex_row [OGp true 1; OGp true 2; OGp true 3] = Some 2332229697.
Proof. vm_compute. reflexivity. Qed.
Example ex_row_decodes : decode_row ex_row 2332229697 = [OGp true 1; OGp true 2; OGp true 3]
  /\ canon (r_ops ex_row) [OGp true 1; OGp true 2; OGp true 3] = Some (decode_row ex_row 2332229697).
Proof. vm_compute. split; reflexivity. Qed.
Example ex_row_refuses_sp : spec_row ex_row [OGp true 1; OGp true 31; OGp true 3] = None
  /\ ~ ops_valid (r_ops ex_row) [OGp true 1; OGp true 31; OGp true 3].
Proof.
  split; [vm_compute; reflexivity|]. cbn. intros (_ & (_ & [H | H]) & _); [destruct H as [_ H]; apply Z.leb_gt in H || (revert H; apply Z.lt_nge; reflexivity) | discriminate].
Qed.
Example ex_fixed_bits : Z.land 2332229697 (tmask (r_tmpl ex_row)) = tfixed (r_tmpl ex_row) /\ tmask (r_tmpl ex_row) = 4292934656.
Proof. vm_compute. split; reflexivity. Qed.
